import AslModel.Model.PBind
import AslModel.Spec.PList
/-!
# MODEL of `plist.c` (`ProcessSingle`, the table header and the summary of `main`)

stdout is a `List Char` (code points 0..255 = bytes).  The C `printf` conversions that occur are
`%08lX`, `%04X`, `%02x`, `%-13s`, `%-7s`, `%s` and the totals call `printf(<fmt>, Sums[z])` whose
format literal is the generated `Generated.plistSumFmt`.
-/
namespace AslModel.Tools
open AslModel.PFile AslModel.PList

def hexDigitU (d : Nat) : Char := if d < 10 then Char.ofNat (48 + d) else Char.ofNat (55 + d)
def hexDigitL (d : Nat) : Char := if d < 10 then Char.ofNat (48 + d) else Char.ofNat (87 + d)

/-- `%0<w>X` of a value below `16^w` -/
def hexN : Nat → Nat → List Char
  | 0, _ => []
  | w + 1, n => hexN w (n / 16) ++ [hexDigitU (n % 16)]

def hexNL : Nat → Nat → List Char
  | 0, _ => []
  | w + 1, n => hexNL w (n / 16) ++ [hexDigitL (n % 16)]

/-- fixed-width decimal -/
def decFix : Nat → Nat → List Char
  | 0, _ => []
  | w + 1, n => decFix w (n / 10) ++ [Char.ofNat (48 + n % 10)]

def dropZeros : List Char → List Char
  | [] => []
  | [c] => [c]
  | c :: d :: cs => if c = '0' then dropZeros (d :: cs) else c :: d :: cs

/-- `%u` of a 32-bit value -/
def decU32 (n : Nat) : List Char := dropZeros (decFix 10 (n % 4294967296))

/-- `%-<w>s` -/
def padRight (w : Nat) (s : List Char) : List Char := s ++ List.replicate (w - s.length) ' '

def blanks (k : Nat) : List Char := List.replicate k ' '

/-- `printf(fmt, n)` for the two shapes of the totals call: `"%u"` converts, a literal without
conversion is printed as it is -/
def printfU (fmt : List Char) (n : Nat) : List Char := if fmt = ['%', 'u'] then decU32 n else fmt

def byteChar (x : Byte) : Char := Char.ofNat x.toNat

/-- tables and messages the output depends on (generated from the current sources) -/
structure Tbl where
  families : List (Nat × List Char)
  segNames : List (List Char)
  segCount : Nat
  hdr1 : List Char
  hdr2 : List Char
  hdr1F : List Char
  hdr2F : List Char
  gen : List Char
  entry : List Char
  sum1 : List Char
  sumSing : List Char
  sumPlur : List Char
  sumFmt : List Char

def Tbl.generated : Tbl :=
  { families := Generated.families, segNames := Generated.segNames, segCount := Generated.segCount,
    hdr1 := Generated.plistHeaderLine1, hdr2 := Generated.plistHeaderLine2,
    hdr1F := Generated.plistHeaderLine1F, hdr2F := Generated.plistHeaderLine2F,
    gen := Generated.plistGenerator, entry := Generated.plistEntryPoint,
    sum1 := Generated.plistSum1, sumSing := Generated.plistSumSing, sumPlur := Generated.plistSumPlur,
    sumFmt := Generated.plistSumFmt }

/-- the first column: `FindFamilyById(CPU)` → `%-13s `, else `???=%02x        ` (of *Header*) -/
def famColumn (t : Tbl) (h : Hdr) : List Char :=
  match lookupName t.families h.cpu.toNat with
  | some name => padRight 13 name ++ [' ']
  | none => ['?', '?', '?', '='] ++ hexNL 2 h.hdr.toNat ++ blanks 8

/-- the end address as `ProcessSingle` computes it in a `LongWord` -/
def endAddr (start len gran : Nat) : Nat :=
  if len ≠ 0 then (start + len / gran + 4294967295) % 4294967296 else (start + 4294967295) % 4294967296

/-- the table line of a data record, without the newline -/
def recLine (t : Tbl) (h : Hdr) (segName : List Char) (start len : Nat) : List Char :=
  famColumn t h ++ padRight 7 segName ++ blanks 3 ++ hexN 8 start ++ blanks 10 ++ hexN 4 len ++ blanks 7
    ++ hexN 8 (endAddr start len h.gran.toNat)

def entryLine (t : Tbl) (a : Nat) : List Char := t.entry ++ hexN 8 a

def creatorLine (t : Tbl) (creator : List Byte) : List Char := t.gen ++ creator.map byteChar

def addSum (sums : List Nat) (seg len : Nat) : List Nat :=
  sums.set seg ((sums.getD seg 0 + len) % 4294967296)

structure PSt where
  out : List Char
  sums : List Nat
deriving Repr

inductive PRes where
  | ok (st : PSt)
  | exit (status : Nat) (st : PSt)
  | stuck
deriving Repr

/-- the `do … while (Header != 0)` loop of `ProcessSingle`; `pre` = the blanks printed in front of
every line when several files are listed; `n` = file size -/
def plistLoop (t : Tbl) (pre : List Char) (n : Nat) : Nat → Hdr → List Byte → PSt → PRes
  | 0, _, _, _ => .stuck
  | fuel + 1, prev, rest, st =>
    match readRecordHeader prev rest with
    | none => .stuck
    | some (h, rest1) =>
      let out := st.out ++ pre
      if h.hdr.toNat = hEnd then
        .ok { st with out := out ++ creatorLine t rest1 ++ ['\n'] }
      else if h.hdr.toNat = hStart then
        match rest1 with
        | a0 :: a1 :: a2 :: a3 :: rest2 =>
          plistLoop t pre n fuel h rest2 { st with out := out ++ entryLine t (rd32 a0 a1 a2 a3) ++ ['\n'] }
        | _ => .stuck
      else if h.hdr.toNat = hRelocInfo then .stuck
      else if h.hdr.toNat = hData ∨ h.hdr.toNat = hRData ∨ h.hdr.toNat = hReloc ∨ h.hdr.toNat = hRReloc then
        if h.seg.toNat ≥ t.segCount then .stuck
        else
          match rest1 with
          | a0 :: a1 :: a2 :: a3 :: l0 :: l1 :: rest2 =>
            let start := rd32 a0 a1 a2 a3
            let len := rd16 l0 l1
            if len ≠ 0 ∧ h.gran.toNat = 0 then .stuck
            else
              let st' : PSt := { out := out ++ recLine t h (t.segNames.getD h.seg.toNat []) start len ++ ['\n'],
                                 sums := addSum st.sums h.seg.toNat len }
              if (n - rest2.length) + len ≥ n then .exit 3 st'
              else plistLoop t pre n fuel h (rest2.drop len) st'
          | _ => .stuck
      else
        match skipRecord h.hdr rest1 with
        | none => .stuck
        | some rest2 => plistLoop t pre n fuel h rest2 { st with out := out }

/-- `ProcessSingle`; `name` = `some fileName` when `NumFiles > 1` -/
def processSingle (t : Tbl) (name : Option (List Char)) (st : PSt) (src : List Byte) : PRes :=
  match src with
  | m0 :: m1 :: rest =>
    if rd16 m0 m1 ≠ Generated.fileMagic then .exit 3 st
    else
      match name with
      | none => plistLoop t [] src.length (src.length + 1) default rest st
      | some nm =>
        plistLoop t (blanks t.hdr1F.length) src.length (src.length + 1) default rest { st with out := st.out ++ nm ++ ['\n'] }
  | _ => .stuck

/-- the summary lines of `main` -/
def totalLines (t : Tbl) : Nat → Bool → List Nat → List Char
  | _, _, [] => []
  | z, first, s :: rest =>
    if z = segCodeN ∨ s ≠ 0 then
      (if first then t.sum1 else blanks t.sum1.length) ++ printfU t.sumFmt s
        ++ (if s = 1 then t.sumSing else t.sumPlur) ++ t.segNames.getD z [] ++ ['\n']
        ++ totalLines t (z + 1) false rest
    else totalLines t (z + 1) first rest

def plistFiles (t : Tbl) (multi : Bool) : PSt → List (List Char × List Byte) → PRes
  | st, [] => .ok st
  | st, (nm, f) :: fs =>
    match processSingle t (if multi then some nm else none) st f with
    | .ok st' => plistFiles t multi st' fs
    | r => r

structure POutcome where
  status : Nat
  stdout : List Char
deriving DecidableEq, Repr

/-- `main` in quiet mode: table header, the files, blank line, totals -/
def plistMain (t : Tbl) (files : List (List Char × List Byte)) : Option POutcome :=
  let multi := decide (files.length > 1)
  let head := (if multi then t.hdr1F else []) ++ t.hdr1 ++ ['\n'] ++ (if multi then t.hdr2F else []) ++ t.hdr2 ++ ['\n']
  match plistFiles t multi ⟨head, List.replicate t.segCount 0⟩ files with
  | .ok st => some ⟨0, st.out ++ ['\n'] ++ totalLines t 0 true st.sums⟩
  | .exit s st => some ⟨s, st.out⟩
  | .stuck => none

end AslModel.Tools
