import AslModel.Spec.MacroNest
/-! MODEL for C11, bookkeeping of expansions: transcription of the parts of as.c / asmpars.c that keep the recursion
counter of a macro and the stack of local-symbol handles while input tags come and go:

* `GetNextLine`: tags whose `IsEmpty` is set are taken off `FirstInputTag` (Cleanup, Restorer) before the next line
  is fetched from the tag on top; a Processor that returns False sets `IsEmpty`;
* `ExpandMacro`: `if ((NestMax > 0) && (OneMacro->UseCounter > NestMax)) WrError(ErrNum_RekMacro); else
  { OneMacro->UseCounter++; ... Tag->IsEmpty = !OneMacro->FirstLine; ... }`;
* `MACRO_Processor`: `if ((LineZ == 1) && !GlobalSymbols) PushLocHandle(GetLocHandle()); if (++LineZ > LineCnt) Result = False`;
* `REPT_Processor` / `IRP_Processor` / `IRPC_Processor`: at `LineZ == 1`, unless GlobalSymbols,
  `if (!First) PopLocHandle(); PushLocHandle(GetLocHandle())`; after the last line of the body the next repetition
  or `Result = False`;
* `REPT_OutProcessor`: the tag is queued only `if (ParCnt > 0)`, `IsEmpty = !Lines`; `IRP_OutProcessor` (also IRPC):
  always queued, `IsEmpty = !Lines || ParCnt == 0`;
* `MACRO_Restorer` (the Restorer of macro, REPT, IRP, IRPC tags): `if (!GlobalSymbols) PopLocHandle();
  if (Macro && Macro->UseCounter > 0) Macro->UseCounter--;`;
* asmpars.c `PushLocHandle` / `PopLocHandle` (pop of an empty stack does nothing) / `GetLocHandle`,
  `EnterLocSymbol` under `MomLocHandle` (global table when it is -1), `FindLocNode`: the handle in force, then the saved
  handles down to the first -1, then the global table;
* the pass loop of `AssembleFile`: symbols and the macro records (with their `UseCounter`) survive a pass, handles
  restart at 0, `NestMax` restarts at its default; a further pass is made when a symbol was unknown in the first pass and no error
  was reported.

A source line is one of `NestSpec.BLine`; a `callDec` stands for the three lines `IF arg>0` / call / `ENDIF` and a `loop`
for the header, the collected body and ENDM (collecting does not touch counters or handles).  Core only. -/
namespace AslModel.NestModel
open AslModel.NestSpec

inductive FKind where
  | srcFile | macroExp | loopExp
  deriving DecidableEq, Repr

structure Frame where
  kind : FKind
  mac : Nat := 0            -- the macro record (`Tag->Macro`)
  gs : Bool := false
  arg : Nat := 0
  body : List BLine := []   -- `Lines`
  rest : List BLine := []   -- lines of the current repetition not yet delivered
  atFirst : Bool := true    -- `LineZ == 1`
  first : Bool := true      -- `First`
  itersLeft : Nat := 0      -- repetitions after the current one
  isEmpty : Bool := false
  pushed : Bool := false    -- this tag has pushed a handle that is still there (not in the C code: for `popOnlyPushed`)

/-- behaviour taken from a probe of the real binary -/
structure Quirks where
  /-- the Restorer pops a handle although the tag never delivered a line (empty body, IRPC over "") -/
  emptyPops : Bool := true

/-- symbol table entry: label, handle under which it was entered, value, pass of the last definition (`Defined`) -/
structure LSym where
  label : Nat
  handle : Int
  value : Nat
  pass : Nat

structure St where
  use : Nat → Nat := fun _ => 0     -- `UseCounter` of the macro records
  stack : List Frame := []          -- `FirstInputTag` chain
  mom : Int := -1                   -- `MomLocHandle`
  hstack : List Int := []           -- `FirstLocHandle` chain: the saved `Cont` values
  cnt : Nat := 0                    -- `LocHandleCnt`
  syms : List LSym := []            -- newest entry first; handle -1 = global table
  pc : Nat := 0
  out : List Nat := []              -- code bytes, last first
  pass : Nat := 1
  repass : Bool := false
  refused : Nat := 0                -- ErrNum_RekMacro
  undef : Nat := 0                  -- symbol undefined (reported from pass 2 on)
  dbl : Nat := 0                    -- symbol double defined
  maxUse : Nat := 0

def setUse (u : Nat → Nat) (m v : Nat) : Nat → Nat := fun x => if x = m then v else u x

def pushLoc (s : St) : St :=
  { s with hstack := s.mom :: s.hstack, mom := Int.ofNat s.cnt, cnt := s.cnt + 1 }

def popLoc (s : St) : St :=
  match s.hstack with
  | [] => s
  | c :: rest => { s with mom := c, hstack := rest }

def findSym (t : List LSym) (l : Nat) (h : Int) : Option LSym := t.find? fun e => e.label == l && e.handle == h

/-- `FindLocNode`'s walk over the saved handles: stops at the first entry whose `Cont` is -1 -/
def findUp (t : List LSym) (l : Nat) : List Int → Option Nat
  | [] => none
  | c :: rest => if c == -1 then none else
    match findSym t l c with
    | some e => some e.value
    | none => findUp t l rest

def findLabel (s : St) (l : Nat) : Option Nat :=
  let loc : Option Nat :=
    if s.mom == -1 then none else
    match findSym s.syms l s.mom with
    | some e => some e.value
    | none => findUp s.syms l s.hstack
  match loc with
  | some v => some v
  | none => (findSym s.syms l (-1)).map (·.value)

def defLabel (s : St) (l : Nat) : St :=
  let twice := match findSym s.syms l s.mom with
    | some e => e.pass == s.pass
    | none => false
  { s with syms := { label := l, handle := s.mom, value := s.pc, pass := s.pass } :: s.syms,
           dbl := if twice then s.dbl + 1 else s.dbl }

def useLabel (s : St) (l : Nat) : St :=
  match findLabel s l with
  | some v => { s with out := v % 256 :: s.out, pc := s.pc + 1 }
  | none =>
    if s.pass = 1 then { s with out := 0 :: s.out, pc := s.pc + 1, repass := true }
    else { s with out := 0 :: s.out, pc := s.pc + 1, undef := s.undef + 1 }

/-- `ExpandMacro` -/
def expandMacro (p : Prog) (s : St) (m a : Nat) : St :=
  if p.nestMax > 0 ∧ s.use m > p.nestMax then { s with refused := s.refused + 1 }
  else
    let d := getDef p m
    let f : Frame := { kind := .macroExp, mac := m, gs := d.gs, arg := a, body := d.body, rest := d.body,
                       isEmpty := d.body.isEmpty }
    { s with use := setUse s.use m (s.use m + 1), stack := f :: s.stack, maxUse := max s.maxUse (s.use m + 1) }

/-- a REPT / IRP / IRPC whose ENDM has just been read -/
def startLoop (p : Prog) (s : St) (arg d n : Nat) (k : LKind) : St :=
  let b := getDef p d
  let f : Frame := { kind := .loopExp, gs := b.gs, arg := arg, body := b.body, rest := b.body, itersLeft := n - 1,
                     isEmpty := b.body.isEmpty || n == 0 }
  match k with
  | .rept => if n > 0 then { s with stack := f :: s.stack } else s
  | _ => { s with stack := f :: s.stack }

/-- what a delivered line does -/
def exec (p : Prog) (arg : Nat) (l : BLine) (s : St) : St :=
  match l with
  | .emit k => { s with out := k % 256 :: s.out, pc := s.pc + 1 }
  | .deflab l => defLabel s l
  | .reflab l => useLabel s l
  | .defArg => defLabel s (argLabel arg)
  | .refArg => useLabel s (argLabel arg)
  | .call m a => expandMacro p s m a
  | .callDec m => if arg > 0 then expandMacro p s m (arg - 1) else s
  | .loop d n k => startLoop p s arg d n k

/-- `MACRO_Restorer`, first half: `if (!PInp->GlobalSymbols) PopLocHandle();` -/
def restorerLoc (q : Quirks) (f : Frame) (s : St) : St :=
  if f.kind != .srcFile && !f.gs && (q.emptyPops || f.pushed) then popLoc s else s

/-- `MACRO_Restorer`, second half: `if ((PInp->Macro) && (PInp->Macro->UseCounter > 0)) PInp->Macro->UseCounter--;` -/
def restorerUse (f : Frame) (s : St) : St :=
  if f.kind = .macroExp ∧ s.use f.mac > 0 then { s with use := setUse s.use f.mac (s.use f.mac - 1) } else s

/-- the Restorer of a tag (`NULL_Restorer` for the source file) -/
def restorer (q : Quirks) (f : Frame) (s : St) : St := restorerUse f (restorerLoc q f s)

/-- the handle operations of the Processor of tag `f` when it delivers a line -/
def handleOps (f : Frame) (s : St) : St :=
  match f.kind with
  | .srcFile => s
  | .macroExp => if f.atFirst && !f.gs then pushLoc s else s
  | .loopExp => if f.atFirst && !f.gs then pushLoc (if !f.first then popLoc s else s) else s

/-- the tag after its Processor has delivered a line; `ls`: the lines of the current repetition that are left -/
def nextFrame (f : Frame) (ls : List BLine) : Frame :=
  match f.kind with
  | .srcFile => { f with rest := ls, isEmpty := ls.isEmpty }
  | .macroExp => { f with rest := ls, atFirst := false, isEmpty := ls.isEmpty, pushed := f.pushed || (f.atFirst && !f.gs) }
  | .loopExp =>
    if ls.isEmpty then
      -- last line of the body: next repetition or the end
      { f with rest := f.body, atFirst := true, first := false, itersLeft := f.itersLeft - 1, isEmpty := f.itersLeft == 0,
               pushed := f.pushed || (f.atFirst && !f.gs) }
    else { f with rest := ls, atFirst := false, first := false, pushed := f.pushed || (f.atFirst && !f.gs) }

/-- the Processor of the tag on top: the next line, the tag afterwards, the handle operations -/
def deliver (f : Frame) (s : St) : Option (BLine × Frame × St) :=
  match f.rest with
  | [] => none
  | l :: ls => some (l, nextFrame f ls, handleOps f s)

/-- one round of the main loop: `GetNextLine` and the execution of the line -/
def step (p : Prog) (q : Quirks) (s : St) : Option St :=
  match s.stack with
  | [] => none
  | f :: below =>
    if f.isEmpty then some (restorer q f { s with stack := below })
    else match deliver f s with
      | none => some { s with stack := { f with isEmpty := true } :: below }
      | some (l, f', s') => some (exec p f'.arg l { s' with stack := f' :: below })

def runPass (p : Prog) (q : Quirks) : Nat → St → St
  | 0, s => s
  | fuel + 1, s => match step p q s with
    | none => s
    | some s' => runPass p q fuel s'

def errors (s : St) : Nat := s.refused + s.undef + s.dbl

def startPass (p : Prog) (s : St) (n : Nat) : St :=
  { s with stack := [{ kind := .srcFile, gs := true, body := p.top, rest := p.top, isEmpty := p.top.isEmpty }],
           mom := -1, hstack := [], cnt := 0, pc := 0, out := [], pass := n, repass := false }

/-- passes until nothing is left to do or an error was reported -/
def runPasses (p : Prog) (q : Quirks) (fuel : Nat) : Nat → Nat → St → St
  | 0, _, s => s
  | more + 1, n, s =>
    let s' := runPass p q fuel (startPass p s n)
    if errors s' = 0 ∧ s'.repass then runPasses p q fuel more (n + 1) s' else s'

def run (p : Prog) (q : Quirks) (fuel : Nat) : St := runPasses p q fuel 4 1 {}

/-- the tag is an expansion of macro `m` -/
def isOpen (m : Nat) (f : Frame) : Bool := f.kind == .macroExp && f.mac == m

/-- number of open expansions of macro `m` on the tag stack -/
def openCount (st : List Frame) (m : Nat) : Nat := (st.filter (isOpen m)).length

/-- number of tags that have pushed a local-symbol handle -/
def pushedCount (st : List Frame) : Nat := (st.filter (·.pushed)).length

end AslModel.NestModel
