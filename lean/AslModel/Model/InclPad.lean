import AslModel.Spec.InclPad
/-! MODEL (C16, "into an INCLUDE file" clause): the memory of the most recent label across statements, INCLUDE and macro calls

Transcribed from
 * `asmlabel.c`: `LabelReset`, `LabelHandle` (normal label: `pLabelEntry`, `LabelValue`), `LabelModify`
   (`pLabelElement` - structure elements - is outside the fragment)
 * `asmcode.c InsertPadding(1, OnlyReserve)`: one zero byte through `WriteCode` (with `DontPrint = OnlyReserve`: `DS.W` only reserves it),
   then `LabelModify(OldValue, EProgCounter())`
 * the alignment heads of `code68k.c MakeCode_68K`, `codemsp.c`, `code9900.c`, `codeavr.c` (`if (Odd(EProgCounter())) if (DoPadding)
   InsertPadding(1, False)`, behind the byte-data pseudo instructions) and `motpseudo.c` `PadBeforeStart` of `DC.W`
 * `as.c Produce_Code`: `LabelHandle(&LabPart, EProgCounter())` in front of the dispatch; `ResetLastLabel` = `True` by default,
   `False` for INCLUDE and for a macro call; `if (*OpPart && ResetLastLabel) LabelReset()` at the end.  A line with an empty
   mnemonic (blank, comment-only, label-only) goes through `MakeCode` with an empty `OpPart` (the "Nullanweisung" exits) and
   resets nothing.  `EQU` is not a label for `LabelPresent` (the symbol is entered by `CodeEQU`), but it is a statement.
The source is a tree: a node is a line, an INCLUDE statement with the lines of its file, or the call of a parameterless macro
with the lines of its body (`mac = true`; labels in macro bodies are global without `LOCAL`).
DoPadding is on; the symbol table is the one of the last pass (object sizes do not depend on symbol values). -/
namespace AslModel.InclPad
open AslModel.InclSpec

mutual
inductive Src where
  | line (l : Line)
  | incl (mac : Bool) (lab : Option Nat) (body : Srcs)
inductive Srcs where
  | nil
  | cons (s : Src) (rest : Srcs)
end

structure St where
  pc : Nat                      -- EProgCounter()
  entry : Option Nat            -- pLabelEntry (the symbol, by its number)
  labelValue : Option Nat       -- LabelValue; none = (LargeWord)-1
  syms : Syms
  out : List Cell

def St.init (org : Nat) : St := ⟨org, none, none, fun _ => none, []⟩

def labelReset (st : St) : St := { st with entry := none, labelValue := none }

def labelHandle (st : St) (l v : Nat) : St :=
  { st with entry := some l, syms := st.syms.set l v, labelValue := some v }

def labelHandleOpt (st : St) (l : Option Nat) : St :=
  match l with
  | some x => labelHandle st x st.pc
  | none => st

def labelModify (st : St) (old new : Nat) : St :=
  if st.labelValue = some old then
    { st with syms := st.syms.setOpt st.entry new, labelValue := some new }
  else st

def insertPadding (st : St) (onlyReserve : Bool) : St :=
  let old := st.pc
  let st1 := { st with out := st.out ++ [if onlyReserve then Cell.gap else Cell.byte 0], pc := st.pc + 1 }
  labelModify st1 old st1.pc

/-- `DS`: `InsertPadding(1, True)` (`DontPrint` while the pad byte goes through `WriteCode`), everything else `InsertPadding(1, False)` -/
def onlyReserve : Obj → Bool
  | .resw => true
  | .res _ => true
  | _ => false

/-- `MakeCode` + `WriteCode` of one object -/
def makeCode (st : St) (o : Obj) : St :=
  let st1 := if o.aligned && st.pc % 2 == 1 then insertPadding st (onlyReserve o) else st
  { st1 with out := st1.out ++ o.cells, pc := st1.pc + o.size }

/-- `Produce_Code` for a line that is neither INCLUDE nor a macro call -/
def produceLine (st : St) : Line → St
  | .blank => st
  | .label l => labelHandle st l st.pc
  | .stmt lab o => labelReset (makeCode (labelHandleOpt st lab) o)
  | .other lab => labelReset { st with syms := st.syms.setOpt lab st.pc }

mutual
def runSrc (st : St) : Src → St
  | .line l => produceLine st l
  | .incl _ lab body => runSrcs (labelHandleOpt st lab) body      -- ResetLastLabel = False
def runSrcs (st : St) : Srcs → St
  | .nil => st
  | .cons s r => runSrcs (runSrc st s) r
end

def runFlat (st : St) (ls : List Line) : St := ls.foldl produceLine st

/-- the text "as if inserted with an editor"; the label of an INCLUDE line / macro call stays as a line of its own -/
def labelLine : Option Nat → List Line
  | some l => [.label l]
  | none => []

mutual
def flattenSrc : Src → List Line
  | .line l => [l]
  | .incl _ lab body => labelLine lab ++ flattenSrcs body
def flattenSrcs : Srcs → List Line
  | .nil => []
  | .cons s r => flattenSrc s ++ flattenSrcs r
end

def image (t : Tgt) (org : Nat) (p : Srcs) : Option (List UInt8) :=
  let s := runSrcs (St.init org) p
  render t s.syms s.out

end AslModel.InclPad
