import AslModel.Spec.Files
/-!
# MODEL for C18 (per-file outputs) — error log, error counters and the jump-error bookkeeping across files

`Model/Files.lean` carries the statement-settable variables of the code generators from file to file.  This file adds
the part of the carried state that *invocation options* bring to life:

* `ErrorFile` (asmdef.c) – the lazily opened handle of the error log (`-E`), opened by the first message
  (`WrErrorString`: `if (!ErrorFile) OpenWithStandard(&ErrorFile, ErrorName)`), closed at the end of `AssembleFile`
  when every source has a log of its own (`if (!*ErrorPath) CloseIfOpen(&ErrorFile)`), else at the end of `main`;
* `JmpErrors` (asmdef.c) – number of jump-distance / page errors seen while no further pass was pending, subtracted from
  `ErrorCount` under `-Y` by `EnterSymbol` at the first symbol change (`asmpars.c`), reset by `AsmErrPassInit`;
* `ErrorCount` / `WarnCount` (`LongWord`, 32 bit, reset by `AssembleFile_InitPass` and `AsmErrPassInit`), `Repass`.

Mirrors, function by function: `main`'s file loop (`assembleFiles`), `AssembleFile` (`assembleFile`: name of the log,
`unlink`, the `do … while (ErrorCount == 0 && Repass)` loop, removal of the code file on errors, the per-file close),
the per-pass initialisers (`initPass`), `WrErrorString` (`wrMsg`: counters, `-Werror`, fatal / `-maxerrors` stop through `EmergencyStop`; `deliver`: its output
part with the lazy open – nothing else in the assembler reads the handle, so the messages of a source are collected first and
delivered through the handle afterwards), `WrXErrorPos` (`jmpErr`), `EnterSymbol`'s change path (`symChange`), and a small 6502
statement set whose pass behaviour the property can observe (`Op`).

The two reset points are *data* (`Opts.closePerFile`, `Opts.resetJmpPerPass`; regenerated from the C sources as
`Generated.fileClosesErrorLog` and the `JmpErrors` row of `Generated.coreStacks`).
-/
namespace AslModel.FileOut

/-- `-E`: where messages go -/
inductive ErrDest where
  /-- `-E` without a name: `<source>.log` per source (`ErrorPath = ""`) -/
  | perFile
  /-- `-E <name>`: one log for the run -/
  | named
  /-- `-E !1` -/
  | stdout
  /-- `-E !2` (default) -/
  | stderr
deriving Repr, DecidableEq, Inhabited

structure Opts where
  dest : ErrDest
  /-- `-Y` -/
  throwErrors : Bool
  /-- `-maxerrors n` (0 = no limit) -/
  maxErrors : Nat
  /-- `-Werror` -/
  werror : Bool
  /-- `AssembleFile` closes the per-source log before the next source (`if (!*ErrorPath) CloseIfOpen(&ErrorFile)`) -/
  closePerFile : Bool
  /-- `AsmErrPassInit` resets `JmpErrors` -/
  resetJmpPerPass : Bool
deriving Repr, DecidableEq, Inhabited

/-- an output channel: the log of source number `k`, the named log, standard output, standard error -/
inductive Chan where
  | log (k : Nat)
  | named
  | out
  | err
deriving Repr, DecidableEq, Inhabited

inductive Msg where
  /-- message of statement `op` of source `file`; `isErr` = counted as error -/
  | m (file op : Nat) (isErr : Bool)
  /-- "fatal error, assembly terminated" -/
  | fatalLine
  /-- "too many errors, assembly terminated" -/
  | tooMany
deriving Repr, DecidableEq, Inhabited

/-- what happens to the channels, in order -/
inductive Ev where
  | unlink (c : Chan)
  /-- `fopen(name, "w")` (standard handles are assigned, not opened) -/
  | openW (c : Chan)
  | write (c : Chan) (m : Msg)
deriving Repr, DecidableEq, Inhabited

def Ev.chan : Ev → Chan
  | .unlink c => c
  | .openW c => c
  | .write c _ => c

inductive Op where
  /-- `WARNING "…"` -/
  | warn
  /-- `ERROR "…"` -/
  | err
  /-- `FATAL "…"` -/
  | fatal
  /-- `k` bytes of code whose size never changes -/
  | code (k : Nat)
  /-- `lb<n>:` -/
  | label (n : Nat)
  /-- `BNE lb<n>` (2 bytes, signed 8 bit distance) -/
  | bne (n : Nat)
  /-- `LDA zq<n>` with `zq<n> EQU <zero page address>` at the end of the source: 3 bytes while unknown, 2 bytes afterwards -/
  | ldaFwd (n : Nat)
deriving Repr, DecidableEq, Inhabited

def wrap32 (n : Nat) : Nat := n % 4294967296

/-- what survives from file to file -/
structure Carry where
  errFile : Option Chan
  jmpErrors : Nat
  errorCount : Nat
  warnCount : Nat
  /-- a fatal error has ended the process -/
  dead : Bool
deriving Repr, DecidableEq, Inhabited

def boot : Carry := ⟨none, 0, 0, 0, false⟩

/-- state inside a pass -/
structure PSt where
  pc : Nat
  /-- symbol table, kept from pass to pass (labels: key `2n`, `zq<n>`: key `2n+1`) -/
  syms : List (Nat × Nat)
  /-- labels defined in this pass (`Defined` flag of the symbol table entry, cleared at the start of a pass) -/
  defd : List Nat
  repass : Bool
  jmpErrors : Nat
  errorCount : Nat
  warnCount : Nat
  /-- the messages of this source so far, in the order `WrErrorString` was called (over all passes) -/
  msgs : List Msg
  stopped : Bool
deriving Repr, DecidableEq, Inhabited

def lookup (syms : List (Nat × Nat)) (k : Nat) : Option Nat := (syms.find? (·.1 == k)).map (·.2)

def setSym (syms : List (Nat × Nat)) (k v : Nat) : List (Nat × Nat) := (k, v) :: syms.filter (·.1 != k)

/-- `ErrorName` of source `idx` -/
def errName (o : Opts) (idx : Nat) : Chan :=
  match o.dest with
  | .perFile => .log idx
  | .named => .named
  | .stdout => .out
  | .stderr => .err

inductive Kind where
  | warn | err | fatal
deriving Repr, DecidableEq, Inhabited

/-- the counters of `WrErrorString` (`-Werror` turns a warning into an error) -/
def count (o : Opts) (k : Kind) (s : PSt) : PSt :=
  if k == .warn && !o.werror then { s with warnCount := wrap32 (s.warnCount + 1) } else { s with errorCount := wrap32 (s.errorCount + 1) }

/-- a message handed to the output part of `WrErrorString` -/
def say (m : Msg) (s : PSt) : PSt := { s with msgs := s.msgs ++ [m] }

/-- `WrErrorString`: counters, message, fatal / `-maxerrors` stop (`EmergencyStop(); exit(3)`).
Where the text goes (`deliver`) has no influence on anything else the function does. -/
def wrMsg (o : Opts) (idx opi : Nat) (k : Kind) (s : PSt) : PSt :=
  let s2 := say (.m idx opi (!(k == .warn && !o.werror))) (count o k s)
  if k == .fatal then { say .fatalLine s2 with stopped := true }
  else if o.maxErrors != 0 && s2.errorCount ≥ o.maxErrors then { say .tooMany s2 with stopped := true }
  else s2

/-- output part of `WrErrorString`, message by message: `if (!ErrorFile) OpenWithStandard(&ErrorFile, ErrorName);` then the text is
written through the handle – the one that is open, whatever it was opened on.  Returns the handle afterwards and the events. -/
def deliver (name : Chan) : Option Chan → List Msg → Option Chan × List Ev
  | h, [] => (h, [])
  | none, m :: r => ((deliver name (some name) r).1, .openW name :: .write name m :: (deliver name (some name) r).2)
  | some c, m :: r => ((deliver name (some c) r).1, .write c m :: (deliver name (some c) r).2)

/-- `WrXErrorPos` for `ErrNum_JmpDistTooBig` / `ErrNum_TargOnDiffPage` -/
def jmpErr (o : Opts) (idx opi : Nat) (s : PSt) : PSt :=
  wrMsg o idx opi .err (if s.repass then s else { s with jmpErrors := s.jmpErrors + 1 })

/-- `EnterSymbol`: the value of a symbol differs from the one of the previous pass -/
def symChange (o : Opts) (s : PSt) : PSt :=
  let s1 : PSt :=
    if !s.repass && s.jmpErrors > 0 then
      { s with errorCount := (if o.throwErrors then wrap32 (s.errorCount + 4294967296 - s.jmpErrors % 4294967296) else s.errorCount), jmpErrors := 0 }
    else s
  { s1 with repass := true }

def step (o : Opts) (idx : Nat) (s : PSt) (opi : Nat) (op : Op) : PSt :=
  if s.stopped then s else
  match op with
  | .warn => wrMsg o idx opi .warn s
  | .err => wrMsg o idx opi .err s
  | .fatal => wrMsg o idx opi .fatal s
  | .code k => { s with pc := s.pc + k }
  | .label n =>
    match lookup s.syms (2 * n) with
    | none => { s with syms := setSym s.syms (2 * n) s.pc, defd := n :: s.defd }
    | some v =>
      let s1 := if v != s.pc then symChange o s else s
      { s1 with syms := setSym s1.syms (2 * n) s.pc, defd := n :: s1.defd }
  | .bne n =>
    match lookup s.syms (2 * n) with
    | none => { s with repass := true, pc := s.pc + 2 }
    | some v =>
      -- a value of the previous pass is "questionable" once a further pass is certain (`ExpandSymbol`: `!Defined && Repass`)
      let questionable := !s.defd.contains n && s.repass
      if questionable || (v + 128 ≥ s.pc + 2 && v ≤ s.pc + 2 + 127) then { s with pc := s.pc + 2 } else jmpErr o idx opi s
  | .ldaFwd n =>
    match lookup s.syms (2 * n + 1) with
    | none => { s with repass := true, pc := s.pc + 3 }
    | some _ => { s with pc := s.pc + 2 }

def runOps (o : Opts) (idx : Nat) : PSt → Nat → List Op → PSt
  | s, _, [] => s
  | s, i, op :: r => runOps o idx (step o idx s i op) (i + 1) r

/-- the `zq<n> EQU …` lines at the end of the source -/
def defineZ (s : PSt) : List Op → PSt
  | [] => s
  | .ldaFwd n :: r => defineZ (if s.stopped then s else { s with syms := setSym s.syms (2 * n + 1) (16 + n) }) r
  | _ :: r => defineZ s r

/-- `AssembleFile_InitPass` + `AsmErrPassInit` -/
def initPass (o : Opts) (s : PSt) : PSt :=
  { s with pc := 4096, defd := [], repass := false, errorCount := 0, warnCount := 0,
           jmpErrors := if o.resetJmpPerPass then 0 else s.jmpErrors }

def runPass (o : Opts) (idx : Nat) (ops : List Op) (s : PSt) : PSt :=
  let s1 := runOps o idx (initPass o s) 0 ops
  defineZ s1 ops

/-- the pass loop `do … while (ErrorCount == 0 && Repass)`; `fuel` bounds the number of further passes -/
def passLoop (o : Opts) (idx : Nat) (ops : List Op) : Nat → Nat → PSt → Nat × PSt
  | 0, n, s => (n + 1, runPass o idx ops s)
  | fuel + 1, n, s =>
    let s1 := runPass o idx ops s
    if !s1.stopped && s1.errorCount == 0 && s1.repass then passLoop o idx ops fuel (n + 1) s1 else (n + 1, s1)

/-- observable result of one source -/
structure Result where
  /-- 0 assembled, 2 failed, 3 ended by a fatal error, 9 not assembled (the process had ended) -/
  status : Nat
  passes : Nat
  errorCount : Nat
  warnCount : Nat
  codeKept : Bool
  evs : List Ev
deriving Repr, DecidableEq, Inhabited

abbrev Source := Nat × List Op

def notRun : Result := ⟨9, 0, 0, 0, false, []⟩

/-- head of `AssembleFile` -/
def startState (c : Carry) : PSt := ⟨0, [], [], false, c.jmpErrors, c.errorCount, c.warnCount, [], false⟩

/-- the log of a source of its own is removed first (`unlink(ErrorName)`) -/
def headEvs (o : Opts) (idx : Nat) : List Ev := if o.dest == .perFile then [.unlink (.log idx)] else []

/-- tail of `AssembleFile`: code file removed on errors, per-source log closed (a fatal stop closes it in `EmergencyStop`) -/
def finish (o : Opts) (idx : Nat) (h : Option Chan) (r : Nat × PSt) : Result × Carry :=
  let d := deliver (errName o idx) h r.2.msgs
  if r.2.stopped then
    (⟨3, r.1, r.2.errorCount, r.2.warnCount, false, headEvs o idx ++ d.2⟩, ⟨none, r.2.jmpErrors, r.2.errorCount, r.2.warnCount, true⟩)
  else
    (⟨if r.2.errorCount != 0 then 2 else 0, r.1, r.2.errorCount, r.2.warnCount, r.2.errorCount == 0, headEvs o idx ++ d.2⟩,
     ⟨if o.dest == .perFile && o.closePerFile then none else d.1, r.2.jmpErrors, r.2.errorCount, r.2.warnCount, false⟩)

/-- `AssembleFile` -/
def assembleFile (o : Opts) (c : Carry) (src : Source) : Result × Carry :=
  if c.dead then (notRun, c) else finish o src.1 c.errFile (passLoop o src.1 src.2 16 0 (startState c))

/-- `main`'s loop over the file arguments -/
def assembleFiles (o : Opts) : Carry → List Source → List Result × Carry :=
  FilesSpec.runFiles (assembleFile o)

/-! ## the file system the events describe -/

/-- content of channel `c` after the events (`none` = does not exist); the standard handles always exist -/
def content (c : Chan) : Option (List Msg) → List Ev → Option (List Msg)
  | st, [] => st
  | st, .unlink c' :: r => content c (if c' = c then none else st) r
  | st, .openW c' :: r => content c (if c' = c then some [] else st) r
  | st, .write c' m :: r => content c (if c' = c then some (st.getD [] ++ [m]) else st) r

/-- the messages written to channel `c` -/
def written (c : Chan) (evs : List Ev) : List Msg :=
  evs.filterMap (fun e => match e with | .write c' m => if c' = c then some m else none | _ => none)

def allEvs (rs : List Result) : List Ev := rs.flatMap (·.evs)

end AslModel.FileOut
