import AslModel.Spec.Isa.IMsp430Reg
/-!
# MODEL: codemsp.c `DecodeRegCore`, `InternSymbol_MSP`, `DecodeReg` over the register symbols (C14)

`DecodeRegCore` gives `PC`/`SP`/`SR` the internal flag `REG_MARK` (16) – it makes the listing print `=SP` instead of
`=R1` (`DissectReg_MSP`) – so register symbols defined from them (`mysp REG sp`, `esp EQU sp`, `x REG esp`) carry the
value 17 in the symbol table.  `DecodeReg` has two paths, the literal name and the register symbol
(`EvalStrRegExpressionAsOperand` → `RegDescr.Reg`); both strip the flag before the number reaches an opcode field.

The symbol table holds only register symbols here (`TempReg` entries, name ↦ `RegDescr.Reg`); names are already
case-normalised (`NLS_UpString` unless case-sensitive).  `CodeREG` and `EQU`/`SET` with a register expression
evaluate the right side (`InternSymbol_MSP` first, then the symbol table) and enter the symbol unless it exists
(error 1000 "symbol double defined" – the table is unchanged).

Not modelled: the further spellings `ConstLongInt` accepts behind the `R` (`R$5`, `R5H`, `R-0`, `RH`, `R0X` …) –
the tail is read as decimal digits only; register expressions other than a single name.
-/
namespace AslModel.Isa.IMsp430Reg
open AslModel.Spec.IMsp430Reg (Name upper decNumAux)

def regMark : Nat := 16
def regPC : Nat := 0
def regSP : Nat := 1
def regSR : Nat := 2

/-- `DecodeRegCore(pArg, pResult)` -/
def decodeRegCore (s : Name) : Option Nat :=
  if upper s = ['P', 'C'] then some (regMark ||| regPC)
  else if upper s = ['S', 'P'] then some (regMark ||| regSP)
  else if upper s = ['S', 'R'] then some (regMark ||| regSR)
  else match s with
    | [] => none
    | c :: ds =>
      if c.toUpper = 'R' ∧ 2 ≤ ds.length + 1 ∧ ds.length + 1 ≤ 3 then
        match decNumAux 0 ds with           -- ConstLongInt(pArg + 1, &OK, 10)
        | some n => if n < 16 then some n else none
        | none => none
      else none

/-- `x & ~REG_MARK` on a `Word` -/
def unmark (r : Nat) : Nat := r &&& 0xFFEF

/-- register symbols: name ↦ `RegDescr.Reg` (with `REG_MARK`) -/
abbrev SymTab := List (Name × Nat)

def find : SymTab → Name → Option Nat
  | [], _ => none
  | (k, v) :: t, s => if k = s then some v else find t s

/-- a register expression consisting of one name: `InternSymbol_MSP`, then the symbol table -/
def evalReg (tab : SymTab) (s : Name) : Option Nat :=
  match decodeRegCore s with
  | some r => some r
  | none => find tab s

/-- the table after the definitions (newest first) -/
def build : List (Name × Name) → SymTab
  | [] => []
  | (n, rhs) :: older =>
    match evalReg (build older) rhs with
    | some r => if (find (build older) n).isSome then build older else (n, r) :: build older
    | none => build older

/-- `DecodeReg(pArg, pResult, MustBeReg)`: the register number, `none` = not a register -/
def decodeReg (tab : SymTab) (s : Name) : Option Nat :=
  match decodeRegCore s with
  | some r => some (unmark r)                       -- `*pResult &= ~REG_MARK`
  | none => (find tab s).map unmark                 -- `*pResult = RegDescr.Reg & ~REG_MARK`

end AslModel.Isa.IMsp430Reg
