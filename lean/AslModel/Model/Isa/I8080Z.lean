import AslModel.Model.Isa.Common
import AslModel.Generated.Isa_8080Z
import AslModel.Spec.Isa.I8080Z
/-!
# MODEL: code85.c with `Z80SYNTAX ON` / `EXCLUSIVE`, CPUs 8080 and 8085: the Z80-style handlers (C14)

`MakeCode_85` (resets `OpSize = 0`) → `LookupInstTable` → `DecodeLD / DecodeEX / DecodeADD / DecodeADC / DecodeSUB /
DecodeALU8_Z80 / DecodeINCDEC / DecodeCP / DecodeJP / DecodeCALL / DecodeRET / DecodeINOUT / DecodeRST / DecodePUSH_POP /
DecodeFixed` over the `InstTable` entries regenerated from `InitFields()` (`Generated/Isa_8080Z.lean`), and the operand
decoder `DecodeAdr_Z80` with its static state: `AdrMode`, `AdrVals[2]` (result) and `OpSize` - set to 1 by a 16-bit register
operand, read when a later operand is an immediate (`Int16` instead of `Int8`).

Operands are values (`Spec.I8080Z.Opd`): the register names of the SPEC; a register operand whose number is outside the
names (`r8 6` = `M`, `r8 9` ...) stands for a text that is no Zilog register and is evaluated as an (undefined) symbol; the
condition names `C` and `M` are also the register names `C` / `M` where the code looks for a register.
`syn` = `CurrZ80Syntax`: 3 = `eSyntaxBoth` (`ON`), 2 = `eSyntaxZ80` (`EXCLUSIVE`); `cpu` = `MomCPU - CPU8080` (0, 1).
-/
namespace AslModel.Isa.I8080Z
open AslModel.PFile (Byte b)
open AslModel.Spec.I8080Z (Mn Src Opd)
open AslModel.Generated.Isa8080Z
open AslModel.Generated (itInt8 itInt16 itUInt8 itUInt16 itUInt6)

def lookup (m : Mn) : Option Handler := instTable.lookup m

/-- `tAdrMode` (`ModNone` = an error was reported) -/
inductive AdrMode where
  | reg8 | reg16 | ireg16 | abs | imm | im
deriving DecidableEq, Repr

def AdrMode.bit : AdrMode → Nat
  | .reg8 => 1 | .reg16 => 2 | .ireg16 => 4 | .abs => 8 | .imm => 16 | .im => 32

def mReg8 : Nat := 1
def mReg16 : Nat := 2
def mIReg16 : Nat := 4
def mAbs : Nat := 8
def mImm : Nat := 16
def mIM : Nat := 32

/-- `AdrMode`, `AdrVals[0]`, `AdrVals[1]` -/
structure Adr where
  mode : AdrMode
  v0 : Nat
  v1 : Nat
deriving Repr

/-- `AdrFound:` - a mode outside `Mask` is `ErrNum_InvAddrMode` -/
def found (mask : Nat) (a : Adr) : Except Err Adr :=
  if mask &&& a.mode.bit ≠ 0 then .ok a else .error .invAddrMode

/-- `DecodeReg8(Asc, eSyntaxZ80, …)` on the operand's text: `B C D E H L A`; the condition name `C` is the register `C` -/
def reg8Z : Opd → Option Nat
  | .r8 r => if 0 ≤ r ∧ r < 8 ∧ r ≠ 6 then some r.toNat else none
  | .cond c => if c = 3 then some 1 else none
  | _ => none

/-- `DecodeReg8(Asc, eSyntax808x | …, …)`: also `M` -/
def reg8I : Opd → Option Nat
  | .r8 r => if 0 ≤ r ∧ r < 8 then some r.toNat else none
  | .cond c => if c = 3 then some 1 else if c = 7 then some 6 else none
  | _ => none

/-- `DecodeAdr_Z80(pArg, Mask)`; second component = `OpSize` after the call -/
def decodeAdr (opSize mask : Nat) (o : Opd) : Except Err Adr × Nat :=
  match reg8Z o with
  | some r => (found mask ⟨.reg8, r, 0⟩, opSize)
  | none =>
    match o with
    | .im => if mask &&& mIM ≠ 0 then (found mask ⟨.im, 0, 0⟩, opSize) else (.error .other, opSize)
    | .r16 r => if 0 ≤ r ∧ r < 4 then (found mask ⟨.reg16, r.toNat, 0⟩, 1) else (.error .other, opSize)
    | .ind r => if 0 ≤ r ∧ r < 4 then (found mask ⟨.ireg16, r.toNat, 0⟩, opSize) else (.error .other, opSize)
    | .abs a => (andThen (evalInt itUInt16 a) fun v => found mask ⟨.abs, lo (toWord v), hi (toWord v)⟩, opSize)
    | .imm v =>
      if opSize ≠ 0 then (andThen (evalInt itInt16 v) fun w => found mask ⟨.imm, lo (toWord w), hi (toWord w)⟩, opSize)
      else (andThen (evalInt itInt8 v) fun w => found mask ⟨.imm, toByte w, 0⟩, opSize)
    | _ => (.error .other, opSize)       -- a name that is neither register nor symbol

def im (cpu : Nat) : Nat := if cpu ≥ 1 then mIM else 0

def decodeLD (cpu : Nat) (args : List Opd) : Except Err (List Byte) :=
  match args with
  | [o1, o2] =>
    let r1 := decodeAdr 0 (mReg8 ||| mIReg16 ||| mAbs ||| mReg16 ||| im cpu) o1
    andThen r1.1 fun a1 =>
      match a1.mode with
      | .reg8 =>
        let mask := mReg8 ||| mIReg16 ||| mImm ||| (if a1.v0 = 7 then mAbs ||| im cpu else 0)
        andThen (decodeAdr r1.2 mask o2).1 fun a2 =>
          match a2.mode with
          | .reg8 => .ok [b (0x40 ||| (a1.v0 <<< 3) ||| a2.v0)]
          | .ireg16 =>
            if a2.v0 = 2 then .ok [b (0x46 ||| (a1.v0 <<< 3))]
            else if a1.v0 = 7 ∧ a2.v0 ≠ 3 then .ok [b (0x0a ||| (a2.v0 <<< 4))]
            else .error .invAddrMode
          | .abs => .ok [b 0x3a, b a2.v0, b a2.v1]
          | .imm => .ok [b (0x06 ||| (a1.v0 <<< 3)), b a2.v0]
          | .im => .ok [b 0x20]
          | .reg16 => .error .other
      | .reg16 =>
        let mask := mImm ||| (if a1.v0 = 2 then mAbs else 0) ||| (if a1.v0 = 3 then mReg16 else 0)
        andThen (decodeAdr r1.2 mask o2).1 fun a2 =>
          match a2.mode with
          | .imm => .ok [b (0x01 ||| (a1.v0 <<< 4)), b a2.v0, b a2.v1]
          | .abs => .ok [b 0x2a, b a2.v0, b a2.v1]
          | .reg16 => if a2.v0 = 2 then .ok [b 0xf9] else .error .invAddrMode
          | _ => .error .other
      | .ireg16 =>
        let mask := mReg8 ||| (if a1.v0 = 2 then mImm else 0)
        andThen (decodeAdr r1.2 mask o2).1 fun a2 =>
          match a2.mode with
          | .reg8 =>
            if a1.v0 = 2 then .ok [b (0x70 ||| a2.v0)]
            else if a2.v0 = 7 ∧ a1.v0 ≠ 3 then .ok [b (0x02 ||| (a1.v0 <<< 4))]
            else .error .invAddrMode
          | .imm => .ok [b 0x36, b a2.v0]
          | _ => .error .other
      | .abs =>
        andThen (decodeAdr r1.2 (mReg8 ||| mReg16) o2).1 fun a2 =>
          match a2.mode with
          | .reg8 => if a2.v0 ≠ 7 then .error .invAddrMode else .ok [b 0x32, b a1.v0, b a1.v1]
          | .reg16 => if a2.v0 ≠ 2 then .error .invAddrMode else .ok [b 0x22, b a1.v0, b a1.v1]
          | _ => .error .other
      | .im =>
        andThen (decodeAdr r1.2 mReg8 o2).1 fun a2 =>
          match a2.mode with
          | .reg8 => if a2.v0 ≠ 7 then .error .invAddrMode else .ok [b 0x30]
          | _ => .error .other
      | .imm => .error .other
  | _ => .error .argCnt

def decodeEX (args : List Opd) : Except Err (List Byte) :=
  match args with
  | [o1, o2] =>
    let r1 := decodeAdr 0 (mReg16 ||| mIReg16) o1
    andThen r1.1 fun a1 =>
      match a1.mode with
      | .reg16 =>
        andThen (decodeAdr r1.2 (mReg16 ||| mIReg16) o2).1 fun a2 =>
          match a2.mode with
          | .reg16 => if (a1.v0 = 1 ∧ a2.v0 = 2) ∨ (a1.v0 = 2 ∧ a2.v0 = 1) then .ok [b 0xeb] else .error .invAddrMode
          | .ireg16 => if a1.v0 = 2 ∧ a2.v0 = 3 then .ok [b 0xe3] else .error .invAddrMode
          | _ => .error .other
      | .ireg16 =>
        andThen (decodeAdr r1.2 mReg16 o2).1 fun a2 =>
          match a2.mode with
          | .reg16 => if a1.v0 = 3 ∧ a2.v0 = 2 then .ok [b 0xe3] else .error .invAddrMode
          | _ => .error .other
      | _ => .error .other
  | _ => .error .argCnt

/-- second operand of `ADD A,` / `ADC A,` -/
def accSrc (opSize base imm : Nat) (o : Opd) : Except Err (List Byte) :=
  andThen (decodeAdr opSize (mReg8 ||| mIReg16 ||| mImm) o).1 fun a2 =>
    match a2.mode with
    | .reg8 => .ok [b (base ||| a2.v0)]
    | .ireg16 => if a2.v0 ≠ 2 then .error .invAddrMode else .ok [b (base ||| 6)]
    | .imm => .ok [b imm, b a2.v0]
    | _ => .error .other

def decodeADD (syn : Nat) (args : List Opd) : Except Err (List Byte) :=
  match args with
  | [o] =>
    if syn &&& syntax808x ≠ 0 then
      match reg8I o with
      | some r => .ok [b (0x80 ||| r)]
      | none => .error .other
    else .error .argCnt
  | [o1, o2] =>
    let r1 := decodeAdr 0 (mReg8 ||| mReg16) o1
    andThen r1.1 fun a1 =>
      match a1.mode with
      | .reg8 => if a1.v0 ≠ 7 then .error .invAddrMode else accSrc r1.2 0x80 0xc6 o2
      | .reg16 =>
        if a1.v0 ≠ 2 then .error .invAddrMode
        else andThen (decodeAdr r1.2 mReg16 o2).1 fun a2 =>
          match a2.mode with
          | .reg16 => .ok [b (0x09 ||| (a2.v0 <<< 4))]
          | _ => .error .other
      | _ => .error .other
  | _ => .error .argCnt

def decodeADC (syn : Nat) (args : List Opd) : Except Err (List Byte) :=
  match args with
  | [o] =>
    if syn &&& syntax808x ≠ 0 then
      match reg8I o with
      | some r => .ok [b (0x88 ||| r)]
      | none => .error .other
    else .error .argCnt
  | [o1, o2] =>
    let r1 := decodeAdr 0 mReg8 o1
    andThen r1.1 fun a1 =>
      match a1.mode with
      | .reg8 => if a1.v0 ≠ 7 then .error .invAddrMode else accSrc r1.2 0x88 0xce o2
      | _ => .error .other
  | _ => .error .argCnt

/-- `DecodeReg8(ArgStr[ArgCnt], CurrZ80Syntax, &Reg)` of `DecodeSUB` -/
def reg8Cur (syn : Nat) (o : Opd) : Option Nat := if syn &&& syntax808x ≠ 0 then reg8I o else reg8Z o

def subLast (syn opSize : Nat) (o : Opd) : Except Err (List Byte) :=
  match reg8Cur syn o with
  | some r => .ok [b (0x90 ||| r)]
  | none =>
    andThen (decodeAdr opSize (mImm ||| mIReg16) o).1 fun a =>
      match a.mode with
      | .ireg16 => if a.v0 ≠ 2 then .error .invAddrMode else .ok [b 0x96]
      | .imm => .ok [b 0xd6, b a.v0]
      | _ => .error .other

def decodeSUB (syn : Nat) (args : List Opd) : Except Err (List Byte) :=
  match args with
  | [o] => subLast syn 0 o
  | [o1, o2] =>
    let r1 := decodeAdr 0 mReg8 o1
    andThen r1.1 fun a1 =>
      match a1.mode with
      | .reg8 => if a1.v0 ≠ 7 then .error .invAddrMode else subLast syn r1.2 o2
      | _ => .error .other
  | _ => .error .argCnt

def alu8Last (opSize code : Nat) (o : Opd) : Except Err (List Byte) :=
  andThen (decodeAdr opSize (mImm ||| mIReg16 ||| mReg8) o).1 fun a =>
    match a.mode with
    | .reg8 => .ok [b (0x80 ||| (code <<< 3) ||| a.v0)]
    | .ireg16 => if a.v0 ≠ 2 then .error .invAddrMode else .ok [b (0x86 ||| (code <<< 3))]
    | .imm => .ok [b (0xc6 ||| (code <<< 3)), b a.v0]
    | _ => .error .other

def decodeALU8 (code : Nat) (args : List Opd) : Except Err (List Byte) :=
  match args with
  | [o] => alu8Last 0 code o
  | [o1, o2] =>
    let r1 := decodeAdr 0 mReg8 o1
    andThen r1.1 fun a1 =>
      match a1.mode with
      | .reg8 => if a1.v0 = 7 then alu8Last r1.2 code o2 else .error .invAddrMode
      | _ => .error .invAddrMode
  | _ => .error .argCnt

def decodeINCDEC (code : Nat) (args : List Opd) : Except Err (List Byte) :=
  match args with
  | [o] =>
    andThen (decodeAdr 0 (mReg8 ||| mReg16 ||| mIReg16) o).1 fun a =>
      match a.mode with
      | .reg8 => .ok [b (0x04 ||| code ||| (a.v0 <<< 3))]
      | .reg16 => .ok [b (0x03 ||| (code <<< 3) ||| (a.v0 <<< 4))]
      | .ireg16 => if a.v0 ≠ 2 then .error .invAddrMode else .ok [b (0x34 ||| code)]
      | _ => .error .other
  | _ => .error .argCnt

def cpLast (opSize : Nat) (o : Opd) : Except Err (List Byte) :=
  andThen (decodeAdr opSize (mImm ||| mIReg16 ||| mReg8) o).1 fun a =>
    match a.mode with
    | .reg8 => .ok [b (0xb8 ||| a.v0)]
    | .ireg16 => if a.v0 ≠ 2 then .error .invAddrMode else .ok [b 0xbe]
    | .imm => if opSize = 1 then .ok [b 0xf4, b a.v0, b a.v1] else .ok [b 0xfe, b a.v0]
    | _ => .error .other

def decodeCP (syn : Nat) (args : List Opd) : Except Err (List Byte) :=
  match args with
  | [o] => cpLast (if syn = syntaxZ80 then 0 else 1) o
  | [o1, o2] =>
    andThen (decodeAdr 0 mReg8 o1).1 fun a1 =>
      match a1.mode with
      | .reg8 => if a1.v0 = 7 then cpLast 0 o2 else .error .invAddrMode
      | _ => .error .invAddrMode
  | _ => .error .argCnt

/-- `DecodeCondition` (8080/8085: `NZ Z NC C PO PE P M`) on the operand's text → `Condition` (`index << 3`) -/
def decodeCondition : Opd → Except Err Nat
  | .cond c => if 0 ≤ c ∧ c < 8 then .ok (c.toNat <<< 3) else .error .other
  | .r8 r => if r = 1 then .ok (3 <<< 3) else if r = 6 then .ok (7 <<< 3) else .error .other
  | _ => .error .other

def decodeJP (syn : Nat) (args : List Opd) : Except Err (List Byte) :=
  match args with
  | [o] =>
    andThen (decodeAdr 1 (mImm ||| mIReg16) o).1 fun a =>
      match a.mode with
      | .ireg16 => if a.v0 ≠ 2 then .error .invAddrMode else .ok [b 0xe9]
      | .imm => .ok [b (if syn = syntaxZ80 then 0xc3 else 0xc2 + (6 <<< 3)), b a.v0, b a.v1]
      | _ => .error .other
  | [o1, o2] =>
    andThen (decodeCondition o1) fun cond =>
      andThen (decodeAdr 1 mImm o2).1 fun a =>
        match a.mode with
        | .imm => .ok [b (0xc2 + cond), b a.v0, b a.v1]
        | _ => .error .other
  | _ => .error .argCnt

def decodeCALL (args : List Opd) : Except Err (List Byte) :=
  match args with
  | [o] =>
    andThen (decodeAdr 1 mImm o).1 fun a =>
      match a.mode with
      | .imm => .ok [b 0xcd, b a.v0, b a.v1]
      | _ => .error .other
  | [o1, o2] =>
    andThen (decodeCondition o1) fun cond =>
      andThen (decodeAdr 1 mImm o2).1 fun a =>
        match a.mode with
        | .imm => .ok [b (0xc4 ||| cond), b a.v0, b a.v1]
        | _ => .error .other
  | _ => .error .argCnt

def decodeRET (args : List Opd) : Except Err (List Byte) :=
  match args with
  | [] => .ok [b 0xc9]
  | [o] => andThen (decodeCondition o) fun cond => .ok [b (0xc0 ||| cond)]
  | _ => .error .argCnt

/-- `EvalStrIntExpression(arg, typ)` on an operand: a number, possibly in parentheses; a register name is no symbol -/
def evalOpd (typ : Nat) : Opd → Except Err Int
  | .imm v => evalInt typ v
  | .abs v => evalInt typ v
  | _ => .error .other

def decodeINOUT (code syn : Nat) (args : List Opd) : Except Err (List Byte) :=
  match args with
  | [o] =>
    if syn &&& syntax808x ≠ 0 then andThen (evalOpd itUInt8 o) fun v => .ok [b (lo code), b (toByte v)]
    else .error .argCnt
  | [o1, o2] =>
    let ra := if code = 0xdb then o1 else o2
    let pa := if code = 0xdb then o2 else o1
    andThen (decodeAdr 0 mReg8 ra).1 fun a =>
      if a.v0 ≠ 7 then .error .invAddrMode
      else andThen (evalOpd itUInt8 pa) fun v => .ok [b (lo code), b (toByte v)]
  | _ => .error .argCnt

def decodeRST (syn : Nat) (args : List Opd) : Except Err (List Byte) :=
  match args with
  | [o] =>
    andThen (evalOpd itUInt6 o) fun v =>
      let n := toByte v
      if syn = syntaxBoth ∧ n < 8 then .ok [b (0xc7 + (n <<< 3))]
      else if n &&& 7 ≠ 0 then .error .notAligned
      else .ok [b (0xc7 + (n &&& 0x38))]
  | _ => .error .argCnt

/-- `DecodeReg16(pAsc, CurrZ80Syntax, …)` on the operand's text: `BC DE HL SP`, and `B D H` when Intel's names are allowed -/
def reg16Cur (syn : Nat) : Opd → Option Nat
  | .r16 r => if 0 ≤ r ∧ r < 4 then some r.toNat else none
  | .r8 r => if syn &&& syntax808x ≠ 0 ∧ (r = 0 ∨ r = 2 ∨ r = 4) then some (r.toNat / 2) else none
  | _ => none

def decodePUSH_POP (idx syn : Nat) (args : List Opd) : Except Err (List Byte) :=
  match args with
  | [o] =>
    if o = .af then .ok [b (0xc1 + (3 <<< 4) + idx)]
    else match reg16Cur syn o with
      | some r => if r ≠ 3 then .ok [b (0xc1 + (r <<< 4) + idx)] else .error .other
      | none => .error .other
  | _ => .error .argCnt

/-- `ChkZ80Syntax(InstrSyntax)` -/
def chkSyntax (syn instr : Nat) : Bool :=
  !((instr == syntax808x && syn &&& syntax808x == 0) || (instr == syntaxZ80 && syn &&& syntaxZ80 == 0))

def decodeFixed (syn code isyn : Nat) (args : List Opd) : Except Err (List Byte) :=
  match args with
  | [] => if chkSyntax syn isyn then .ok [b (lo code)] else .error .other
  | _ => .error .argCnt

def dispatch (syn cpu : Nat) : Handler → List Opd → Except Err (List Byte)
  | .fixed code _ isyn => decodeFixed syn code isyn
  | .ld _ => decodeLD cpu
  | .ex _ => decodeEX
  | .add _ => decodeADD syn
  | .adc _ => decodeADC syn
  | .sub _ => decodeSUB syn
  | .alu8 code => decodeALU8 code
  | .incdec code => decodeINCDEC code
  | .cp _ => decodeCP syn
  | .jp _ => decodeJP syn
  | .call _ => decodeCALL
  | .ret _ => decodeRET
  | .inout code => decodeINOUT code syn
  | .rst _ => decodeRST syn
  | .pushPop idx => decodePUSH_POP idx syn

def minCpuOf : Handler → Nat
  | .fixed _ mc _ => mc
  | _ => 0

/-- `MakeCode_85` for a Z80-style statement; `excl` = `Z80SYNTAX EXCLUSIVE` (otherwise `ON`) -/
def encode (excl : Bool) (cpu : Nat) (s : Src) : Except Err (List Byte) :=
  match lookup s.mn with
  | none => .error .unknownInstr
  | some h => if cpu < minCpuOf h then .error .unknownInstr else dispatch (if excl then syntaxZ80 else syntaxBoth) cpu h s.args

end AslModel.Isa.I8080Z
