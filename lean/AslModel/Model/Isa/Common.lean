import AslModel.Generated.IntTypes
import AslModel.Generated.Isa_Common
import AslModel.Spec.PFile
/-!
# MODEL, shared by the per-target instruction encoders (C14)

`asmpars.c`: `RangeCheck`, the range check inside `EvalStrIntExpressionWithResult` (with the default
`HardRanges = True`: out of range ⇒ `ErrNum_OverRange`, no value); `bpemu.c`: `Hi`/`Lo` on a `Word`.
Operands arrive *after* expression evaluation (C08's subject) as `Int` values without
first-pass-unknown / questionable flags.
-/
namespace AslModel.Isa
open AslModel.PFile (Byte b)

/-- errors the encoders report; `other` = an error whose number the model does not predict
(unknown register / symbol spelled in the source) -/
inductive Err where
  | argCnt | unknownInstr | cpu | overRange | underRange | diffPage | jmpDist | invReg | invRegPair
  | invAddrMode | notAligned | other
deriving DecidableEq, Repr

open Generated.IsaErr in
/-- `ErrNum_*` (errmsg.h, regenerated); 0 = unspecified -/
def Err.num : Err → Nat
  | .argCnt => errWrongArgCnt | .unknownInstr => errUnknownInstruction | .cpu => errInstructionNotSupported
  | .overRange => errOverRange | .underRange => errUnderRange | .diffPage => errTargOnDiffPage
  | .jmpDist => errJmpDistTooBig | .invReg => errInvReg | .invRegPair => errInvRegPair
  | .invAddrMode => errInvAddrMode | .notAligned => errNotAligned | .other => 0

/-- `RangeCheck(Wert, Typ)` -/
def rangeCheck (v : Int) (typ : Nat) : Bool :=
  if typ ≥ Generated.intTypeNoCheckFrom then true
  else match Generated.intTypeDefs[typ]? with
    | some d => decide (d.min ≤ v) && decide (v ≤ d.max)
    | none => false

/-- `EvalStrIntExpression(arg, Typ, &OK)` on an already evaluated operand -/
def evalInt (typ : Nat) (v : Int) : Except Err Int :=
  if rangeCheck v typ then .ok v else .error .overRange

/-- a C `Word` holding the value (`Word x = <LargeInt>`) -/
def toWord (v : Int) : Nat := (v % 65536).toNat
/-- a C `Byte` holding the value -/
def toByte (v : Int) : Nat := (v % 256).toNat

/-- `Hi(Word)` / `Lo(Word)` of bpemu.c -/
def hi (x : Nat) : Nat := x % 65536 / 256
def lo (x : Nat) : Nat := x % 256

end AslModel.Isa

namespace AslModel.Isa
/-- the statement was assembled (no error) -/
def isOk {α : Type} : Except Err α → Bool
  | .ok _ => true
  | .error _ => false
/-- the emitted bytes, if any -/
def okBytes : Except Err (List PFile.Byte) → Option (List PFile.Byte)
  | .ok bs => some bs
  | .error _ => none
/-- sequencing of two C steps where the first may have reported an error (`if (OK) …`) -/
def andThen {α β : Type} (x : Except Err α) (f : α → Except Err β) : Except Err β :=
  match x with
  | .ok v => f v
  | .error e => .error e

@[simp] theorem andThen_ok {α β : Type} (v : α) (f : α → Except Err β) : andThen (.ok v) f = f v := rfl
@[simp] theorem andThen_error {α β : Type} (e : Err) (f : α → Except Err β) : andThen (.error e) f = .error e := rfl
theorem andThen_ite {α β : Type} (c : Prop) [Decidable c] (x y : Except Err α) (f : α → Except Err β) :
    andThen (if c then x else y) f = if c then andThen x f else andThen y f := by
  split <;> rfl
@[simp] theorem okBytes_ok (bs : List PFile.Byte) : okBytes (.ok bs) = some bs := rfl
@[simp] theorem okBytes_error (e : Err) : okBytes (.error e) = none := rfl
theorem okBytes_ite (c : Prop) [Decidable c] (x y : Except Err (List PFile.Byte)) :
    okBytes (if c then x else y) = if c then okBytes x else okBytes y := by
  split <;> rfl
end AslModel.Isa
