import AslModel.Model.Isa.Common
import AslModel.Generated.Isa_Msp430
/-!
# MODEL: codemsp.c, CPU MSP430 (C14)

`MakeCode_MSP` → `LookupInstTable` → `DecodeFixed / DecodeTwoOp / DecodeEmulOneToTwo / DecodeBR / DecodePOP /
DecodeOneOp / DecodeJmp` over the `InstTable` regenerated from `InitFields()`, with `DecodeAdr`,
`FillAdrPartsImm`, `ChkAdr`, `ConstructTwoOp`, `AppendAdrVals`.

Operands arrive as `Spec.IMsp430.Arg` values (which branch of `DecodeAdr` the operand text selects, with
register numbers and evaluated expressions).  Size attribute: 0 = none (`OpSize = eOpSizeDefault`, `AttrPart`
empty), 1 = `.B`, 2 = `.W` (`AttrPart` not empty), ≥ 3 = refused by `DecodeAttrPart_MSP`.
The program counter is assumed even (`DoPadding` / warning 180 are outside the model); the 430X paths
(`eExtModeYes`, `OpSize = eOpSizeA`, `WasAbs`) are unreachable for CPU MSP430.

`LongWord` values are kept as `Nat` below 2^32, `Word`s below 2^16.  An error is the *first* one the C code
reports for the statement (the code generator sometimes carries on after `WrError`, but no code is written then).
`Err.other` (number 0 = unspecified) stands for the errors `Err` has no constructor for: `InvOpSize`, `UseLessAttr`,
`UndefAttr`, `DistTooBig`, `DistIsOdd`, undefined register symbols.

Four behaviours are parameters (`Flags`), because they are defects of the pinned tree and the check has to
follow a repair: see `genFlags`.
-/
namespace AslModel.Isa.IMsp430
open AslModel.PFile (Byte b)
open AslModel.Spec.IMsp430 (Mn Src Arg)
open AslModel.Generated.IsaMsp430
open AslModel.Generated (itInt8 itInt16 itUInt16)

structure Flags where
  /-- `DecodeAdr`: `d(Rn)` with `d = 0` becomes `@Rn` also for `Rn = PC` (pinned: true) -/
  zeroDispPcInd : Bool
  /-- `DecodeEmulOneToTwo`: the sign-change test on the fixed-up PC-relative displacement (pinned: true) -/
  rlaDistCheck : Bool
  /-- `DecodePOP` passes `MayImm = True` to `DecodeAdr` (pinned: true) -/
  popMayImm : Bool
  /-- `DecodeEmulOneToTwo`: "transform 0(Rn) as Dest back to @Rn as Src" also for `&0`, which is `0(R2)` (pinned: true) -/
  rlaAbsZeroInd : Bool
deriving DecidableEq, Repr

/-- the flags of the current tree: three probed with the freshly built asl, one read from the AST -/
def genFlags : Flags := ⟨probeZeroDispPcInd, probeRlaDistCheck, popMayImm, probeRlaAbsZeroInd⟩

def lookup (m : Mn) : Option Handler := instTable.lookup m

/-- `tAdrParts` (Mode 0..3 = `eModeReg, eModeRegDisp, eModeIReg, eModeIRegAutoInc`) -/
structure AdrParts where
  mode : Nat
  part : Nat
  cnt : Nat
  val : Nat
deriving DecidableEq, Repr

/-- a C `LongWord` holding the value -/
def toLong (v : Int) : Nat := (v % 4294967296).toNat

/-- `ChkAdr(Mask, pAdrParts)` for a decoded mode -/
def chkAdr (mask : Nat) (p : AdrParts) : Except Err AdrParts :=
  if mask.testBit p.mode then .ok p else .error .invAddrMode

/-- `FillAdrPartsImm(pAdrParts, Value, ForceLong)`; `byteSz` = `OpSize == eOpSizeB` (else `eOpSizeW`) -/
def fillImm (byteSz : Bool) (value : Nat) (forceLong : Bool) : AdrParts :=
  let pm : Nat × Nat :=
    if forceLong then (0, 0)
    else if value = 0xffffffff || (byteSz && value = 0xff) || (!byteSz && value = 0xffff) then cgMinusOne
    else match cgTable.lookup value with
      | some x => x
      | none => (0, 0)
  -- `if (pAdrParts->Part == RegPC)`: no constant generator → `@PC+` with one extension word
  if pm.1 = 0 then ⟨3, 0, 1, value⟩ else ⟨pm.2, pm.1, 0, value⟩

/-- `DecodeAdr(pArg, eExtModeNo, Mask, MayImm, pAdrParts)` with `PCDist = pcDist` -/
def decodeAdr (fl : Flags) (pc pcDist : Nat) (byteSz : Bool) (mask : Nat) (mayImm : Bool) : Arg → Except Err AdrParts
  | .imm v =>
    if !mayImm then .error .invAddrMode
    else andThen (evalInt (if byteSz then itInt8 else itInt16) v) fun r => chkAdr mask (fillImm byteSz (toLong r) false)
  | .immL v =>
    if !mayImm then .error .invAddrMode
    else andThen (evalInt (if byteSz then itInt8 else itInt16) v) fun r => chkAdr mask (fillImm byteSz (toLong r) true)
  | .abs a => andThen (evalInt itUInt16 a) fun r => chkAdr mask ⟨1, 2, 1, toLong r⟩
  | .reg n =>
    if n ≥ 16 then .error .other
    else if n = 3 then .error .invReg
    else chkAdr mask ⟨0, n, 0, 0⟩
  | .idx n x =>
    if n ≥ 16 then .error .other
    else andThen (evalInt itInt16 x) fun r =>
      if n = 2 ∨ n = 3 then .error .invReg
      else if toLong r = 0 ∧ mask.testBit 2 ∧ (fl.zeroDispPcInd = true ∨ n ≠ 0) then chkAdr mask ⟨2, n, 0, 0⟩
      else chkAdr mask ⟨1, n, 1, toLong r⟩
  | .ind n =>
    if n ≥ 16 then .error .other
    else if n = 2 ∨ n = 3 then .error .invReg
    else if !mask.testBit 2 then chkAdr mask ⟨1, n, 1, 0⟩
    else chkAdr mask ⟨2, n, 0, 0⟩
  | .inc n =>
    if n ≥ 16 then .error .other
    else if n = 2 ∨ n = 3 then .error .invReg
    else chkAdr mask ⟨3, n, 0, 0⟩
  | .sym a =>
    -- `AdrWord = (EvalStrIntExpression(pArg, UInt16, &OK) - CurrPC) & 0xffff`
    andThen (evalInt itUInt16 a) fun r => chkAdr mask ⟨1, 0, 1, ((r - ((pc + pcDist : Nat) : Int)) % 65536).toNat⟩

/-- `GetBW()` -/
def getBW (byteSz : Bool) : Nat := if byteSz then 0x40 else 0

/-- `AppendAdrVals`: `Cnt` copies of `(Word)Val` -/
def adrVals (p : AdrParts) : List Nat := List.replicate p.cnt (p.val % 65536)

/-- `WAsmCode[]` as bytes of the code file (little endian host order, `TurnWords = False`) -/
def wordsToBytes : List Nat → List Byte
  | [] => []
  | w :: ws => b (lo w) :: b (hi w) :: wordsToBytes ws

/-- `ConstructTwoOp(Code, pSrcParts, pDestParts)` -/
def constructTwoOp (code : Nat) (byteSz : Bool) (s d : AdrParts) : List Nat :=
  ((code ||| (s.part <<< 8) ||| (d.mode <<< 7) ||| getBW byteSz ||| (s.mode <<< 4) ||| d.part) % 65536)
    :: (adrVals s ++ adrVals d)

def decodeFixed (code size : Nat) (ops : List Arg) : Except Err (List Byte) :=
  match ops with
  | [] => if size ≠ 0 then .error .other else .ok (wordsToBytes [code])
  | _ => .error .argCnt

def decodeTwoOp (fl : Flags) (code pc : Nat) (byteSz : Bool) (ops : List Arg) : Except Err (List Byte) :=
  match ops with
  | [a, d] =>
    andThen (decodeAdr fl pc 2 byteSz twoSrcMask twoSrcMayImm a) fun s =>
    andThen (decodeAdr fl pc (2 + (s.cnt <<< 1)) byteSz twoDstMask twoDstMayImm d) fun dd =>
      .ok (wordsToBytes (constructTwoOp code byteSz s dd))
  | _ => .error .argCnt

/-- `MemLen[OpSize]` -/
def memLen (byteSz : Bool) : Nat := if byteSz then 1 else 2

/-- `DecodeEmulOneToTwo`, `SrcSpec == 0xaa` ("Src == Dest"): source and destination parts from the one operand -/
def emulDup (fl : Flags) (code' : Nat) (byteSz : Bool) (dp : AdrParts) : Except Err (List Byte) :=
  if dp.mode = 3 then
    -- `@Rn+` is transformed to `@Rn+,-opsize(Rn)`
    .ok (wordsToBytes (constructTwoOp code' byteSz dp ⟨1, dp.part, 1, (4294967296 - memLen byteSz) % 65536⟩))
  else if dp.mode = 1 ∧ dp.part = 0 then
    -- PC-relative: fix up the destination displacement, complain on "displacement overflow"
    let newDist := (dp.val + 4294967296 - 2) % 4294967296
    if fl.rlaDistCheck = true ∧ (newDist &&& 0x8000) ≠ (dp.val &&& 0x8000) then .error .other
    else .ok (wordsToBytes (constructTwoOp code' byteSz dp { dp with val := newDist }))
  else if dp.mode = 1 ∧ dp.val = 0 ∧ (fl.rlaAbsZeroInd = true ∨ dp.part ≠ 2) then
    -- "transform 0(Rn) as Dest back to @Rn as Src"
    .ok (wordsToBytes (constructTwoOp code' byteSz { dp with mode := 2, cnt := 0 } dp))
  else .ok (wordsToBytes (constructTwoOp code' byteSz dp dp))

def decodeEmul (fl : Flags) (code pc : Nat) (byteSz : Bool) (ops : List Arg) : Except Err (List Byte) :=
  let srcSpec := lo code
  let code' := code &&& 0xff00
  match ops with
  | [d] =>
    andThen (decodeAdr fl pc 2 byteSz (3 ||| (if srcSpec = 0xaa then 8 else 0)) false d) fun dp =>
      if srcSpec = 0xaa then emulDup fl code' byteSz dp
      else
        .ok (wordsToBytes (constructTwoOp code' byteSz (fillImm byteSz (if srcSpec = 0xff then 0xffffffff else srcSpec) false) dp))
  | _ => .error .argCnt

def decodeBR (fl : Flags) (code pc size : Nat) (ops : List Arg) : Except Err (List Byte) :=
  match ops with
  | [a] =>
    if size ≠ 0 then .error .other
    else andThen (decodeAdr fl pc 2 false brMask brMayImm a) fun s =>
      .ok (wordsToBytes (constructTwoOp code false s ⟨0, 0, 0, 0⟩))
  | _ => .error .argCnt

def decodePOP (fl : Flags) (code pc : Nat) (byteSz : Bool) (ops : List Arg) : Except Err (List Byte) :=
  match ops with
  | [d] =>
    andThen (decodeAdr fl pc 2 byteSz popMask fl.popMayImm d) fun dp =>
      .ok (wordsToBytes (constructTwoOp code byteSz ⟨3, 1, 0, 0⟩ dp))
  | _ => .error .argCnt

def decodeOneOp (fl : Flags) (mayByte : Bool) (code pc : Nat) (byteSz : Bool) (ops : List Arg) : Except Err (List Byte) :=
  match ops with
  | [a] =>
    if byteSz && !mayByte then .error .other
    else andThen (decodeAdr fl pc 2 byteSz oneMask oneMayImm a) fun p =>
      .ok (wordsToBytes (((code ||| getBW byteSz ||| (p.mode <<< 4) ||| p.part) % 65536) :: adrVals p))
  | _ => .error .argCnt

/-- a C `Integer` (16 bit, two's complement) holding the value -/
def toInteger (v : Int) : Int := (v + 32768) % 65536 - 32768

/-- the tail of `DecodeJmp` once `AdrInt` is known: `Odd(AdrInt)`, the distance limits, `Code | ((AdrInt >> 1) & 0x3ff)` -/
def jmpEmit (code : Nat) (adrInt : Int) : Except Err (List Byte) :=
  if adrInt % 2 ≠ 0 then .error .other
  else if adrInt < jmpMin ∨ adrInt > jmpMax then .error .jmpDist
  else .ok (wordsToBytes [(code ||| ((adrInt / 2) % 1024).toNat) % 65536])

def decodeJmp (code pc : Nat) (byteSz : Bool) (ops : List Arg) : Except Err (List Byte) :=
  match ops with
  | [a] =>
    if byteSz then .error .other
    else match a with
      | .sym t =>
        -- `AdrInt = EvalStrIntExpression(.., UInt16, ..) - (EProgCounter() + 2)` in an `Integer`
        andThen (evalInt itUInt16 t) fun r => jmpEmit code (toInteger (r - ((pc + jmpPcOfs : Nat) : Int)))
      | _ => .error .other
  | _ => .error .argCnt

/-- `LookupInstTable` calling the registered handler -/
def dispatch (fl : Flags) (pc size : Nat) (ops : List Arg) : Handler → Except Err (List Byte)
  | .fixed code => decodeFixed code size ops
  | .twoOp code => decodeTwoOp fl code pc (size == 1) ops
  | .emul code => decodeEmul fl code pc (size == 1) ops
  | .br code => decodeBR fl code pc size ops
  | .pop code => decodePOP fl code pc (size == 1) ops
  | .oneOp mayByte code => decodeOneOp fl mayByte code pc (size == 1) ops
  | .jmp code => decodeJmp code pc (size == 1) ops

/-- `DecodeAttrPart_MSP` + `MakeCode_MSP` for an instruction statement at an even `pc` -/
def encode (fl : Flags) (pc : Nat) (s : Src) : Except Err (List Byte) :=
  if s.size > 2 then .error .other
  else match lookup s.mn with
    | none => .error .unknownInstr
    | some h => dispatch fl pc s.size s.ops h

end AslModel.Isa.IMsp430
