import AslModel.Model.Isa.Common
import AslModel.Generated.Isa_8080
/-!
# MODEL: code85.c with the default Intel syntax (`CurrZ80Syntax = eSyntax808x`), CPUs 8080 and 8085 (C14)

`MakeCode_85` → `LookupInstTable` → `Decode*` over the `InstTable` regenerated from `InitFields()`.
`AddFixed/AddOp16/AddOp8` enter a mnemonic only `if (MomCPU >= NMinCPU)`; otherwise the statement ends in
`ErrNum_UnknownInstruction`.  Operands are values: `B C D E H L M A` ↦ 0..7 (`DecodeReg8`),
`B D H SP` ↦ 0..3 (`DecodeReg16`), `PSW` ↦ 3 for PUSH/POP.  The two-operand (Z80 style) branches of the
shared handlers are unreachable in this syntax mode (`ChkArgCnt` rejects the second operand).
-/
namespace AslModel.Isa.I8080
open AslModel.PFile (Byte b)
open AslModel.Spec.I8080 (Mn Src)
open AslModel.Generated.Isa8080
open AslModel.Generated (itInt8 itInt16 itUInt8 itUInt3)

def lookup (m : Mn) : Option Handler := instTable.lookup m

/-- `DecodeReg8` (808x syntax) on a register value; failure = `ErrNum_InvRegName` or an evaluation error -/
def reg8 (r : Int) : Except Err Nat := if 0 ≤ r ∧ r < 8 then .ok r.toNat else .error .other
/-- `DecodeReg16` (808x syntax) -/
def reg16 (r : Int) : Except Err Nat := if 0 ≤ r ∧ r < 4 then .ok r.toNat else .error .other

/-- `ChkZ80Syntax(mask)` with `CurrZ80Syntax = eSyntax808x`: only a pure-Z80 instruction is refused -/
def chkSyntax (syn : Nat) : Bool := !(syn == 2)

def emit3 (op : Nat) (w : Nat) : List Byte := [b op, b (lo w), b (hi w)]

def decodeFixed (code syn : Nat) (args : List Int) : Except Err (List Byte) :=
  match args with
  | [] => if chkSyntax syn then .ok [b (lo code)] else .error .other
  | _ => .error .argCnt

def decodeOp16 (code syn : Nat) (args : List Int) : Except Err (List Byte) :=
  match args with
  | [a] =>
    if chkSyntax syn then andThen (evalInt itInt16 a) fun v => .ok (emit3 (lo code) (toWord v))
    else .error .other
  | _ => .error .argCnt

def decodeOp8 (code syn : Nat) (args : List Int) : Except Err (List Byte) :=
  match args with
  | [a] =>
    if chkSyntax syn then andThen (evalInt itInt8 a) fun v => .ok [b (lo code), b (toByte v)]
    else .error .other
  | _ => .error .argCnt

/-- `BAsmCode[0] = Code + Reg` (the syntax mask sits in the high byte of `Code`) -/
def decodeALU (code syn : Nat) (args : List Int) : Except Err (List Byte) :=
  match args with
  | [r] =>
    if chkSyntax syn then andThen (reg8 r) fun x => .ok [b (((syn <<< 8) ||| code) + x)]
    else .error .other
  | _ => .error .argCnt

def decodeMOV (args : List Int) : Except Err (List Byte) :=
  match args with
  | [d, s] =>
    andThen (reg8 d) fun x => andThen (reg8 s) fun y =>
      if (y + 0x40 + (x <<< 3)) % 256 = 0x76 then .error .invRegPair else .ok [b ((y + 0x40 + (x <<< 3)) % 256)]
  | _ => .error .argCnt

def decodeMVI (args : List Int) : Except Err (List Byte) :=
  match args with
  | [r, v] =>
    andThen (evalInt itInt8 v) fun w => andThen (reg8 r) fun x => .ok [b (0x06 + (x <<< 3)), b (toByte w)]
  | _ => .error .argCnt

def decodeLXI (args : List Int) : Except Err (List Byte) :=
  match args with
  | [r, v] =>
    andThen (evalInt itInt16 v) fun w => andThen (reg16 r) fun x => .ok (emit3 (0x01 + (x <<< 4)) (toWord w))
  | _ => .error .argCnt

def decodeLDAX_STAX (idx : Nat) (args : List Int) : Except Err (List Byte) :=
  match args with
  | [r] =>
    andThen (reg16 r) fun x =>
      if x = 3 then .error .invReg
      else if x = 2 then .ok [b (0x77 + idx * 7)]
      else .ok [b (0x02 + (x <<< 4) + (idx <<< 3))]
  | _ => .error .argCnt

/-- value 3 = `PSW`; the spelling `SP` is refused (not a value of this model) -/
def decodePUSH_POP (idx : Nat) (args : List Int) : Except Err (List Byte) :=
  match args with
  | [r] => andThen (reg16 r) fun x => .ok [b (0xc1 + (x <<< 4) + idx)]
  | _ => .error .argCnt

def decodeRST (args : List Int) : Except Err (List Byte) :=
  match args with
  | [n] => andThen (evalInt itUInt3 n) fun v => .ok [b (0xc7 + (toByte v <<< 3))]
  | _ => .error .argCnt

def decodeINR_DCR (idx : Nat) (args : List Int) : Except Err (List Byte) :=
  match args with
  | [r] => andThen (reg8 r) fun x => .ok [b (0x04 + (x <<< 3) + idx)]
  | _ => .error .argCnt

def decodeINX_DCX (idx : Nat) (args : List Int) : Except Err (List Byte) :=
  match args with
  | [r] => andThen (reg16 r) fun x => .ok [b (0x03 + (x <<< 4) + idx)]
  | _ => .error .argCnt

def decodeDAD (args : List Int) : Except Err (List Byte) :=
  match args with
  | [r] => andThen (reg16 r) fun x => .ok [b (0x09 + (x <<< 4))]
  | _ => .error .argCnt

/-- `DecodeADD` / `DecodeADC` / `DecodeSUB`, one-operand (8080) branch: `base | Reg` -/
def decodeAcc (base : Nat) (args : List Int) : Except Err (List Byte) :=
  match args with
  | [r] => andThen (reg8 r) fun x => .ok [b (base ||| x)]
  | _ => .error .argCnt

/-- `DecodeCP` / `DecodeJP` / `DecodeCALL`, one-operand branch: `DecodeAdr_Z80` with `OpSize = 1` → `Int16` immediate -/
def decodeJmp (op : Nat) (args : List Int) : Except Err (List Byte) :=
  match args with
  | [a] => andThen (evalInt itInt16 a) fun v => .ok (emit3 op (toWord v))
  | _ => .error .argCnt

def decodeRET (args : List Int) : Except Err (List Byte) :=
  match args with
  | [] => .ok [b 0xc9]
  | _ => .error .argCnt

def decodeINOUT (code : Nat) (args : List Int) : Except Err (List Byte) :=
  match args with
  | [p] => andThen (evalInt itUInt8 p) fun v => .ok [b (lo code), b (toByte v)]
  | _ => .error .argCnt

def decodeRLC (code : Nat) (args : List Int) : Except Err (List Byte) :=
  match args with
  | [] => .ok [b code]
  | _ => .error .argCnt

/-- `AddFixed/AddOp16/AddOp8` enter the mnemonic only `if (MomCPU >= NMinCPU)` -/
def minCpuOf : Handler → Nat
  | .fixed _ mc _ | .op16 _ mc _ | .op8 _ mc _ => mc
  | _ => 0

/-- `LookupInstTable` calling the registered handler with its `Word` -/
def dispatch : Handler → List Int → Except Err (List Byte)
  | .fixed code _ syn => decodeFixed code syn
  | .op16 code _ syn => decodeOp16 code syn
  | .op8 code _ syn => decodeOp8 code syn
  | .alu code syn => decodeALU code syn
  | .mov _ => decodeMOV
  | .mvi _ => decodeMVI
  | .lxi _ => decodeLXI
  | .ldaxStax idx => decodeLDAX_STAX idx
  | .pushPop idx => decodePUSH_POP idx
  | .rst _ => decodeRST
  | .inrDcr idx => decodeINR_DCR idx
  | .inxDcx idx => decodeINX_DCX idx
  | .dad _ => decodeDAD
  | .add _ => decodeAcc 0x80
  | .adc _ => decodeAcc 0x88
  | .sub _ => decodeAcc 0x90
  | .cp _ => decodeJmp 0xf4
  | .jp _ => decodeJmp (0xc2 + (6 <<< 3))
  | .call _ => decodeJmp 0xcd
  | .ret _ => decodeRET
  | .inout code => decodeINOUT code
  | .rlc code => decodeRLC code

/-- `MakeCode_85` for an instruction statement; `cpu` = `MomCPU - CPU8080` (0 or 1) -/
def encode (cpu : Nat) (s : Src) : Except Err (List Byte) :=
  match lookup s.mn with
  | none => .error .unknownInstr
  | some h => if cpu < minCpuOf h then .error .unknownInstr else dispatch h s.args

end AslModel.Isa.I8080
