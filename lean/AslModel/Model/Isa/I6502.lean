import AslModel.Model.Isa.Common
import AslModel.Generated.Isa_6502
/-!
# MODEL: code65.c for the CPUs 6502, 65SC02, 65C02 (C14)

`MakeCode_65` → `LookupInstTable` → `DecodeFixed` / `DecodeNorm` (+ `DecodeAdr`, `ChkZeroMode`, `IsAllowed`,
`CPUAllowed`) / `DecodeCond` / `DecodeBRK` / `DecodeBBR_BBS` / `DecodeRMB_SMB` over the order tables that the current
`InitFields()` builds (`Generated/Isa_6502`).  `cpu` = `MomCPU - CPU6502`.

Operands are values (`Spec.I6502.Opnd`): which branch of `DecodeAdr` a piece of operand text takes (`A`, `#…`,
`(…,X)`, `(…),Y`, `(…)`, `…,X`, `…,Y`, plain) and which prefix `ChkZero` strips is decided by the text; the
expression behind it arrives evaluated, without first-pass-unknown / questionable flags.
Not transcribed (unreachable for these CPUs or outside the SPEC's syntax): the HuC6280 / 65CE02 branches of
`EvalAddress` and `IsBasePage` (`RegB`), `\` special page, `(…,SP),Y`, `(…),X`, `(…),Z`, the MELPS740 NOP insertion of
`DecodeFixed`, `PHW`'s 16-bit immediate.
-/
namespace AslModel.Isa.I6502
open AslModel.PFile (Byte b)
open AslModel.Spec.I6502 (Mn Src Opnd Pfx Syn Ptr)
open AslModel.Generated.Isa6502
open AslModel.Generated (itInt8 itInt16 itUInt8 itUInt16 itSInt8)

/-- constants of the branch-distance checks, the fall-back variant and the CPU condition of the `JMP ($xxFF)` rule
(`MomCPU != CPU65C02` in the pinned source), regenerated from the source -/
structure Cfg where
  relBase : Nat
  relMax : Int
  relMin : Int
  bbrOfs : Nat
  bbrMax : Int
  bbrMin : Int
  fallbackLocal : Bool
  /-- CPUs (`MomCPU - CPU6502`, of the three modelled) on which `DecodeNorm` applies the `JMP ($xxFF)` rule -/
  indBugCpus : List Nat
deriving DecidableEq, Repr

def genCfg : Cfg := ⟨relBase, relMax, relMin, bbrOfs, bbrMax, bbrMin, normFallbackLocal, indBugCpus⟩

def lookup (m : Mn) : Option Handler := instTable.lookup m

/-- `CPUAllowed(Flag)`: `(Flag >> (MomCPU - CPU6502)) & 1` -/
def cpuAllowed (cpu flag : Nat) : Bool := (flag >>> cpu) % 2 == 1

/-- `IsAllowed(Val)`: `CPUAllowed(Val >> 8) && Val != -1` -/
def isAllowed (cpu : Nat) (code : Int) : Bool := code != -1 && cpuAllowed cpu (code.toNat >>> 8)

/-- `pOrder->Codes[Mode]` -/
def codeAt (codes : List Int) (mode : Nat) : Int := codes.getD mode (-1)

/-- result of `DecodeAdr`: `ErgMode`, `AdrVals[0..AdrCnt)` -/
structure AdrResult where
  mode : Nat
  vals : List Nat
deriving DecidableEq, Repr

/-- `ChkZero`'s `*erg`: 0 none, 2 `<`, 1 `>` -/
def zeroMode : Pfx → Nat
  | .none => 0 | .lt => 2 | .gt => 1

/-- the short / long mode pair of the three "absolute or zero page" branches of `DecodeAdr` -/
def shortMode : Syn → Nat
  | .dir => modZA | .idxX => modZIX | .idxY => modZIY | .ind => modInd8
def longMode : Syn → Nat
  | .dir => modA | .idxX => modIX | .idxY => modIY | .ind => modInd16
/-- type of the 16-bit evaluation: `UInt16` for plain / indirect addresses, `Int16` for indexed ones -/
def longType : Syn → Nat
  | .dir | .ind => itUInt16
  | .idxX | .idxY => itInt16

/-- `ChkZeroMode(pResult, pOrder, ZeroMode)` after a 16-bit evaluation whose high byte is the base page -/
def chkZeroMode (cpu : Nat) (codes : List Int) (short : Nat) (r : AdrResult) : AdrResult :=
  if isAllowed cpu (codeAt codes short) then ⟨short, r.vals.take (r.vals.length - 1)⟩ else r

/-- `DecodeAdr` (branches 1, 2, 4, 5, 6, 8 for `Y`, 9 and `ArgCnt == 0`); `jj` = `Memo("JMP") || Memo("JSR")` -/
def decodeAdr (cpu : Nat) (jj : Bool) (codes : List Int) : Opnd → Except Err AdrResult
  | .none => .ok ⟨modNone, []⟩
  | .acc => .ok ⟨modAcc, []⟩
  | .imm v => andThen (evalInt itInt8 v) fun w => .ok ⟨modImm, [lo (toWord w)]⟩
  | .ptr .indX v =>
    if jj then andThen (evalInt itUInt16 v) fun w => .ok ⟨modIndIX, [lo (toWord w), hi (toWord w)]⟩
    else andThen (evalInt itUInt8 v) fun w => .ok ⟨modIndIX, [toByte w]⟩
  | .ptr .indY v => andThen (evalInt itUInt8 v) fun w => .ok ⟨modIndOY, [toByte w]⟩
  | .mem syn p v =>
    if zeroMode p = 2 then andThen (evalInt itUInt8 v) fun w => .ok ⟨shortMode syn, [toByte w]⟩
    else andThen (evalInt (longType syn) v) fun w =>
      let r : AdrResult := ⟨longMode syn, [lo (toWord w), hi (toWord w)]⟩
      if zeroMode p = 0 ∧ hi (toWord w) = 0 then .ok (chkZeroMode cpu codes (shortMode syn) r) else .ok r
  | _ => .error .other

/-- the replacement `ModZA → ModA`, `ModZIX → ModIX`, `ModZIY → ModIY`, `ModInd8 → ModInd16` of `DecodeNorm` -/
def promote (mode : Nat) : Nat :=
  if mode = modZA then modA else if mode = modZIX then modIX else if mode = modZIY then modIY
  else if mode = modInd8 then modInd16 else mode

/-- `DecodeNorm`.  When the selected mode has no code the zero-page modes are replaced by their absolute
counterparts and a zero high byte is appended - `AdrResult.AdrVals[AdrCnt++] = 0` - through the result's own counter
(`cfg.fallbackLocal`) or, as in the pinned source, through the global `AdrCnt` of codevars.c (the result's length
stays as it was; which byte of the frame the zero lands in depends on earlier statements and is not modelled). -/
def decodeNorm (cfg : Cfg) (cpu : Nat) (m : Mn) (codes : List Int) (op : Opnd) : Except Err (List Byte) :=
  andThen (decodeAdr cpu (m == .JMP || m == .JSR) codes op) fun r =>
    let r' : AdrResult :=
      if codeAt codes r.mode = -1 then ⟨promote r.mode, if cfg.fallbackLocal then r.vals ++ [0] else r.vals⟩ else r
    let c := codeAt codes r'.mode
    if c = -1 then .error .invAddrMode
    else if !cpuAllowed cpu (c.toNat >>> 8) then .error .cpu
    else if r'.mode = modInd16 ∧ cfg.indBugCpus.contains cpu = true ∧ r'.vals.head? = some 0xff then .error .other   -- ErrNum_NotOnThisAddress
    else .ok (b (lo c.toNat) :: r'.vals.map b)

/-- `DecodeFixed`: `ChkArgCnt(0, 0) && ChkExactCPUMask(CPUFlag, CPU6502) >= 0` -/
def decodeFixed (cpu flag code : Nat) : Opnd → Except Err (List Byte)
  | .none => if cpuAllowed cpu flag then .ok [b code] else .error .cpu
  | _ => .error .argCnt

/-- a C `Integer` (16 bits, signed) holding the value -/
def toInteger (x : Int) : Int := if x % 65536 < 32768 then x % 65536 else x % 65536 - 65536

/-- `DecodeCond` -/
def decodeCond (cfg : Cfg) (cpu pc flag short long : Nat) : Opnd → Except Err (List Byte)
  | .rel p t =>
    if !cpuAllowed cpu flag then .error .cpu
    else andThen (evalInt itUInt16 t) fun a =>
      let mayShort : Bool := short != 0
      let mayLong : Bool := long != 0 && cpu == cpu65CE02
      let force : Nat :=
        if zeroMode p ≠ 0 then zeroMode p
        else if !mayLong then 2 else if !mayShort then 1
        else if rangeCheck (toInteger a - ((pc + 2 : Nat) : Int)) itSInt8 then 2 else 1
      let adr := toInteger (toInteger a - ((pc + (cfg.relBase - force) : Nat) : Int))
      if force = 2 then
        if !mayShort then .error .invAddrMode
        else if adr > cfg.relMax ∨ adr < cfg.relMin then .error .jmpDist
        else .ok [b short, b (toByte adr)]
      else
        if !mayLong then .error .invAddrMode
        else .ok [b long, b (toByte adr), b (toByte (adr / 256))]
  | _ => .error .other

/-- `DecodeBRK`: optional `Int8` argument (with or without `#`) -/
def decodeBRK : Opnd → Except Err (List Byte)
  | .none => .ok [b 0]
  | .imm v => andThen (evalInt itInt8 v) fun w => .ok [b 0, b (toByte w)]
  | _ => .error .other

/-- `DecodeBBR_BBS` -/
def decodeBBR (cfg : Cfg) (cpu pc code : Nat) : Opnd → Except Err (List Byte)
  | .bitRel p v t =>
    if !cpuAllowed cpu bbrCpuMask then .error .cpu
    else if zeroMode p = 1 then .error .invAddrMode
    else andThen (evalInt itUInt8 v) fun z => andThen (evalInt itUInt16 t) fun a =>
      let adr := toInteger (a - ((pc + cfg.bbrOfs : Nat) : Int))
      if adr > cfg.bbrMax ∨ adr < cfg.bbrMin then .error .jmpDist
      else .ok [b code, b (toByte z), b (toByte adr)]
  | _ => .error .other

/-- `DecodeRMB_SMB` -/
def decodeRMB (cpu code : Nat) : Opnd → Except Err (List Byte)
  | .bit p v =>
    if !cpuAllowed cpu rmbCpuMask then .error .cpu
    else if zeroMode p = 1 then .error .invAddrMode
    else andThen (evalInt itUInt8 v) fun z => .ok [b code, b (toByte z)]
  | _ => .error .other

/-- `LookupInstTable` calling the registered handler -/
def dispatch (cfg : Cfg) (cpu pc : Nat) (m : Mn) : Handler → Opnd → Except Err (List Byte)
  | .fixed flag code => decodeFixed cpu flag code
  | .norm codes => decodeNorm cfg cpu m codes
  | .cond flag short long => decodeCond cfg cpu pc flag short long
  | .brk => decodeBRK
  | .bbr code => decodeBBR cfg cpu pc code
  | .rmb code => decodeRMB cpu code

/-- `MakeCode_65` for an instruction statement at program counter `pc` -/
def encode (cfg : Cfg) (cpu pc : Nat) (s : Src) : Except Err (List Byte) :=
  match lookup s.mn with
  | none => .error .unknownInstr
  | some h => dispatch cfg cpu pc s.mn h s.op

end AslModel.Isa.I6502
