import AslModel.Model.Isa.Common
import AslModel.Generated.Isa_Pic
/-!
# MODEL: code16c8x.c (C14) - CPUs 16C64, 16C84, 16C873, 16C874, 16C876, 16C877

`MakeCode_16c8x` → `LookupInstTable` → `Decode*`, over the `InstTable` that `InitFields()` builds and with the
IntTypes and range limits of the handlers regenerated from the C source (`Generated/Isa_Pic.lean`,
collected in `Cfg`); masks, shifts and opcode constants of the word composition are transcribed.  One function per C function.  Operands are values (after `EvalStrIntExpression*`); the
spellings `W` / `F` of the destination operand are the values 0 / 1 (`DecodeAri` produces the same word for
`W` and `0`, for `F` and `1`).  `WAsmCode[]` words are stored low byte first (`Grans[SegCode] = 2`).
Warnings (`ErrNum_Obsolete` for `OPTION`/`TRIS`) do not change the emitted code and are not modelled.
-/
namespace AslModel.Isa.IPic
open AslModel.PFile (Byte b)
open AslModel.Spec.IPic (Mn Src)
open AslModel.Generated.IsaPic (Handler instTable)

/-- the range constants of the decode handlers, from the C source: the `IntType` each operand is evaluated with
(`EvalStrIntExpression*(…, type, …)`), the limits of `ChkRange` in `DecodeTRIS` (per CPU), `SegLimits[SegCode]` as
`SwitchTo_16c8x()` leaves it (per CPU) and the `AddCodeSpace` it added -/
structure Cfg where
  fType : Nat
  litType : Nat
  ariType : Nat
  bitType : Nat
  trisType : Nat
  trisMin : List Nat
  trisMax : List Nat
  jumpType : Nat
  bankType : Nat
  segLimitCode : List Nat
  addCodeSpace : Nat
deriving Repr, DecidableEq

open AslModel.Generated.IsaPic in
def genCfg : Cfg :=
  { fType := fType, litType := litType, ariType := ariType, bitType := bitType, trisType := trisType,
    trisMin := trisMin, trisMax := trisMax, jumpType := jumpType, bankType := bankType,
    segLimitCode := segLimitCode, addCodeSpace := addCodeSpace }

/-- `LookupInstTable` -/
def lookup (m : Mn) : Option Handler := instTable.lookup m

/-- a C `Word` -/
def w16 (x : Nat) : Nat := x % 65536

/-- one `WAsmCode[]` word in the code file: low byte, high byte -/
def emitW (w : Nat) : List Byte := [b (w16 w % 256), b (w16 w / 256)]

def emitWords (ws : List Nat) : List Byte := ws.flatMap emitW

/-- `EvalFExpression`: `EvalStrIntExpressionWithResult(pArg, fType, …)`, then `h & 0x7f` as a `Word` -/
def evalF (cfg : Cfg) (v : Int) : Except Err Nat :=
  andThen (evalInt cfg.fType v) fun h => .ok (toWord h &&& 0x7f)

def decodeFixed (code : Nat) (args : List Int) : Except Err (List Byte) :=
  match args with
  | [] => .ok (emitW code)
  | _ => .error .argCnt

/-- `WAsmCode[CodeLen++] = Code | Lo(AdrWord)` -/
def decodeLit (cfg : Cfg) (code : Nat) (args : List Int) : Except Err (List Byte) :=
  match args with
  | [k] => andThen (evalInt cfg.litType k) fun v => .ok (emitW (code ||| lo (toWord v)))
  | _ => .error .argCnt

/-- `AddAri`: `NCode | (NDir << 15)` as a `Word` -/
def packAri (code dir : Nat) : Nat := w16 (code ||| (dir <<< 15))

/-- `DecodeAri(Word Code)`: one operand ⇒ default direction; second operand `W`/`F`/expression of type `ariType` -/
def decodeAri (cfg : Cfg) (packed : Nat) (args : List Int) : Except Err (List Byte) :=
  let defaultDir := (packed >>> 8) &&& 0x80
  let code := packed &&& 0x7fff
  match args with
  | [f] => andThen (evalF cfg f) fun a => .ok (emitW (code ||| a ||| defaultDir))
  | [f, d] =>
    andThen (evalF cfg f) fun a => andThen (evalInt cfg.ariType d) fun x =>
      .ok (emitW (code ||| a ||| (toWord x <<< 7)))
  | _ => .error .argCnt

/-- `DecodeBit`: the bit number is evaluated first -/
def decodeBit (cfg : Cfg) (code : Nat) (args : List Int) : Except Err (List Byte) :=
  match args with
  | [f, bit] =>
    andThen (evalInt cfg.bitType bit) fun x => andThen (evalF cfg f) fun a =>
      .ok (emitW (a ||| (code ||| (toWord x <<< 7))))
  | _ => .error .argCnt

def decodeF (cfg : Cfg) (code : Nat) (args : List Int) : Except Err (List Byte) :=
  match args with
  | [f] => andThen (evalF cfg f) fun a => .ok (emitW (code ||| a))
  | _ => .error .argCnt

/-- `DecodeTRIS`: `ChkRange(AdrWord, trisMin, trisMax)` reports underflow or overflow -/
def decodeTRIS (cfg : Cfg) (cpu : Nat) (args : List Int) : Except Err (List Byte) :=
  match args with
  | [p] =>
    andThen (evalInt cfg.trisType p) fun v =>
      let a := toWord v
      match cfg.trisMin[cpu]?, cfg.trisMax[cpu]? with
      | some mn, some mx =>
        if a < mn then .error .underRange
        else if a > mx then .error .overRange
        else .ok (emitW (0x0060 ||| a))
      | _, _ => .error .other
  | _ => .error .argCnt

/-- the `for (RegBit = 3, Mask = 0x800; RegBit <= 4; RegBit++, Mask <<= 1)` loop of `DecodeJump`;
`n` = remaining iterations -/
def pageWords (xorVal adr : Nat) : Nat → Nat → Nat → List Nat
  | 0, _, _ => []
  | n + 1, regBit, mask =>
    (if xorVal &&& mask ≠ 0 then
      [w16 (0x100a ||| (regBit <<< 7) ||| ((adr &&& mask) >>> (regBit - 2)))]
    else []) ++ pageWords xorVal adr n (regBit + 1) (w16 (mask <<< 1))

/-- `DecodeJump(Word Index)` at `ProgCounter() = pc` -/
def decodeJump (cfg : Cfg) (code : Nat) (cpu pc : Nat) (args : List Int) : Except Err (List Byte) :=
  match args with
  | [t] =>
    andThen (evalInt cfg.jumpType t) fun v =>
      let adr := toWord v
      match cfg.segLimitCode[cpu]? with
      | none => .error .other
      | some lim =>
        if (adr : Int) > (lim : Int) - (cfg.addCodeSpace : Int) then .error .overRange
        else
          -- `XORVal = (ProgCounter() ^ AdrWord) & ~0x7ff`: `~0x7ff` is an `int`, the result is stored in a `Word`
          let xorVal := w16 (pc ^^^ adr) &&& (65535 - 0x7ff)
          .ok (emitWords (pageWords xorVal adr (4 + 1 - 3) 3 0x800 ++ [code ||| (adr &&& 0x7ff)]))
  | _ => .error .argCnt

def decodeBANKSEL (cfg : Cfg) (args : List Int) : Except Err (List Byte) :=
  match args with
  | [a] =>
    andThen (evalInt cfg.bankType a) fun v =>
      let adr := toWord v
      .ok (emitWords [0x1283 ||| ((adr &&& 0x80) <<< 3), 0x1303 ||| ((adr &&& 0x100) <<< 2)])
  | _ => .error .argCnt

/-- `LookupInstTable` calling the registered handler with its `Word` -/
def dispatch (cfg : Cfg) (cpu pc : Nat) : Handler → List Int → Except Err (List Byte)
  | .fixed code => decodeFixed code
  | .lit code => decodeLit cfg code
  | .ari code dir => decodeAri cfg (packAri code dir)
  | .bit code => decodeBit cfg code
  | .f code => decodeF cfg code
  | .tris _ => decodeTRIS cfg cpu
  | .jump code => decodeJump cfg code cpu pc
  | .banksel _ => decodeBANKSEL cfg

/-- `MakeCode_16c8x` for an instruction statement; `cpu` = `MomCPU - CPU16C64`, `pc` = `ProgCounter()` (words) -/
def encode (cfg : Cfg) (cpu pc : Nat) (s : Src) : Except Err (List Byte) :=
  match lookup s.mn with
  | none => .error .unknownInstr
  | some h => dispatch cfg cpu pc h s.args

end AslModel.Isa.IPic
