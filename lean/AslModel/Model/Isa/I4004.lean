import AslModel.Model.Isa.Common
import AslModel.Generated.Isa_4004
/-!
# MODEL: code4004.c (C14)

`MakeCode_4004` → `LookupInstTable` → `Decode*`, over the `InstTable` that `InitFields()` builds
(regenerated from the C source: `Generated/Isa_4004.lean`).  One function per C function.
Operands are values: `Rn` ↦ n, `RnP`/`RnRn+1` ↦ pair index n/2 (`DecodeRRegCore` hands back 2·index).
-/
namespace AslModel.Isa.I4004
open AslModel.PFile (Byte b)
open AslModel.Spec.I4004 (Mn Src)
open AslModel.Generated.Isa4004
open AslModel.Generated (itUInt4 itUInt12 itInt8)

/-- the constants of the two page checks, from the C source -/
structure Cfg where
  iszOfs : Nat
  iszBits : Nat
  jcnOfs : Nat
deriving Repr, DecidableEq

def genCfg : Cfg := ⟨iszPageOfs, iszPageBits, jcnPageOfs⟩

/-- `LookupInstTable` -/
def lookup (m : Mn) : Option Handler := instTable.lookup m

/-- `DecodeReg`: register operand (value) -/
def decodeReg (r : Int) : Except Err Nat := if 0 ≤ r ∧ r ≤ 15 then .ok r.toNat else .error .other
/-- `DecodeRReg`: pair operand; result is the even register number -/
def decodeRReg (p : Int) : Except Err Nat := if 0 ≤ p ∧ p ≤ 7 then .ok (2 * p.toNat) else .error .other

/-- `AddFixed`: `NCode |= (NMin - CPU4004) << 8` -/
def packFixed (code minCpu : Nat) : Nat := (code ||| (minCpu <<< 8)) % 65536

def decodeFixed (cpu : Nat) (code : Nat) (args : List Int) : Except Err (List Byte) :=
  if args.length ≠ 0 then .error .argCnt
  else if cpu < hi code then .error .cpu
  else .ok [b (lo code)]

def decodeOneReg (code : Nat) (args : List Int) : Except Err (List Byte) :=
  match args with
  | [r] =>
    match decodeReg r with
    | .ok e => .ok [b (lo code + e)]
    | .error x => .error x
  | _ => .error .argCnt

def decodeOneRReg (code : Nat) (args : List Int) : Except Err (List Byte) :=
  match args with
  | [p] =>
    match decodeRReg p with
    | .ok e => .ok [b (lo code + e)]
    | .error x => .error x
  | _ => .error .argCnt

/-- `DecodeAccReg`: the optional leading `A` is spelling; the register is the last argument -/
def decodeAccReg (code : Nat) (args : List Int) : Except Err (List Byte) :=
  match args with
  | [r] =>
    match decodeReg r with
    | .ok e => .ok [b (lo code + e)]
    | .error x => .error x
  | _ => .error .argCnt

def decodeImm4 (code : Nat) (args : List Int) : Except Err (List Byte) :=
  match args with
  | [d] =>
    match evalInt itUInt4 d with
    | .ok v => .ok [b (toByte v + lo code)]
    | .error x => .error x
  | _ => .error .argCnt

def decodeFullJmp (idx : Nat) (args : List Int) : Except Err (List Byte) :=
  match args with
  | [a] =>
    match evalInt itUInt12 a with
    | .ok v => .ok [b (0x40 + (idx <<< 4) + hi (toWord v)), b (lo (toWord v))]
    | .error x => .error x
  | _ => .error .argCnt

/-- `ChkSamePage(Curr, Dest, bits, flags)` with clear flags -/
def chkSamePage (curr dest bits : Nat) : Bool := curr / 2 ^ bits == dest / 2 ^ bits

def decodeISZ (cfg : Cfg) (pc : Nat) (args : List Int) : Except Err (List Byte) :=
  match args with
  | [r, a] =>
    match decodeReg r with
    | .error x => .error x
    | .ok e =>
      match evalInt itUInt12 a with
      | .error x => .error x
      | .ok v =>
        if chkSamePage (pc + cfg.iszOfs) (toWord v) cfg.iszBits then .ok [b (0x70 + e), b (lo (toWord v))]
        else .error .diffPage
  | _ => .error .argCnt

/-- the condition is a value here (`TZ` ↦ 5 is spelling) -/
def decodeJCN (cfg : Cfg) (pc : Nat) (args : List Int) : Except Err (List Byte) :=
  match args with
  | [c, a] =>
    match evalInt itUInt4 c with
    | .error x => .error x
    | .ok cv =>
      match evalInt itUInt12 a with
      | .error x => .error x
      | .ok v =>
        if hi (pc + cfg.jcnOfs) ≠ hi (toWord v) then .error .jmpDist
        else .ok [b (toByte cv ||| 0x10), b (lo (toWord v))]
  | _ => .error .argCnt

def decodeFIM (args : List Int) : Except Err (List Byte) :=
  match args with
  | [p, d] =>
    match decodeRReg p with
    | .error x => .error x
    | .ok e =>
      match evalInt itInt8 d with
      | .error x => .error x
      | .ok v => .ok [b (e ||| 0x20), b (toByte v)]
  | _ => .error .argCnt

/-- `MakeCode_4004` for an instruction statement: `cpu` = `MomCPU - CPU4004`, `pc` = `EProgCounter()` -/
def encode (cfg : Cfg) (cpu pc : Nat) (s : Src) : Except Err (List Byte) :=
  match lookup s.mn with
  | none => .error .unknownInstr
  | some (.fixed code minCpu) => decodeFixed cpu (packFixed code minCpu) s.args
  | some (.oneReg code) => decodeOneReg code s.args
  | some (.oneRReg code) => decodeOneRReg code s.args
  | some (.accReg code) => decodeAccReg code s.args
  | some (.imm4 code) => decodeImm4 code s.args
  | some (.jcn _) => decodeJCN cfg pc s.args
  | some (.fullJmp idx) => decodeFullJmp idx s.args
  | some (.isz _) => decodeISZ cfg pc s.args
  | some (.fim _) => decodeFIM s.args

end AslModel.Isa.I4004
