import AslModel.Model.Isa.Common
import AslModel.Generated.Isa_Z80
/-!
# MODEL: codez80.c on CPU `Z80` (C14)

`MakeCode_Z80` → `LookupInstTable` → `Decode*` over the `InstTable` regenerated from `InitFields()`,
restricted to the documented Z80 mnemonics and `MomCPU = CPUZ80` (so `ChkMinCPU(CPUZ180/CPUZ380)` and
`ChkExactCPU(CPUZ80U)` fail with `ErrNum_InstructionNotSupported`, `ExtFlag`/`LWordFlag` are off, no
`DDIR` prefix is pending).

Operands arrive as `Spec.IZ80.Opnd`, the parse of the operand text; numeric values are already evaluated
(`Int`, no forward references).  Where the C code compares the operand *string* (`"A"`, `"HL"`, `"(C)"`,
`"(SP)"`, `"AF"`, condition names …) the model compares the operand's shape (`erase`), where it calls
`DecodeAdr` the model calls `decodeAdr`, where it evaluates an expression operand
(`EvalStrIntExpression…(&ArgStr[k], Typ, &OK)`) the model range-checks the operand's value (`evalArg`).

Structure: a handler computes the *layout* of the instruction - literal bytes and references to the
`AdrVals` left by `DecodeAdr` / to evaluated values - from what these three operations yield per operand
(`AOp`); the C handlers never look into `AdrVals` on this CPU.  `BIT/SET/RES`, `RST`, `IM`, `JR`, `DJNZ`
put operand values into opcode bits or compare them with the program counter and are modelled directly.
-/
namespace AslModel.Isa.IZ80
open AslModel.PFile (Byte b)
open AslModel.Spec.IZ80 (Mn Src Opnd R8 R16 Cc valOf)
open AslModel.Generated.IsaZ80
open AslModel.Generated (itInt8 itInt16 itUInt8 itUInt16 itSInt8 itUInt3 itUInt2)

/-- behaviour flags taken from a probe of the current assembler (known findings): statements outside
the Z80 instruction set that codez80.c assembles on CPU Z80 -/
structure Cfg where
  subHLAbs : Bool
  subSPImm : Bool
  inIndHL : Bool
  outIndHL : Bool
deriving DecidableEq, Repr

def genCfg : Cfg := ⟨quirkSubHLAbs, quirkSubSPImm, quirkInIndHL, quirkOutIndHL⟩
/-- the documented instruction set only -/
def cleanCfg : Cfg := ⟨false, false, false, false⟩

def lookup (m : Mn) : Option Handler := instTable.lookup m

def ixPrefix : Nat := 0xdd
def iyPrefix : Nat := 0xfd
def idxPre (y : Bool) : Nat := if y then iyPrefix else ixPrefix

/-- `AdrMode` (`ModNone` = an error has been reported = `Except.error`) -/
inductive Mode where
  | reg8 | reg16 | indReg16 | imm | abs | ref | int | spRel
deriving DecidableEq, Repr

/-- what `DecodeAdr` leaves behind: `AdrMode`, `AdrPart`, `AdrCnt`, and the prefix bytes it appended
(`BAsmCode[PrefixCnt++] = …`) -/
structure Adr where
  mode : Mode
  part : Nat
  cnt : Nat
  pre : List Nat
deriving DecidableEq, Repr

/-- `DecodeAdr(&ArgStr[k])` with `OpSize = sz` (`0xff` = undefined): register names, `(HL)`, `(BC)`/`(DE)`,
`(IX+d)` (displacement `SInt8`), `(SP)` = `(SP+0)`, `(nn)` (`UInt16`), immediate by `OpSize`
(`Int8` / `Int16`); other texts are symbols the program does not define -/
def decodeAdr (sz : Nat) : Opnd → Except Err Adr
  | .regR => .ok ⟨.ref, 0, 0, []⟩
  | .regI => .ok ⟨.int, 0, 0, []⟩
  | .r8 r => .ok ⟨.reg8, r.code, 0, []⟩
  | .r16 r => .ok ⟨.reg16, r.code, 0, []⟩
  | .xy y => .ok ⟨.reg16, 2, 0, [idxPre y]⟩
  | .indBC => .ok ⟨.indReg16, 0, 0, []⟩
  | .indDE => .ok ⟨.indReg16, 1, 0, []⟩
  | .idx y d => andThen (evalInt itSInt8 d) fun _ => .ok ⟨.reg8, 6, 1, [idxPre y]⟩
  | .idx0 y => .ok ⟨.reg8, 6, 1, [idxPre y]⟩
  | .indSP => .ok ⟨.spRel, 0, 1, []⟩
  | .mem a => andThen (evalInt itUInt16 a) fun _ => .ok ⟨.abs, 0, 2, []⟩
  | .imm v =>
    if sz = 0 then andThen (evalInt itInt8 v) fun _ => .ok ⟨.imm, 0, 1, []⟩
    else if sz = 1 then andThen (evalInt itInt16 v) fun _ => .ok ⟨.imm, 0, 2, []⟩
    else .error .other
  | .af | .af' | .indC | .cc _ => .error .other

/-- `AdrVals[0 .. AdrCnt)` after a successful `DecodeAdr` -/
def adrVals (sz : Nat) : Opnd → List Nat
  | .idx _ d => [toByte d]
  | .idx0 _ => [0]
  | .indSP => [0]
  | .mem a => [lo (toWord a), hi (toWord a)]
  | .imm v => if sz = 0 then [toByte v] else if sz = 1 then [lo (toWord v), hi (toWord v)] else []
  | _ => []

/-- `EvalStrIntExpression…(&ArgStr[k], typ, &OK)` on an operand that is an expression (plain or in
parentheses); register names etc. are undefined symbols -/
def evalArg (typ : Nat) (o : Opnd) : Except Err Int :=
  match valOf o with
  | some v => evalInt typ v
  | none => .error .other

/-- the operand text up to the numeric values (what string comparisons see) -/
def erase : Opnd → Opnd
  | .idx y _ => .idx y 0
  | .mem _ => .mem 0
  | .imm _ => .imm 0
  | o => o

/-- `DecodeCondition` over the regenerated `Conditions[]` (keyed by the operand the name is spelled like) -/
def condOf (o : Opnd) : Option Nat := conditions.lookup o

/-- everything a handler learns about one operand -/
structure AOp where
  /-- the operand text up to numeric values -/
  sh : Opnd
  /-- `DecodeAdr` on it with the given `OpSize` -/
  adr : Nat → Except Err Adr
  /-- does `EvalStrIntExpression(arg, UInt8, &OK)` / `EvalAbsAdrExpression(arg, ..)` (= `UInt16`) succeed on it? -/
  evU8 : Except Err Unit
  evU16 : Except Err Unit

def absOf (o : Opnd) : AOp :=
  ⟨erase o, fun sz => decodeAdr sz o, andThen (evalArg itUInt8 o) fun _ => .ok (), andThen (evalArg itUInt16 o) fun _ => .ok ()⟩

/-- one element of the instruction's byte layout -/
inductive Piece where
  /-- `BAsmCode[..] = n` -/
  | lit (n : Nat)
  /-- all `AdrVals` of operand `k` decoded with `OpSize = sz` (`memcpy(.., AdrVals, AdrCnt)`, `AppendAdrVals`, `HVals`) -/
  | adr (k sz : Nat)
  /-- `AdrVals[0]` of operand `k` -/
  | adr0 (k sz : Nat)
  /-- `Lo` / `Hi` of the 16-bit value of expression operand `k`; its low byte -/
  | evLo (k : Nat) | evHi (k : Nat) | ev8 (k : Nat)
deriving DecidableEq, Repr

def lits (ns : List Nat) : List Piece := ns.map .lit

def realize1 (ops : List Opnd) : Piece → List Nat
  | .lit n => [n]
  | .adr k sz => adrVals sz (ops.getD k (.imm 0))
  | .adr0 k sz => (adrVals sz (ops.getD k (.imm 0))).take 1
  | .evLo k => [lo (toWord ((valOf (ops.getD k (.imm 0))).getD 0))]
  | .evHi k => [hi (toWord ((valOf (ops.getD k (.imm 0))).getD 0))]
  | .ev8 k => [toByte ((valOf (ops.getD k (.imm 0))).getD 0)]

def realize (ops : List Opnd) (ps : List Piece) : List Byte :=
  (ps.flatMap (realize1 ops)).map b

abbrev L := Except Err (List Piece)

def cpuErr : L := .error .cpu
def modeErr : L := .error .invAddrMode

/-- `DecodeFixed`: `ChkArgCnt(0, 0) && ChkMinCPU(POrder->MinCPU)` -/
def layFixed (minCpu len code : Nat) (ops : List AOp) : L :=
  match ops with
  | [] => if minCpu > 0 then cpuErr else if len = 2 then .ok [.lit (hi code), .lit (lo code)] else .ok [.lit (lo code)]
  | _ => .error .argCnt

/-- `DecodeAcc`: optional operand `A` -/
def layAcc (minCpu len code : Nat) (ops : List AOp) : L :=
  let emit : L := if len = 2 then .ok [.lit (hi code), .lit (lo code)] else .ok [.lit (lo code)]
  match ops with
  | [] => if minCpu > 0 then cpuErr else emit
  | [a] => if minCpu > 0 then cpuErr else if a.sh = .r8 .A then emit else modeErr
  | _ => .error .argCnt

/-- `IndexPrefix()` -/
def indexPrefix (pre : List Nat) : Bool :=
  match pre.getLast? with
  | some p => p == ixPrefix || p == iyPrefix
  | none => false

/-- `DecodeLD` with `IsLDW = 0` -/
def layLD (ops : List AOp) : L :=
  match ops with
  | [a1, a2] =>
    andThen (a1.adr 0xff) fun r1 =>
    match r1.mode with
    | .reg8 =>
      if r1.part = 7 then                                  -- LD A,…
        andThen (a2.adr 0) fun r2 =>
        let pre := r1.pre ++ r2.pre
        match r2.mode with
        | .reg8 => .ok (lits pre ++ [.lit (0x78 + r2.part), .adr 1 0])
        | .indReg16 => .ok (lits pre ++ [.lit (0x0a + (r2.part <<< 4))])
        | .imm => .ok (lits pre ++ [.lit 0x3e, .adr0 1 0])
        | .abs => .ok (lits pre ++ [.lit 0x3a, .adr 1 0])
        | .ref => .ok (lits pre ++ [.lit 0xed, .lit 0x5f])
        | .int => .ok (lits pre ++ [.lit 0xed, .lit 0x57])
        | _ => modeErr
      else if r1.part ≠ 6 ∧ r1.pre = [] then               -- LD R8,…
        andThen (a2.adr 0) fun r2 =>
        let pre := r1.pre ++ r2.pre
        match r2.mode with
        | .reg8 =>
          if (r1.part = 4 ∨ r1.part = 5) ∧ indexPrefix pre = true ∧ r2.cnt = 0 then modeErr
          else .ok (lits pre ++ [.lit (0x40 + (r1.part <<< 3) + r2.part), .adr 1 0])
        | .imm => .ok [.lit (0x06 + (r1.part <<< 3)), .adr0 1 0]
        | _ => modeErr
      else if r1.part = 4 ∨ r1.part = 5 then .error .other  -- LD RX8,…: IXL… do not exist on this CPU (unreachable)
      else                                                 -- LD (HL)/(XY+d),…
        andThen (a2.adr 0) fun r2 =>
        let pre := r1.pre ++ r2.pre
        match r2.mode with
        | .reg8 =>
          if r2.pre ≠ [] ∨ r2.part = 6 then modeErr
          else .ok (lits pre ++ [.lit (0x70 + r2.part), .adr 0 0xff])
        | .imm => .ok (lits pre ++ [.lit 0x36, .adr 0 0xff, .adr0 1 0])
        | .reg16 => cpuErr
        | _ => modeErr
    | .reg16 =>
      if r1.part = 3 then                                  -- LD SP,…
        andThen (a2.adr 1) fun r2 =>
        let pre := r1.pre ++ r2.pre
        match r2.mode with
        | .reg16 => if r2.part ≠ 2 then modeErr else .ok (lits pre ++ [.lit 0xf9])
        | .imm => .ok (lits pre ++ [.lit 0x31, .adr 1 1])
        | .abs => .ok (lits pre ++ [.lit 0xed, .lit 0x7b, .adr 1 1])
        | _ => modeErr
      else if r1.pre = [] then                             -- LD R16,…
        let adrByte := if r1.part = 2 then 3 else r1.part
        andThen (a2.adr 1) fun r2 =>
        let pre := r1.pre ++ r2.pre
        match r2.mode with
        | .int => cpuErr
        | .reg8 => if r2.part ≠ 6 then modeErr else cpuErr
        | .reg16 => if r2.part = 3 then modeErr else cpuErr
        | .indReg16 => cpuErr
        | .imm => .ok (lits pre ++ [.lit (0x01 + ((if adrByte = 3 then 2 else adrByte) <<< 4)), .adr 1 1])
        | .abs =>
          if adrByte = 3 then .ok (lits pre ++ [.lit 0x2a, .adr 1 1])
          else .ok (lits pre ++ [.lit 0xed, .lit (0x4b + (adrByte <<< 4)), .adr 1 1])
        | .spRel => cpuErr
        | .ref => modeErr
      else                                                 -- LD XY,…
        andThen (a2.adr 1) fun r2 =>
        let pre := r1.pre ++ r2.pre
        match r2.mode with
        | .reg8 => if r2.part ≠ 6 then modeErr else cpuErr
        | .reg16 => cpuErr
        | .indReg16 => cpuErr
        | .imm => .ok (lits pre ++ [.lit 0x21, .adr 1 1])
        | .abs => .ok (lits pre ++ [.lit 0x2a, .adr 1 1])
        | .spRel => cpuErr
        | _ => modeErr
    | .indReg16 =>
      andThen (a2.adr 0) fun r2 =>
      match r2.mode with
      | .reg8 => if r2.part ≠ 7 then modeErr else .ok [.lit (0x02 + (r1.part <<< 4))]
      | .reg16 => if r2.part = 3 then modeErr else cpuErr
      | _ => modeErr
    | .abs =>
      andThen (a2.adr 0) fun r2 =>
      let pre := r1.pre ++ r2.pre
      match r2.mode with
      | .reg8 => if r2.part ≠ 7 then modeErr else .ok (lits pre ++ [.lit 0x32, .adr 0 0xff])
      | .reg16 =>
        if r2.part = 2 then .ok (lits pre ++ [.lit 0x22, .adr 0 0xff])
        else .ok (lits pre ++ [.lit 0xed, .lit (0x43 + (r2.part <<< 4)), .adr 0 0xff])
      | _ => modeErr
    | .int => if a2.sh = .r8 .A then .ok [.lit 0xed, .lit 0x47] else if a2.sh = .r16 .HL then cpuErr else modeErr
    | .ref => if a2.sh = .r8 .A then .ok [.lit 0xed, .lit 0x4f] else modeErr
    | .spRel => cpuErr
    | .imm => modeErr
  | _ => .error .argCnt

/-- `DecodeALU8` (`SUB AND OR XOR CP`): implicit or explicit destination -/
def layALU8 (cfg : Cfg) (code : Nat) (ops : List AOp) : L :=
  let go (destSh : Opnd) (src : AOp) (k : Nat) : L :=
    if destSh = .r16 .HL then
      if code ≠ 2 then modeErr
      else if !cfg.subHLAbs then .error .other
      else
        andThen (src.adr 1) fun r =>
        match r.mode with
        | .abs => .ok (lits r.pre ++ [.lit 0xed, .lit 0xd6, .adr k 1])
        | _ => modeErr
    else if destSh = .r16 .SP then
      if code ≠ 2 then modeErr
      else if !cfg.subSPImm then .error .other
      else
        andThen (src.adr 1) fun r =>
        match r.mode with
        | .imm => .ok [.lit 0xed, .lit 0x92, .adr k 1]
        | _ => modeErr
    else if destSh ≠ .r8 .A then modeErr
    else
      andThen (src.adr 0) fun r =>
      match r.mode with
      | .reg8 => .ok (lits r.pre ++ [.lit (0x80 + (code <<< 3) + r.part), .adr k 0])
      | .imm => .ok [.lit (0xc6 + (code <<< 3)), .adr0 k 0]
      | _ => modeErr
  match ops with
  | [s] => go (.r8 .A) s 0
  | [d, s] => go d.sh s 1
  | _ => .error .argCnt

/-- `DecodeADD` -/
def layADD (ops : List AOp) : L :=
  match ops with
  | [a1, a2] =>
    andThen (a1.adr 0xff) fun r1 =>
    match r1.mode with
    | .reg8 =>
      if r1.part ≠ 7 then modeErr
      else
        andThen (a2.adr 0) fun r2 =>
        let pre := r1.pre ++ r2.pre
        match r2.mode with
        | .reg8 => .ok (lits pre ++ [.lit (0x80 + r2.part), .adr 1 0])
        | .imm => .ok (lits pre ++ [.lit 0xc6, .adr 1 0])
        | _ => modeErr
    | .reg16 =>
      if r1.part = 3 then
        andThen (a2.adr 0) fun r2 =>
        match r2.mode with
        | .imm => cpuErr
        | _ => modeErr
      else if r1.part ≠ 2 then modeErr
      else
        andThen (a2.adr 1) fun r2 =>
        let pre := r1.pre ++ r2.pre
        match r2.mode with
        | .reg16 =>
          if r2.part = 2 ∧ pre ≠ [] ∧ (pre.length ≠ 2 ∨ pre.getD 0 0 ≠ pre.getD 1 0) then modeErr
          else .ok (lits (if pre.length = 2 then pre.take 1 else pre) ++ [.lit (0x09 + (r2.part <<< 4))])
        | .abs => if r1.pre ≠ [] then modeErr else cpuErr
        | _ => modeErr
    | _ => modeErr
  | _ => .error .argCnt

/-- `DecodeADC_SBC` -/
def layADC_SBC (isSbc : Nat) (ops : List AOp) : L :=
  match ops with
  | [a1, a2] =>
    andThen (a1.adr 0xff) fun r1 =>
    match r1.mode with
    | .reg8 =>
      if r1.part ≠ 7 then modeErr
      else
        andThen (a2.adr 0) fun r2 =>
        let pre := r1.pre ++ r2.pre
        let adj := if isSbc ≠ 0 then 0x10 else 0
        match r2.mode with
        | .reg8 => .ok (lits pre ++ [.lit (0x88 + r2.part + adj), .adr 1 0])
        | .imm => .ok (lits pre ++ [.lit (0xce + adj), .adr 1 0])
        | _ => modeErr
    | .reg16 =>
      if r1.part ≠ 2 ∨ r1.pre ≠ [] then modeErr
      else
        andThen (a2.adr 1) fun r2 =>
        match r2.mode with
        | .reg16 =>
          if r2.pre ≠ [] then modeErr
          else .ok [.lit 0xed, .lit (0x42 + (r2.part <<< 4) + (if isSbc ≠ 0 then 0 else 8))]
        | _ => modeErr
    | _ => modeErr
  | _ => .error .argCnt

/-- `DecodeINC_DEC` (`Index` 0 = INC, 1 = DEC) -/
def layINC_DEC (idx : Nat) (ops : List AOp) : L :=
  let isDec := idx % 2
  let isWord := idx / 2 % 2
  match ops with
  | [a] =>
    andThen (a.adr 0xff) fun r =>
    match r.mode with
    | .reg8 => if isWord ≠ 0 then modeErr else .ok (lits r.pre ++ [.lit (0x04 + (r.part <<< 3) + isDec), .adr 0 0xff])
    | .reg16 => .ok (lits r.pre ++ [.lit (0x03 + (r.part <<< 4) + (isDec <<< 3))])
    | _ => modeErr
  | _ => .error .argCnt

/-- `DecodeShift8` (`Code ≠ 6`) -/
def layShift8 (code : Nat) (ops : List AOp) : L :=
  match ops with
  | [a] =>
    if code = 6 then cpuErr else
    andThen (a.adr 0) fun r =>
    match r.mode with
    | .reg8 =>
      if r.pre ≠ [] ∧ r.part ≠ 6 then modeErr
      else .ok (lits r.pre ++ [.lit 0xcb, .adr 0 0, .lit (r.part + (code <<< 3))])
    | _ => modeErr
  | [_, a] =>
    if code = 6 then cpuErr else
    andThen (a.adr 0) fun r =>
    match r.mode with
    | .reg8 => if r.pre ≠ [] ∧ r.part ≠ 6 then modeErr else cpuErr
    | _ => modeErr
  | _ => .error .argCnt

/-- `DecodePUSH_POP`: the text `SP` is replaced by `A`, `AF` by `SP`, then `DecodeAdr` with `OpSize = 1` -/
def layPUSH_POP (code : Nat) (ops : List AOp) : L :=
  match ops with
  | [a] =>
    let r' := if a.sh = .r16 .SP then decodeAdr 1 (.r8 .A) else if a.sh = .af then decodeAdr 1 (.r16 .SP) else a.adr 1
    andThen r' fun r =>
    match r.mode with
    | .reg16 => .ok (lits r.pre ++ [.lit (0xc1 + (r.part <<< 4) + code)])
    | .imm => cpuErr
    | _ => modeErr
  | _ => .error .argCnt

/-- `DecodeEX` -/
def layEX (ops : List AOp) : L :=
  match ops with
  | [a1, a2] =>
    let parPair (x y : Opnd) : Bool := (a1.sh == x && a2.sh == y) || (a1.sh == y && a2.sh == x)
    if parPair (.r16 .DE) (.r16 .HL) then .ok [.lit 0xeb]
    else if parPair .af .af' then .ok [.lit 0x08]
    else if parPair .indSP (.r16 .HL) then .ok [.lit 0xe3]
    else if parPair .indSP (.xy false) then .ok [.lit ixPrefix, .lit 0xe3]
    else if parPair .indSP (.xy true) then .ok [.lit iyPrefix, .lit 0xe3]
    else if parPair (.r8 .iHL) (.r8 .A) then cpuErr
    else
      -- a trailing quote of the second operand is stripped: `AF'` becomes the (undefined) symbol `AF`
      let r2' : Except Err Adr := if a2.sh = .af' then .error .other else a2.adr 0xff
      andThen (a1.adr 0xff) fun r1 =>
      match r1.mode with
      | .reg8 =>
        if r1.part = 6 ∨ r1.pre ≠ [] then modeErr
        else
          andThen r2' fun r2 =>
          match r2.mode with
          | .reg8 => if r2.part = 6 ∨ r2.pre ≠ [] then modeErr else cpuErr
          | _ => modeErr
      | .reg16 =>
        if r1.part = 3 then modeErr
        else
          andThen r2' fun r2 =>
          match r2.mode with
          | .reg16 => if r2.part = 3 then modeErr else cpuErr
          | _ => modeErr
      | _ => modeErr
  | _ => .error .argCnt

/-- `DecodeIN_OUT` -/
def layIN_OUT (cfg : Cfg) (isOut : Nat) (ops : List AOp) : L :=
  match ops with
  | [_] => if isOut = 0 then cpuErr else .error .argCnt
  | [a1, a2] =>
    let port := if isOut ≠ 0 then a1 else a2
    let reg := if isOut ≠ 0 then a2 else a1
    let kport := if isOut ≠ 0 then 0 else 1
    if port.sh = .indC then
      -- `DecodeAdrWithF`: on CPU Z80 plain `DecodeAdr`, `(HL)` included (flag: known finding)
      if reg.sh = .r8 .iHL ∧ (if isOut ≠ 0 then cfg.outIndHL else cfg.inIndHL) = false then .error .other
      else
        andThen (reg.adr 0) fun r =>
        match r.mode with
        | .reg8 => if r.pre ≠ [] then modeErr else .ok [.lit 0xed, .lit (0x40 + (r.part <<< 3) + (if isOut ≠ 0 then 1 else 0))]
        | .imm => if isOut = 0 then modeErr else cpuErr
        | _ => modeErr
    else if reg.sh ≠ .r8 .A then modeErr
    else andThen (port.evU8) fun _ => .ok [.lit (if isOut ≠ 0 then 0xd3 else 0xdb), .ev8 kport]
  | _ => .error .argCnt

/-- `DecodeRET` -/
def layRET (ops : List AOp) : L :=
  match ops with
  | [] => .ok [.lit 0xc9]
  | [a] =>
    match condOf a.sh with
    | some c => .ok [.lit (0xc0 + (c <<< 3))]
    | none => .error .other
  | _ => .error .argCnt

/-- `DecodeJP`: `EvalAbsAdrExpression` = `UInt16` -/
def layJP (ops : List AOp) : L :=
  match ops with
  | [a] =>
    if a.sh = .r8 .iHL then .ok [.lit 0xe9]
    else if a.sh = .idx0 false then .ok [.lit ixPrefix, .lit 0xe9]
    else if a.sh = .idx0 true then .ok [.lit iyPrefix, .lit 0xe9]
    else andThen (a.evU16) fun _ => .ok [.lit (0xc2 + 1), .evLo 0, .evHi 0]
  | [c, a] =>
    match condOf c.sh with
    | some k => andThen (a.evU16) fun _ => .ok [.lit (0xc2 + (k <<< 3)), .evLo 1, .evHi 1]
    | none => .error .other
  | _ => .error .argCnt

/-- `DecodeCALL` -/
def layCALL (ops : List AOp) : L :=
  match ops with
  | [a] => andThen (a.evU16) fun _ => .ok [.lit (0xc4 + 9), .evLo 0, .evHi 0]
  | [c, a] =>
    match condOf c.sh with
    | some k => andThen (a.evU16) fun _ => .ok [.lit (0xc4 + (k <<< 3)), .evLo 1, .evHi 1]
    | none => .error .other
  | _ => .error .argCnt

/-- `DecodeEI_DI` -/
def layEI_DI (code : Nat) (ops : List AOp) : L :=
  match ops with
  | [] => .ok [.lit (0xf3 + code)]
  | [_] => cpuErr
  | _ => .error .argCnt

/-- handlers whose result is a layout over the operand abstractions -/
def layout (cfg : Cfg) : Handler → Option (List AOp → L)
  | .ld _ => some layLD
  | .add _ => some layADD
  | .adcSbc s => some (layADC_SBC s)
  | .incDec i => some (layINC_DEC i)
  | .pushPop c => some (layPUSH_POP c)
  | .ex _ => some layEX
  | .inOut o => some (layIN_OUT cfg o)
  | .ret _ => some layRET
  | .jp _ => some layJP
  | .call _ => some layCALL
  | .eiDi c => some (layEI_DI c)
  | .fixed mc len code => some (layFixed mc len code)
  | .acc mc len code => some (layAcc mc len code)
  | .alu8 c => some (layALU8 cfg c)
  | .shift8 c => some (layShift8 c)
  | _ => none

def bytes (ns : List Nat) : List Byte := ns.map b

/-- `DecodeBit` (`Code` 0 = BIT, 1 = RES, 2 = SET): bit number `UInt3` -/
def decodeBit (code : Nat) (ops : List Opnd) : Except Err (List Byte) :=
  match ops with
  | [bn, o] =>
    andThen (decodeAdr 0xff o) fun r =>
    match r.mode with
    | .reg8 =>
      if r.part ≠ 6 ∧ r.pre ≠ [] then .error .invAddrMode
      else andThen (evalArg itUInt3 bn) fun v =>
        .ok (bytes (r.pre ++ [0xcb] ++ adrVals 0xff o ++ [r.part + (toByte v <<< 3) + ((code + 1) <<< 6)]))
    | _ => .error .invAddrMode
  | [_, bn, o] =>
    andThen (decodeAdr 0xff o) fun r =>
    match r.mode with
    | .reg8 =>
      if r.part ≠ 6 ∧ r.pre ≠ [] then .error .invAddrMode
      else andThen (evalArg itUInt3 bn) fun _ => .error .cpu
    | _ => .error .invAddrMode
  | _ => .error .argCnt

/-- `DecodeRST`: `Int8`, then `(AdrByte > 0x38) || (AdrByte & 7)` ⇒ `ErrNum_NotFromThisAddress` -/
def decodeRST (ops : List Opnd) : Except Err (List Byte) :=
  match ops with
  | [o] =>
    andThen (evalArg itInt8 o) fun v =>
    let ab := toByte v
    if ab > 0x38 ∨ ab % 8 ≠ 0 then .error .other else .ok [b (0xc7 + ab)]
  | _ => .error .argCnt

/-- `DecodeIM`: `UInt2`; mode 3 is Z380 -/
def decodeIM (ops : List Opnd) : Except Err (List Byte) :=
  match ops with
  | [o] =>
    andThen (evalArg itUInt2 o) fun v =>
    let ab := toByte v
    if ab > 3 then .error .overRange
    else if ab = 3 then .error .cpu
    else .ok [b 0xed, b (0x46 + ((if ab ≥ 1 then ab + 1 else ab) <<< 3))]
  | _ => .error .argCnt

/-- common tail of `DecodeJR` / `DecodeDJNZ`: `AdrLInt = EvalAbsAdrExpression(..) - (EProgCounter() + 2)`,
accepted between the probed limits (`-0x80 … 0x7f`), else `ErrNum_JmpDistTooBig` (`MomCPU < CPUZ380`) -/
def relTail (dmin dmax : Int) (pc : Nat) (op : Nat) (o : Opnd) : Except Err (List Byte) :=
  andThen (evalArg itUInt16 o) fun v =>
  let d := v - ((pc : Int) + 2)
  if dmin ≤ d ∧ d ≤ dmax then .ok [b op, b (toByte d)] else .error .jmpDist

/-- `DecodeJR` -/
def decodeJR (pc : Nat) (ops : List Opnd) : Except Err (List Byte) :=
  match ops with
  | [o] => relTail jrMin jrMax pc (3 <<< 3) o
  | [c, o] =>
    match condOf (erase c) with
    | some k => if k > 3 then .error .other else relTail jrMin jrMax pc ((k + 4) <<< 3) o
    | none => .error .other
  | _ => .error .argCnt

/-- `DecodeDJNZ` -/
def decodeDJNZ (pc : Nat) (ops : List Opnd) : Except Err (List Byte) :=
  match ops with
  | [o] => relTail djnzMin djnzMax pc 0x10 o
  | _ => .error .argCnt

def mapOk {α β : Type} (f : α → β) : Except Err α → Except Err β
  | .ok v => .ok (f v)
  | .error e => .error e

/-- `LookupInstTable` calling the registered handler with its `Word` -/
def dispatch (cfg : Cfg) (pc : Nat) (h : Handler) (ops : List Opnd) : Except Err (List Byte) :=
  match layout cfg h with
  | some f => mapOk (realize ops) (f (ops.map absOf))
  | none =>
    match h with
    | .bit c => decodeBit c ops
    | .rst _ => decodeRST ops
    | .im _ => decodeIM ops
    | .jr _ => decodeJR pc ops
    | .djnz _ => decodeDJNZ pc ops
    | _ => .error .other

/-- `MakeCode_Z80` for an instruction statement at program counter `pc` -/
def encode (cfg : Cfg) (_cpu pc : Nat) (s : Src) : Except Err (List Byte) :=
  match lookup s.mn with
  | none => .error .unknownInstr
  | some h => dispatch cfg pc h s.ops

end AslModel.Isa.IZ80
