import AslModel.Model.Isa.Common
import AslModel.Generated.Isa_Avr
/-!
# MODEL: codeavr.c (C14) - first with the default `CODESEGSIZE=1` (code segment addressed in 16-bit words), the CPU argument in the last section

`MakeCode_AVR` → `LookupInstTable` → `Decode*` over the `InstTable` regenerated from the current build
(`Generated/Isa_Avr.lean`), one function per C function.  State the handlers read: `pCurrCPUProps`
(a row of `CPUProps[]`), `WrapFlag` (`WRAPMODE`), `EProgCounter()`; derived in `SwitchTo_AVR`:
`SegLimits[SegCode/SegData]`, `CodeAdrIntType`, `DataAdrIntType`, `SignMask`, `ORMask`.

Operands are values (see `Spec/Isa/IAvr.lean`): `Rn` ↦ n, `X, X+, -X, Y, Y+, -Y, Z, Z+, -Z` ↦ 0..8
(`DecodeMem` turns them into its codes), the `Y`/`Z` of `LDD/STD` ↦ 1/0 followed by the displacement
(the C code overwrites the letter by `0` and evaluates the rest).  Numbers are literals: no symbol
carries a segment (`AddrSpaceMask = 0`), nothing is first-pass-unknown or questionable.
Warnings (`ErrNum_Unpredictable`, `ErrNum_WrongSegment`) do not influence the code and are left out.
-/
namespace AslModel.Isa.IAvr
open AslModel.PFile (Byte b)
open AslModel.Spec.IAvr (Mn Src)
open AslModel.Generated.IsaAvr
open AslModel.Generated (intTypeDefs itUInt32)

/-- what the handlers read besides the statement -/
structure Ctx where
  p : Props
  wrap : Bool
  pc : Nat
deriving Repr

/-- `LookupInstTable` -/
def lookup (m : Mn) : Option Handler := instTable.lookup m

/-! ### `SwitchTo_AVR` -/

/-- `SegLimits[SegCode] = FlashEndD16 << 4 | 0xf` (words) -/
def segLimitCode (p : Props) : Nat := p.flashEndD16 * 16 + 15
/-- `SegLimits[SegData]` -/
def segLimitData (p : Props) : Nat := (if p.regsMapped then regBankSize else 0) + p.ioAreaSize + p.ramSize - 1

/-- `GetSmallestUIntType(MaxValue)` (asmpars.c): the first unsigned type of `IntTypeDefs[]` that holds the value -/
def getSmallestUIntType (maxValue : Nat) : Nat :=
  match intTypeDefs.findIdx? (fun d => decide (0 ≤ d.min) && decide ((maxValue : Int) ≤ d.max)) with
  | some i => i
  | none => itUInt32

def codeAdrIntType (p : Props) : Nat := getSmallestUIntType (segLimitCode p)
def dataAdrIntType (p : Props) : Nat := getSmallestUIntType (segLimitData p)

/-- `CutAdr` on the two's complement `LongInt`: `(Adr & SignMask) ? Adr | ORMask : Adr & SegLimits[SegCode]` with
`SignMask = (SegLimits+1) >> 1`, `ORMask = -1 - SegLimits`; written arithmetically for a limit of the form `2^n - 1`
(every device whose flash size is a power of two): test bit n-1, then sign-extend resp. reduce modulo `2^n` -/
def cutAdr (p : Props) (adr : Int) : Int :=
  let size : Int := (segLimitCode p : Int) + 1
  let signMask : Int := size / 2
  if adr / signMask % 2 ≠ 0 then adr % size - size else adr % size

/-- `x & (2^k - 1)` on a two's complement `LongInt` -/
def lowBits (x : Int) (k : Nat) : Nat := (x % 2 ^ k).toNat

/-! ### argument decoders -/

/-- `ChkCoreMask` / `ChkMinCore` -/
def chkCoreMask (p : Props) (mask : Nat) : Bool := ((1 <<< p.core) &&& mask) != 0
def chkMinCore (p : Props) (minCore : Nat) : Bool := !(decide (p.core < minCore))

/-- `DecodeReg` / `DecodeRegCore` on a register value; failure = the error of `EvalStrRegExpressionAsOperand` -/
def decodeReg (p : Props) (r : Int) : Except Err Nat :=
  if 0 ≤ r ∧ r < 32 ∧ (16 ≤ r ∨ p.core ≠ cCoreMinTiny) then .ok r.toNat else .error .other

/-- `DecodeArgReg(ArgIndex, &Reg, RegMask)` -/
def decodeArgReg (p : Props) (r : Int) (mask : Nat) : Except Err Nat :=
  andThen (decodeReg p r) fun x => if (mask >>> x) % 2 = 1 then .ok x else .error .invReg

/-- `DecodeMem`: `X, X+, -X, Y, Y+, -Y, Z, Z+, -Z` -/
def decodeMem (m : Int) : Option Nat :=
  if 0 ≤ m then
    match m.toNat with
    | 0 => some 0x1c | 1 => some 0x1d | 2 => some 0x1e
    | 3 => some 0x08 | 4 => some 0x19 | 5 => some 0x1a
    | 6 => some 0x00 | 7 => some 0x11 | 8 => some 0x12
    | _ => none
  else none

/-- `GetWordCodeAddress` (word mode: the evaluated address itself) -/
def getWordCodeAddress (p : Props) (a : Int) : Except Err Int := evalInt (codeAdrIntType p) a
/-- `GetNextCodeAddress` -/
def getNextCodeAddress (x : Ctx) : Int := (x.pc : Int) + 1

/-- `AppendCode`: one word of `WAsmCode[]`, written low byte first -/
def appendCode (w : Nat) : List Byte := [b (lo w), b (hi w)]

/-! ### handlers -/

def decodeFixed (x : Ctx) (code mask : Nat) (args : List Int) : Except Err (List Byte) :=
  match args with
  | [] => if chkCoreMask x.p mask then .ok (appendCode code) else .error .cpu
  | _ => .error .argCnt

def decodeReg1 (x : Ctx) (code mask : Nat) (args : List Int) : Except Err (List Byte) :=
  match args with
  | [a] =>
    if chkCoreMask x.p mask then
      andThen (decodeArgReg x.p a allRegMask) fun r => .ok (appendCode (code ||| (r <<< 4)))
    else .error .cpu
  | _ => .error .argCnt

def decodeReg2 (x : Ctx) (code mask : Nat) (args : List Int) : Except Err (List Byte) :=
  match args with
  | [a1, a2] =>
    if chkCoreMask x.p mask then
      andThen (decodeArgReg x.p a1 allRegMask) fun r1 => andThen (decodeArgReg x.p a2 allRegMask) fun r2 =>
        .ok (appendCode (code ||| (r2 &&& 15) ||| (r1 <<< 4) ||| ((r2 &&& 16) <<< 5)))
    else .error .cpu
  | _ => .error .argCnt

def decodeReg3 (x : Ctx) (code : Nat) (args : List Int) : Except Err (List Byte) :=
  match args with
  | [a] =>
    andThen (decodeArgReg x.p a allRegMask) fun r =>
      .ok (appendCode (code ||| (r &&& 15) ||| (r <<< 4) ||| ((r &&& 16) <<< 5)))
  | _ => .error .argCnt

def decodeImm (x : Ctx) (code : Nat) (args : List Int) : Except Err (List Byte) :=
  match args with
  | [a1, a2] =>
    andThen (decodeArgReg x.p a1 upperHalfRegMask) fun r => andThen (evalInt itImm a2) fun v =>
      let c := toWord v
      .ok (appendCode (code ||| ((c &&& 0xf0) <<< 4) ||| (c &&& 0x0f) ||| ((r &&& 0x0f) <<< 4)))
  | _ => .error .argCnt

def decodeADIW (x : Ctx) (idx : Nat) (args : List Int) : Except Err (List Byte) :=
  match args with
  | [a1, a2] =>
    if chkMinCore x.p gateAdiw then
      andThen (decodeArgReg x.p a1 upperEightEvenRegMask) fun r => andThen (evalInt itAdiw a2) fun v =>
        let c := toWord v
        .ok (appendCode (0x9600 ||| idx ||| ((r &&& 6) <<< 3) ||| (c &&& 15) ||| ((c &&& 0x30) <<< 2)))
    else .error .cpu
  | _ => .error .argCnt

/-- `LD` (index 0): register, pointer;  `ST` (index ≠ 0): pointer, register -/
def decodeLDST (x : Ctx) (idx : Nat) (args : List Int) : Except Err (List Byte) :=
  match args with
  | [a1, a2] =>
    let ra := if idx ≠ 0 then a2 else a1
    let ma := if idx ≠ 0 then a1 else a2
    andThen (decodeArgReg x.p ra allRegMask) fun r =>
      match decodeMem ma with
      | none => .error .invAddrMode
      | some mem =>
        if x.p.core = gateLdSt1200 ∧ mem ≠ 0 then .error .other   -- ErrNum_AddrMustBeAligned
        else .ok (appendCode (0x8000 ||| idx ||| (r <<< 4) ||| (mem &&& 0x0f) ||| ((mem &&& 0x10) <<< 8)))
  | _ => .error .argCnt

/-- `LDD` (index 0): register, `Y|Z`, displacement;  `STD`: `Y|Z`, displacement, register -/
def decodeLDDSTD (x : Ctx) (idx : Nat) (args : List Int) : Except Err (List Byte) :=
  match args with
  | [a1, a2, a3] =>
    if chkMinCore x.p gateLddStd then
      let ra := if idx ≠ 0 then a3 else a1
      let pa := if idx ≠ 0 then a1 else a2
      let da := if idx ≠ 0 then a2 else a3
      if pa = 0 ∨ pa = 1 then
        let idx' := if pa = 1 then (idx + 8) % 65536 else idx
        andThen (decodeArgReg x.p ra allRegMask) fun r => andThen (evalInt itLddStd da) fun v =>
          let d := toWord v
          .ok (appendCode (0x8000 ||| idx' ||| (r <<< 4) ||| (d &&& 7) ||| ((d &&& 0x18) <<< 7) ||| ((d &&& 0x20) <<< 8)))
      else .error .invAddrMode
    else .error .cpu
  | _ => .error .argCnt

/-- `IN` (index 0): register, port;  `OUT`: port, register -/
def decodeINOUT (x : Ctx) (idx : Nat) (args : List Int) : Except Err (List Byte) :=
  match args with
  | [a1, a2] =>
    let ra := if idx ≠ 0 then a2 else a1
    let ma := if idx ≠ 0 then a1 else a2
    andThen (decodeArgReg x.p ra allRegMask) fun r => andThen (evalInt itInOut ma) fun v =>
      let m := toWord v
      .ok (appendCode (0xb000 ||| idx ||| (r <<< 4) ||| (m &&& 0x0f) ||| ((m &&& 0xf0) <<< 5)))
  | _ => .error .argCnt

/-- `LDS` (index 0): register, address;  `STS`: address, register -/
def decodeLDSSTS (x : Ctx) (idx : Nat) (args : List Int) : Except Err (List Byte) :=
  match args with
  | [a1, a2] =>
    if chkCoreMask x.p maskLdsSts then
      let ra := if idx ≠ 0 then a2 else a1
      let ma := if idx ≠ 0 then a1 else a2
      andThen (decodeArgReg x.p ra allRegMask) fun r => andThen (evalInt itLdsSts ma) fun v =>
        .ok (appendCode (0x9000 ||| idx ||| (r <<< 4)) ++ appendCode (toWord v))
    else .error .cpu
  | _ => .error .argCnt

def decodeBCLRSET (idx : Nat) (args : List Int) : Except Err (List Byte) :=
  match args with
  | [a] => andThen (evalInt itBclrSet a) fun v => .ok (appendCode (0x9408 ||| (toWord v <<< 4) ||| idx))
  | _ => .error .argCnt

def decodeBit (x : Ctx) (code : Nat) (args : List Int) : Except Err (List Byte) :=
  match args with
  | [a1, a2] =>
    andThen (decodeArgReg x.p a1 allRegMask) fun r => andThen (evalInt itBit a2) fun v =>
      .ok (appendCode (code ||| (r <<< 4) ||| toWord v))
  | _ => .error .argCnt

def decodeCBR (x : Ctx) (args : List Int) : Except Err (List Byte) :=
  match args with
  | [a1, a2] =>
    andThen (decodeArgReg x.p a1 upperHalfRegMask) fun r => andThen (evalInt itCbr a2) fun v =>
      let m := toWord v ^^^ 0xff
      .ok (appendCode (0x7000 ||| ((m &&& 0xf0) <<< 4) ||| (m &&& 0x0f) ||| ((r &&& 0x0f) <<< 4)))
  | _ => .error .argCnt

def decodeSER (x : Ctx) (args : List Int) : Except Err (List Byte) :=
  match args with
  | [a] => andThen (decodeArgReg x.p a upperHalfRegMask) fun r => .ok (appendCode (0xef0f ||| ((r &&& 0x0f) <<< 4)))
  | _ => .error .argCnt

/-- `DecodePBit` over `DecodeBitArg(1, 2)` → `DecodeBitArg2(address, bit)` for a literal address (no `SegIO`
attribute): bit number `UInt3`, address `DataAdrIntType`, `ChkRange(Addr, 0, SegLimits[SegData])`,
`BitSpec = Bit | (Addr & 0xffff) << 3` (repair 99afd52; `& 0x1ff` before it); then `Adr = (BitSpec >> 3) & 0xffff`, `ChkRange(Adr, 0, 31)`.
(One argument = a bit symbol of the `BIT` statement: outside the model.) -/
def decodePBit (x : Ctx) (code : Nat) (args : List Int) : Except Err (List Byte) :=
  match args with
  | [a1, a2] =>
    andThen (evalInt itPBit a2) fun bv => andThen (evalInt (dataAdrIntType x.p) a1) fun av =>
      if av > segLimitData x.p then .error .overRange
      else
        let bit := toWord bv           -- `BitSpec & 7` of `BitSpec = Bit | (Addr & 0xffff) << 3` (Bit ≤ 7)
        let adr := av.toNat % 65536    -- `(BitSpec >> 3) & 0xffff`: the sixteen address bits that were kept
        if adr > 31 then .error .overRange else .ok (appendCode (code ||| bit ||| (adr <<< 3)))
  | _ => .error .argCnt

/-- distance the three kinds of relative branches encode: `GetWordCodeAddress() - GetNextCodeAddress()`, cut to
the program counter width under `WRAPMODE` -/
def relDist (x : Ctx) (a : Int) : Except Err Int :=
  andThen (getWordCodeAddress x.p a) fun t =>
    let d := t - getNextCodeAddress x
    .ok (if x.wrap then cutAdr x.p d else d)

def decodeRel (x : Ctx) (code : Nat) (args : List Int) : Except Err (List Byte) :=
  match args with
  | [a] =>
    andThen (relDist x a) fun d =>
      if d < -64 ∨ d > 63 then .error .jmpDist else .ok (appendCode (code ||| (lowBits d 7 <<< 3)))
  | _ => .error .argCnt

def decodeBRBSBC (x : Ctx) (idx : Nat) (args : List Int) : Except Err (List Byte) :=
  match args with
  | [a1, a2] =>
    andThen (evalInt itBrb a1) fun bv => andThen (relDist x a2) fun d =>
      if d < -64 ∨ d > 63 then .error .jmpDist
      else .ok (appendCode (0xf000 ||| idx ||| (lowBits d 7 <<< 3) ||| toWord bv))
  | _ => .error .argCnt

def decodeJMPCALL (x : Ctx) (idx : Nat) (args : List Int) : Except Err (List Byte) :=
  match args with
  | [a] =>
    if chkMinCore x.p gateJmpCall then
      andThen (getWordCodeAddress x.p a) fun t =>
        let n := t.toNat
        let k21_17 := n / 131072 % 32   -- `(AdrInt & 0x3e0000) >> 17`
        let k16 := n / 65536 % 2        -- `(AdrInt & 0x10000) >> 16`
        .ok (appendCode (0x940c ||| idx ||| (k21_17 <<< 4) ||| k16) ++ appendCode (n % 65536))
    else .error .cpu
  | _ => .error .argCnt

def decodeRJMPCALL (x : Ctx) (idx : Nat) (args : List Int) : Except Err (List Byte) :=
  match args with
  | [a] =>
    andThen (relDist x a) fun d =>
      if d < -2048 ∨ d > 2047 then .error .jmpDist else .ok (appendCode (0xc000 ||| idx ||| lowBits d 12))
  | _ => .error .argCnt

def decodeMULS (x : Ctx) (args : List Int) : Except Err (List Byte) :=
  match args with
  | [a1, a2] =>
    if chkMinCore x.p gateMuls then
      andThen (decodeArgReg x.p a1 upperHalfRegMask) fun r1 => andThen (decodeArgReg x.p a2 upperHalfRegMask) fun r2 =>
        .ok (appendCode (0x0200 ||| ((r1 &&& 15) <<< 4) ||| (r2 &&& 15)))
    else .error .cpu
  | _ => .error .argCnt

def decodeMegaMUL (x : Ctx) (idx : Nat) (args : List Int) : Except Err (List Byte) :=
  match args with
  | [a1, a2] =>
    if chkMinCore x.p gateMegaMul then
      andThen (decodeArgReg x.p a1 reg16_23Mask) fun r1 => andThen (decodeArgReg x.p a2 reg16_23Mask) fun r2 =>
        .ok (appendCode (idx ||| ((r1 &&& 7) <<< 4) ||| (r2 &&& 7)))
    else .error .cpu
  | _ => .error .argCnt

def decodeMOVW (x : Ctx) (args : List Int) : Except Err (List Byte) :=
  match args with
  | [a1, a2] =>
    if chkMinCore x.p gateMovw then
      andThen (decodeArgReg x.p a1 evenRegMask) fun r1 => andThen (decodeArgReg x.p a2 evenRegMask) fun r2 =>
        .ok (appendCode (0x0100 ||| ((r1 >>> 1) <<< 4) ||| (r2 >>> 1)))
    else .error .cpu
  | _ => .error .argCnt

/-- the register / `Z`-`Z+` operand pair shared by `DecodeLPM` and `DecodeELPM` -/
def lpmOperands (x : Ctx) (base : Nat) (a1 a2 : Int) : Except Err (List Byte) :=
  andThen (decodeArgReg x.p a1 allRegMask) fun r =>
    match decodeMem a2 with
    | none => .error .invAddrMode
    | some adr =>
      if adr ≠ 0x00 ∧ adr ≠ 0x11 then .error .invAddrMode
      else .ok (appendCode (base ||| (r <<< 4) ||| (adr &&& 1)))

def decodeLPM (x : Ctx) (args : List Int) : Except Err (List Byte) :=
  match args with
  | [] => if chkMinCore x.p gateLpm0 then .ok (appendCode 0x95c8) else .error .cpu
  | [a1, a2] => if chkMinCore x.p gateLpm2 then lpmOperands x 0x9004 a1 a2 else .error .cpu
  | _ => .error .argCnt

def decodeELPM (x : Ctx) (args : List Int) : Except Err (List Byte) :=
  if chkMinCore x.p gateElpm then
    match args with
    | [] => .ok (appendCode 0x95d8)
    | [a1, a2] => lpmOperands x 0x9006 a1 a2
    | _ => .error .argCnt
  else .error .cpu

/-- `LookupInstTable` calling the registered handler with its `Word` -/
def dispatch (x : Ctx) : Handler → List Int → Except Err (List Byte)
  | .fixed code mask => decodeFixed x code mask
  | .reg1 code mask => decodeReg1 x code mask
  | .reg2 code mask => decodeReg2 x code mask
  | .reg3 code => decodeReg3 x code
  | .imm code => decodeImm x code
  | .rel code => decodeRel x code
  | .bit code => decodeBit x code
  | .pbit code => decodePBit x code
  | .adiw idx => decodeADIW x idx
  | .ldst idx => decodeLDST x idx
  | .lddstd idx => decodeLDDSTD x idx
  | .inout idx => decodeINOUT x idx
  | .ldssts idx => decodeLDSSTS x idx
  | .bclrset idx => decodeBCLRSET idx
  | .cbr _ => decodeCBR x
  | .ser _ => decodeSER x
  | .brbsbc idx => decodeBRBSBC x idx
  | .jmpcall idx => decodeJMPCALL x idx
  | .rjmpcall idx => decodeRJMPCALL x idx
  | .muls _ => decodeMULS x
  | .megamul idx => decodeMegaMUL x idx
  | .movw _ => decodeMOVW x
  | .lpm _ => decodeLPM x
  | .elpm _ => decodeELPM x

/-- `MakeCode_AVR` for an instruction statement -/
def encode (x : Ctx) (s : Src) : Except Err (List Byte) :=
  match lookup s.mn with
  | none => .error .unknownInstr
  | some h => dispatch x h s.args

/-- the `CPUProps[]` row of a `cpu` name -/
def propsOf (name : String) : Option Props := cpuProps.find? (·.name == name)

/-! ### CPU argument `CODESEGSIZE` (`cpu <device>:codesegsize=0|1`, `AVRArgs[]` of `codeavr_init`)

`CodeSegSize = 1` (default): the code segment is addressed in 16-bit words - everything above.  `CodeSegSize = 0`: in
bytes (`Grans[SegCode] = 1`); `SwitchTo_AVR` doubles `SegLimits[SegCode]` (and with it `CodeAdrIntType`, `SignMask`,
`ORMask`), `GetWordCodeAddress` refuses odd addresses and halves the others, `GetNextCodeAddress` halves the program
counter.  Only the handlers that call these two functions depend on the argument; `AppendCode` stores the same two bytes
per word either way.  (`MakeCode_AVR` inserts a padding byte in front of an instruction at an odd byte address when
`PADDING` is on - the default; the model describes instructions at even byte addresses.) -/

/-- `Ctx` plus the CPU argument; `pc` = `EProgCounter()` in the address unit of the code segment -/
structure CtxA extends Ctx where
  codeSegSize : Nat
deriving Repr

/-- `SegLimits[SegCode]`: `FlashEndD16 << 4 | 0xf`, and `(SegLimits << 1) + 1` if `!CodeSegSize` -/
def segLimitCodeA (p : Props) (codeSegSize : Nat) : Nat :=
  if codeSegSize = 0 then segLimitCode p * 2 + 1 else segLimitCode p

def codeAdrIntTypeA (p : Props) (codeSegSize : Nat) : Nat := getSmallestUIntType (segLimitCodeA p codeSegSize)

/-- `CutAdr` works on WORD distances: since the repair of `SwitchTo_AVR` its `SignMask` / `ORMask` come from the size in words
in both modes (`WordLimit = SegLimits[SegCode] >> (CodeSegSize ? 0 : 1)`, `Adr & ~ORMask` in the non-negative branch), so the
CPU argument does not change it (before the repair the doubled limit was used in byte mode and `WRAPMODE ON` never wrapped there) -/
def cutAdrA (p : Props) (_codeSegSize : Nat) (adr : Int) : Int := cutAdr p adr

/-- `GetWordCodeAddress`: evaluate as `CodeAdrIntType`; in byte mode `Result & 1` ⇒ `ErrNum_NotAligned`, else `Result >>= 1` -/
def getWordCodeAddressA (x : CtxA) (a : Int) : Except Err Int :=
  andThen (evalInt (codeAdrIntTypeA x.p x.codeSegSize) a) fun r =>
    if x.codeSegSize = 0 then (if r % 2 ≠ 0 then .error .notAligned else .ok (r / 2)) else .ok r

/-- `GetNextCodeAddress`: `EProgCounter()`, `>>= 1` in byte mode, `+ 1` -/
def getNextCodeAddressA (x : CtxA) : Int :=
  (if x.codeSegSize = 0 then (x.pc : Int) / 2 else (x.pc : Int)) + 1

def relDistA (x : CtxA) (a : Int) : Except Err Int :=
  andThen (getWordCodeAddressA x a) fun t =>
    let d := t - getNextCodeAddressA x
    .ok (if x.wrap then cutAdrA x.p x.codeSegSize d else d)

def decodeRelA (x : CtxA) (code : Nat) (args : List Int) : Except Err (List Byte) :=
  match args with
  | [a] =>
    andThen (relDistA x a) fun d =>
      if d < -64 ∨ d > 63 then .error .jmpDist else .ok (appendCode (code ||| (lowBits d 7 <<< 3)))
  | _ => .error .argCnt

def decodeBRBSBCA (x : CtxA) (idx : Nat) (args : List Int) : Except Err (List Byte) :=
  match args with
  | [a1, a2] =>
    andThen (evalInt itBrb a1) fun bv => andThen (relDistA x a2) fun d =>
      if d < -64 ∨ d > 63 then .error .jmpDist
      else .ok (appendCode (0xf000 ||| idx ||| (lowBits d 7 <<< 3) ||| toWord bv))
  | _ => .error .argCnt

def decodeJMPCALLA (x : CtxA) (idx : Nat) (args : List Int) : Except Err (List Byte) :=
  match args with
  | [a] =>
    if chkMinCore x.p gateJmpCall then
      andThen (getWordCodeAddressA x a) fun t =>
        let n := t.toNat
        let k21_17 := n / 131072 % 32
        let k16 := n / 65536 % 2
        .ok (appendCode (0x940c ||| idx ||| (k21_17 <<< 4) ||| k16) ++ appendCode (n % 65536))
    else .error .cpu
  | _ => .error .argCnt

def decodeRJMPCALLA (x : CtxA) (idx : Nat) (args : List Int) : Except Err (List Byte) :=
  match args with
  | [a] =>
    andThen (relDistA x a) fun d =>
      if d < -2048 ∨ d > 2047 then .error .jmpDist else .ok (appendCode (0xc000 ||| idx ||| lowBits d 12))
  | _ => .error .argCnt

/-- the handlers that work on code addresses -/
def usesCodeAddr : Handler → Bool
  | .rel _ | .brbsbc _ | .jmpcall _ | .rjmpcall _ => true
  | _ => false

def dispatchA (x : CtxA) (h : Handler) (args : List Int) : Except Err (List Byte) :=
  match h with
  | .rel code => decodeRelA x code args
  | .brbsbc idx => decodeBRBSBCA x idx args
  | .jmpcall idx => decodeJMPCALLA x idx args
  | .rjmpcall idx => decodeRJMPCALLA x idx args
  | h => dispatch x.toCtx h args

/-- `MakeCode_AVR` for an instruction statement, with the CPU argument -/
def encodeA (x : CtxA) (s : Src) : Except Err (List Byte) :=
  match lookup s.mn with
  | none => .error .unknownInstr
  | some h => dispatchA x h s.args

end AslModel.Isa.IAvr
