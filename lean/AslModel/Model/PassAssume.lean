import AslModel.Model.Pass
/-!
# MODEL of the multipass core with per-pass statement state (the "assumption register")

Extension of `Model/Pass.lean` (same anchors: `as.c` pass loop, `asmpars.c` LookupSymbol / SymbolAdder) by the
state that a *statement* sets and that the encoders read - `ASSUME` (`asmallg.c CodeASSUME` stores into the
`ASSUMERec.Dest` variable of the code generator, e.g. `code6809.c DPRValue`, `code65.c RegB`, `code7700.c Reg_DPR`,
`code166.c DPPAssumes[]`), likewise the `ON/OFF` switches (`SetFlag`) - and by the per-pass initialisation of that
state: `as.c AssembleFile_InitPass` → `InitPass()` runs every procedure registered with `AddInitPassProc`, e.g.
`code6809.c InitCode_6809() { DPRValue = 0; }`.

* `R`             – the type of the assumption state (one register, or the vector of a target's registers)
* `assume f`      – `ASSUME`: the state becomes `f state` (one register replaced, several in one statement, …)
* `ref n size`    – an instruction referring to `n` whose *length* depends on the value **and on the assumption
                    state** (direct page hit → short form).  An unknown symbol reads as the PC and sets `Repass`
                    (`code6809.c DecodeAdr` / `code65.c` decide on `Hi(AdrInt) == DPRValue` with that value).
* `label n`, `skip k` – as in `Model/Pass.lean`.

The pass loop carries the symbol table from pass to pass (`Pass.assemble`).  What the assumption state of pass k+1
starts with is the parameter `reset`: `true` – the registered per-pass hook puts `init` there (the code as it is);
`false` – nothing does, pass k+1 starts with what the last `ASSUME` of pass k left behind.
-/
namespace AslModel.PassAssume
open AslModel.Pass (Sym Tab upd emptyTab)

inductive Stmt (R : Type) where
  | label (n : Sym)
  | ref (n : Sym) (size : Int → R → Nat)
  | skip (k : Nat)
  | assume (f : R → R)

/-- one recorded reference: address, symbol, value encoded, the assumption state the encoder saw -/
structure Ref (R : Type) where
  addr : Nat
  sym : Sym
  val : Int
  reg : R

structure PS (R : Type) where
  pc : Nat := 0
  reg : R
  tab : Tab
  repass : Bool := false
  out : List (Ref R) := []

variable {R : Type}

def step (s : PS R) : Stmt R → PS R
  | .label n =>
      let mism := match s.tab n with
        | some v' => v' != (s.pc : Int)
        | none => false
      { s with tab := upd s.tab n s.pc, repass := s.repass || mism }
  | .ref n size =>
      match s.tab n with
      | some v => { s with pc := s.pc + size v s.reg, out := s.out ++ [⟨s.pc, n, v, s.reg⟩] }
      | none =>   -- LookupSymbol: unknown => value := PC, Repass := True
          { s with pc := s.pc + size s.pc s.reg, out := s.out ++ [⟨s.pc, n, (s.pc : Int), s.reg⟩],
                   repass := true }
  | .skip k => { s with pc := s.pc + k }
  | .assume f => { s with reg := f s.reg }

def run (s : PS R) (p : List (Stmt R)) : PS R := p.foldl step s

/-- one pass: symbol table `T` from the previous pass, assumption state `r` at the first line -/
def pass (T : Tab) (r : R) (p : List (Stmt R)) : PS R := run { reg := r, tab := T } p

/-- the assumption state the next pass starts with -/
def next (reset : Bool) (init : R) (s : PS R) : R := if reset then init else s.reg

/-- the pass loop `do … while (ErrorCount == 0 && Repass)`; pass 1 starts with `r` (`init` in a fresh process:
`code6809_init` / the first `InitPass`) -/
def assemble (reset : Bool) (init : R) (p : List (Stmt R)) : Nat → Tab → R → Nat → Option (Nat × PS R)
  | 0, _, _, _ => none
  | fuel + 1, T, r, k =>
    let s := pass T r p
    if s.repass then assemble reset init p fuel s.tab (next reset init s) (k + 1) else some (k + 1, s)

/-! ### erasure: with the per-pass reset the assumption state at a line is a function of the program text alone -/

/-- the program in the statement language of `Model/Pass.lean`: every size function specialised to the assumption
in force at its line (`r` at the first line, then what the `ASSUME`s in front of the line say) -/
def erase (r : R) : List (Stmt R) → List Pass.Stmt
  | [] => []
  | .label n :: p => Pass.Stmt.label n :: erase r p
  | .ref n size :: p => Pass.Stmt.ref n (fun v => size v r) none :: erase r p
  | .skip k :: p => Pass.Stmt.skip k :: erase r p
  | .assume f :: p => erase (f r) p

/-- the assumption in force at every reference, in program order (`r` at the first line) - what the manual's
"ASSUME tells AS the current setting" gives, read line by line -/
def specRegs (r : R) : List (Stmt R) → List R
  | [] => []
  | .ref _ _ :: p => r :: specRegs r p
  | .assume f :: p => specRegs (f r) p
  | _ :: p => specRegs r p

def labels : List (Stmt R) → List Sym
  | [] => []
  | .label n :: p => n :: labels p
  | _ :: p => labels p

/-- forget the annotation of a recorded reference -/
def Ref.plain (r : Ref R) : Nat × Sym × Int := (r.addr, r.sym, r.val)

/-! ### the size rule of the instances the correspondence uses -/

/-- 6809 `lda <addr>` (`code6809.c DecodeAdr`: direct when `Hi(AdrInt) == DPRValue`), 65CE02 `lda <addr>`
(`code65.c IsBasePage`), 68HC12X: 2 bytes when the high byte of the 16-bit address is the assumed page, else 3 -/
def sizePage (v : Int) (r : Nat) : Nat := if (v / 256) % 256 = (r : Int) then 2 else 3

end AslModel.PassAssume
