import AslModel.Model.CodeStmt
/-!
# MODEL (C04): the statements that decide *when* `WriteCode()` opens a record - `DontPrint`

`Model/CodeFile.lean` takes the decision "this statement calls `NewRecord(pc)` in context `c`" as given (`Ev.jump c pc`).
This file is the layer that makes it: the globals `MomCPU` / `HeaderID` / `Grans[]`, `ActPC`, `PCs[]` and the
`FirstSaveState` stack (asmallg.c), changed by `CPU` (`CodeCPU` -> `SetCPUByName` -> `SetCPUCore`, then
`SetNSeg(SegCode)`), `SEGMENT` (`SetNSeg`), `ORG` (`CodeORG_Core`), reservations, `SAVE` (`CodeSAVE`) and `RESTORE`
(`CodeRESTORE` -> `ActPC = SavePC` and `SetCPUByType` -> `SetCPUCore`), each with the places where the C code sets
`DontPrint = True`.  `WriteCode()` (as.c) then does `if (DontPrint) NewRecord(NewPC); else WriteBytes();`.

The SPEC side (`specStepC`, `specCellsC`) is written from doc/pseudo-instructions.md: `CPU` selects the processor and
the segment CODE, `SEGMENT` the active address space, `ORG` sets the active space's counter, every address space has its
own counter, `SAVE` pushes "currently selected processor type" and "currently active memory area", `RESTORE` pops the
values saved last.  It knows nothing about records: every byte of a data statement belongs to the processor and address
space in effect, at the counter of that space.

Core-only imports (linked into the driver).
-/
namespace AslModel.CodeFile
open AslModel.PFile

/-- one entry of the processor table as far as the code file can see it: `id` stands for the `CPUVar` (two members of one
family are different processors with the same header byte), `hdr` = `HeaderID`, `grans` = `Grans[]`, `lgrans` = `ListGrans[]`,
`turn` = the value the processor's `SwitchTo_*` assigns to `TurnWords`.  `big` is not a variable of the program: it is the
byte order the processor's data book / doc/pseudo-instructions.md states for multi-byte data (SPEC side, `Model/CodeOrder.lean`). -/
structure Cpu where
  id : Nat
  hdr : Byte
  grans : List (Byte × Byte)
  lgrans : List (Byte × Byte) := []
  turn : Bool := false
  big : Bool := false
deriving DecidableEq, Repr, Inhabited

/-- `ListGrans[seg]` (1 where nothing else is stated) -/
def Cpu.lgran (c : Cpu) (seg : Byte) : Byte :=
  match c.lgrans.lookup seg with
  | some g => g
  | none => 1

/-- `Grans[seg]` (0 for an address space the processor does not have) -/
def Cpu.gran (c : Cpu) (seg : Byte) : Byte :=
  match c.grans.lookup seg with
  | some g => g
  | none => 0

/-- the globals -/
structure CS where
  /-- `MomCPU` with `HeaderID`, `Grans[]` -/
  cpu : Cpu
  /-- `ActPC` -/
  actPC : Byte
  /-- `PCs[]` (address units; the counters belong to the address spaces, not to the processor) -/
  pcs : Byte → Nat
  /-- `FirstSaveState`: `SaveCPU`, `SavePC` -/
  saves : List (Cpu × Byte)

def CS.pc (s : CS) : Nat := s.pcs s.actPC

/-- what `WrRecHeader` would write now: `HeaderID`, `ActPC`, `Grans[ActPC]` -/
def CS.ctx (s : CS) : Ctx := ⟨s.cpu.hdr, s.actPC, s.cpu.gran s.actPC⟩

def CS.setPC (s : CS) (v : Nat) : CS := { s with pcs := fun k => if k = s.actPC then v else s.pcs k }

/-- a source statement -/
inductive Ctl where
  /-- a data statement laying down these bytes (whole address units) -/
  | data (bs : List Byte)
  /-- a reservation of `n` address units -/
  | res (n : Nat)
  /-- `ORG a` -/
  | org (a : Nat)
  /-- `SEGMENT` -/
  | segment (seg : Byte)
  /-- `CPU` -/
  | cpu (c : Cpu)
  | save
  | restore
deriving Repr, Inhabited

/-! ## MODEL: asmallg.c -/

/-- `SetNSeg(NSeg)`: `if ((ActPC != NSeg) || (!PCsUsed[ActPC])) { ActPC = NSeg; ...; DontPrint = True; }`
(`PCsUsed[ActPC]` holds from the first line `WriteCode` has seen.  A space selected for the first time starts at the
target's `SegInits[]`, which this model does not carry - its counters start at 0; the sources given to it set the counter of
such a space with `ORG` before placing anything there, and the empty record opened at the other address is overwritten.)  Returns the new globals and whether `DontPrint` was set. -/
def setNSeg (s : CS) (nseg : Byte) : CS × Bool :=
  if s.actPC ≠ nseg then ({ s with actPC := nseg }, true) else (s, false)

/-- `SetCPUCore`: ... `pCPUDef->SwitchProc(...); DontPrint = True;` -/
def setCPUCore (s : CS) (c : Cpu) : CS × Bool := ({ s with cpu := c }, true)

/-- one statement other than a data statement: the globals behind it (before `WriteCode` adds `CodeLen`), `CodeLen`,
and `DontPrint` -/
def ctlDecode (s : CS) : Ctl → CS × Nat × Bool
  | .data bs => (s, bs.length / (s.cpu.gran s.actPC).toNat, false)
  | .res n => (s, n, true)
  -- `if (EProgCounter() != HVal) { PCs[ActPC] = HVal - Phases[ActPC]; DontPrint = True; }`
  | .org a => if s.pc ≠ a then (s.setPC a, 0, true) else (s, 0, false)
  | .segment g => let r := setNSeg s g; (r.1, 0, r.2)
  -- `if (SetCPUByName(&ArgStr[1])) SetNSeg(SegCode);`
  | .cpu c =>
      let r1 := setCPUCore s c
      let r2 := setNSeg r1.1 segCode
      (r2.1, 0, r1.2 || r2.2)
  | .save => ({ s with saves := (s.cpu, s.actPC) :: s.saves }, 0, false)
  | .restore =>
      match s.saves with
      | [] => (s, 0, false)                       -- "RESTORE without SAVE": an error, nothing changes (`CtlsWF` excludes it)
      | (sc, sp) :: rest =>
        let s0 := { s with saves := rest }
        -- `if ((Old->SavePC != ActPC) && ...) { ActPC = Old->SavePC; DontPrint = True; }`
        let r1 : CS × Bool := if sp ≠ s0.actPC then ({ s0 with actPC := sp }, true) else (s0, false)
        -- `if (Old->SaveCPU != MomCPU) SetCPUByType(Old->SaveCPU, ...);`
        let r2 : CS × Bool := if sc ≠ r1.1.cpu then setCPUCore r1.1 sc else (r1.1, false)
        (r2.1, 0, r1.2 || r2.2)

/-- the statement and `WriteCode()` behind it: `NewPC = ProgCounter() + CodeLen; if (DontPrint) NewRecord(NewPC); else
WriteBytes(); PCs[ActPC] = NewPC;` - as events of the record machine, and the globals afterwards -/
def ctlStep (s : CS) (x : Ctl) : CS × List Ev :=
  let r := ctlDecode s x
  let s1 := r.1
  let s2 := s1.setPC (s1.pc + r.2.1)
  match x with
  | .data bs => (s2, [Ev.emit bs])
  | _ => (s2, if r.2.2 then [Ev.jump s2.ctx s2.pc] else [])

/-- a statement list as events -/
def ctlEvs (s : CS) : List Ctl → List Ev
  | [] => []
  | x :: r => (ctlStep s x).2 ++ ctlEvs (ctlStep s x).1 r

/-- ... and as statements of `Model/CodeStmt.lean` (`session`, `alone`) -/
def ctlStmts (s : CS) (l : List Ctl) : List Stmt := (ctlEvs s l).map Stmt.ev

/-! ## SPEC: what the source specifies -/

/-- the manual's reading of one statement -/
def specStepC (s : CS) : Ctl → CS
  | .data bs => s.setPC (s.pc + bs.length / (s.cpu.gran s.actPC).toNat)
  | .res n => s.setPC (s.pc + n)
  | .org a => s.setPC a
  | .segment g => { s with actPC := g }
  | .cpu c => { s with cpu := c, actPC := segCode }
  | .save => { s with saves := (s.cpu, s.actPC) :: s.saves }
  | .restore =>
      match s.saves with
      | [] => s
      | (sc, sp) :: rest => { s with cpu := sc, actPC := sp, saves := rest }

/-- the (family, segment, granularity, byte address, byte) cells a source specifies: the bytes of every data statement,
for the processor and in the address space in effect, from the counter of that space on -/
def specCellsC (s : CS) : List Ctl → List Cell
  | [] => []
  | .data bs :: r =>
      cellsFrom s.cpu.hdr s.actPC (s.cpu.gran s.actPC) (s.pc * (s.cpu.gran s.actPC).toNat) bs ++ specCellsC (specStepC s (.data bs)) r
  | x :: r => specCellsC (specStepC s x) r

/-- data statements lay down whole address units of an address space the processor has; every `RESTORE` has its `SAVE` -/
def CtlsWF (s : CS) : List Ctl → Prop
  | [] => True
  | .data bs :: r => (s.cpu.gran s.actPC).toNat ≠ 0 ∧ bs.length % (s.cpu.gran s.actPC).toNat = 0 ∧ CtlsWF (specStepC s (.data bs)) r
  | .restore :: r => s.saves ≠ [] ∧ CtlsWF (specStepC s .restore) r
  | x :: r => CtlsWF (specStepC s x) r

/-- the globals in front of the first statement: the default target's context `c` with the counter of its space at `pc0` -/
def csInit (c : Ctx) (pc0 : Nat) : CS :=
  { cpu := { id := 0, hdr := c.cpu, grans := [(c.seg, c.gran)] }, actPC := c.seg, pcs := fun k => if k = c.seg then pc0 else 0, saves := [] }

end AslModel.CodeFile
