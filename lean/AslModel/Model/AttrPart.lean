import AslModel.Spec.SrcLine
/-! MODEL (C16): codem16c.c `DecodeAttrPart_M16C` - the attribute of `mnemonic.size:format` / `mnemonic:format` is taken apart into
the operand size and the format text that `CheckFormat` later looks up with `strchr("GSQZ", *Format)`.
Inputs: `AttrSplit` (the character `SplitLine` split the mnemonic at), `AttrPart`, and the content of the static buffer `Format`
before the call (the `.`-branch leaves it untouched for `MOV.B:` with nothing behind the colon). -/
namespace AslModel.AttrPart
open AslModel.SrcLine

inductive OpSize | unknown | s8 | s16 | s32 | s64 | s80 | f32 | f64 | f96
  deriving DecidableEq, Repr

/-- `strchr(s, c)` + `*p = 0`: the text before the first `c` and, if there is one, the text behind it -/
def cutAt (c : Char) : List Char → List Char × Option (List Char)
  | [] => ([], none)
  | x :: r => if x = c then ([], some r) else ((x :: (cutAt c r).1), (cutAt c r).2)

/-- the `switch (as_toupper(*AttrPart))` -/
def sizeOfChar (c : Char) : Option OpSize :=
  if c = 'B' then some .s8 else if c = 'W' then some .s16 else if c = 'L' then some .s32 else if c = 'Q' then some .s64
  else if c = 'S' then some .s80 else if c = 'D' then some .f32 else if c = 'X' then some .f64 else if c = 'A' then some .f96 else none

def sizeOf : List Char → Option OpSize
  | [] => some .unknown
  | c :: _ => sizeOfChar c.toUpper

/-- the switch over `AttrSplit`: (remaining AttrPart, Format before `NLS_UpString`) -/
def splitFormat (attrSplit : Char) (attr fmt0 : List Char) : List Char × List Char :=
  if attrSplit = '.' then
    match cutAt ':' attr with
    | (a, some f) => (a, if f = [] then fmt0 else f)
    | (a, none) => (a, [' '])
  else if attrSplit = ':' then
    match cutAt '.' attr with
    | (a, none) => ([], a)
    | (a, some _) => (a, if a = [] then [' '] else a)
  else (attr, [' '])

/-- `DecodeAttrPart_M16C`: `some (Format, AttrPartOpSize)`, `none` = ErrNum_UndefAttr -/
def decodeM16C (attrSplit : Char) (attr fmt0 : List Char) : Option (List Char × OpSize) :=
  let r := splitFormat attrSplit attr fmt0
  (sizeOf r.1).map (fun s => (upStr r.2, s))

/-- `CheckFormat(FSet)`: `FormatCode`, `none` = ErrNum_InvFormat -/
def checkFormat (fset fmt : List Char) : Option Nat :=
  if fmt = [' '] then some 0 else
    match fmt with
    | [] => none
    | c :: _ => match fset.idxOf? c with | some i => some (i + 1) | none => none

end AslModel.AttrPart
