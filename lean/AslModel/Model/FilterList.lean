import AslModel.Model.PBind
/-!
# MODEL of `toolutils.c CMD_FilterList` / `FilterOK` as the C ARRAY algorithm

    static int  FilterCnt;
    static Byte FilterBytes[100];

`CMD_FilterList(Negate, Arg)` is called once per `-f <list>` (Negate = False) / `+f <list>` (Negate = True)
option, first for the options of the environment variable (`BINDCMD`, `P2BINCMD`, `P2HEXCMD`), then for the
command line, left to right (`cmdarg.c ProcessCMD`).  Per list element:

    FTemp = ConstLongInt(Copy, &err, 10);                      -- LongInt narrowed to Byte
    for (Search = 0; Search < FilterCnt; Search++) if (FilterBytes[Search] == FTemp) break;
    if (Negate && Search < FilterCnt)        FilterBytes[Search] = FilterBytes[--FilterCnt];
    else if (!Negate && Search >= FilterCnt) FilterBytes[FilterCnt++] = FTemp;     -- no bound check

The array is a `List Byte` of the array's full length (the capacity) plus the counter; cells at and
above `cnt` keep whatever was stored there (they are observable by nobody as long as no store leaves
the array).  A store to `FilterBytes[capacity]` is outside the model (`none`): on the pinned build it
lands in `FilterCnt` itself.
-/
namespace AslModel.Tools
open AslModel.PFile

/-- `FilterBytes[0 .. capacity)` and `FilterCnt` -/
structure FilterArr where
  bytes : List Byte
  cnt : Nat
deriving DecidableEq, Repr

/-- static storage: all cells 0, `FilterCnt = 0` (`toolutils_init`) -/
def FilterArr.init (cap : Nat) : FilterArr := ⟨List.replicate cap 0, 0⟩

/-- the search loop with `k = FilterCnt - Search` iterations left, entered with `Search = s`; the result is
the value of `Search` after the loop -/
def searchLoop (bytes : List Byte) (v : Byte) : Nat → Nat → Nat
  | 0, s => s
  | k + 1, s => if bytes.getD s 0 = v then s else searchLoop bytes v k (s + 1)

def searchFrom (bytes : List Byte) (cnt : Nat) (v : Byte) (s : Nat) : Nat := searchLoop bytes v (cnt - s) s

/-- one list element of `CMD_FilterList`; `none` = the store `FilterBytes[FilterCnt++] = FTemp` would
leave the array -/
def cmdFilterOne (negate : Bool) (a : FilterArr) (v : Byte) : Option FilterArr :=
  let s := searchFrom a.bytes a.cnt v 0
  if negate then
    if s < a.cnt then some ⟨a.bytes.set s (a.bytes.getD (a.cnt - 1) 0), a.cnt - 1⟩ else some a
  else if s ≥ a.cnt then
    if a.cnt < a.bytes.length then some ⟨a.bytes.set a.cnt v, a.cnt + 1⟩ else none
  else some a

/-- one `-f`/`+f` option: the values `ConstLongInt` returned for the list elements, in order; each is
narrowed to `Byte` -/
def cmdFilterList (negate : Bool) : List Nat → FilterArr → Option FilterArr
  | [], a => some a
  | v :: vs, a => (cmdFilterOne negate a (b v)).bind (cmdFilterList negate vs)

/-- all `-f`/`+f` options in processing order (environment variable first, then the command line) -/
def cmdLine : List (Bool × List Nat) → FilterArr → Option FilterArr
  | [], a => some a
  | o :: os, a => (cmdFilterList o.1 o.2 a).bind (cmdLine os)

/-- the `for (z = 0; z < FilterCnt; z++)` loop of `FilterOK` with `k = FilterCnt - z` iterations left -/
def filterOKLoop (bytes : List Byte) (h : Byte) : Nat → Nat → Bool
  | 0, _ => false
  | k + 1, z => if h = bytes.getD z 0 then true else filterOKLoop bytes h k (z + 1)

def filterOKFrom (bytes : List Byte) (cnt : Nat) (h : Byte) (z : Nat) : Bool := filterOKLoop bytes h (cnt - z) z

/-- `FilterOK(Header)` with `DoFilter = (FilterCnt != 0)` -/
def filterOKArr (a : FilterArr) (h : Byte) : Bool :=
  if a.cnt ≠ 0 then filterOKFrom a.bytes a.cnt h 0 else true

/-- what the rest of the tool model sees of the array: the cells below `FilterCnt` -/
def FilterArr.live (a : FilterArr) : FilterSt := a.bytes.take a.cnt

/-- the filter state a tool run starts its record loop with: `none` = a store left the array -/
def filterOfOptions (cap : Nat) (ops : List (Bool × List Nat)) : Option FilterArr :=
  cmdLine ops (FilterArr.init cap)

end AslModel.Tools
