import AslModel.Model.Drehe
/-!
# Listing / MAP / share renderers — MODEL (C19)

Transcription of

* `strutil.c SysStringCore/SysString` (no split character) and the `%<w>.*x`, `%0<w>.*x`, `%5s`
  conversions of `as_vsnprcatf` as `MakeList` uses them,
* `asmlist.c MakeList` for byte-listed segments (`Granularity() = ActListGran = 1`):
  `ListPC = EProgCounter() - CodeLen`, the word/byte dump loop (inner loop bounded by
  `SumLen + SystemListLen + 1 < LISTLINESPACE`), padding + source on the first line, continuation
  lines with 9 blanks, `DontPrint`, `Retracted`,
* `asmlist.c asmlist_init` (`SystemListLen8`),
* `asmlist.c MakeList` for any `Granularity()` / `ActListGran` and `asmcode.c WriteBytes`' byte order (`makeListW`,
  `fileBytes`; section "`MakeList` for general (Granularity, ListGran)" below),
* `asmdebug.c DumpDebugInfo_MAP` entry `"%5s:%s "` with `HexString(…, 8)`, and the insertion
  search of `AddLineInfo`,
* `asmallg.c IntLine` and the three output lines of `CodeSHARED` for integer symbols.

Numbers are `Nat`; the C variables are `LargeWord` (64 bit), so the model equals the C code for
`ListPC + CodeLen < 2^64`.  Core-only imports.
-/
namespace AslModel.Listing

/-- `HexStartCharacter = 'A'` (default): digit characters `0-9A-Z` -/
def digitChar (d : Nat) : Char := if d < 10 then Char.ofNat (48 + d) else Char.ofNat (55 + d)

/-- `SysStringCore`: `do { digit; Num /= System; Stellen--; } while (Stellen > 0 || Num)`;
result most significant digit first.  `f` is fuel (`num + stellen + 1` always suffices). -/
def sysStringCore (r : Nat) : Nat → Nat → Nat → List Char
  | 0, _, _ => []
  | f + 1, stellen, num =>
    (if stellen - 1 > 0 ∨ num / r ≠ 0 then sysStringCore r f (stellen - 1) (num / r) else [])
      ++ [digitChar (num % r)]

/-- `SysString(…, Num, System, Stellen, False, 'A', 0)` -/
def sysString (r stellen num : Nat) : List Char := sysStringCore r (num + stellen + 1) stellen num

/-- right-align in a field of `w` (the `append()` padding of `as_vsnprcatf`) -/
def padLeft (w : Nat) (s : List Char) : List Char := List.replicate (w - s.length) ' ' ++ s

def decString (n : Nat) : List Char := sysString 10 0 n

/-- `asmlist_init`: `SystemListLen8 = strlen(SysString(0xff, ListRadixBase, 0))` -/
def systemListLen8 (widthRadix : Nat) : Nat := (sysString widthRadix 0 0xff).length

def LISTLINESPACE : Nat := 20

/-- inputs of `MakeList` for one source line of a byte-listed segment -/
structure ListIn where
  incDepth : Nat
  currLine : Nat
  /-- `EProgCounter() - CodeLen` -/
  listPC : Nat
  retracted : Bool := false
  dontPrint : Bool := false
  /-- `ListRadixBase` as `asmlist_init` uses it for the column width -/
  widthRadix : Nat := 16
  /-- radix in which `as_vsnprcatf` really prints the `%x` numerals -/
  numRadix : Nat := 16
  /-- `BAsmCode[0 .. EffLen)` -/
  code : List UInt8
  src : List Char

/-- one cell of the dump loop: `"%0*.*x "` or `SystemListLen + 1` blanks -/
def cell (numR w : Nat) (dontPrint : Bool) : List UInt8 → List Char
  | [] => List.replicate (w + 1) ' '
  | b :: _ => if dontPrint then List.replicate (w + 1) ' ' else sysString numR w b.toNat ++ [' ']

/-- result of the inner `do … while (SumLen + SystemListLen + 1 < LISTLINESPACE)` -/
structure Inner where
  text : List Char
  rest : List UInt8
  cnt : Nat

/-- inner loop; `cnt` = cells printed so far on this line (`SumLen = cnt * (w+1)`, `ListPC` and
`Index` advanced by `cnt`) -/
def inner (numR w : Nat) (dp : Bool) : Nat → Nat → List UInt8 → Inner
  | 0, cnt, d => ⟨[], d, cnt⟩
  | f + 1, cnt, d =>
    let c := cell numR w dp d
    let d' := d.drop 1
    let cnt' := cnt + 1
    if cnt' * (w + 1) + (w + 1) < LISTLINESPACE then
      let r := inner numR w dp f cnt' d'
      ⟨c ++ r.text, r.rest, r.cnt⟩
    else ⟨c, d', cnt'⟩

/-- `"%8.*x %c "` -/
def addrField (numR pc : Nat) (retracted : Bool) : List Char :=
  padLeft 8 (sysString numR 0 pc) ++ [' ', if retracted then 'R' else ':', ' ']

/-- include depth + `"%5s/"` line number -/
def depthPrefix (incDepth : Nat) : List Char :=
  if incDepth = 0 then [' ', ' ', ' '] else ['('] ++ decString incDepth ++ [')']

def firstPrefix (incDepth currLine : Nat) : List Char :=
  depthPrefix incDepth ++ padLeft 5 (decString currLine) ++ ['/']

/-- outer `do … while ((Index < EffLen) && !DontPrint)`; `f` fuel (`code.length + 1` suffices) -/
def outer (i : ListIn) (w : Nat) : Nat → Bool → Nat → List UInt8 → List (List Char)
  | 0, _, _, _ => []
  | f + 1, first, pc, d =>
    let pre := (if first then firstPrefix i.incDepth i.currLine else List.replicate 9 ' ')
      ++ addrField i.numRadix pc i.retracted
    let r := inner i.numRadix w i.dontPrint LISTLINESPACE 0 d
    let line := pre ++ r.text ++
      (if first then List.replicate (LISTLINESPACE - r.cnt * (w + 1)) ' ' ++ i.src else [])
    if r.rest ≠ [] ∧ !i.dontPrint then line :: outer i w f false (pc + r.cnt) r.rest
    else [line]

/-- `MakeList` (code branch, `ListLine` empty, line numbers on) -/
def makeList (i : ListIn) : List (List Char) :=
  outer i (systemListLen8 i.widthRadix) (i.code.length + 1) true i.listPC i.code

/-! ## `MakeList` for general (Granularity, ListGran)

Transcription of `asmlist.c MakeList` (code branch) with `Gran = Granularity()` and `ActListGran` as
parameters, of `asmlist_init` (`SystemListLen16/32`) and of what `asmcode.c WriteBytes` puts into the
code file for the same line (`DreheCodes` when `TurnWords`, little-endian host).

State of the dump loop: `Index` is represented by the not yet listed rest `d` of
`BAsmCode[0 .. EffLen)` (`Index < EffLen` ⇔ `d ≠ []`; in word mode `Index` is a multiple of
`CurrListGran`, so `WAsmCode[Index >> 1]` / `DAsmCode[Index >> 2]` is the host view of the first
2 / 4 bytes of `d`), `EffLen = CodeLen * Gran = code.length` (a `Word`: the model equals the C code
for `EffLen + 4 < 65536`).
-/

/-- `asmlist_init`: `SystemListLen16 = strlen(SysString(0xffff, ListRadixBase, 0))` -/
def systemListLen16 (widthRadix : Nat) : Nat := (sysString widthRadix 0 0xffff).length

/-- `asmlist_init`: `SystemListLen32 = strlen(SysString(0xffffffff, ListRadixBase, 0))` -/
def systemListLen32 (widthRadix : Nat) : Nat := (sysString widthRadix 0 0xffffffff).length

/-- `switch (CurrListGran) { case 4: …32; case 2: …16; default: …8 }` -/
def sysLen (widthRadix cg : Nat) : Nat :=
  if cg = 4 then systemListLen32 widthRadix
  else if cg = 2 then systemListLen16 widthRadix
  else systemListLen8 widthRadix

/-- value of a byte sequence in the host's (little endian) view of the code buffer overlay -/
def leVal : List UInt8 → Nat
  | [] => 0
  | b :: t => b.toNat + 256 * leVal t

/-- `ThisWord`: `DAsmCode[Index >> 2]`, `WAsmCode[Index >> 1]` or `BAsmCode[Index]` -/
def thisWord (cg : Nat) (d : List UInt8) : Nat :=
  if cg = 4 then leVal (d.take 4) else if cg = 2 then leVal (d.take 2) else leVal (d.take 1)

/-- inputs of `MakeList` for one source line -/
structure ListInW where
  incDepth : Nat
  currLine : Nat
  /-- `EProgCounter() - CodeLen` -/
  listPC : Nat
  retracted : Bool := false
  dontPrint : Bool := false
  widthRadix : Nat := 16
  numRadix : Nat := 16
  /-- `Granularity()` -/
  gran : Nat
  /-- `ActListGran` -/
  listGran : Nat
  turnWords : Bool
  /-- `BAsmCode[0 .. EffLen)` as `MakeList` finds it (host byte order) -/
  code : List UInt8
  src : List Char

/-- loop variables `ListPC`, `Index` (as rest), `CurrListGran`, `SystemListLen` -/
structure StW where
  pc : Nat
  d : List UInt8
  cg : Nat
  sl : Nat

/-- one cell: `"%0*.*x "` of `ThisWord`, or `SystemListLen + 1` blanks -/
def cellW (numR : Nat) (dp : Bool) (s : StW) : List Char :=
  if s.d ≠ [] ∧ !dp then sysString numR s.sl (thisWord s.cg s.d) ++ [' ']
  else List.replicate (s.sl + 1) ' '

/-- `ListPC += (Gran == CurrListGran) ? 1 : CurrListGran; Index += CurrListGran;
if (Index + CurrListGran > EffLen) { CurrListGran = 1; SystemListLen = SystemListLen8; }` -/
def stepW (w8 g : Nat) (s : StW) : StW :=
  let d' := s.d.drop s.cg
  let pc' := s.pc + (if g = s.cg then 1 else s.cg)
  if d'.length < s.cg then ⟨pc', d', 1, w8⟩ else ⟨pc', d', s.cg, s.sl⟩

/-- result of the inner `do … while (SumLen + SystemListLen + 1 < LISTLINESPACE)` -/
structure InnerW where
  text : List Char
  st : StW
  sum : Nat

def innerW (numR w8 g : Nat) (dp : Bool) : Nat → Nat → StW → InnerW
  | 0, sum, s => ⟨[], s, sum⟩
  | f + 1, sum, s =>
    let c := cellW numR dp s
    let sum' := sum + (s.sl + 1)
    let s' := stepW w8 g s
    if sum' + s'.sl + 1 < LISTLINESPACE then
      let r := innerW numR w8 g dp f sum' s'
      ⟨c ++ r.text, r.st, r.sum⟩
    else ⟨c, s', sum'⟩

/-- outer `do … while ((Index < EffLen) && !DontPrint)` -/
def outerW (i : ListInW) (w8 : Nat) : Nat → Bool → StW → List (List Char)
  | 0, _, _ => []
  | f + 1, first, s =>
    let pre := (if first then firstPrefix i.incDepth i.currLine else List.replicate 9 ' ')
      ++ addrField i.numRadix s.pc i.retracted
    let r := innerW i.numRadix w8 i.gran i.dontPrint LISTLINESPACE 0 s
    let line := pre ++ r.text ++
      (if first then List.replicate (LISTLINESPACE - r.sum) ' ' ++ i.src else [])
    if r.st.d ≠ [] ∧ !i.dontPrint then line :: outerW i w8 f false r.st
    else [line]

/-- the buffer as the dump loop sees it: `if (TurnWords && (Gran != ActListGran) && (1 == ActListGran)) DreheCodes();` -/
def listView (i : ListInW) : List UInt8 :=
  if i.turnWords ∧ i.gran ≠ i.listGran ∧ i.listGran = 1 then Drehe.dreheCodes i.listGran i.code.length i.code
  else i.code

/-- `if (EffLen < ActListGran) { CurrListGran = 1; … } else { CurrListGran = ActListGran; switch … }` -/
def startW (i : ListInW) : StW :=
  if i.code.length < i.listGran then ⟨i.listPC, listView i, 1, systemListLen8 i.widthRadix⟩
  else ⟨i.listPC, listView i, i.listGran, sysLen i.widthRadix i.listGran⟩

/-- `MakeList` (code branch, `ListLine` empty, line numbers on) for any `Gran` / `ActListGran` -/
def makeListW (i : ListInW) : List (List Char) :=
  outerW i (systemListLen8 i.widthRadix) (i.code.length + 1) true (startW i)

/-- `WriteBytes` on a little-endian host: `if (TurnWords) DreheCodes(); memcpy(…, BAsmCode, ErgLen)` –
the bytes the code file receives for the line, in address order -/
def fileBytes (turnWords : Bool) (listGran : Nat) (code : List UInt8) : List UInt8 :=
  if turnWords then Drehe.dreheCodes listGran code.length code else code

/-! ## `WriteBytes` and the line buffer `MakeList` reads afterwards

`as.c`: `WriteCode()` (→ `WriteBytes()`) runs before `MakeList()`; both work on the same overlay
`BAsmCode/WAsmCode/DAsmCode`.  `WriteBytes` turns the buffer into file order, hands `ErgLen` bytes to
`CodeBuffer` or the file in one of three ways (append to the buffer; flush and start the buffer anew; flush and
write through when the statement alone is as large as the buffer) and turns the buffer back.  The record
structure of the file (`NewRecord` at 0xffff, headers) is C04's `Model/CodeFile.lean`; here only the data
bytes of the open record count: `disk` = what `fwrite` received, `buf` = `CodeBuffer[0 .. CodeBufferFill)`. -/

/-- `#define CodeBufferSize 512` (asmcode.c) -/
def codeBufferSize : Nat := 512

structure Store where
  disk : List UInt8
  buf : List UInt8
deriving Repr, DecidableEq, Inhabited

/-- `FlushBuffer` -/
def flushStore (s : Store) : Store := ⟨s.disk ++ s.buf, []⟩

/-- `asmcode.c WriteBytes` (little-endian host) on the line buffer `BAsmCode[0 .. ErgLen)`:
`if (TurnWords) DreheCodes();` – buffer / flush + buffer / flush + write through – `LenSoFar += ErgLen;`
`if (TurnWords) DreheCodes();`.  Result: the store, and the line buffer as `MakeList` finds it. -/
def writeBytesLine (tw : Bool) (lg : Nat) (s : Store) (code : List UInt8) : Store × List UInt8 :=
  if code.length = 0 then (s, code) else
  let c1 := if tw then Drehe.dreheCodes lg code.length code else code
  let s1 :=
    if s.buf.length + c1.length < codeBufferSize then { s with buf := s.buf ++ c1 }
    else
      let f := flushStore s
      if c1.length < codeBufferSize then { f with buf := c1 } else { f with disk := f.disk ++ c1 }
  let c2 := if tw then Drehe.dreheCodes lg c1.length c1 else c1
  (s1, c2)

/-- a sequence of statements of one record: the store at the end and the line buffers `MakeList` saw -/
def writeBytesSeq (tw : Bool) (lg : Nat) : Store → List (List UInt8) → Store × List (List UInt8)
  | s, [] => (s, [])
  | s, c :: cs =>
    let r := writeBytesLine tw lg s c
    let rs := writeBytesSeq tw lg r.1 cs
    (rs.1, r.2 :: rs.2)

/-! ## MAP -/

/-- `HexString(buf, addr, 8)` -/
def hexString (stellen n : Nat) : List Char := sysString 16 stellen n

/-- `fprintf(MAPFile, "%5s:%s ", line, HexString(addr, 8))` -/
def mapEntry (line addr : Nat) : List Char :=
  padLeft 5 (decString line) ++ [':'] ++ hexString 8 addr ++ [' ']

/-- one line of entries as `DumpDebugInfo_MAP` prints it (it breaks the line after five entries) -/
def renderMapLine (es : List (Nat × Nat)) : List Char := es.flatMap (fun e => mapEntry e.1 e.2)

/-- line-info record as `AddLineInfo` keeps it (Space, FileName number, Address, LineNum) -/
structure LineInfo where
  space : Nat
  file : Nat
  addr : Nat
  line : Nat
deriving Repr, DecidableEq, Inhabited

/-- the three `while (Run->Next && Run->Next->… < …)` scans: each continues from where the
previous one stopped, so the list is *not* kept lexicographically sorted (DESIGN.md 6, observed) -/
def skipWhile (p : LineInfo → Bool) : List LineInfo → List LineInfo → List LineInfo × List LineInfo
  | acc, [] => (acc, [])
  | acc, x :: xs => if p x then skipWhile p (x :: acc) xs else (acc, x :: xs)

/-- `AddLineInfo` (one record, `RecCnt = 1`): `Run` starts at the root, which is never compared
(the scans look at `Run->Next` only) -/
def addLineInfo (l : List LineInfo) (n : LineInfo) : List LineInfo :=
  match l with
  | [] => [n]
  | root :: tl =>
    let (a1, r1) := skipWhile (fun x => x.space < n.space) [] tl
    let (a2, r2) := skipWhile (fun x => x.file < n.file) a1 r1
    let (a3, r3) := skipWhile (fun x => x.addr < n.addr) a2 r2
    root :: (a3.reverse ++ n :: r3)

/-! ## Share file -/

def hexOf (n : Nat) : List Char := sysString 16 0 n

inductive IntMode where
  | intel | moto | c
deriving Repr, DecidableEq, Inhabited

/-- `IntLine` -/
def intLine (m : IntMode) (v : Nat) : List Char :=
  match m with
  | .intel =>
    let s := hexOf v ++ ['H']
    match s with
    | c :: _ => if c.toNat > '9'.toNat then '0' :: s else s
    | [] => s
  | .moto => '$' :: hexOf v
  | .c => '0' :: 'x' :: hexOf v

/-- `CodeSHARED` output line for an integer symbol (no comment): ShareMode 1 Pascal, 2 C, 3 assembler -/
def shareLine (shareMode : Nat) (m : IntMode) (changeable : Bool) (name : List Char) (v : Nat) : List Char :=
  if shareMode = 1 then name ++ [' ', '=', ' '] ++ intLine .moto v ++ [';']
  else if shareMode = 2 then ['#', 'd', 'e', 'f', 'i', 'n', 'e', ' '] ++ name ++ [' '] ++ intLine .c v
  else name ++ [' '] ++ (if changeable then ['s', 'e', 't', ' '] else ['e', 'q', 'u', ' ']) ++ intLine m v

end AslModel.Listing
