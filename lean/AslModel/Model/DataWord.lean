import AslModel.Model.DataExt
import AslModel.Spec.DataWord
/-!
# DATA on word-organised targets — MODEL (C09)

Executable transcription of `fourpseudo.c` `DecodeDATA(CodeIntType, DataIntType)` as it is reached from

* `code3201x.c` `DecodeDATA_3201x` (`Int16, Int16`), `tipseudo.c` `DecodeDATA_TI` (`Int16, Int16`; TMS3202x/5x),
  `code1750.c` `DecodeDATA_1750` (`UInt16, UInt16`), `code17c4x.c` (`Int16, Int8`), `code16c8x.c` (`Int14, Int8`),
  `code16c5x.c` (`Int12, Int8`), `code4004.c` (`Int8, Int4`), `code4500.c` / `codehmcs400.c` (`Int10, Int4`),

with `asmpars.c` `RangeCheck` / `MultiCharToInt` and `CharTransTable` as transcribed in `Model/Data.lean` and
`Model/DataExt.lean`.  `ValIntType` (chosen by `ActPC == SegData`) arrives as an index into the regenerated
`IntTypeDefs[]`; `ValMask` and `MaxMultCharLen` are computed from that row as the C code does.

`BAsmCode`/`WAsmCode`/`DAsmCode` overlay one buffer; the statement fills `CodeLen` cells of the array that
belongs to `ValMask` (bytes up to `0xff`, 16-bit words up to `0xffff`, else 32-bit words).  `buf` is the list of the
cells `[0, CodeLen)`.  `WAsmCode[CodeLen - 1] |= TransCh << 8` is `orLast`; `bpos` is the C local of the
`TempString` block, initialised in the `for` header **of every string argument**.

Not modelled: first-pass-unknown symbols (`UnknownMask`), `SetMaxCodeLen`, expression evaluation (arguments
are literals).
-/
namespace AslModel.DataWModel
open AslModel.PFile (Byte b)
open AslModel.Data AslModel.DataModel AslModel.DataX AslModel.DataXModel AslModel.DataW

/-- `Arr[CodeLen - 1] |= x` -/
def orLast : List Nat → Nat → List Nat
  | [], _ => []                       -- CodeLen = 0: would write in front of the array (unreachable with bpos = 0 at the start)
  | [l], x => [l ||| x]
  | a :: c :: r, x => a :: orLast (c :: r) x

/-- body of the character loop of the `TempString` case: (cells, bpos) -/
def stringStep (mask : Nat) (st : List Nat × Nat) (tc : Nat) : List Nat × Nat :=
  let buf := st.1
  let bpos := st.2
  if mask ≥ 0xffffff then
    -- word width 24..31 bits: pack three characters into one dword
    let buf' := if bpos = 0 then buf ++ [tc] else if bpos = 1 then orLast buf (tc <<< 8) else orLast buf (tc <<< 16)
    (buf', if bpos + 1 ≥ 3 then 0 else bpos + 1)
  else if mask > 0xffff then
    -- word width 17..23 bits: pack two characters into one dword
    let buf' := if bpos = 0 then buf ++ [tc] else orLast buf (tc <<< 8)
    (buf', if bpos + 1 ≥ 2 then 0 else bpos + 1)
  else if mask = 0xffff then
    -- word width 16 bits: pack two characters into one word
    let buf' := if bpos = 0 then buf ++ [tc] else orLast buf (tc <<< 8)
    (buf', if bpos + 1 ≥ 2 then 0 else bpos + 1)
  else if mask > 0xff then (buf ++ [tc], bpos)          -- 9..15 bits: one character per word
  else if mask = 0xff then (buf ++ [tc], bpos)          -- 8 bits: one character per byte
  else (buf ++ [tc >>> 4, tc &&& 15], bpos)             -- 4..7 bits: one character into two nibbles

/-- `for (z2 = 0, cp = …, bpos = 0; z2 < len; z2++, cp++) { TransCh = CharTransTable[*cp]; … }` -/
def dataString (mask : Nat) (t : List Byte) (buf : List Nat) (cs : List Byte) : List Nat :=
  (cs.foldl (fun st c => stringStep mask st (ctt t c).toNat) (buf, 0)).1

/-- the constants `DecodeDATA` derives from `ValIntType` -/
structure DCtx where
  typ : Nat           -- ValIntType
  mask : Nat          -- ValMask = IntTypeDefs[ValIntType].Mask
  maxLen : Nat        -- MaxMultCharLen = (Lo(SignAndWidth) + 7) / 8
  t : List Byte       -- CharTransTable

def mkCtx (typ : Nat) (t : List Byte) : Option DCtx :=
  (Generated.intTypeDefs[typ]?).map fun d => ⟨typ, d.mask, (d.signAndWidth % 256 + 7) / 8, t⟩

/-- `case TempInt: ToInt:` -/
def dataInt (d : DCtx) (buf : List Nat) (v : Int) : Option (List Nat) :=
  let v := largeInt v
  if !rangeCheck v d.typ then none
  else some (buf ++ [largeWord v &&& d.mask])

/-- one pass of the argument loop; `none` = `ValOK = False` -/
def dataArg (d : DCtx) (buf : List Nat) : WArg → Option (List Nat)
  | .flt _ => none                                        -- ErrNum_StringOrIntButFloat
  | .int v => dataInt d buf v
  | .str cs => some (dataString d.mask d.t buf cs)
  | .chr cs =>
    match multiCharToInt true d.t d.maxLen cs with        -- MultiCharToInt(&t, MaxMultCharLen) → goto ToInt
    | some v => dataInt d buf v
    | none => some (dataString d.mask d.t buf cs)

/-- `for (z = 1; ValOK && (z <= ArgCnt); z++)`; `none` = `CodeLen = 0` after an error message -/
def dataArgs (d : DCtx) : List Nat → List WArg → Option (List Nat)
  | buf, [] => some buf
  | buf, a :: as =>
    match dataArg d buf a with
    | none => none
    | some buf' => dataArgs d buf' as

/-- `DecodeDATA`: the cells `[0, CodeLen)` -/
def decodeDATA (d : DCtx) (as : List WArg) : Option (List Nat) := dataArgs d [] as

/-- bytes per cell of the array that `ValMask` selects -/
def cellBytes (mask : Nat) : Nat := if mask ≤ 0xff then 1 else if mask ≤ 0xffff then 2 else 4

/-- the buffer as bytes (little-endian host), cut to `CodeLen * Granularity()` and handed to the code file
by `WriteBytes` (`DreheCodes` for word-listed targets with `TurnWords`) -/
def dataBytes (mask gran lg : Nat) (turn : Bool) (cells : List Nat) : List Byte :=
  let raw := ((cells.map fun w => encLE (cellBytes mask) w).flatten).take (cells.length * gran)
  let raw := raw ++ List.replicate (cells.length * gran - raw.length) 0
  if turn ≠ Generated.hostBigEndian ∧ lg = 2 then swapPairs raw else raw

/-- a slot: DATA statements at consecutive addresses; (byte offset, byte) cells and the end address in units -/
def modelRunW (d : DCtx) (gran lg : Nat) (turn : Bool) : Nat → List (List WArg) → Option (Cells × Nat)
  | pc, [] => some ([], pc)
  | pc, st :: rest =>
    match decodeDATA d st with
    | none => none
    | some cells =>
      match modelRunW d gran lg turn (pc + cells.length) rest with
      | none => none
      | some (r, pcEnd) => some (cellsAt (pc * gran) (dataBytes d.mask gran lg turn cells) ++ r, pcEnd)

/-! ## hypotheses of the whole-slot theorems (`Props/C09_Data.lean`), decidable: the driver evaluates them on every case -/

/-- the configurations of `DecodeDATA` the theorems speak about: (ValIntType, word width, packing rule of the manual,
integer arguments restricted to non-negative values) -/
def dataCfgs : List (Nat × Nat × Packing × Bool) :=
  [(Generated.itInt16, 16, .twoPerWord, false), (Generated.itInt8, 8, .perWord, false), (Generated.itInt14, 14, .perWord, false),
   (Generated.itInt12, 12, .perWord, false), (Generated.itInt10, 10, .perWord, false), (Generated.itInt4, 4, .twoLocations, false),
   (Generated.itUInt16, 16, .twoPerWord, true)]

/-- whether `WriteBytes` turns the bytes of each word -/
def swapOf (lg : Nat) (turn : Bool) : Bool := decide (turn ≠ Generated.hostBigEndian ∧ lg = 2)

/-- arguments the theorems are stated for (`ArgOK` of `Lemmas/DataWord.lean` as a Boolean) -/
def argOKb (w : Nat) (nonneg : Bool) : WArg → Bool
  | .int v => decide (-(2 : Int) ^ 63 ≤ v ∧ v < (2 : Int) ^ 63 ∧ (nonneg = true → 0 ≤ v))
  | .chr cs => decide (1 ≤ cs.length ∧ ¬ (w / 8 < cs.length ∧ cs.length ≤ (w + 7) / 8))
  | _ => true

/-- the case is inside the domain of `C09_data_slot_model_eq_spec` / `C09_data_slot_bytes_model_eq_spec` -/
def dataSlotOKb (typ w : Nat) (pk : Packing) (tableLen gran lg : Nat) (turn : Bool) (stmts : List (List WArg)) : Bool :=
  dataCfgs.any (fun q => q.1 == typ && q.2.1 == w && decide (q.2.2.1 = pk) && stmts.all (fun st => st.all (argOKb w q.2.2.2))) &&
  tableLen == 256 && ((decide (8 < w) && gran == 2) || (decide (w ≤ 8) && gran == 1 && !swapOf lg turn))

end AslModel.DataWModel
