import AslModel.Spec.MacroCtx
/-! MODEL for C11, context carried across input tags: the current file name and the most recent label.

Transcribed (as.c): `GetNextLine` (Cleanup + Restorer + unlink of the exhausted tags), `ExpandINCLUDE_Core` (the tag stores
`SpecName` = the file found and `SaveAttr` = `CurrFileName`; `CurrFileName` := the file found), `INCLUDE_Restorer`
(`CurrFileName` := `SaveAttr`), `MACRO_Restorer` (leaves `CurrFileName` alone), `INCLUDE_SearchCore` (asmallg.c) +
`FSearch`/`FExpand` (bpemu.c) at the level of path components: the directory of `CurrFileName` first, then the `-i` list
(also for names with a path specification - the C code does not skip the list), `CodeBINCLUDE` as far as it names the
file; `Produce_Code` as far as it deals with the label of the line: `LabelHandle` before the dispatch,
`ResetLastLabel = !ExpandIRP()` ... `!ExpandWHILE()`, `ResetLastLabel = False` for a macro call, and the final
`if (*OpPart && ResetLastLabel) LabelReset()`; asmlabel.c `LabelHandle` / `LabelReset` / `LabelModify`; asmcode.c
`InsertPadding` (one pad byte, then `LabelModify(OldValue, EProgCounter())`), called by the code generators when an
object that has to be aligned would start on an odd address and PADDING is on.

Abstraction: a statement is its effect on the code (`Op`: bytes, alignment wish); a body is delivered `n` times (the
token layer and the iteration stepping are Model/Tags.lean's subject); the program counter is the length of the code laid
down from address 0; the symbol table is the list of the labels entered, newest first (`pLabelEntry` = its head while
`last` is set).  Core only. -/
namespace AslModel.Ctx
open AslModel.CtxSpec

/-- behaviour of the current code that is a finding of C11; set by probing the real binary each run -/
structure Quirks where
  inclResetsLabel : Bool     -- the INCLUDE statement forgets the most recent label (it is not among the `ResetLastLabel = ...` branches)
  deriving Repr

/-! ## the file search -/

/-- the entries `FSearch` finds in `IncludeList`: an empty list is one empty entry, i.e. the working directory -/
def inclEntries (fs : FS) : List Path := if fs.incl.isEmpty then [fs.cwd] else fs.incl

/-- `FSearch`: `AssembleAndCheck` for the directory of the current file (absolute names: as they are), then for every
    entry of the include list -/
def candidates (fs : FS) (curr : Path) (f : FName) : List Path :=
  (if f.abs then resolve [] f.comps else resolve curr.dropLast f.comps) :: (inclEntries fs).map (fun d => resolve d f.comps)

def fsearch (fs : FS) (curr : Path) (f : FName) : Option Path := (candidates fs curr f).find? fs.has

/-! ## input tags -/

/-- `TInputTag` as far as this model looks at it -/
inductive Tag where
  | file (name : Path) (saveAttr : Path) (rest : Body)    -- INCLUDE tag: SpecName, SaveAttr, the lines not yet read
  | body (lines : Body) (left : Nat) (cur : Body)         -- MACRO/REPT/IRP/IRPN/IRPC/WHILE tag: Lines, deliveries still to come, LineRun

def Tag.cur : Tag → Body
  | .file _ _ r => r
  | .body _ _ c => c

def Tag.setCur : Tag → Body → Tag
  | .file n s _, b => .file n s b
  | .body l n _, b => .body l n b

/-- what `Produce_Code` gets to see -/
inductive Ev where
  | line (id : Nat) (lab : Option Nat) (op : Op)   -- a line for the code generator
  | bin (lab : Option Nat) (d : List UInt8)        -- BINCLUDE with the bytes of the file found
  | opened (k : LKind) (lab : Option Nat)          -- a line that opens a construct (well formed: `Expand...()` returns True)
  | included (lab : Option Nat)                    -- an INCLUDE line
  deriving DecidableEq, Repr

structure St where
  curr : Path           -- CurrFileName
  stack : List Tag      -- FirstInputTag chain
  evs : List Ev
  err : Bool            -- fatal error (file not found)

/-- the statement just fetched -/
def exec (fs : FS) (s : St) : Item → St
  | .stmt id lab op => { s with evs := s.evs ++ [.line id lab op] }
  | .bincl lab f =>
    match fsearch fs s.curr f with
    | none => { s with err := true }
    | some p =>
      match fs.files.lookup p with
      | some (.bin d) => { s with evs := s.evs ++ [.bin lab d] }
      | _ => { s with err := true }
  | .incl lab f =>
    match fsearch fs s.curr f with
    | none => { s with err := true }
    | some p =>
      match fs.files.lookup p with
      | some (.text b) =>
        -- ExpandINCLUDE_Core: Tag->SaveAttr = CurrFileName; CurrFileName = the file found; hang the tag in
        { s with evs := s.evs ++ [.included lab], stack := .file p s.curr b :: s.stack, curr := p }
      | _ => { s with err := true }
  | .loop k lab n body =>
    -- the body is collected up to the ENDM, then the tag is hung in (a count of 0 delivers nothing)
    if n = 0 then { s with evs := s.evs ++ [.opened k lab] }
    else { s with evs := s.evs ++ [.opened k lab], stack := .body body (n - 1) body :: s.stack }

/-- one round of the main loop: `GetNextLine` (exhausted tag: Restorer, unlink), else the next statement -/
def step (fs : FS) (s : St) : Option St :=
  if s.err then none else
  match s.stack with
  | [] => none
  | t :: rest =>
    match t.cur with
    | .cons i r => some (exec fs { s with stack := t.setCur r :: rest } i)
    | .nil =>
      match t with
      | .file _ save _ => some { s with curr := save, stack := rest }          -- INCLUDE_Restorer
      | .body l (n + 1) _ => some { s with stack := .body l n l :: rest }       -- next delivery of the body
      | .body _ 0 _ => some { s with stack := rest }                            -- MACRO_Restorer: CurrFileName untouched

def run (fs : FS) : Nat → St → St
  | 0, s => s
  | n + 1, s =>
    match step fs s with
    | none => s
    | some s' => run fs n s'

/-- `AssembleFile`: `CurrFileName` is empty, the main file is opened like an included one -/
def initSt (main : Path) (prog : Body) : St :=
  { curr := main, stack := [.file main [] prog], evs := [], err := false }

def runFile (fs : FS) (fuel : Nat) (main : Path) (prog : Body) : St := run fs fuel (initSt main prog)

/-! ## the label of the line, padding -/

structure Core where
  mem : List UInt8            -- the code laid down from address 0 on; the program counter is its length
  last : Option Nat           -- `LabelValue` while `pLabelEntry` is set (it points to the head of `syms`)
  syms : List (Nat × Nat)     -- the labels entered so far, newest first: name, value
  deriving Repr

def Core.pc (c : Core) : Nat := c.mem.length

def core0 : Core := { mem := [], last := none, syms := [] }

/-- `LabelHandle(&LabPart, EProgCounter(), False)` if a label is present -/
def labelHandle (c : Core) : Option Nat → Core
  | none => c
  | some l => { c with syms := (l, c.pc) :: c.syms, last := some c.pc }

def labelReset (c : Core) : Core := { c with last := none }

/-- `LabelModify`: only if the label still has the value the caller saw -/
def labelModify (c : Core) (old new : Nat) : Core :=
  match c.last, c.syms with
  | some v, (l, _) :: r => if v = old then { c with syms := (l, new) :: r, last := some new } else c
  | _, _ => c

/-- `InsertPadding(1, False)` -/
def insertPadding (c : Core) : Core :=
  labelModify { c with mem := c.mem ++ [0] } c.pc (c.pc + 1)

/-- the test of the code generators in front of an object that has to be aligned -/
def align (pad al : Bool) (c : Core) : Core :=
  if al && pad && c.pc % 2 == 1 then insertPadding c else c

def lookupSym (c : Core) (l : Nat) : Nat := (c.syms.lookup l).getD 0

/-- an integer in `size` bytes -/
def encode (big : Bool) (size v : Nat) : List UInt8 :=
  let le := (List.range size).map (fun i => UInt8.ofNat (v / 256 ^ i % 256))
  if big then le.reverse else le

def emit (pad : Bool) (c : Core) : Op → Core
  | .none => c
  | .code al bytes => let c := align pad al c; { c with mem := c.mem ++ bytes }
  | .ref al big size l => let c := align pad al c; { c with mem := c.mem ++ encode big size (lookupSym c l) }
  | .other => c

/-- `*OpPart.str.p_str` -/
def hasOp : Op → Bool
  | .none => false
  | _ => true

/-- the result of `ExpandIRP()` ... for a well-formed statement -/
def expandOK : LKind → Bool
  | _ => true

/-- the value of `ResetLastLabel` at the end of `Produce_Code` -/
def resetLastLabel (q : Quirks) : Ev → Bool
  | .opened .irp _ => !expandOK .irp
  | .opened .irpn _ => !expandOK .irpn
  | .opened .irpc _ => !expandOK .irpc
  | .opened .rept _ => !expandOK .rept
  | .opened .while_ _ => !expandOK .while_
  | .opened .mac _ => false
  | .included _ => q.inclResetsLabel
  | .line _ _ _ => true
  | .bin _ _ => true

def evHasOp : Ev → Bool
  | .line _ _ op => hasOp op
  | _ => true

def evLabel : Ev → Option Nat
  | .line _ lab _ => lab
  | .bin lab _ => lab
  | .opened _ lab => lab
  | .included lab => lab

def evOp : Ev → Op
  | .line _ _ op => op
  | .bin _ d => .code false d
  | _ => .other

/-- `Produce_Code` on one line -/
def produce (q : Quirks) (pad : Bool) (c : Core) (e : Ev) : Core :=
  let c := emit pad (labelHandle c (evLabel e)) (evOp e)
  if evHasOp e && resetLastLabel q e then labelReset c else c

def runCore (q : Quirks) (pad : Bool) (evs : List Ev) : Core := evs.foldl (produce q pad) core0

/-- the hand expansion as the same code generator sees it -/
def Flat.toEv : Flat → Ev
  | .line id lab op => .line id lab op
  | .bin lab d => .bin lab d

/-- what the hand expansion has in the place of a line -/
def hand : Ev → List Flat
  | .line id lab op => [.line id lab op]
  | .bin lab d => [.bin lab d]
  | .opened _ lab => labelLine lab
  | .included lab => labelLine lab

end AslModel.Ctx
