import AslModel.Spec.Cond
/-!
# Conditional assembly — MODEL of `asmif.c`

Transcription, function by function, of `asmif.c` (`ifsave_create`, `PushIF`, `CodeIF`, `CodeIFDEF`,
`CodeIFUSED`, `CodeIFEXIST`, `CodeIFB`, `CodeELSEIF`, `CodeENDIF`, `CodeSWITCH`, `CodeCASE`,
`CodeELSECASE`, `CodeENDCASE`, `CodeIFs`, `SaveIFs`, `RestoreIFs`, `AsmIFInit`), of the dispatch in
`as.c Produce_Code` (CodeIFs is called for *every* line, also while `IfAsm` is false; any other
statement is only executed `if (IfAsm)`), and of the balance check of `as.c AssembleFile_ExitPass`.

State: `IfAsm`, the `FirstIfSave` list of `(State, CaseFound, SaveIfAsm, SaveExpr, NestLevel)`,
the events of the assembled lines (code bytes, symbol definitions, symbol references), the reported error
numbers (`errmsg.h`), and `crashed` (NULL dereference).

An ordinary line goes through `Produce_Code` in two steps that both look at `IfAsm`:
"evtl. voranstehendes Label ablegen" – `if ((IfAsm) && ((!IsMacro) || (!OneMacro->LocIntLabel))) if (LabelPresent())
LabelHandle(&LabPart, EProgCounter(), False);` (`labelPart`) – and the statement itself
(`ExpandMacro` / `ExpandStruct` / `CodeGlobalPseudo` / `MakeCode`, only `if (IfAsm)`; `Leaf.exec`).

Three behaviours are parameters (`Cfg`) because the pinned tree deviates from the manual there and the
check calibrates them by probing the real binary: how far `CodeIFB` advances its argument index per
loop iteration (`z++` twice on the pinned tree), what a lone `ELSECASE` does
(`FirstIfSave->State` with `FirstIfSave == NULL`), and whether `CodeENDCASE` warns "no CASE hit" for a SWITCH
that is not assembled (it does on the pinned tree: `CaseFound` is still false when no CASE line came).
-/
namespace AslModel.Cond

/-- error numbers of `errmsg.h` used by asmif.c / as.c (numbers below 1000 are warnings) -/
def errNoCaseHit : Nat := 100
def errWrongArgCnt : Nat := 1110
def errMissEndif : Nat := 1470
def errInvIfConst : Nat := 1480
def errMissingIf : Nat := 1840

/-- `tIfState` -/
inductive St where | ifif | ifelse | caseswitch | casecase | caseelse
deriving DecidableEq, Repr

/-- `TIfSave` (without `StartLine`, which only goes to the listing) -/
structure Frame where
  state : St
  caseFound : Bool
  saveIfAsm : Bool
  /-- `SaveExpr`; `none` = `TempNone` (as left by `as_tempres_ini`) -/
  saveExpr : Option Val
  nestLevel : Nat
deriving DecidableEq, Repr

structure Cfg where
  /-- `CodeIFB`: by how much `z` advances per loop iteration (1 + number of extra `z++`) -/
  ifbStride : Nat := 2
  /-- `CodeELSECASE` with an empty stack dereferences NULL -/
  elsecaseNullCrash : Bool := true
  /-- `CodeENDCASE` reports "no CASE hit" also for a SWITCH in a part that is not assembled -/
  deadSwitchWarns : Bool := true
deriving Repr

/-- what an assembled line leaves behind -/
inductive Ev where
  /-- a code byte -/
  | code (b : Nat)
  /-- `EnterIntSymbol…` of a globally visible symbol -/
  | define (s : Nat)
  /-- a symbol was referenced (its "used" flag set) -/
  | use (s : Nat)
  /-- `asmmac.c Preprocess`: `EnterDefine` / `RemoveDefine` of text replacement `s` -/
  | effect (s : Nat)
deriving DecidableEq, Repr

/-- `LabPart` is non-empty and `LabelPresent()` (asmlabel.c) holds: not for `EQU`/`=`/`SET`/`:=`, which consume
the label field themselves -/
def Leaf.labelPresent (l : Leaf) : Bool :=
  match l.kind with
  | .plain | .use | .equ | .set | .ppDefine | .ppUndef => false
  | _ => true

/-- `FoundMacro(&OneMacro)` -/
def Leaf.isMacro (l : Leaf) : Bool :=
  match l.kind with
  | .macro | .macroInt | .macroIntGlobal | .macroIntLocal => true
  | _ => false

/-- `OneMacro->LocIntLabel` -/
def Leaf.intLabel (l : Leaf) : Bool :=
  match l.kind with
  | .macroInt | .macroIntGlobal | .macroIntLocal => true
  | _ => false

/-- the statement of a live line: `ExpandMacro` (the body runs: `db m`, with `__LABEL__:` in front for the
INTLABEL bodies – globally visible only with GLOBALSYMBOLS), `ExpandStruct` (element symbol; space is reserved,
no byte), `CodeGlobalPseudo` (`EQU`/`SET` enter the symbol, `DB` evaluates its argument), `MakeCode` (`CP m`) -/
def Leaf.exec (l : Leaf) : List Ev :=
  match l.kind with
  | .instr => [.code 254, .code l.marker]
  | .struct => [.define (elemSym l.sym)]
  | .equ | .set => [.define l.sym]
  | .macroIntGlobal => [.define l.sym, .code l.marker]
  | .use => [.use l.sym, .code l.marker]
  -- `as.c`: a line whose first character is `#` goes to `asmmac.c Preprocess` instead of `Produce_Code`;
  -- `Preprocess` itself returns at once `if (!IfAsm)` (the caller `step` tests `ifAsm` for every leaf alike),
  -- otherwise `EnterDefine` / `RemoveDefine`; no label, `CodeLen = 0`
  | .ppDefine | .ppUndef => [.effect l.sym]
  | .plain | .pseudo | .macro | .macroInt | .macroIntLocal => [.code l.marker]

structure M where
  ifAsm : Bool := true
  stack : List Frame := []
  /-- events of the assembled leaves, newest first -/
  out : List Ev := []
  /-- reported error/warning numbers, newest first -/
  errs : List Nat := []
  crashed : Bool := false
deriving Repr

def M.err (m : M) (e : Nat) : M := { m with errs := e :: m.errs }

/-- `SaveIFs()` -/
def saveIFs (m : M) : Nat :=
  match m.stack with
  | [] => 0
  | f :: _ => f.nestLevel

/-- `CodeIFB`'s loop `for (z = 1; z <= ArgCnt; z++) if (strlen(ArgStr[z++]) > 0) Blank = False;`
with `stride` increments per iteration: `skip` arguments are passed over before the next test. -/
def blankLoop (stride : Nat) : Nat → List Bool → Bool
  | _, [] => true
  | 0, a :: rest => !a && blankLoop stride (stride - 1) rest
  | k + 1, _ :: rest => blankLoop stride k rest

/-- `IfExpr` computed by `CodeIF`/`CodeIFDEF`/`CodeIFUSED`/`CodeIFEXIST`/`CodeIFB` on a live line
with a correct argument count -/
def evalCond (cfg : Cfg) : Cond → Bool
  | .expr c => c
  | .sym _ neg raw => if neg then !raw else raw
  | .blank neg nb => if neg then !(blankLoop cfg.ifbStride 0 nb) else blankLoop cfg.ifbStride 0 nb

/-- `PushIF(IfExpr)` after `ifsave_create(IfState_IFIF, IfExpr != 0)` -/
def pushIF (m : M) (e : Bool) : M :=
  { m with stack := ⟨.ifif, e, m.ifAsm, none, saveIFs m + 1⟩ :: m.stack, ifAsm := m.ifAsm && e }

/-- `CodeIF`, `CodeIFDEF`, `CodeIFUSED`, `CodeIFEXIST` (`ChkArgCnt(1,1)`), `CodeIFB` (no count check) -/
def codeIF (cfg : Cfg) (m : M) (argc : Nat) (c : Cond) : M :=
  if !m.ifAsm then pushIF m true
  else match c with
    | .blank _ _ => pushIF m (evalCond cfg c)
    | _ => if argc ≠ 1 then pushIF (m.err errWrongArgCnt) true else pushIF m (evalCond cfg c)

/-- `IfExpr` of `CodeELSEIF` with one argument -/
def elifVal (f : Frame) (c : Bool) : Bool :=
  if !f.saveIfAsm then true else if f.caseFound then false else c

/-- `CodeELSEIF` (`ELSE`, `ELSEIF`, `ELSEC`) -/
def codeELSEIF (m : M) (argc : Nat) (c : Bool) : M :=
  match m.stack with
  | [] => m.err errMissingIf
  | f :: rest =>
    if f.state ≠ .ifif then m.err errMissingIf
    else if argc = 0 then
      { m with ifAsm := (if f.saveIfAsm then !f.caseFound else m.ifAsm),
               stack := { f with state := .ifelse } :: rest }
    else if argc = 1 then
      { m with ifAsm := f.saveIfAsm && elifVal f c && !f.caseFound,
               stack := { f with caseFound := f.caseFound || elifVal f c } :: rest }
    else m.err errWrongArgCnt

/-- `CodeENDIF` (`ENDIF`, `ENDC`) -/
def codeENDIF (m : M) (argc : Nat) : M :=
  if argc ≠ 0 then m.err errWrongArgCnt
  else match m.stack with
    | [] => m.err errMissingIf
    | f :: rest =>
      if f.state ≠ .ifif ∧ f.state ≠ .ifelse then m.err errMissingIf
      else { m with ifAsm := f.saveIfAsm, stack := rest }

/-- `CodeSWITCH` (`SWITCH`/`SELECT`): `IfAsm` is not changed -/
def codeSWITCH (m : M) (argc : Nat) (v : Val) : M :=
  let fr (e : Val) : Frame := ⟨.caseswitch, false, m.ifAsm, some e, saveIFs m + 1⟩
  if argc ≠ 1 ∨ !m.ifAsm then
    let m1 := if m.ifAsm then m.err errWrongArgCnt else m
    { m1 with stack := fr (.int 1) :: m.stack }
  else { m with stack := fr v :: m.stack }

/-- the comparison inside `CodeCASE`'s loop: same type and same contents -/
def valEq (t : Val) (s : Option Val) : Bool :=
  match t, s with
  | .int a, some (.int b) => a == b
  | .flt a, some (.flt b) => a == b
  | .str a, some (.str b) => a == b
  | _, _ => false

/-- `do { … z++; } while (!eq && (z <= ArgCnt));` -/
def caseLoop (s : Option Val) : List Val → Bool
  | [] => false
  | t :: rest => if valEq t s then true else caseLoop s rest

/-- `eq` of `CodeCASE` -/
def caseEq (f : Frame) (vals : List Val) : Bool :=
  if !f.saveIfAsm then true else if f.caseFound then false else caseLoop f.saveExpr vals

/-- `CodeCASE` -/
def codeCASE (m : M) (vals : List Val) : M :=
  match m.stack with
  | [] => m.err errMissingIf
  | f :: rest =>
    if vals.isEmpty then m.err errWrongArgCnt
    else if f.state ≠ .caseswitch ∧ f.state ≠ .casecase then m.err errInvIfConst
    else
      { m with ifAsm := f.saveIfAsm && caseEq f vals && !f.caseFound,
               stack := { f with caseFound := f.caseFound || caseEq f vals, state := .casecase } :: rest }

/-- `CodeELSECASE`: note that on a frame in the wrong state the error is reported *and* the frame is
still overwritten (`CaseFound = True; State = IfState_CASEELSE`) -/
def codeELSECASE (cfg : Cfg) (m : M) (argc : Nat) : M :=
  if argc ≠ 0 then m.err errWrongArgCnt
  else match m.stack with
    | [] => if cfg.elsecaseNullCrash then { m with crashed := true } else m.err errMissingIf
    | f :: rest =>
      if f.state ≠ .caseswitch ∧ f.state ≠ .casecase then
        { m with errs := errInvIfConst :: m.errs,
                 stack := { f with caseFound := true, state := .caseelse } :: rest }
      else
        { m with ifAsm := f.saveIfAsm && !f.caseFound,
                 stack := { f with caseFound := true, state := .caseelse } :: rest }

/-- `CodeENDCASE` -/
def codeENDCASE (cfg : Cfg) (m : M) (argc : Nat) : M :=
  if argc ≠ 0 then m.err errWrongArgCnt
  else match m.stack with
    | [] => m.err errMissingIf
    | f :: rest =>
      if f.state ≠ .caseswitch ∧ f.state ≠ .casecase ∧ f.state ≠ .caseelse then m.err errInvIfConst
      else if f.caseFound || (!cfg.deadSwitchWarns && !f.saveIfAsm) then { m with ifAsm := f.saveIfAsm, stack := rest }
      else { m with ifAsm := f.saveIfAsm, errs := errNoCaseHit :: m.errs, stack := rest }

/-- `Produce_Code`, "evtl. voranstehendes Label ablegen" -/
def labelPart (m : M) (l : Leaf) : M :=
  if m.ifAsm && (!l.isMacro || !l.intLabel) then
    (if l.labelPresent then { m with out := .define l.sym :: m.out } else m)
  else m

/-- one source line through `Produce_Code`: the label in front, then `CodeIFs()`, everything else only `if (IfAsm)` -/
def step (cfg : Cfg) (m : M) (s : Stmt) : M :=
  if m.crashed then m else
  match s with
  | .leaf l => if (labelPart m l).ifAsm then { labelPart m l with out := l.exec.reverse ++ (labelPart m l).out } else labelPart m l
  | .iff argc c => codeIF cfg m argc c
  | .elseif argc c => codeELSEIF m argc c
  | .endif argc => codeENDIF m argc
  | .switch argc v => codeSWITCH m argc v
  | .case vals => codeCASE m vals
  | .elsecase argc => codeELSECASE cfg m argc
  | .endcase argc => codeENDCASE cfg m argc

def run (cfg : Cfg) (m : M) (ss : List Stmt) : M := ss.foldl (step cfg) m

/-- `AsmIFInit` + `FirstIfSave = NULL` of the pass initialisation -/
def init : M := {}

/-- `AssembleFile_ExitPass`: `if (FirstIfSave) WrError(ErrNum_MissEndif);` -/
def endPass (m : M) : M :=
  if m.crashed then m else
  match m.stack with
  | [] => m
  | _ :: _ => m.err errMissEndif

/-- `RestoreIFs(Level)` (EXITM): pop until the saved nesting level is on top -/
def restoreIFs (level : Nat) (m : M) : M :=
  go m.stack m.ifAsm
where go : List Frame → Bool → M
  | [], a => { m with stack := [], ifAsm := a }
  | f :: rest, a => if f.nestLevel ≠ level then go rest f.saveIfAsm else { m with stack := f :: rest, ifAsm := a }

/-- what the check observes of a finished pass -/
def hardErrs (m : M) : List Nat := m.errs.filter (· ≥ 1000)

def Ev.code? : Ev → Option Nat | .code b => some b | _ => none
def Ev.define? : Ev → Option Nat | .define s => some s | _ => none
def Ev.use? : Ev → Option Nat | .use s => some s | _ => none
def Ev.effect? : Ev → Option Nat | .effect s => some s | _ => none

/-- the code bytes, oldest first -/
def M.codes (m : M) : List Nat := m.out.reverse.filterMap Ev.code?

/-- the symbols entered into the symbol table, oldest first -/
def M.defs (m : M) : List Nat := m.out.reverse.filterMap Ev.define?

/-- the symbols referenced, oldest first -/
def M.uses (m : M) : List Nat := m.out.reverse.filterMap Ev.use?

/-- the text replacements established / removed by preprocessor lines, oldest first -/
def M.effs (m : M) : List Nat := m.out.reverse.filterMap Ev.effect?

/-! ## END: `as.c ProcessFile` / `asmallg.c CodeEND`

`ProcessFile` reads lines `while (!InputEnd() && !ENDOccured)`.  `CodeEND` (a global pseudo-op, so like every ordinary
statement only executed `if (IfAsm)`) sets `ENDOccured`; right behind the line the loop body flushes the macro processor
(`if (ENDOccured) while (FirstInputTag) GetNextLine(&OneLine);` - the remaining lines of running macro / REPT expansions
are dropped without being assembled) and the loop ends.  Nothing of this touches `FirstIfSave`: the balance check of
`AssembleFile_ExitPass` (`endPass`) sees the IF stack as the END line left it. -/

/-- the pass over a text with END lines: lines are read until the text is exhausted or an END was executed -/
def runL (cfg : Cfg) : M → List Line → M
  | m, [] => m
  | m, .stmt s :: r => runL cfg (step cfg m s) r
  | m, .endl :: r => if m.ifAsm then m else runL cfg m r

/-- the statements `runL` reads -/
def readL (cfg : Cfg) : M → List Line → List Stmt
  | _, [] => []
  | m, .stmt s :: r => s :: readL cfg (step cfg m s) r
  | m, .endl :: r => if m.ifAsm then [] else readL cfg m r

/-- a whole pass: `AssembleFile_InitPass`, `ProcessFile`, `AssembleFile_ExitPass` -/
def passL (cfg : Cfg) (ls : List Line) : M := endPass (runL cfg init ls)

end AslModel.Cond
