import AslModel.Generated.Widths
/-!
# MODEL of the diagnostic counters and exit status (`asmerr.c`, `as.c AssembleFile`/`main`)

`WrXErrorPos`: `-w` drops warnings (numbers < 1000) before anything is printed or counted.
`WrErrorString`: `-Werror` turns a non-fatal warning into an error; the message is printed;
`WarnCount++` / `ErrorCount++` on counters of the C width `w`; a fatal message, or reaching
`-maxerrors`, ends the process with status 3 after `EmergencyStop()` removed the code file.
`AssembleFile` tail: `ErrorCount != 0` ⇒ `unlink(OutName)`, `GlobErrFlag := True`.
`main`: `return GlobErrFlag ? 2 : 0`.
-/
namespace AslModel.ErrCount

/-- `warning`: numbered warning through `WrXErrorPos` (dropped by `-w`); `uwarning`: the WARNING
pseudo instruction, which calls `WrErrorString` directly and is *not* dropped by `-w` -/
inductive Diag where
  | warning | uwarning | error | fatal
deriving DecidableEq, Repr, Inhabited

structure Cfg where
  werror : Bool := false
  suppWarns : Bool := false
  /-- `-maxerrors n`, 0 = unlimited -/
  maxErrors : Nat := 0
  /-- bit width of `ErrorCount`/`WarnCount` -/
  width : Nat := Generated.errorCountBits
deriving Repr

/-- state while one file is assembled (last pass) -/
structure FileSt where
  errCnt : Nat := 0        -- C counter, wraps at 2^width
  warnCnt : Nat := 0
  printedErr : Nat := 0    -- messages of class error actually written to the error channel
  printedWarn : Nat := 0
  fatal : Bool := false    -- process left with exit(3)
deriving Repr, DecidableEq

/-- an error-class message: count, print, stop on `-maxerrors` -/
def countError (c : Cfg) (s : FileSt) : FileSt :=
  let e := (s.errCnt + 1) % 2 ^ c.width
  { s with errCnt := e, printedErr := s.printedErr + 1,
           fatal := decide (c.maxErrors ≠ 0 ∧ e ≥ c.maxErrors) }

def countWarning (c : Cfg) (s : FileSt) : FileSt :=
  if c.werror then countError c s
  else { s with warnCnt := (s.warnCnt + 1) % 2 ^ c.width, printedWarn := s.printedWarn + 1 }

def stepDiag (c : Cfg) (s : FileSt) (d : Diag) : FileSt :=
  if s.fatal then s else
  match d with
  | .warning => if c.suppWarns then s else countWarning c s
  | .uwarning => countWarning c s
  | .error => countError c s
  | .fatal =>
    { s with errCnt := (s.errCnt + 1) % 2 ^ c.width, printedErr := s.printedErr + 1, fatal := true }

def runFile (c : Cfg) (ds : List Diag) : FileSt := ds.foldl (stepDiag c) {}

structure FileOut where
  codeFile : Bool          -- a code file is left for this source
  sumErr : Nat             -- totals printed in the summary
  sumWarn : Nat
  printedErr : Nat
  printedWarn : Nat
  fatal : Bool
deriving Repr, DecidableEq

def fileOut (s : FileSt) : FileOut :=
  { codeFile := !s.fatal && s.errCnt == 0, sumErr := s.errCnt, sumWarn := s.warnCnt,
    printedErr := s.printedErr, printedWarn := s.printedWarn, fatal := s.fatal }

/-- a whole invocation: files in order; a fatal diagnostic ends the process -/
def runFiles (c : Cfg) : List (List Diag) → Bool → List FileOut × Nat
  | [], glob => ([], if glob then 2 else 0)
  | f :: fs, glob =>
    let s := runFile c f
    if s.fatal then ([fileOut s], 3)
    else
      let (outs, st) := runFiles c fs (glob || s.errCnt != 0)
      (fileOut s :: outs, st)

def invoke (c : Cfg) (files : List (List Diag)) : List FileOut × Nat := runFiles c files false

end AslModel.ErrCount
