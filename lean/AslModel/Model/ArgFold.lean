import AslModel.Spec.ArgFold
/-! MODEL for C11, argument collection: transcription of `asmsub.c UpString()` and of the places of as.c that call
it on argument texts:

* `ExpandMacro()`       3b: `if (!CaseSensitive) UpString(ArgStr[z1].str.p_str);` - every call argument, before `name=` is split off
* `ProcessIRPArgs()`    `if (!CaseSensitive) UpString(pArg->str.p_str);` - arguments (not the placeholder)
* `ProcessIRPNArgs()`   the same for IRPN
* `ExpandIRPC()`        no conversion of the string
* `ProcessMACROArgs()`  `UpString(Arg.str.p_str)` after the default value was cut off: the default stays as written

`UpString` walks over the text with `hypquot` (bit 0: inside '...', bit 1: inside "...") and `LastBk` (the previous
character was a backslash - ANY backslash, also the second one of `\\` and one outside a constant). Core only. -/
namespace AslModel.ArgFoldModel
open AslModel.MacroSpec AslModel.ArgFold

/-- `UpCaseTable[c]` of the default (ASCII) setup -/
def upCase (c : Ch) : Ch := if 97 ≤ c.toNat ∧ c.toNat ≤ 122 then UInt8.ofNat (c.toNat - 32) else c

/-- the loop body of `UpString`: (hypquot, LastBk) and the character, giving the new state and the stored character -/
def upStep (hypquot : Nat) (lastBk : Bool) (c : Ch) : (Nat × Bool) × Ch :=
  if c = 92 then ((hypquot, true), c)
  else if c = 39 then
    ((if (hypquot &&& 2 = 0) ∧ !lastBk then hypquot ^^^ 1 else hypquot, false), c)
  else if c = 34 then
    ((if (hypquot &&& 1 = 0) ∧ !lastBk then hypquot ^^^ 2 else hypquot, false), c)
  else ((hypquot, false), if hypquot = 0 then upCase c else c)

def upLoop : Nat → Bool → Line → Line
  | _, _, [] => []
  | h, b, c :: rest => (upStep h b c).2 :: upLoop (upStep h b c).1.1 (upStep h b c).1.2 rest

/-- `UpString(s)` -/
def upString (s : Line) : Line := upLoop 0 false s

/-- `if (!CaseSensitive) UpString(...)` -/
def foldArgM (cs : Bool) (s : Line) : Line := if cs then s else upString s

/-- the argument texts of a construct tree as the collecting functions store them -/
def foldProgM (cs : Bool) (prog : Body) : Body := foldBody (foldArgM cs) prog

end AslModel.ArgFoldModel
