/-!
# MODEL of the multipass core with PHASE/DEPHASE and PC-relative, value-dependent instruction sizes

Extension of `Model/Pass.lean` (same anchors: `as.c` pass loop and `Produce_Code`, `asmpars.c` LookupSymbol /
SymbolAdder, `asmlabel.c` LabelHandle) by

* `asmallg.c CodePHASE / CodeDEPHASE` and `asmsub.c EProgCounter()`: `Phases[ActPC]` (`off`) is added to the load
  program counter (`pc`) wherever a *value* is formed – label values, the value an unknown symbol reads as, the base of
  a PC-relative distance; the code itself is stored at the load address.  `PHASE a` pushes the old offset and sets
  `off := a - ProgCounter()`, `DEPHASE` pops (offset 0 when nothing was pushed).
* the `AfterBSRAddr` bookkeeping (`as.c Produce_Code`: "no longer at an address right after a BSR" on every line,
  `asmlabel.c LabelHandle`: a label whose value equals `AfterBSRAddr` gets `eSymbolFlag_NextLabelAfterBSR`,
  `code68k.c DecodeBcc`: records `EProgCounter() + CodeLen` behind every BSR and reads the flag of its target).

* `label n`        – value `EProgCounter()`, flag `value == AfterBSRAddr`; re-entering with another value ⇒ `Repass`.
* `ref n size bsr` – instruction/data item of `size value epc flag` bytes referring to `n`; an unknown symbol reads as
                     `EProgCounter()` without flag and sets `Repass`.  `bsr = true`: the item records the address
                     behind itself in `AfterBSRAddr`.
* `skip k`         – code/data of fixed size.
* `phase a` / `dephase`.
-/
namespace AslModel.PassPhase

abbrev Sym := Nat
/-- symbol table: value and `eSymbolFlag_NextLabelAfterBSR` -/
abbrev Tab := Sym → Option (Int × Bool)

inductive Stmt where
  | label (n : Sym)
  | ref (n : Sym) (size : Int → Int → Bool → Nat) (bsr : Bool)
  | skip (k : Nat)
  | phase (a : Int)
  | dephase

/-- one recorded reference: load address, `EProgCounter()` there, symbol, value encoded, size chosen -/
structure Ref where
  addr : Nat
  epc : Int
  sym : Sym
  val : Int
  size : Nat
deriving DecidableEq, Repr

structure PS where
  pc : Nat := 0                 -- ProgCounter(): load address
  off : Int := 0                -- Phases[ActPC]
  stk : List Int := []          -- pPhaseStacks[ActPC]
  after : Int := 0              -- AfterBSRAddr
  tab : Tab
  repass : Bool := false
  out : List Ref := []

/-- `EProgCounter()` -/
def PS.epc (s : PS) : Int := (s.pc : Int) + s.off

def upd (t : Tab) (n : Sym) (v : Int × Bool) : Tab := fun m => if m = n then some v else t m

/-- `Produce_Code`: `if (EProgCounter() != AfterBSRAddr) AfterBSRAddr = 0;` – done on every source line -/
def tick (s : PS) : PS := if s.epc = s.after then s else { s with after := 0 }

def exec (s : PS) : Stmt → PS
  | .label n =>
      let v := s.epc
      let mism := match s.tab n with
        | some (v', _) => v' != v
        | none => false
      { s with tab := upd s.tab n (v, v == s.after), repass := s.repass || mism }
  | .ref n size bsr =>
      match s.tab n with
      | some (v, fl) =>
          let sz := size v s.epc fl
          { s with pc := s.pc + sz, out := s.out ++ [⟨s.pc, s.epc, n, v, sz⟩],
                   after := if bsr && sz != 0 then s.epc + sz else s.after }
      | none =>   -- LookupSymbol: unknown => value := EProgCounter(), Repass := True, no symbol flags
          let sz := size s.epc s.epc false
          { s with pc := s.pc + sz, out := s.out ++ [⟨s.pc, s.epc, n, s.epc, sz⟩], repass := true,
                   after := if bsr && sz != 0 then s.epc + sz else s.after }
  | .skip k => { s with pc := s.pc + k }
  | .phase a => { s with stk := s.off :: s.stk, off := a - (s.pc : Int) }
  | .dephase =>
      match s.stk with
      | o :: r => { s with off := o, stk := r }
      | [] => { s with off := 0 }

def step (s : PS) (st : Stmt) : PS := exec (tick s) st

def run (s : PS) (p : List Stmt) : PS := p.foldl step s
/-- one pass over the program placed at load address `base` (`ORG base` outside any PHASE) -/
def pass (T : Tab) (base : Nat) (p : List Stmt) : PS := run { pc := base, tab := T } p

/-- the pass loop `do … while (ErrorCount == 0 && Repass)` with a fuel bound on the number of passes -/
def assemble (p : List Stmt) (base : Nat) : Nat → Tab → Nat → Option (Nat × PS)
  | 0, _, _ => none
  | fuel + 1, T, k =>
    let s := pass T base p
    if s.repass then assemble p base fuel s.tab (k + 1) else some (k + 1, s)

def emptyTab : Tab := fun _ => none

/-! ### the size rules of the instruction forms the correspondence uses -/

/-- `code68k.c IsDisp8` -/
def isDisp8 (d : Int) : Bool := -128 ≤ d && d ≤ 127

/-- 68000 `Bcc`/`BRA` without size attribute (`DecodeBcc`): 8-bit form (a NOP for distance 0) or 16-bit form -/
def sizeBcc (v epc : Int) (_ : Bool) : Nat := if isDisp8 (v - (epc + 2)) then 2 else 4

/-- 68000 `BSR` without size attribute: distance 0 has no 8-bit form; a target that is the label directly behind the
BSR keeps the 16-bit form at distance 2 -/
def sizeBsr (v epc : Int) (fl : Bool) : Nat :=
  let d := v - (epc + 2)
  if isDisp8 d then (if d = 0 then 4 else if fl && d = 2 then 4 else 2) else 4

/-- 6502 `lda`: zero-page form for 0 ≤ value < 256 -/
def sizeZp (v _epc : Int) (_ : Bool) : Nat := if 0 ≤ v ∧ v < 256 then 2 else 3

end AslModel.PassPhase
