import AslModel.Spec.Files
/-!
# MODEL for C18 (target description) — the core globals a `SwitchTo_*` function is expected to overwrite

The description of the selected target lives in file-scope globals of asmdef.c that *no* per-pass or per-file path
resets (`SegInits`, `SegLimits` are allocated once by `asmdef_init`; `Grans`, `ListGrans`, `ValidSegs`, ... are plain
globals): `SetCPUCore` (asmallg.c) relies on the switch function of the new target to overwrite them.  Mirrors, at the
granularity the property can observe:

* `AssembleFile_InitPass`: `ActPC = SegCode; PCs[ActPC] = 0; PCsUsed[z] = False`, default target → `initPass`
* `SetCPUCore` + `SwitchTo_*`: stores exactly the elements the switch function assigns (`Target`, data: generated /
  dumped from the current build) → `switchTo`;  `CodeCPU` then calls `SetNSeg(SegCode)`
* `SetNSeg` (asmallg.c): `if (ActPC != NSeg || !PCsUsed[ActPC]) { ActPC = NSeg; if (!PCsUsed[ActPC]) PCs[ActPC] = SegInits[ActPC]; PCsUsed[ActPC] = True; }`
* `CodeSEGMENT` / `DecodeSegment`: only a segment in `ValidSegs` is accepted
* a label: `EProgCounter()` of the active segment;  `CodeORG`;  `CodeALIGN` (reserves up to the next multiple)
* `WriteCode` (as.c), run after every statement: `!ChkPC(PC + CodeLen - 1) && CodeLen != 0` ⇒ address overflow, the
  counter stays; else `PCsUsed[ActPC] = True; PCs[ActPC] += CodeLen`
* `DefChkPC`: `ValidSegs` bit and `Addr <= SegLimits[ActPC]`; a target that installs its own `ChkPC` does not read `SegLimits`

What survives from one file to the next is `Core`.
-/
namespace AslModel.TargetDesc

/-- what the switch function does for one segment: is it in `ValidSegs`, and the values it stores
(`none`: the element is not assigned – it keeps what the previous target left) -/
structure SegD where
  valid : Bool
  init : Option Nat
  limit : Option Nat
deriving Repr, DecidableEq, Inhabited

/-- one target as its `SwitchTo_*` describes it; `segs[n]` = segment number n (0 = none, 1 = CODE ...) -/
structure Target where
  segs : List SegD
  /-- the switch function installs its own `ChkPC` -/
  ownChk : Bool
deriving Repr, DecidableEq, Inhabited

def noSeg : SegD := ⟨false, none, none⟩

def Target.seg (t : Target) (s : Nat) : SegD := t.segs.getD s noSeg

inductive Op where
  /-- `CPU <name of target i>` -/
  | cpu (i : Nat)
  /-- `SEGMENT <name of segment s>` -/
  | segment (s : Nat)
  /-- a label on its own line: observes the location counter -/
  | label
  | org (v : Nat)
  /-- `ALIGN k` -/
  | align (k : Nat)
deriving Repr, DecidableEq, Inhabited

inductive Obs where
  | lab (seg : Nat) (v : Nat)
deriving Repr, DecidableEq, Inhabited

/-- `SegInits[]`, `SegLimits[]`: what survives a pass / a file -/
structure Core where
  inits : Nat → Nat
  limits : Nat → Nat

structure St where
  core : Core
  cur : Target
  act : Nat
  pcs : Nat → Nat
  used : Nat → Bool
  errs : Nat
  out : List Obs

structure Result where
  errs : Nat
  obs : List Obs
deriving Repr, DecidableEq, Inhabited

def updN {α : Type} (f : Nat → α) (i : Nat) (x : α) : Nat → α := fun j => if j = i then x else f j

def pick (o : Option Nat) (old : Nat) : Nat :=
  match o with
  | some v => v
  | none => old

/-- the stores of `SwitchTo_*` of target `t` -/
def switchTo (t : Target) (c : Core) : Core :=
  { inits := fun s => pick (t.seg s).init (c.inits s)
    limits := fun s => pick (t.seg s).limit (c.limits s) }

/-- `SetNSeg` -/
def setNSeg (s : Nat) (st : St) : St :=
  if st.act ≠ s ∨ st.used st.act = false then
    { st with act := s
              pcs := if st.used s = false then updN st.pcs s (st.core.inits s) else st.pcs
              used := updN st.used s true }
  else st

/-- `ChkPC(addr)`: `DefChkPC`, or the target's own function (which does not read `SegLimits`; the programs of the
correspondence keep to addresses every such function accepts) -/
def chkPC (st : St) (addr : Nat) : Bool :=
  if (st.cur.seg st.act).valid = false then false
  else if st.cur.ownChk then true
  else decide (addr ≤ st.core.limits st.act)

/-- `WriteCode` for a statement that reserves `len` address units -/
def writeCode (st : St) (len : Nat) : St :=
  if len ≠ 0 ∧ chkPC st (st.pcs st.act + len - 1) = false then { st with errs := st.errs + 1 }
  else { st with used := updN st.used st.act true, pcs := updN st.pcs st.act (st.pcs st.act + len) }

/-- padding `ALIGN k` computes -/
def padOf (pc k : Nat) : Nat := (pc + k - 1) - (pc + k - 1) % k - pc

def step (tg : List Target) (st : St) : Op → St
  | .cpu i =>
    match tg[i]? with
    | some t => writeCode (setNSeg 1 { st with core := switchTo t st.core, cur := t }) 0
    | none => writeCode { st with errs := st.errs + 1 } 0
  | .segment s =>
    if s ≠ 0 ∧ (st.cur.seg s).valid = true then writeCode (setNSeg s st) 0
    else writeCode { st with errs := st.errs + 1 } 0
  | .label => writeCode { st with out := .lab st.act (st.pcs st.act) :: st.out } 0
  | .org v => writeCode { st with pcs := updN st.pcs st.act v } 0
  | .align k =>
    if k = 0 then writeCode { st with errs := st.errs + 1 } 0
    else writeCode st (padOf (st.pcs st.act) k)

def run (tg : List Target) (st : St) (ops : List Op) : St := ops.foldl (step tg) st

/-- `AssembleFile_InitPass` with default target `d` -/
def initPass (d : Target) (c : Core) : St :=
  { core := switchTo d c, cur := d, act := 1, pcs := fun _ => 0, used := fun _ => false, errs := 0, out := [] }

def resultOf (st : St) : Result := { errs := st.errs, obs := st.out.reverse }

/-- `AssembleFile` (one pass; the programs of this model need no second one) -/
def assembleFile (tg : List Target) (d : Target) (c : Core) (ops : List Op) : Result × Core :=
  let st := run tg (initPass d c) ops
  (resultOf st, st.core)

/-- `main`'s loop over the file arguments -/
def assembleFiles (tg : List Target) (d : Target) : Core → List (List Op) → List Result × Core :=
  FilesSpec.runFiles (assembleFile tg d)

/-- **target description complete**: CODE is valid, and every valid segment gets its start value and (unless the target
checks addresses itself) its limit from the switch function -/
def Complete (t : Target) : Prop :=
  (t.seg 1).valid = true ∧
  ∀ s, (t.seg s).valid = true → (t.seg s).init.isSome = true ∧ ((t.seg s).limit.isSome = true ∨ t.ownChk = true)

def completeB (t : Target) : Bool :=
  (t.seg 1).valid && (List.range t.segs.length).all (fun s =>
    !(t.seg s).valid || ((t.seg s).init.isSome && ((t.seg s).limit.isSome || t.ownChk)))

/-- targets a file selects -/
def selected : List Op → List Nat
  | [] => []
  | .cpu i :: r => i :: selected r
  | _ :: r => selected r

def bootCore : Core := { inits := fun _ => 0, limits := fun _ => 0 }

end AslModel.TargetDesc
