/-! MODEL for C01, part "operand positions" on the MELPS 740: transcription of `code65.c DecodeBBC_BBS` and `InsNOP`
(bit branch `BBC/BBS bit,zp|A,rel`; directly behind CLI/SEI the assembler wants a NOP in front of the branch):

    BAsmCode[0] = (bit << 5) + Code [+ 4];  [BAsmCode[1] = zp;]
    AdrInt = target - (EProgCounter() + 2 + Ord(b) + Ord(CLI_SEI_Flag));
    CodeLen = 2 + Ord(b);  BAsmCode[CodeLen - 1] = AdrInt & 0xff;
    if (CLI_SEI_Flag) InsNOP();

    InsNOP:  memmove(BAsmCode, BAsmCode + 1, CodeLen);  CodeLen++;  BAsmCode[0] = NOPCode;

`BAsmCode` is a buffer that keeps the bytes of earlier instructions (`stale`).  Core only. -/
namespace AslModel.Model.M740Bbs

/-- `memmove(dst = buf, src = buf + 1, n)`: the first `n` bytes become the bytes 1..n -/
def moveDown (buf : List Nat) (n : Nat) : List Nat := (buf.drop 1).take n ++ buf.drop n

/-- `InsNOP` as written -/
def insNOP (buf : List Nat) (codeLen : Nat) : List Nat × Nat :=
  (0xEA :: (moveDown buf codeLen).drop 1, codeLen + 1)

/-- the intended effect: a NOP in front of the instruction -/
def insNOPIntended (buf : List Nat) (codeLen : Nat) : List Nat × Nat :=
  (0xEA :: buf.take codeLen ++ buf.drop (codeLen + 1), codeLen + 1)

def rel8 (d : Int) : Nat := (d % 256).toNat

/-- `DecodeBBC_BBS`: `code` = 0x03 (BBS) / 0x13 (BBC), `zp` = none for the accumulator form; `stale` = rest of the buffer.
Result: the emitted bytes (first `CodeLen` bytes of the buffer). -/
def encodeWith (nop : List Nat → Nat → List Nat × Nat) (code bit : Nat) (zp : Option Nat) (epc target : Int) (afterCliSei : Bool)
    (stale : List Nat) : List Nat :=
  let b := if zp.isSome then 1 else 0
  let f := if afterCliSei then 1 else 0
  let op := bit * 32 + code + (if zp.isSome then 4 else 0)
  let adr := target - (epc + 2 + b + f)
  let ins : List Nat := match zp with
    | some z => [op, z, rel8 adr]
    | none => [op, rel8 adr]
  let buf := ins ++ stale
  if afterCliSei then
    let r := nop buf ins.length
    r.1.take r.2
  else buf.take ins.length

/-- the code as it is -/
def encode := encodeWith insNOP

/-- the code with the intended `InsNOP` -/
def encodeIntended := encodeWith insNOPIntended

end AslModel.Model.M740Bbs
