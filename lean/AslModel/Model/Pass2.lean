import AslModel.Model.Pass
import AslModel.Generated.PassConsts
/-!
# MODEL of the multipass core with symbols defined by expressions (`name EQU expr`)

Extension of `Model/Pass.lean` (same symbol table `Tab`, same `SymbolAdder` comparison, same pass loop) by

* expressions over constants, symbols, the PC symbol (`*`/`$`), `+` and `-` – `asmpars.c` `EvalStrExpression`
  → `LookupSymbol`:
  - symbol found in the table: its stored value (the value of the previous pass while the symbol has not been
    redefined in this pass);
  - symbol not found and `PassNo <= MaxSymPass` (the first pass): value := `EProgCounter()`, `Repass := True`,
    flag `eSymbolFlag_FirstPassUnknown` – the flag is OR-ed through every operator (`eSymbolFlags_Promotable`);
  - symbol not found in a later pass: error `ErrNum_SymbolUndef`, the expression has no value (`TempNone`);
* `equ n e` – `asmallg.c` `CodeSETEQU(0)`: the expression is evaluated; **when its flags contain
  FirstPassUnknown the symbol is not entered at all** (`if (!mFirstPassUnknown(t.Flags))`), when it has no
  value nothing is entered either, otherwise `EnterIntSymbol` → `SymbolAdder` (re-entering a constant with a
  different value requests another pass);
* `ref e size sizeU` – an instruction or data item whose operand is the expression `e`;
* the pass loop of `as.c` `AssembleFile`: `do … while (ErrorCount == 0 && Repass)` with `PassNo` counted from
  `firstPassNo`.

After the first error of a pass nothing of that pass is observable any more (the loop ends, the code file is
deleted); the model only records `err := true`.

Outside the model: `SET` (re-definable symbols have no single final value), 64-bit wrap-around of `LargeInt`
(values are `Int`), double definitions (`ErrNum_DoubleDef`: the theorems take `(defs p).Nodup` as hypothesis where it
matters), range errors of the operand (the correspondence keeps operands inside the range of the data word).
-/
namespace AslModel.Pass2
open AslModel.Pass (Sym Tab upd emptyTab)
open AslModel.Generated.PassConsts (maxSymPass firstPassNo)

inductive Expr where
  | const (c : Int)
  | sym (n : Sym)
  | pc
  | add (a b : Expr)
  | sub (a b : Expr)
deriving Repr, DecidableEq

inductive Stmt where
  | label (n : Sym)
  | equ (n : Sym) (e : Expr)
  | ref (e : Expr) (size : Int → Nat) (sizeU : Option Nat)
  | skip (k : Nat)

/-- `EvalStrExpression`: `none` = no value (symbol undefined after the first pass); otherwise the value and
the FirstPassUnknown flag.  `first` = `PassNo <= MaxSymPass`. -/
def eval (first : Bool) (T : Tab) (pc : Nat) : Expr → Option (Int × Bool)
  | .const c => some (c, false)
  | .pc => some ((pc : Int), false)
  | .sym n =>
    match T n with
    | some v => some (v, false)
    | none => if first then some ((pc : Int), true) else none
  | .add a b =>
    match eval first T pc a, eval first T pc b with
    | some (x, f), some (y, g) => some (x + y, f || g)
    | _, _ => none
  | .sub a b =>
    match eval first T pc a, eval first T pc b with
    | some (x, f), some (y, g) => some (x - y, f || g)
    | _, _ => none

structure PS where
  pc : Nat := 0
  tab : Tab
  repass : Bool := false
  err : Bool := false
  out : List (Nat × Expr × Int) := []          -- (address, operand expression, value encoded)
  eqs : List (Nat × Sym × Expr × Int) := []    -- (PC, name, expression, value entered) of every executed EQU / label

/-- `SymbolAdder`: does re-entering `n` with value `v` request another pass? -/
def mismatch (T : Tab) (n : Sym) (v : Int) : Bool :=
  match T n with
  | some v' => v' != v
  | none => false

def step (first : Bool) (s : PS) : Stmt → PS
  | .label n =>
      -- a label is `n EQU *` (`LabelHandle` → `EnterIntSymbol`)
      { s with tab := upd s.tab n s.pc, repass := s.repass || mismatch s.tab n s.pc,
               eqs := s.eqs ++ [(s.pc, n, .pc, (s.pc : Int))] }
  | .equ n e =>
      match eval first s.tab s.pc e with
      | none => { s with err := true }                      -- symbol undefined: nothing entered
      | some (_, true) => { s with repass := true }         -- FirstPassUnknown: the EQU is not done at all
      | some (v, false) =>
          { s with tab := upd s.tab n v, repass := s.repass || mismatch s.tab n v,
                   eqs := s.eqs ++ [(s.pc, n, e, v)] }
  | .ref e size sizeU =>
      match eval first s.tab s.pc e with
      | none => { s with err := true }
      | some (v, unk) =>
          { s with pc := s.pc + (if unk then sizeU.getD (size v) else size v),
                   out := s.out ++ [(s.pc, e, v)], repass := s.repass || unk }
  | .skip k => { s with pc := s.pc + k }

def run (first : Bool) (s : PS) (p : List Stmt) : PS := p.foldl (step first) s
def pass (first : Bool) (T : Tab) (p : List Stmt) : PS := run first { tab := T } p

/-- `PassNo <= MaxSymPass` in the pass that follows `k` completed passes -/
def isFirst (k : Nat) : Bool := decide (firstPassNo + k ≤ maxSymPass)

/-- the pass loop `do … while (ErrorCount == 0 && Repass)` with a fuel bound on the number of passes;
`k` = passes already done.  Returns the number of passes run and the state of the last pass (its `err` tells
whether the assembly was rejected), or `none` when the fuel ran out. -/
def assemble (p : List Stmt) : Nat → Tab → Nat → Option (Nat × PS)
  | 0, _, _ => none
  | fuel + 1, T, k =>
    let s := pass (isFirst k) T p
    if s.err then some (k + 1, s)
    else if s.repass then assemble p fuel s.tab (k + 1) else some (k + 1, s)

/-- the symbols a program defines, in textual order -/
def defs : List Stmt → List Sym
  | [] => []
  | .label n :: p => n :: defs p
  | .equ n _ :: p => n :: defs p
  | _ :: p => defs p

end AslModel.Pass2
