import AslModel.Spec.Files
/-!
# MODEL for C18 — the file / pass life cycle of `as.c` over the statement-settable state

Mirrors (function by function, at the granularity the property can observe):

* `main`'s loop over the file arguments            → `assembleFiles` (= `FilesSpec.runFiles assembleFile`)
* `AssembleFile`'s `do … while (ErrorCount == 0 && Repass)` → `passLoop` (further passes forced by hook H1)
* `AssembleFile_InitPass`: stacks := NULL, `InitPass()` (every registered per-pass initialiser of every code
  generator), core `SetFlag`s, `SetCPUByType(0)`    → `initPass`
* `SetCPUCore`: `ParseCPUArgs` defaults + `SwitchTo_*` → `Op.cpu` / `switchToVals`
* `CodeASSUME` / `DecodeONOFF` (only names of the *current* target are known) → `Op.set`
* an instruction whose encoding reads such a variable → `Op.probe`
* `AssembleFile_ExitPass`: `UnsetCPU`, open IF/SAVE/SECTION/STRUCT ⇒ one error each → `exitErrs`

Which variable is reset where is **data** (`VarSpec`), regenerated from the C sources (`Generated/GenState.lean`).
The state that survives from pass to pass and from file to file is `Carry`.
-/
namespace AslModel.Files

/-- reset behaviour of one statement-settable variable of a code generator -/
structure VarSpec where
  /-- owning code generator (index of its code*.c) -/
  gen : Nat
  /-- given a fresh value at the start of every pass (registered InitPass proc, or AssembleFile_InitPass itself) -/
  perPass : Bool
  /-- given a fresh value whenever its target is selected (SwitchTo_*, CPU-argument defaults) -/
  perCpu : Bool
  /-- the value a reset gives -/
  dflt : Int
deriving Repr, DecidableEq, Inhabited

abbrev SpecT := Nat → VarSpec
abbrev Vals := Nat → Int

inductive Op where
  /-- `CPU <target of generator g>` -/
  | cpu (g : Nat)
  /-- `ASSUME reg:x`, `<FLAG> ON|OFF`, a CPU argument -/
  | set (v : Nat) (x : Int)
  /-- an instruction whose code depends on variable `v`; it is rejected (error) when the value is in `bad` -/
  | probe (v : Nat) (bad : List Int)
  /-- state-independent code -/
  | emit (b : Int)
  /-- a statement that reports an error -/
  | err
  /-- IF / SAVE / SECTION / STRUCT / … (kind `k`) -/
  | push (k : Nat)
  /-- ENDIF / RESTORE / ENDSECTION / ENDSTRUCT / … -/
  | pop (k : Nat)
deriving Repr, DecidableEq, Inhabited

inductive Obs where
  | code (v : Nat) (x : Int)
  | lit (b : Int)
deriving Repr, DecidableEq, Inhabited

/-- what survives a pass / a file -/
structure Carry where
  vals : Vals
  stack : List Nat

/-- machine state inside a pass -/
structure St where
  vals : Vals
  cur : Nat
  stack : List Nat
  errs : Nat
  out : List Obs

/-- observable result of one file -/
structure Result where
  errs : Nat
  obs : List Obs
deriving Repr, DecidableEq, Inhabited

structure Source where
  /-- passes forced after convergence (hook H1, `ASL_VERIF_EXTRA_PASSES`) -/
  extra : Nat
  ops : List Op
deriving Repr, DecidableEq, Inhabited

def upd (f : Vals) (v : Nat) (x : Int) : Vals := fun i => if i = v then x else f i

/-- `InitPass()` + the core's own `SetFlag`s -/
def initPassVals (sp : SpecT) (f : Vals) : Vals := fun i => if (sp i).perPass then (sp i).dflt else f i

/-- `ParseCPUArgs` defaults + `SwitchTo_*` of generator `g` -/
def switchToVals (sp : SpecT) (g : Nat) (f : Vals) : Vals :=
  fun i => if (sp i).gen = g ∧ (sp i).perCpu = true then (sp i).dflt else f i

def step (sp : SpecT) (s : St) : Op → St
  | .cpu g => { s with cur := g, vals := switchToVals sp g s.vals }
  | .set v x => if (sp v).gen = s.cur then { s with vals := upd s.vals v x } else { s with errs := s.errs + 1 }
  | .probe v bad =>
    if (sp v).gen = s.cur then
      { s with out := .code v (s.vals v) :: s.out, errs := s.errs + (if bad.contains (s.vals v) then 1 else 0) }
    else { s with errs := s.errs + 1 }
  | .emit b => { s with out := .lit b :: s.out }
  | .err => { s with errs := s.errs + 1 }
  | .push k => { s with stack := k :: s.stack }
  | .pop k =>
    match s.stack with
    | k' :: r => if k' = k then { s with stack := r } else { s with errs := s.errs + 1 }
    | [] => { s with errs := s.errs + 1 }

def run (sp : SpecT) (s : St) (ops : List Op) : St := ops.foldl (step sp) s

/-- `AssembleFile_InitPass` (default target = generator `dcpu`) -/
def initPass (sp : SpecT) (dcpu : Nat) (c : Carry) : St :=
  { vals := switchToVals sp dcpu (initPassVals sp c.vals), cur := dcpu, stack := [], errs := 0, out := [] }

/-- `AssembleFile_ExitPass`: an open construct is an error -/
def exitErrs (s : St) : Nat := s.errs + s.stack.eraseDups.length

def runPass (sp : SpecT) (dcpu : Nat) (c : Carry) (ops : List Op) : St := run sp (initPass sp dcpu c) ops

def resultOf (s : St) : Result := { errs := exitErrs s, obs := s.out.reverse }

def carryOf (s : St) : Carry := { vals := s.vals, stack := s.stack }

/-- the pass loop: `n` further passes are forced while the file is error-free -/
def passLoop (sp : SpecT) (dcpu : Nat) : Nat → Carry → List Op → Result × Carry
  | 0, c, ops => let s := runPass sp dcpu c ops; (resultOf s, carryOf s)
  | n + 1, c, ops =>
    let s := runPass sp dcpu c ops
    if exitErrs s = 0 then passLoop sp dcpu n (carryOf s) ops else (resultOf s, carryOf s)

/-- `AssembleFile` -/
def assembleFile (sp : SpecT) (dcpu : Nat) (c : Carry) (src : Source) : Result × Carry :=
  passLoop sp dcpu src.extra c src.ops

/-- `main`'s loop over the file arguments -/
def assembleFiles (sp : SpecT) (dcpu : Nat) : Carry → List Source → List Result × Carry :=
  FilesSpec.runFiles (assembleFile sp dcpu)

/-- a variable is reset on one of the paths that run before it can be read -/
def Reset (sp : SpecT) (v : Nat) : Prop := (sp v).perPass = true ∨ (sp v).perCpu = true

instance (sp : SpecT) (v : Nat) : Decidable (Reset sp v) := by unfold Reset; infer_instance

/-- variables some instruction of the sources reads -/
def probed : List Op → List Nat
  | [] => []
  | .probe v _ :: r => v :: probed r
  | _ :: r => probed r

def probedSrcs (srcs : List Source) : List Nat := srcs.flatMap (fun s => probed s.ops)

end AslModel.Files
