import AslModel.Model.ErrChan
import AslModel.Spec.PosChan
/-!
# Diagnostic positions on the output channels — MODEL (C20, part "channels")

Nothing is transcribed a second time: the planted lines of a C20 program, in the order the tag-chain machine
(`Model/Pos.lean`, `run`) executes them, are fed as statements to the channel model of C02 (`Model/ErrChan.lean`:
`asmerr.c WrErrorString`, `asmsub.c WrLstLine`, `asmallg.c CodeLISTING / CodeSAVE / CodeRESTORE`), and the streams a
message was written to are read off that model's per-stream counters.  The payload `α` of an event is the text the
message starts with (the position prefix computed by `Model/Pos.lean`) together with the planted id.

Core only.
-/
namespace AslModel.PosChan
open AslModel.ErrChan
open AslModel.ErrCount (Diag)

/-- a stream a message is written to: console listing (standard output), error channel, listing file -/
inductive Dest where
  | con | chan | lst
deriving DecidableEq, Repr, Inhabited

/-- the statement of the channel model a planted line is (`ERROR`/unknown mnemonic/… = one error; `WARNING` = one
warning that `-w` does not suppress) -/
def Role.stmt : Role → Stmt
  | .diag w => .diag (if w then .uwarning else .error)
  | .listing v => .listing v
  | .save => .save
  | .restore => .restore

/-- the streams that received a message between two states of the channel model (in the order `WrErrorString` writes) -/
def dests (m m' : M) : List Dest :=
  (if m'.con != m.con then [.con] else []) ++ (if m'.lst != m.lst then [.lst] else []) ++
  (if m'.chan != m.chan then [.chan] else [])

/-- run the planted lines of one pass; every message written, in order, with the stream it went to -/
def mrun {α : Type} (c : Cfg) : M → List (Role × α) → List (Dest × α)
  | _, [] => []
  | m, (r, a) :: es => (dests m (step c m r.stmt)).map (fun d => (d, a)) ++ mrun c (step c m r.stmt) es

/-- the messages of one stream -/
def onStream {α : Type} (d : Dest) (out : List (Dest × α)) : List α := (out.filter (·.1 == d)).map (·.2)
/-- the messages shown to the user: console ∪ error channel, in the order written -/
def shown {α : Type} (out : List (Dest × α)) : List α := (out.filter (·.1 != .lst)).map (·.2)

end AslModel.PosChan
