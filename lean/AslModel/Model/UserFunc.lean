import AslModel.Model.StrSymName
/-!
# User-defined functions — MODEL (C03): asmallg.c `CodeFUNCTION`, asmsub.c `ReplaceLine` / `ReplaceLineUnchecked` /
`ReplaceToken` / `CompressLine` / `ExpandLine`, the call in asmpars.c `EvalStrExpression`

`name FUNCTION par1,...,parN,expr`: every parameter name is validated with `ChkMacSymbName`; then `CompressLine`
replaces parameter `z` in the expression text by the two-byte token `((z >> 4) + 1, (z & 15) + 1)` wherever it stands
as a word (or between backslashes).  At a call the tokens are replaced by `(` value `)` (`ExpandLine`) and the text is
evaluated.

`ReplaceLine` is a `while (Pos <= StrLen - SearchLen)` loop whose progress depends on the search pattern being
**non-empty**: a replacement moves `Pos` by `ReplaceLen` and changes `StrLen` by `ReplaceLen - SearchLen`, so
`StrLen - Pos` falls by `SearchLen`.  The model runs the loop with fuel and answers `none` when it runs out;
`Props/C03_UserFunc.lean` proves that `length + 1` rounds suffice for every non-empty pattern and that `CodeFUNCTION`
passes only non-empty patterns on.

Characters are `Nat` codes (`StrSymName.Str`).  `as_dynstr_t` grows on demand (`ReplaceToken` reallocates before it
copies), so the string is a plain list.  Core-only imports.
-/
namespace AslModel.UserFunc
open AslModel.StrSymName (Str isLetter isDigit chkMacSymbName chkSymbName upChar upString)

def errInvSymName : Nat := 1020
def errWrongArgCnt : Nat := 1110
def errInvFuncArgCnt : Nat := 1490
def errDoubleDef : Nat := 1000
def errUnknownFunc : Nat := 1860

/-- `CompressLine_NErl` -/
def nErl (c : Nat) : Bool := isLetter c || isDigit c

def lowChar (c : Nat) : Nat := if 65 ≤ c ∧ c ≤ 90 then c + 32 else c

/-- `strncmp` / `as_strncasecmp` of `s` against the whole pattern (`n = strlen(pat)`): equal? -/
def matchesAt (cs : Bool) (s pat : Str) : Bool :=
  if cs then s.take pat.length == pat else (s.take pat.length).map lowChar == pat.map lowChar

/-- `IsValidParameterName(p_str, Pos, End, StrLen)`: `before` = text in front of `Pos` reversed, `after` = text from `End` -/
def validPos (before after : Str) : Bool :=
  (match before with | [] => true | c :: _ => !nErl c) && (match after with | [] => true | c :: _ => !nErl c)

def backslash : Nat := 92

/-- `\name\`: `p[Pos] == '\\' && End + 1 < StrLen && p[End + 1] == '\\'` (only `ReplaceLine` looks for it) -/
def bsAt (checked : Bool) (pat rest : Str) : Bool :=
  checked && (match rest with
    | c :: r => c == backslash && (r.drop pat.length).head? == some backslash
    | [] => false)

/-- the text the pattern is compared with (`&p_str[Start]`) -/
def startOf (bs : Bool) (rest : Str) : Str := if bs then rest.drop 1 else rest

/-- the text from `End` on -/
def afterOf (bs : Bool) (pat rest : Str) : Str := if bs then rest.drop (pat.length + 2) else rest.drop pat.length

/-- the loop of `ReplaceLine` (`checked = true`) / `ReplaceLineUnchecked` (`checked = false`).
`done` = the text in front of `Pos`, reversed; `rest` = the text from `Pos` on.  `none` = fuel exhausted. -/
def replaceLoop (cs checked : Bool) (pat repl : Str) : Nat → Str → Str → Option Str
  | 0, _, _ => none
  | fuel + 1, done, rest =>
    -- while (Pos <= StrLen - SearchLen)
    if rest.length < pat.length then some (done.reverse ++ rest)
    else if matchesAt cs (startOf (bsAt checked pat rest) rest) pat
            && (!checked || bsAt checked pat rest || validPos done (afterOf (bsAt checked pat rest) pat rest)) then
      -- ReplaceToken: Pos += ReplaceLen
      replaceLoop cs checked pat repl fuel (repl.reverse ++ done) (afterOf (bsAt checked pat rest) pat rest)
    else
      match rest with
      | [] => some done.reverse        -- Pos = StrLen with an empty pattern that did not match: Pos++ ends the loop
      | c :: r => replaceLoop cs checked pat repl fuel (c :: done) r

/-- `ReplaceLine` with the fuel the termination theorem allows for a non-empty pattern -/
def replaceLine (cs checked : Bool) (pat repl s : Str) : Option Str :=
  replaceLoop cs checked pat repl (s.length + 1) [] s

/-- `SetToken` -/
def token (z : Nat) : Str := [z / 16 + 1, z % 16 + 1]

/-- `CompressLine(TokNam, TokenNum, p_str, CaseSensitive)` -/
def compressLine (cs : Bool) (name : Str) (z : Nat) (s : Str) : Option Str := replaceLine cs true name (token z) s

/-- `ExpandLine(TokNam, TokenNum, p_str)` -/
def expandLine (text : Str) (z : Nat) (s : Str) : Option Str := replaceLine true false (token z) text s

inductive DefResult where
  | err (n : Nat) (argIdx : Nat)         -- rejected with error `n` (reported at argument `argIdx`, 0 = the statement)
  | ok (body : Str) (arity : Nat)        -- `EnterFunction(name, body, arity)`
  | hang                                 -- a replacement loop that does not end
deriving Repr, DecidableEq

/-- the validation loop: `do { OK = OK && ChkMacSymbName(ArgStr[z]); ... z++ } while (z < ArgCnt && OK)` over the
parameter names `ArgStr[1 .. ArgCnt-1]`; returns the index of the first invalid name.  (A do-while: with `ArgCnt = 1`
it would test `ArgStr[1]`, but `ChkArgCnt(2, ..)` excludes that.) -/
def firstInvalid : List Str → Nat → Option Nat
  | [], _ => none
  | p :: r, z => if chkMacSymbName p then firstInvalid r (z + 1) else some z

/-- `for (z = 1; z < ArgCnt; z++) CompressLine(ArgStr[z], z, &FName, CaseSensitive)` -/
def compressAll (cs : Bool) : List Str → Nat → Str → Option Str
  | [], _, s => some s
  | p :: r, z, s =>
    match compressLine cs p z s with
    | none => none
    | some s1 => compressAll cs r (z + 1) s1

/-- `CodeFUNCTION` on the argument list (`args = ArgStr[1..ArgCnt]`), `argCntMax` = `ArgCntMax` -/
def codeFunction (cs : Bool) (argCntMax : Nat) (args : List Str) : DefResult :=
  if args.length < 2 ∨ args.length > argCntMax then .err errWrongArgCnt 0
  else
    let params := args.dropLast
    let body := args.getLast?.getD []
    match firstInvalid params 1 with
    | some z => .err errInvSymName z
    | none =>
      match compressAll cs params 1 body with
      | none => .hang
      | some b => .ok b params.length

/-- the text that is evaluated for a call with the printed argument values `vals` (`"(" value ")"` per parameter) -/
def expandAll : List Str → Nat → Str → Option Str
  | [], _, s => some s
  | v :: r, z, s =>
    match expandLine ([40] ++ v ++ [41]) z s with
    | none => none
    | some s1 => expandAll r (z + 1) s1

end AslModel.UserFunc
