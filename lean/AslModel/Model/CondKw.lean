import AslModel.Generated.Occupied
/-! C12 MODEL: which keyword opens the SWITCH/CASE construct, as a function of the history of target changes.

Transcribes `asmdef.c` (`Boolean SwitchIsOccupied`), `asmallg.c SetCPUCore` (the chain
`SwitchIsOccupied = PageIsOccupied = ShiftIsOccupied = False;` in front of `pCPUDef->SwitchProc()`), `codeol50.c
SwitchTo_OLMS50` (`SwitchIsOccupied = True;` – SWITCH is a machine instruction of the OLMS-50 family) and the dispatch of
`asmif.c CodeIFs`: `if (Memo("SWITCH") && !SwitchIsOccupied) CodeSWITCH(); else if (Memo("SELECT") && SwitchIsOccupied) CodeSWITCH();`.
Whether `SetCPUCore` assigns the flag is read from the current sources (`Generated.setCpuCoreResets`). -/
namespace AslModel.CondKw

/-- a target, as far as the keyword is concerned: does its `SwitchTo_*` set `SwitchIsOccupied`? -/
structure Target where
  occupiesSwitch : Bool
deriving DecidableEq, Repr

/-- the part of the assembler's global state the dispatch reads; it lives as long as the invocation
(over passes and source files) -/
structure St where
  switchIsOccupied : Bool := false
deriving DecidableEq, Repr

/-- `SetCPUCore` assigns `SwitchIsOccupied = False` (from the sources) -/
def resetsSwitch : Bool := Generated.setCpuCoreResets.contains "SwitchIsOccupied"

/-- `SetCPUCore`: the reset chain (if the sources have it), then the target's `SwitchTo_*` -/
def setCpu (reset : Bool) (s : St) (t : Target) : St :=
  let s1 : St := if reset then { switchIsOccupied := false } else s
  if t.occupiesSwitch then { switchIsOccupied := true } else s1

/-- every CPU statement / `-cpu` option / start of a pass / start of a source file goes through `SetCPUCore` -/
def history (reset : Bool) (s : St) (ts : List Target) : St := ts.foldl (setCpu reset) s

inductive Kw where | switch | select
deriving DecidableEq, Repr

/-- `CodeIFs`: does this keyword open the construct? -/
def opens (s : St) : Kw → Bool
  | .switch => !s.switchIsOccupied
  | .select => s.switchIsOccupied

end AslModel.CondKw
