import AslModel.Spec.FuncCall
import AslModel.Model.Expr
import AslModel.Generated.FuncArgFmt
/-! MODEL (C08, user-defined functions): asmpars.c `EvalStrExpression`, branch "selbstdefinierte Funktion": every evaluated
argument is written as TEXT by tempresult.c `as_tempres_append_dynstr` (TempInt: `%PRId64`; TempFloat: `%0.<p>e`, p generated;
TempString: quote, `\\`/`\"` escaped, non-printable characters as `\%03d` of the (signed) char), put in parentheses, substituted
for the formal parameter (`ExpandLine`) and the resulting text is evaluated again - under the RADIX of the moment.
Here: the print functions exactly (decimal conversion of a double by integer arithmetic, round-half-even as glibc does) and the
re-read of that text (`ConstIntVal` on a digit string of the radix, a correctly rounded `strtod`, `ProcessBk` from Model/Expr). -/
namespace AslModel.FuncText
open AslModel.FuncCall

/-- quotient rounded to nearest, ties to even -/
def divRne (n d : Nat) : Nat :=
  let q := n / d
  let r := n % d
  if 2 * r > d ∨ (2 * r = d ∧ q % 2 = 1) then q + 1 else q

/-- `num/den * 10^s` rounded (s may be negative) -/
def scaleRne (num den : Nat) (s : Int) : Nat :=
  if s ≥ 0 then divRne (num * 10 ^ s.toNat) den else divRne num (den * 10 ^ (-s).toNat)

/-- is `num/den ≥ 10^k` -/
def geP10 (num den : Nat) (k : Int) : Bool :=
  if k ≥ 0 then decide (num ≥ den * 10 ^ k.toNat) else decide (num * 10 ^ (-k).toNat ≥ den)

/-- largest k (from `k0` upward, `fuel` steps) with `10^k ≤ num/den` -/
def log10Floor (num den : Nat) : Nat → Int → Int
  | 0, k => k
  | fuel + 1, k => if geP10 num den (k + 1) then log10Floor num den fuel (k + 1) else k

def natDigits10 (n : Nat) : List Char := (Nat.toDigits 10 n)

def padLeft (w : Nat) (s : List Char) : List Char := List.replicate (w - s.length) '0' ++ s

/-- magnitude and sign of a finite double: value = m * 2^e -/
def decode (b : UInt64) : Bool × Nat × Int :=
  let n : Nat := b.toNat
  let ex : Nat := (n / 2 ^ 52) % 2048
  let fr : Nat := n % 2 ^ 52
  (decide (n ≥ 2 ^ 63), if ex = 0 then fr else fr + 2 ^ 52, if ex = 0 then -1074 else (ex : Int) - 1075)

/-- `printf("%0.<p>e")` of a finite double -/
def printE (p : Nat) (b : UInt64) : List Char :=
  let (neg, m, e) := decode b
  let sgn : List Char := if neg then ['-'] else []
  if m = 0 then sgn ++ ['0', '.'] ++ List.replicate p '0' ++ "e+00".toList
  else
    let num := m * 2 ^ e.toNat
    let den := 2 ^ (-e).toNat
    let k0 := log10Floor num den 700 (-340)
    let q0 := scaleRne num den ((p : Int) - k0)
    let (k, q) := if q0 ≥ 10 ^ (p + 1) then (k0 + 1, scaleRne num den ((p : Int) - (k0 + 1))) else (k0, q0)
    let ds := padLeft (p + 1) (natDigits10 q)
    let ex := padLeft 2 (natDigits10 k.natAbs)
    sgn ++ ds.take 1 ++ ['.'] ++ ds.drop 1 ++ ['e', if k < 0 then '-' else '+'] ++ ex

/-- is `num/den ≥ t * 2^e` -/
def geP2 (num den t : Nat) (e : Int) : Bool :=
  if e ≥ 0 then decide (num ≥ t * den * 2 ^ e.toNat) else decide (num * 2 ^ (-e).toNat ≥ t * den)

/-- nearest double (ties to even) of `num/den`, `none` on overflow: a correctly rounded `strtod` -/
def nearest (neg : Bool) (num den : Nat) : Option UInt64 :=
  let s : Nat := if neg then 2 ^ 63 else 0
  if num = 0 then some (UInt64.ofNat s)
  else
    let e0 : Int := (Nat.log2 num : Int) - (Nat.log2 den : Int) - 52
    let e1 := if geP2 num den (2 ^ 53) e0 then e0 + 1 else if geP2 num den (2 ^ 52) e0 then e0 else e0 - 1
    let e2 := if e1 < -1074 then -1074 else e1
    let m0 := if e2 ≥ 0 then divRne num (den * 2 ^ e2.toNat) else divRne (num * 2 ^ (-e2).toNat) den
    let (m, e3) := if m0 = 2 ^ 53 then (2 ^ 52, e2 + 1) else (m0, e2)
    if e3 > 971 then none
    else if m < 2 ^ 52 then some (UInt64.ofNat (s + m))
    else some (UInt64.ofNat (s + (e3 + 1075).toNat * 2 ^ 52 + (m - 2 ^ 52)))

def digitsNat (s : List Char) : Nat := s.foldl (fun a c => a * 10 + (c.toNat - 48)) 0

/-- re-read of a text `[-]d.ddd…e±xx` (the only float texts `printE` produces) -/
def parseE (s : List Char) : Option UInt64 :=
  let (neg, t) := match s with | '-' :: r => (true, r) | r => (false, r)
  let mant := t.takeWhile (· != 'e')
  let ex := (t.dropWhile (· != 'e')).drop 1
  let ip := mant.takeWhile (· != '.')
  let fp := (mant.dropWhile (· != '.')).drop 1
  let d := digitsNat (ip ++ fp)
  let (eneg, ed) := match ex with | '-' :: r => (true, r) | '+' :: r => (false, r) | r => (false, r)
  let e10 : Int := (if eneg then -(digitsNat ed : Int) else (digitsNat ed : Int)) - (fp.length : Int)
  if e10 ≥ 0 then nearest neg (d * 10 ^ e10.toNat) 1 else nearest neg d (10 ^ (-e10).toNat)

/-- TempFloat: print, re-read -/
def rtFloat (p : Nat) (b : UInt64) : Option V := (parseE (printE p b)).map .flt

/-- TempInt: `%PRId64`, then `ConstIntVal` under `radix` on the digit string (a digit outside the radix: the text is a
floating point constant), sign by the unary minus of the formula.  `none`: the re-read number does not fit 64 bits (left
outside the model). -/
def rtInt (radix : Nat) (n : UInt64) : Option V :=
  let neg := n.toNat ≥ 2 ^ 63
  let mag := if neg then 2 ^ 64 - n.toNat else n.toNat
  let ds := (natDigits10 mag).map (fun c => c.toNat - 48)
  if ds.all (· < radix) then
    let r := ds.foldl (fun a d => a * radix + d) 0
    if r ≥ 2 ^ 64 then none
    else some (.int (if neg then 0 - UInt64.ofNat r else UInt64.ofNat r))
  else (nearest neg mag 1).map .flt

/-- TempString (double quoted): the text between the quotes -/
def quoteStr : List Char → List Char
  | [] => []
  | c :: r =>
    let n := c.toNat
    (if n = 92 ∨ n = 34 then ['\\', c]
     else if n ≥ 128 then '\\' :: '-' :: padLeft 3 (natDigits10 (256 - n))      -- signed char: `\%03d` of a negative number
     else if n < 32 ∨ n = 127 then '\\' :: padLeft 3 (natDigits10 n)
     else [c]) ++ quoteStr r

/-- `ConstStringVal` on that text (no `\{`: a brace behind a backslash cannot arise from `quoteStr`) -/
def unquote : Nat → List Char → List Char → Option (List Char)
  | 0, _, _ => none
  | _, [], acc => some acc.reverse
  | fuel + 1, c :: r, acc =>
    if c = '\\' then
      match AslModel.Expr.processBk r with
      | .ok (ch, rest) => unquote fuel rest (ch :: acc)
      | .error _ => none
    else unquote fuel r (c :: acc)

inductive R where
  | val (v : V)
  | err          -- the assembler reports an error for the call
  | outside      -- outside the model
deriving Repr

def rtModel (radix p : Nat) : V → R
  | .int n => match rtInt radix n with | some v => .val v | none => .outside
  | .flt b => match rtFloat p b with | some v => .val v | none => .err
  | .str s => match unquote (4 * s.length + 4) (quoteStr s) [] with | some t => .val (.str t) | none => .err

/-- the model as an `rt` of `evalG`; errors and "outside" are told apart by the driver through `rtModel` -/
def rtOpt (radix p : Nat) (v : V) : Option V := match rtModel radix p v with | .val w => some w | _ => none

def evalModel (radix p : Nat) (fns : List E) (fuel : Nat) (env : List V) (e : E) : Option V :=
  evalG (rtOpt radix p) fns fuel env e

end AslModel.FuncText
