/-! MODEL for C01, part "operand positions" on the 68000 family: transcription of the mechanism in `code68k.c` that makes a
PC-relative operand encode the value of its symbol,

* `MakeCode_68K`: `RelPos = 2` before every instruction;
* the decode functions that put words between the operation word and the effective-address extension words and therefore
  set `RelPos` before they call `DecodeAdr` for the memory operand: `DecodeBits` (`ResCodeLen`, `RelPos = ResCodeLen << 1`),
  `DecodeADDSUBCMP` (immediate source: `RelPos += (OpSize == eSymbolSize32Bit) ? 4 : 2`), and the ones with one fixed
  extension word (`RelPos = 4`, `CopyAdrVals(WAsmCode + 2, ..)`): `DecodeMOVEM`, `DecodeMUL_DIV` (long), `DecodeDIVL`,
  `DecodeCALLM`, `DecodeCMPCHK2`, `DecodeTBL`, `DecodeFBits`, `DecodeEBits`, the FPU functions, `DecodePFLUSHR`,
  `DecodePMOVE_PMOVEFD`;
* `DecodeAdr`, variants 2.1 `d(PC)`, 2.2 `d(PC,Xi)`, 4.1 `([d,PC..]..)`: `HVal = value - (EProgCounter() + RelPos)`,
  the automatic choice of the displacement length (`IsDisp8/16`, `GetDispLen`, `CheckFamilyCore(ExtAddrFamilyMask)`),
  the range errors, the extension words; `DecodeAbs` (`IsShortAdr`);
* `CopyAdrVals` / `CodeLen`: where the extension words of the operand land in `WAsmCode`.

State of the last pass (every symbol known, no first-pass flags).  Words are `Nat < 65536`; `HVal & 0xffff` is `% 65536`,
`HVal >> 16` stored into a `Word` is `/ 65536 % 65536` (Euclidean division = arithmetic shift).  Core only. -/
namespace AslModel.Model.M68kOpnd

inductive Family
  | gen1      -- e68KGen1a / e68KGen1b (68000, 68008, 68010, 68012)
  | cpu32     -- eCPU32 (68332, 68340, 68360)
  | gen2      -- e68KGen2 / e68KGen3 (68020, 68030, 68040)
deriving DecidableEq, Repr

/-- `CheckFamilyCore(ExtAddrFamilyMask)` -/
def Family.extAddr : Family → Bool
  | .gen1 => false
  | _ => true

/-- `pCurrCPUProps->SuppFlags & eFlagIdxScaling` -/
def Family.scaling : Family → Bool
  | .gen1 => false
  | _ => true

/-- `(1 << e68KGen3) | (1 << e68KGen2)`: memory indirect addressing -/
def Family.memInd : Family → Bool
  | .gen2 => true
  | _ => false

inductive Err
  | distTooBig | addrModeNotSupported | invAddrMode | noShortAddr
deriving DecidableEq, Repr

/-- `AdrComp` of an index register: `INummer` (Dn = n, An = n + 8), `Long`, `Scale` -/
structure Index where
  reg : Nat
  long : Bool
  scale : Nat
deriving DecidableEq, Repr

def Index.bits (x : Index) : Nat := x.reg * 4096 + (if x.long then 2048 else 0) + x.scale * 512

/-- the operand forms of `DecodeAdr` that refer to a symbol -/
inductive EAForm
  /-- `d(PC)`, `(d,PC)`; `len`: length attribute of the displacement (`d.w` = 1, `d.l` = 2), `none` = chosen by the assembler -/
  | pc (len : Option Nat)
  /-- `d(PC,Xi)`, `(d,PC,Xi)`; `len`: `d.b` = 0, `d.w` = 1, `d.l` = 2 -/
  | pcIdx (x : Index) (len : Option Nat)
  /-- `([d,PC],Xi,od)` (post) / `([d,PC,Xi],od)`; `len`: `d.w` = 1, `d.l` = 2 -/
  | pcInd (x : Option Index) (post : Bool) (od : Option Int) (len : Option Nat)
  | abs                                                 -- absolute, length chosen by the assembler
deriving Repr

structure AdrResult where
  mode : Nat
  vals : List Nat          -- `Cnt = 2 * vals.length`
deriving Repr, DecidableEq

def isDisp8 (d : Int) : Bool := decide (-128 ≤ d ∧ d ≤ 127)
def isDisp16 (d : Int) : Bool := decide (-32768 ≤ d ∧ d ≤ 32767)

def lo16 (d : Int) : Nat := (d % 65536).toNat
def hi16 (d : Int) : Nat := (d / 65536 % 65536).toNat

/-- `AddrSpaceMask + 1` of the family's main member (68000: 24 address bits) -/
def Family.space : Family → Nat
  | .gen1 => 16777216
  | _ => 4294967296

/-- `IsShortAdr` -/
def isShortAdr (f : Family) (v : Int) : Bool :=
  let o := (v % 4294967296).toNat
  let e := o % 65536
  let e := if e ≥ 32768 then e + 4294901760 else e
  e % f.space == o % f.space

/-- `OutDispLen` of variant 2.1: the length attribute, else `(IsDisp16(HVal)) ? 1 : 2`, `1` without extended addressing -/
def pcLen (f : Family) (len : Option Nat) (h : Int) : Nat :=
  match len with
  | some l => l
  | none => if f.extAddr then (if isDisp16 h then 1 else 2) else 1

/-- `OutDispLen` of variant 2.2: the length attribute, else `GetDispLen(HVal)`, `0` without extended addressing -/
def idxLen (f : Family) (len : Option Nat) (h : Int) : Nat :=
  match len with
  | some l => l
  | none => if f.extAddr then (if isDisp8 h then 0 else if isDisp16 h then 1 else 2) else 0

/-- variant 4.1, `AdrComps[0].Size`: -1 -> by `IsDisp16`, 1 -> 16 bit (range checked), 2 -> 32 bit -/
def indLen (len : Option Nat) (h : Int) : Nat :=
  match len with
  | some l => l
  | none => if isDisp16 h then 1 else 2

/-- variant 4: the 68020 extension word before the displacement sizes are known: `0x100`, bit 2 = post-indexed, no index
register: `0x0040 | 0x0004`, else the index register fields -/
def indWord0 (x : Option Index) (post : Bool) : Nat :=
  0x100 + (match x with
           | none => 0x44
           | some i => (if post then 4 else 0) + i.bits)

/-- `DecodeAdr` for the forms above; `relPos` is the value of the static `RelPos` at the call -/
def decodeAdr (f : Family) (relPos : Nat) (epc : Int) (value : Int) : EAForm → Except Err AdrResult
  | .pc len =>
    let h := value - (epc + relPos)
    if pcLen f len h = 1 then
      if !isDisp16 h then .error .distTooBig else .ok { mode := 0x3a, vals := [lo16 h] }
    else if !f.extAddr then .error .addrModeNotSupported          -- ACheckFamily(ExtAddrFamilyMask, ..)
    else .ok { mode := 0x3b, vals := [0x170, hi16 h, lo16 h] }
  | .pcIdx x len =>
    let h := value - (epc + relPos)
    if idxLen f len h = 0 then
      if !isDisp8 h then .error .distTooBig
      else if x.scale ≠ 0 ∧ !f.scaling then .error .addrModeNotSupported
      else .ok { mode := 0x3b, vals := [x.bits + lo16 h % 256] }
    else if !f.extAddr then .error .addrModeNotSupported          -- ACheckFamily(ExtAddrFamilyMask, ..)
    else if idxLen f len h = 1 then
      if !isDisp16 h then .error .distTooBig else .ok { mode := 0x3b, vals := [x.bits + 0x120, lo16 h] }
    else .ok { mode := 0x3b, vals := [x.bits + 0x130, hi16 h, lo16 h] }
  | .pcInd x post od len =>
    if !f.memInd then .error .invAddrMode else
    let v0 := indWord0 x post
    let h := value - (epc + relPos)
    if indLen len h = 1 ∧ !isDisp16 h then .error .distTooBig else
    let base : List Nat := if indLen len h = 1 then [v0 + 0x20, lo16 h] else [v0 + 0x30, hi16 h, lo16 h]
    match od with
    | none => .ok { mode := 0x3b, vals := (base.headD 0 + 1) :: base.tail }
    | some o =>
      if isDisp16 o then .ok { mode := 0x3b, vals := ((base.headD 0 + 2) :: base.tail) ++ [lo16 o] }
      else .ok { mode := 0x3b, vals := ((base.headD 0 + 3) :: base.tail) ++ [hi16 o, lo16 o] }
  | .abs =>
    if isShortAdr f value then .ok { mode := 0x38, vals := [lo16 value] }
    else .ok { mode := 0x39, vals := [hi16 value, lo16 value] }

/-- the decode functions with one fixed extension word in front of the operand (`RelPos = 4`) -/
inductive Ext1
  | movem (long : Bool)        -- DecodeMOVEM, memory to registers: `0x4c80 | ((OpSize - 1) << 6)`, WAsmCode[1] = register mask
  | mulDivL (div : Bool)       -- DecodeMUL_DIV (long) / DecodeDIVL: `0x4c00 + (Lo(Code) << 6)` / `0x4c40`
  | callm                      -- DecodeCALLM: `0x06c0`
  | cmpChk2 (sz : Fin 3)       -- DecodeCMPCHK2: `0x00c0 + (OpSize << 9)`
  | tbl                        -- DecodeTBL: `0xf800`
  | fbits                      -- DecodeFBits, BFTST: `0xe8c0`
  | ebits (i : Fin 3)          -- DecodeEBits BFEXTU/BFEXTS/BFFFO: `0xe9c0 + (Index << 9)`
  | fpu                        -- DecodeFPUOp/FMOVE/FMOVEM/FTST/FSINCOS/FDMOVE_FSMOVE with a memory source: `0xf200`
  | pmmu                       -- DecodePFLUSHR, DecodePMOVE_PMOVEFD <ea>,reg: `0xf000`
deriving Repr, DecidableEq

def Ext1.w0 : Ext1 → Nat
  | .movem l => 0x4c80 + (if l then 0x40 else 0)
  | .mulDivL d => 0x4c00 + (if d then 0x40 else 0)
  | .callm => 0x06c0
  | .cmpChk2 sz => 0x00c0 + sz.val * 512
  | .tbl => 0xf800
  | .fbits => 0xe8c0
  | .ebits i => 0xe9c0 + i.val * 512
  | .fpu => 0xf200
  | .pmmu => 0xf000

/-- instructions whose operand extension words follow the operation word directly (`RelPos` stays 2) -/
inductive Plain
  | moveToD (sz : Fin 3) (d : Fin 8)       -- MOVE.B/.L/.W <ea>,Dn: `(1 + sz) << 12 | d << 9`
  | lea (a : Fin 8)                        -- `0x41c0 | a << 9`
  | chk (d : Fin 8)                        -- `0x4180 | d << 9`
  | pea | jmp | jsr
  | tst (sz : Fin 3)                       -- `0x4a00 | sz << 6`
  | arith (g : Fin 5) (d : Fin 8) (opm : Fin 8)   -- OR/SUB/CMP/AND/ADD <ea>,Dn (opmode 0-2), opmode 3/7 = DIVU/DIVS, SUBA, CMPA, MULU/MULS, ADDA .W/.L
deriving Repr, DecidableEq

def arithGroup (g : Fin 5) : Nat := [8, 9, 11, 12, 13].getD g.val 8

def Plain.w0 : Plain → Nat
  | .moveToD sz d => (1 + sz.val) * 4096 + d.val * 512
  | .lea a => 0x41c0 + a.val * 512
  | .chk d => 0x4180 + d.val * 512
  | .pea => 0x4840
  | .jmp => 0x4ec0
  | .jsr => 0x4e80
  | .tst sz => 0x4a00 + sz.val * 64
  | .arith g d opm => arithGroup g * 4096 + d.val * 512 + opm.val * 64

inductive Cls
  | plain (p : Plain)
  /-- DecodeBits: `Index` 0 = BTST .. 3 = BSET; bit number in a data register -/
  | bitsReg (index : Fin 4) (d : Fin 8)
  /-- DecodeBits with an immediate bit number -/
  | bitsImm (index : Fin 4) (n : Nat)
  /-- DecodeADDSUBCMP with an immediate source: `op` as stored (`Op == 1 → 8`), `sz` = OpSize, `v` the immediate value -/
  | immOp (op : Nat) (sz : Fin 3) (v : Nat)
  | ext1 (k : Ext1) (w1 : Nat)
deriving Repr

/-- words of `WAsmCode` in front of the operand's extension words: operation word without the mode field, further words -/
def Cls.head : Cls → Nat × List Nat
  | .plain p => (p.w0, [])
  | .bitsReg i d => (i.val * 64 + 0x100 + d.val * 512, [])
  | .bitsImm i n => (i.val * 64 + 0x800, [n % 256])
  | .immOp op sz v => (0x400 + sz.val * 64 + op * 256,
      if sz.val = 2 then [v / 65536 % 65536, v % 65536] else if sz.val = 1 then [v % 65536] else [v % 256])
  | .ext1 k w1 => (k.w0, [w1])

/-- the value of `RelPos` when `DecodeAdr` is called for the operand that names the symbol -/
def Cls.relPos : Cls → Nat
  | .plain _ => 2                       -- MakeCode_68K
  | .bitsReg _ _ => 1 * 2               -- ResCodeLen = 1; RelPos = ResCodeLen << 1
  | .bitsImm _ _ => (1 + 1) * 2         -- WAsmCode[ResCodeLen++] = BitNum
  | .immOp _ sz _ => 2 + (if sz.val = 2 then 4 else 2)
  | .ext1 _ _ => 4

/-- the whole instruction as the decode function leaves it in `WAsmCode` (`CopyAdrVals(WAsmCode + n, ..)` with `n` = number
of words in front, `CodeLen = 2 n + Cnt`) -/
def encode (f : Family) (c : Cls) (epc value : Int) (ea : EAForm) : Except Err (List Nat) :=
  match decodeAdr f c.relPos epc value ea with
  | .error e => .error e
  | .ok r => .ok ((c.head.1 + r.mode) :: c.head.2 ++ r.vals)

def bytesOf (ws : List Nat) : List Nat := ws.flatMap fun w => [w / 256 % 256, w % 256]

end AslModel.Model.M68kOpnd
