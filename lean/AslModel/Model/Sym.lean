import AslModel.Generated.SymConsts
/-! MODEL for C13: symbol table, sections, temporaries, PUSHV/POPV – a transcription of
`asmpars.c` (`FindNode`, `EnterSymbol`, `SymbolAdder`, `GetSymSection`, `IdentifySection`, `ChkTmp1/2/3`,
`GetSectionHandle`, `PushSymbol`, `PopSymbol`, `ClearStacks`), `asmallg.c` (`CodeSECTION`, `CodeENDSECTION`,
`CodePPSyms`, `CodePUSHV`, `CodePOPV`), `trees.c` (the tree keyed by `(name, attribute)` is an association list:
only `SearchTree`/`EnterTree`'s *map* behaviour is observable) and the pass loop of `as.c AssembleFile`.

Names are byte lists (`List Nat`), as in C.  Only integer symbols are modelled.  The SHA-1 suffix that `ChkTmp1`
appends to `$$name` is modelled as the injective pairing `name ++ [1] ++ hex(LastGlobSymbol)` (the hash is a parameter). -/
namespace AslModel.Sym
open AslModel.Generated.Sym

abbrev Name := List Nat

/-- `as_toupper` on one byte (ASCII) -/
def upn (n : Nat) : Nat := if 97 ≤ n ∧ n ≤ 122 then n - 32 else n
/-- `NLS_UpString` -/
def upper (s : Name) : Name := s.map upn
/-- `if (!CaseSensitive) NLS_UpString(..)` -/
def fold (cs : Bool) (s : Name) : Name := if cs then s else upper s

structure Entry where
  val : Int
  defined : Bool
  changeable : Bool
deriving DecidableEq, Repr, Inhabited

/-- key of the symbol tree: `(Tree.Name, Tree.Attribute)` -/
abbrev Key := Name × Int
abbrev Tab := List (Key × Entry)

/-- `SearchTree` -/
def tfind : Tab → Key → Option Entry
  | [], _ => none
  | (k', e) :: r, k => if k' = k then some e else tfind r k

/-- `EnterTree` when the adder accepts: replace the node or add a leaf -/
def tset : Tab → Key → Entry → Tab
  | [], k, e => [(k, e)]
  | (k', e') :: r, k, e => if k' = k then (k, e) :: r else (k', e') :: tset r k e

/-- `SymbolAdder`: new entry and "value changed ⇒ Repass", or the error number -/
def symbolAdder (old : Option Entry) (v : Int) (mayChange : Bool) : Except Nat (Entry × Bool) :=
  match old with
  | none => .ok ({ val := v, defined := true, changeable := mayChange }, false)
  | some o =>
    if o.defined && !o.changeable && !mayChange then .error errDoubleDef
    else if o.defined && (mayChange != o.changeable) then
      .error (if o.changeable then errVariableRedefinedAsConstant else errConstantRedefinedAsVariable)
    else .ok ({ val := v, defined := true, changeable := mayChange }, !mayChange && v != o.val)

/-- one `TForwardSymbol`: name and `DestSection` -/
abbrev Fwd := Name × Int

/-- `TSaveSection`: `Handle` is the handle of the *enclosing* section, the lists belong to the open one -/
structure SaveSection where
  handle : Int
  locSyms : List Fwd := []
  globSyms : List Fwd := []
  exportSyms : List Fwd := []
deriving Repr, Inhabited

structure St where
  cs : Bool := false                    -- CaseSensitive (-U)
  passNo : Nat := 0
  tab : Tab := []                       -- FirstSymbol
  secs : List (Name × Int) := []        -- FirstSection: (Name, Parent), index = handle
  mom : Int := -1                       -- MomSectionHandle
  stack : List SaveSection := []        -- SectionStack
  repass : Bool := false
  errs : List (Nat × Nat) := []         -- (line, number), newest first; line 0 = no position; kept across passes (the -E file is)
  line : Nat := 0
  pc : Nat := 0
  out : List Nat := []                  -- emitted bytes, newest first
  fwdCnt : Nat := 0                     -- FwdSymCounter
  backCnt : Nat := 0                    -- BackSymCounter
  log : List (Bool × Nat) := []         -- TmpSymLog[0..TmpSymLogDepth-1]
  lastGlob : Name := []                 -- LastGlobSymbol
  stacks : List (Name × List Int) := [] -- FirstStack (sorted by name)
  nopByte : Nat := 0xEA
  enumCur : Int := 0                    -- EnumCurrentValue
deriving Inhabited

def St.err (st : St) (n : Nat) : St := { st with errs := (st.line, n) :: st.errs }

def handles (stk : List SaveSection) : List Int := stk.map (·.handle)

/-- `GetSectionName` -/
def sectionName (secs : List (Name × Int)) (h : Int) : Name :=
  if h < 0 then [] else ((secs[h.toNat]?).map (·.1)).getD []

/-- index of the first `(name, parent)` in the section list (`GetSectionHandle(.., False, ..)`), `none` = -2 -/
def secIdx : List (Name × Int) → Name × Int → Nat → Option Nat
  | [], _, _ => none
  | e :: r, k, i => if e = k then some i else secIdx r k (i + 1)

/-! ### name forms -/

def chLBr : Nat := 91
def chRBr : Nat := 93
def chDot : Nat := 46
def chDollar : Nat := 36
def chMinus : Nat := 45
def chPlus : Nat := 43
def chSlash : Nat := 47
def chUnder : Nat := 95

/-- split `xs` at the last `[` : (before, after) -/
def splitLastBr : Name → Option (Name × Name)
  | [] => none
  | c :: r =>
    match splitLastBr r with
    | some (a, b) => some (c :: a, b)
    | none => if c = chLBr then some ([], r) else none

def isParentName (n : Name) : Option Nat :=
  let p := upper (n.take 6)
  if p = [80, 65, 82, 69, 78, 84] then
    if n.length = 6 then some 1
    else if n.length = 7 then
      let d := n.getD 6 0
      if 48 ≤ d ∧ d ≤ 57 then some (d - 48) else none
    else none
  else none

def parentWalk : Nat → Int → List Int → Option Int
  | 0, erg, _ => some erg
  | _ + 1, _, [] => none
  | d + 1, _, h :: r => parentWalk d h r

def findNamed (secs : List (Name × Int)) (n : Name) : List Int → Option Int
  | [] => none
  | h :: r => if sectionName secs h = n then some h else findNamed secs n r

/-- `IdentifySection`: `none` = `WrError(ErrNum_InvSection)` -/
def identifySection (st : St) (part : Name) : Option Int :=
  let n := fold st.cs part
  if n = [] then some (-1)
  else match isParentName n with
    | some d => parentWalk d st.mom (handles st.stack)
    | none =>
      if n = sectionName st.secs st.mom then some st.mom
      else findNamed st.secs n (handles st.stack)

inductive SymSec where
  | plain (name : Name)                 -- `*Erg = -2`
  | sect (name : Name) (h : Int)
  | invSection                          -- IdentifySection failed (error 1484 reported)
  | invName                             -- `name[` … malformed (error 1020 reported)
deriving Repr

/-- `GetSymSection` (the empty name is excluded by the callers of the model: C reads `Name[-1]` there) -/
def getSymSection (st : St) (name : Name) : SymSec :=
  if name.getLast? ≠ some chRBr then .plain name
  else
    match splitLastBr name.dropLast with
    | none => .invName
    | some (base, part) =>
      match identifySection st part with
      | some h => .sect base h
      | none => .invSection

/-- `as_symbol_source_t`: who asks `ChkTmp` – a reference (`none`), a label in front of an instruction / pseudo
instruction / macro call or alone on its line (`LabelHandle`, `eSymbolFlag_Label`), or any other defining statement
(`EQU`, `SET`, `EVAL`, `=`, `:=`, `LABEL`, `ENUM`/`NEXTENUM`, … – `CreateSymbolEntry` without `eSymbolFlag_Label`) -/
inductive SymSource where | none | label | define
deriving Repr, DecidableEq

/-- `ChkTmp3`: `.name` ↦ `LastGlobSymbol ++ .name`; any other name becomes `LastGlobSymbol` (and the cached `$$` suffix
`TmpSymCounterVal` is dropped – the model recomputes the suffix from `lastGlob` each time, which is the same thing because
the cache is cleared exactly where `LastGlobSymbol` is written) unless a reference asks -/
def chkTmp3 (st : St) (name : Name) (src : SymSource) : St × Name :=
  if name.head? = some chDot then (st, st.lastGlob ++ name)
  else if src ≠ .none then ({ st with lastGlob := name }, name)
  else (st, name)

/-- `ChkTmp3` with `e_symbol_source_none` (references): `.name` ↦ `LastGlobSymbol ++ .name` -/
def chkTmp3Ref (st : St) (name : Name) : Name :=
  if name.head? = some chDot then st.lastGlob ++ name else name

def allEq (c : Nat) (n : Name) : Bool := n.all (· == c)

def natName (pfx : String) (k : Nat) : Name := (pfx ++ toString k).toUTF8.toList.map UInt8.toNat

/-- `AddTmpSymLog` -/
def addTmpSymLog (log : List (Bool × Nat)) (back : Bool) (cnt : Nat) : List (Bool × Nat) :=
  ((back, cnt) :: log).take locSymSight

def hexDigit (n : Nat) : Nat := if n < 10 then 48 + n else 55 + n

/-- stand-in for `SHA1ToHexString(SHA1(LastGlobSymbol))`: a string of hex digits that is injective in the bytes of
`LastGlobSymbol` *as written* – the suffix is computed before `EnterSymbol` folds the case of the whole name, so `Tv` and
`tv` give different suffixes also without `-U`, and folding the digits themselves changes nothing -/
def hashName (n : Name) : Name := n.flatMap (fun c => [hexDigit (c / 16 % 16), hexDigit (c % 16)])

/-- `ChkTmp1`: `$$name` ↦ name + hash(LastGlobSymbol) -/
def chkTmp1 (st : St) (name : Name) : Option Name :=
  match name with
  | 36 :: 36 :: r => some (r ++ [1] ++ hashName st.lastGlob)
  | _ => none

/-- `ChkTmp2` for a *reference* (`e_symbol_source_none`) -/
def chkTmp2Ref (st : St) (name : Name) : Option Name :=
  match name with
  | [] => none
  | c :: _ =>
    if c = chMinus ∧ allEq chMinus name then
      let cnt := name.length
      if cnt ≤ st.log.length then
        match st.log[cnt - 1]? with
        | some (b, k) => some (natName (if b then "__back" else "__forw") k)
        | none => none
      else none
    else if c = chPlus ∧ allEq chPlus name then
      if name.length ≤ locSymSight then some (natName "__forw" (st.fwdCnt + (name.length - 1))) else none
    else none

/-- `ChkTmp` in `CreateSymbolEntry` (definitions, `src` = `label` or `define`): new state and the internal name -/
def chkTmpDef (st : St) (name : Name) (src : SymSource) : St × Name :=
  match chkTmp1 st name with
  | some n => (st, n)
  | none =>
    if name = [chMinus] then
      ({ st with log := addTmpSymLog st.log true st.backCnt, backCnt := st.backCnt + 1 }, natName "__back" st.backCnt)
    else if name = [chPlus] then
      ({ st with fwdCnt := st.fwdCnt + 1 }, natName "__forw" st.fwdCnt)
    else if name = [chSlash] then
      ({ st with log := addTmpSymLog st.log false st.fwdCnt, fwdCnt := st.fwdCnt + 1 }, natName "__forw" st.fwdCnt)
    else match chkTmp2Ref st name with
      | some n => (st, n)          -- `--`, `++` … used as a definition name: treated like a reference form
      | none => chkTmp3 st name src

/-! ### lookup -/

def fsearch : List Fwd → Name → Option Int
  | [], _ => none
  | (n, d) :: r, k => if n = k then some d else fsearch r k

def fremove : List Fwd → Name → List Fwd
  | [], _ => []
  | (n, d) :: r, k => if n = k then r else (n, d) :: fremove r k

/-- the walk of `FindNode`: current section, then the saved handles outward -/
def walk (tab : Tab) (name : Name) : List Int → Option (Key × Entry)
  | [] => none
  | h :: r =>
    match tfind tab (name, h) with
    | some e => some ((name, h), e)
    | none => walk tab name r

/-- FORWARD override of `FindNode` (`PassNo <= MaxSymPass`, MaxSymPass = 1) -/
def fwdOverride (st : St) (name : Name) : Bool :=
  match st.stack with
  | [] => false
  | top :: _ => st.passNo ≤ 1 && (fsearch top.locSyms name).isSome

/-- `FindNode` (TempAll).  Returns the state (an InvSection/InvSymName error may have been reported) and the node. -/
def findNode (st : St) (name0 : Name) : St × Option (Key × Entry) :=
  let name1 := chkTmp3Ref st name0
  match getSymSection st name1 with
  | .invName => (st.err errInvSymName, none)
  | .invSection => (st.err errInvSection, none)
  | .plain n =>
    let name := fold st.cs n
    if fwdOverride st name then
      (st, (tfind st.tab (name, st.mom)).map (fun e => ((name, st.mom), e)))
    else (st, walk st.tab name (st.mom :: handles st.stack))
  | .sect n h =>
    let name := fold st.cs n
    let h := if fwdOverride st name then st.mom else h
    (st, (tfind st.tab (name, h)).map (fun e => ((name, h), e)))

/-- `EvalStrExpression` on a bare symbol (`ChkTmp2`, `ChkTmp1`) + `LookupSymbol`: value of the reference -/
def lookupSymbol (st : St) (ref : Name) : St × Int :=
  -- a run of `-`/`+` that `ChkTmp2` does not replace stays an operator string: the formula parser reports
  -- "wrong number of operands" and no symbol is looked up
  if (chkTmp2Ref st ref).isNone ∧ ref ≠ [] ∧ (allEq chMinus ref ∨ allEq chPlus ref) then (st.err errWrongArgCnt, 0) else
  let n1 := (chkTmp2Ref st ref).getD ref
  let n2 := (chkTmp1 st n1).getD n1
  let (st1, r) := findNode st n2
  match r with
  | some (_, e) => (st1, e.val)
  | none =>
    if st1.passNo ≤ 1 then ({ st1 with repass := true }, st1.pc)
    else (st1.err errSymbolUndef, 0)

/-! ### definition -/

/-- `EnterTree(.., SymbolAdder, ..)` -/
def enterTree (st : St) (key : Key) (v : Int) (mc : Bool) : St :=
  match symbolAdder (tfind st.tab key) v mc with
  | .error n => st.err n
  | .ok (e, rp) => { st with tab := tset st.tab key e, repass := st.repass || rp }

/-- name of the GLOBAL copy: the section path from the destination down to the current section is prepended -/
def combName (secs : List (Name × Int)) (name : Name) (msect : Int) (stk : List Int) (dest : Int) : Name :=
  match stk with
  | [] => name
  | h :: r => if msect = dest then name else combName secs (sectionName secs msect ++ [chUnder] ++ name) h r dest

/-- `EnterSymbol` -/
def enterSymbol (st : St) (name0 : Name) (v : Int) (mc : Bool) (res : Int) : St :=
  let name := fold st.cs name0
  let attr := if res = -2 then st.mom else res
  match st.stack with
  | [] => enterTree st (name, attr) v mc
  | top :: rest =>
    if attr ≠ st.mom then enterTree st (name, attr) v mc
    else match fsearch top.locSyms name with
      | some _ =>
        enterTree { st with stack := { top with locSyms := fremove top.locSyms name } :: rest } (name, attr) v mc
      | none =>
        match fsearch top.globSyms name with
        | some d =>
          enterTree { st with stack := { top with globSyms := fremove top.globSyms name } :: rest } (name, d) v mc
        | none =>
          match fsearch top.exportSyms name with
          | some d =>
            let comb := combName st.secs name st.mom (handles st.stack) d
            let st1 := enterTree { st with stack := { top with exportSyms := fremove top.exportSyms name } :: rest } (comb, d) v mc
            enterTree st1 (name, attr) v mc
          | none => enterTree st (name, attr) v mc

/-- `CreateSymbolEntry` + `EnterIntSymbolWithFlags` (outside macros: `MomLocHandle = -1`); `src` = `label` when the
caller is `LabelHandle` (`eSymbolFlag_Label`), `define` for every other defining statement -/
def defineSymbol (st : St) (name0 : Name) (v : Int) (mc : Bool) (src : SymSource) : St :=
  match getSymSection st name0 with
  | .invName => st.err errInvSymName
  | .invSection => st.err errInvSection
  | .plain n => let (st1, n1) := chkTmpDef st n src; enterSymbol st1 n1 v mc (-2)
  | .sect n h => let (st1, n1) := chkTmpDef st n src; enterSymbol st1 n1 v mc h

/-- `CodeENUM`: every member is entered as a constant with the running value (`name=value` sets it first), the counter
advances by `EnumIncrement` (1: ENUMCONF is not used) whether or not the member could be entered -/
def codeEnum (st : St) (items : List (Name × Option Int)) : St :=
  items.foldl (fun s it =>
    let cur := it.2.getD s.enumCur
    let s1 := defineSymbol { s with enumCur := cur } it.1 cur false .define
    { s1 with enumCur := cur + 1 }) st

/-! ### SECTION / ENDSECTION / PUBLIC / GLOBAL / FORWARD -/

/-- `CodeSECTION` -/
def codeSection (st : St) (name0 : Name) : St :=
  let name := fold st.cs name0
  match secIdx st.secs (name, st.mom) 0 with
  | some h =>
    if st.passNo = 1 then st.err errDoubleSection
    else { st with stack := { handle := st.mom } :: st.stack, mom := (h : Int) }
  | none =>
    { st with stack := { handle := st.mom } :: st.stack, secs := st.secs ++ [(name, st.mom)], mom := (st.secs.length : Int) }

def undefdForward (st : St) (l : List Fwd) : St := l.foldl (fun s _ => s.err errUndefdForward) st

/-- `CodeENDSECTION` -/
def codeEndSection (st : St) (arg : Option Name) : St :=
  match st.stack with
  | [] => st.err errNotInSection
  | top :: rest =>
    let wrong := match arg with
      | none => false
      | some a => (match secIdx st.secs (fold st.cs a, top.handle) 0 with | some h => (h : Int) | none => -2) ≠ st.mom
    if wrong then st.err errWrongEndSect
    else
      let st1 := undefdForward (undefdForward (undefdForward st top.locSyms) top.globSyms) top.exportSyms
      { st1 with stack := rest, mom := top.handle }

inductive PPKind where | forward | public_ | global_
deriving Repr, DecidableEq

/-- one argument of `CodePPSyms` -/
def ppSym (st : St) (k : PPKind) (sym0 : Name) (sect : Name) : St :=
  match st.stack with
  | [] => st
  | top :: rest =>
    let sym := fold st.cs sym0
    let (orig, alt1, alt2) := match k with
      | .forward => (top.locSyms, top.globSyms, top.exportSyms)
      | .public_ => (top.globSyms, top.locSyms, top.exportSyms)
      | .global_ => (top.exportSyms, top.locSyms, top.globSyms)
    if (fsearch alt1 sym).isSome || (fsearch alt2 sym).isSome then st.err errContForward
    else
      let orig1 := if (fsearch orig sym).isSome then orig else (sym, -2) :: orig
      let (st1, orig2) := match identifySection st sect with
        | some d => (st, orig1.map (fun (f : Fwd) => if f.1 = sym then (f.1, d) else f))
        | none => (st.err errInvSection, orig1)
      let top' : SaveSection := match k with
        | .forward => { top with locSyms := orig2 }
        | .public_ => { top with globSyms := orig2 }
        | .global_ => { top with exportSyms := orig2 }
      { st1 with stack := top' :: rest }

/-- FORWARD / PUBLIC / GLOBAL (only recognised inside a section; FORWARD only while `PassNo <= MaxSymPass`) -/
def codePPSyms (st : St) (k : PPKind) (args : List (Name × Name)) : St :=
  if k = .forward ∧ st.passNo > 1 then st
  else args.foldl (fun s a => ppSym s k a.1 a.2) st

/-! ### PUSHV / POPV -/

def nameLt : Name → Name → Bool
  | [], [] => false
  | [], _ :: _ => true
  | _ :: _, [] => false
  | a :: r, b :: s => if a < b then true else if b < a then false else nameLt r s

def getStack : List (Name × List Int) → Name → List Int
  | [], _ => []
  | (n, c) :: r, k => if n = k then c else getStack r k

def insStack : List (Name × List Int) → Name → List Int → List (Name × List Int)
  | [], k, c => [(k, c)]
  | (n, c') :: r, k, c =>
    if n = k then (k, c) :: r
    else if nameLt k n then (k, c) :: (n, c') :: r
    else (n, c') :: insStack r k c

/-- store the contents of stack `k`; an empty stack is deleted, a new one is inserted in `strcmp` order -/
def setStack (s : List (Name × List Int)) (k : Name) (c : List Int) : List (Name × List Int) :=
  if c.isEmpty then s.filter (fun p => p.1 ≠ k) else insStack s k c

def defStackName : Name := [68, 69, 70, 83, 84, 65, 67, 75]   -- "DEFSTACK"

def stackNameOf (st : St) (s : Name) : Name := if s = [] then defStackName else fold st.cs s

/-- `PushSymbol` -/
def pushSymbol (st : St) (sym : Name) (stk : Name) : St :=
  let (st1, r) := findNode st sym
  match r with
  | none => st1.err errSymbolUndef
  | some (_, e) =>
    let k := stackNameOf st1 stk
    { st1 with stacks := setStack st1.stacks k (e.val :: getStack st1.stacks k) }

/-- `PopSymbol`: the stack is looked up first; a destination that is not `Changeable` and whose value differs from the saved
one is refused with "constants cannot be redefined as variables" and the stack is left as it is (repair `eb7e93a`; before it
the value was written whatever the flag said); restoring a constant to the value it already has goes through and pops. -/
def popSymbol (st : St) (sym : Name) (stk : Name) : St :=
  let (st1, r) := findNode st sym
  match r with
  | none => st1.err errSymbolUndef
  | some (key, e) =>
    let k := stackNameOf st1 stk
    match getStack st1.stacks k with
    | [] => st1.err errStackEmpty
    | v :: rest =>
      if e.changeable = false ∧ e.val ≠ v then st1.err errConstantRedefinedAsVariable else
      { st1 with tab := tset st1.tab key { e with val := v }, stacks := setStack st1.stacks k rest }

/-! ### statements and passes -/

inductive Op where
  | section_ (name : Name)
  | endsection (arg : Option Name)
  | define (name : Name) (v : Int) (mc : Bool)     -- `name EQU v` / `name SET v`
  | label (name : Name)                             -- `name nop`
  | use (ref : Name)                                -- `adr ref` / `dw ref`
  | pp (k : PPKind) (args : List (Name × Name))
  | pushv (stk : Name) (syms : List Name)
  | popv (stk : Name) (syms : List Name)
  | labelOnly (name : Name)                         -- `name:` alone on its line
  | labelWord (name : Name) (ref : Name)            -- `name: adr ref` – a label in front of a pseudo instruction
  | labelPc (name : Name)                           -- `name LABEL $` (`*` on the 65xx)
  | enum_ (next : Bool) (items : List (Name × Option Int))   -- `ENUM a,b=5,c` / `NEXTENUM …`
deriving Repr

def emitWord (st : St) (v : Int) : St :=
  let w := (v % 65536).toNat
  { st with out := (w / 256) :: (w % 256) :: st.out, pc := st.pc + 2 }

def step (st0 : St) (op : Op) : St :=
  let st := { st0 with line := st0.line + 1 }
  match op with
  | .section_ n => codeSection st n
  | .endsection a => codeEndSection st a
  | .define n v mc => defineSymbol st n v mc .define
  | .label n => let s := defineSymbol st n st.pc false .label; { s with out := s.nopByte :: s.out, pc := s.pc + 1 }
  | .labelOnly n => defineSymbol st n st.pc false .label
  | .labelWord n r => let s := defineSymbol st n st.pc false .label; let (s2, v) := lookupSymbol s r; emitWord s2 v
  | .labelPc n => defineSymbol st n st.pc false .define
  | .enum_ next items => codeEnum (if next then st else { st with enumCur := 0 }) items
  | .use r => let (s, v) := lookupSymbol st r; emitWord s v
  | .pp k args => codePPSyms st k args
  | .pushv k syms => syms.foldl (fun s x => pushSymbol s x k) st
  | .popv k syms => syms.foldl (fun s x => popSymbol s x k) st

def run (st : St) (ops : List Op) : St := ops.foldl step st

/-- `AssembleFile_InitPass` as far as the symbol machinery is concerned (`ResetSymbolDefines`, `InitTmpSymbols`, …) -/
def initPass (st : St) (line0 : Nat) : St :=
  { st with passNo := st.passNo + 1, tab := st.tab.map (fun (k, e) => (k, { e with defined := false })),
            mom := -1, stack := [], repass := false, line := line0, pc := 0, out := [],
            fwdCnt := 0, backCnt := 0, log := [], lastGlob := [], stacks := [], enumCur := 0 }

/-- `AssembleFile_ExitPass`: `ClearStacks` (warning 230 per stack), open section -/
def exitPass (st : St) : St :=
  let st0 := { st with line := 0 }
  let st1 := st0.stacks.foldl (fun s _ => s.err errStackNotEmpty) st0
  let st2 := { st1 with stacks := [] }
  if st2.stack.isEmpty then st2 else st2.err errMissingEndSect

def hasError (st : St) : Bool := st.errs.any (fun e => e.2 ≥ 1000)

/-- the pass loop `do … while ((ErrorCount == 0) && Repass)` -/
def assemble (fuel : Nat) (st : St) (line0 : Nat) (ops : List Op) : St :=
  let st1 := exitPass (run (initPass st line0) ops)
  match fuel with
  | 0 => st1
  | f + 1 => if !hasError st1 && st1.repass then assemble f st1 line0 ops else st1

end AslModel.Sym
