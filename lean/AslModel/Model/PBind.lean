import AslModel.Spec.PFile
import AslModel.Generated.Tools
/-!
# MODEL of `toolutils.c` (ReadRecordHeader / WriteRecordHeader / SkipRecord / FilterOK /
CMD_FilterList) and `pbind.c` (OpenTarget / ProcessFile / CloseTarget / main loop)

Files are `List Byte`.  A source file is processed as (total size `n`, remaining bytes), so that
`ftell` = `n - rest.length`.  The target file is the list of bytes written so far; `exit()`
flushes it, so an abnormal end still leaves the bytes written up to that point.

`errno` is modelled because `WriteRecordHeader` consults it through `ChkIO` after *successful*
writes on the pinned tree (`if (fwrite(...)) ChkIO(Name)`); whether each branch does so is the
generated `Cfg.generated` (behaviour probe compiled against the current toolutils.c).
-/
namespace AslModel.Tools
open AslModel.PFile

/-- result of a (partial) tool run -/
inductive Res (α : Type) where
  | ok (a : α)
  /-- `exit(status)`; `out` = bytes of the output (target file resp. stdout) flushed by exit -/
  | exit (status : Nat) (out : List Byte)
  /-- outside the model: a read hit end-of-file (the C code then continues with stale variables),
      an index out of range, a division by zero, a header kind the caller cannot reach -/
  | stuck
deriving Repr

def Res.bind {α β : Type} : Res α → (α → Res β) → Res β
  | .ok a, f => f a
  | .exit s o, _ => .exit s o
  | .stuck, _ => .stuck

instance : Monad Res where
  pure := Res.ok
  bind := Res.bind

@[simp] theorem Res.ok_bind {α β : Type} (a : α) (f : α → Res β) : (Res.ok a >>= f) = f a := rfl
@[simp] theorem Res.exit_bind {α β : Type} (s : Nat) (o : List Byte) (f : α → Res β) :
    ((Res.exit s o : Res α) >>= f) = Res.exit s o := rfl
@[simp] theorem Res.stuck_bind {α β : Type} (f : α → Res β) : ((Res.stuck : Res α) >>= f) = Res.stuck := rfl

/-- the caller's `Header, CPU, Segment, Gran` variables -/
structure Hdr where
  hdr : Byte
  cpu : Byte
  seg : Byte
  gran : Byte
deriving DecidableEq, Repr, Inhabited

def hEnd : Nat := Generated.fileHeaderEnd
def hStart : Nat := Generated.fileHeaderStartAdr
def hData : Nat := Generated.fileHeaderDataRec
def hRData : Nat := Generated.fileHeaderRDataRec
def hReloc : Nat := Generated.fileHeaderRelocRec
def hRReloc : Nat := Generated.fileHeaderRRelocRec
def hRelocInfo : Nat := Generated.fileHeaderRelocInfo
def segCodeN : Nat := Generated.segCodeNum

/-- `toolutils.c ReadRecordHeader`: `prev` are the variables' previous values (they survive where
the C code does not assign them).  `none` = a read hit end-of-file. -/
def readRecordHeader (prev : Hdr) : List Byte → Option (Hdr × List Byte)
  | [] => none
  | h :: rest =>
    if h.toNat = hEnd ∨ h.toNat = hStart then some ({ prev with hdr := h }, rest)
    else if h.toNat = hData ∨ h.toNat = hRData ∨ h.toNat = hReloc ∨ h.toNat = hRReloc then
      match rest with
      | c :: s :: g :: rest' => some (⟨h, c, s, g⟩, rest')
      | _ => none
    else if h.toNat ≤ 0x7f then
      some (⟨b hData, h, b segCodeN, b (Generated.granularity h.toNat segCodeN)⟩, rest)
    else some ({ prev with hdr := h }, rest)

/-- which `WriteRecordHeader` branches call `ChkIO` although `fwrite` succeeded -/
structure Cfg where
  chkStart : Bool
  chkLong : Bool
  chkShort : Bool
deriving DecidableEq, Repr

def Cfg.generated : Cfg :=
  ⟨Generated.wrhChkOnSuccessStart, Generated.wrhChkOnSuccessLong, Generated.wrhChkOnSuccessShort⟩

/-- the evident intention: `ChkIO` only after a failed write -/
def Cfg.intended : Cfg := ⟨false, false, false⟩

/-- one successful one-byte `fwrite`, followed by `ChkIO` if `chk`: with `errno ≠ 0` that is exit 2 -/
def putChk (chk : Bool) (errno : Nat) (out : List Byte) (x : Byte) : Res (List Byte) :=
  if chk = true ∧ errno ≠ 0 then .exit 2 (out ++ [x]) else .ok (out ++ [x])

/-- `toolutils.c WriteRecordHeader` on the target bytes `out` -/
def writeRecordHeader (cfg : Cfg) (errno : Nat) (out : List Byte) (h : Hdr) : Res (List Byte) :=
  if h.hdr.toNat = hEnd ∨ h.hdr.toNat = hStart then putChk cfg.chkStart errno out h.hdr
  else if h.hdr.toNat = hData ∨ h.hdr.toNat = hRData then
    if h.seg.toNat ≠ segCodeN ∨ h.gran.toNat ≠ Generated.granularity h.cpu.toNat h.seg.toNat ∨ h.cpu.toNat ≥ 0x80 then
      putChk cfg.chkLong errno out h.hdr >>= fun o1 =>
      putChk cfg.chkLong errno o1 h.cpu >>= fun o2 =>
      putChk cfg.chkLong errno o2 h.seg >>= fun o3 =>
      putChk cfg.chkLong errno o3 h.gran
    else putChk cfg.chkShort errno out h.cpu
  else .stuck  -- relocatable kinds: never passed by pbind

/-- `toolutils.c SkipRecord` -/
def skipRecord (hdr : Byte) (rest : List Byte) : Option (List Byte) :=
  if hdr.toNat = hStart then some (rest.drop 4)
  else if hdr.toNat = hEnd then some rest
  else if hdr.toNat = hRelocInfo then
    match rest with
    | r0 :: r1 :: r2 :: r3 :: e0 :: e1 :: e2 :: e3 :: s0 :: s1 :: s2 :: s3 :: rest' =>
      -- `LargeWord Length` (< 2^37), handed to `fseek` limited to `LONG_MAX`: exact on an LP64 build, forward only
      some (rest'.drop (16 * rd32 r0 r1 r2 r3 + 16 * rd32 e0 e1 e2 e3 + rd32 s0 s1 s2 s3))
    | _ => none
  else
    match rest with
    | _ :: _ :: _ :: _ :: l0 :: l1 :: rest' => some (rest'.drop (rd16 l0 l1))
    | _ => none

/-- `FilterBytes[0..FilterCnt)`; `DoFilter = (FilterCnt != 0)` -/
abbrev FilterSt := List Byte

def filterOK (flt : FilterSt) (cpu : Byte) : Bool :=
  if flt.isEmpty then true else flt.contains cpu

/-- one element of a `-f`/`+f` list in `CMD_FilterList` (remove = overwrite with the last entry) -/
def filterOne (negate : Bool) (st : FilterSt) (v : Byte) : FilterSt :=
  match st.idxOf? v with
  | some i => if negate then (st.set i (st.getLastD v)).dropLast else st
  | none => if negate then st else st ++ [v]

def filterList (negate : Bool) (vals : List Byte) (st : FilterSt) : FilterSt :=
  vals.foldl (filterOne negate) st

/-- the spec-level view of a filter state -/
def filterSpec (flt : FilterSt) : Option (List Byte) := if flt.isEmpty then none else some flt

/-! ## pbind.c -/

/-- the copy loop of `ProcessFile` (`BufferSize` chunks) -/
def copyLoop (bufSize : Nat) : Nat → Nat → List Byte → List Byte → Option (List Byte × List Byte)
  | 0, len, src, out => if len = 0 then some (src, out) else none
  | fuel + 1, len, src, out =>
    if len = 0 then some (src, out)
    else
      let t := min bufSize len
      if src.length < t then none
      else copyLoop bufSize fuel (len - t) (src.drop t) (out ++ src.take t)

structure St where
  /-- bytes of the target file so far -/
  out : List Byte
  errno : Nat
  /-- `SumLen` of the files processed so far (printed when not quiet) -/
  sums : List Nat
deriving Repr

structure Env where
  cfg : Cfg
  bufSize : Nat
  flt : FilterSt
  /-- `ProcessFile` demands `ftell + InpLen < FileSize - lenSlack` (pinned tree: 1, i.e. one byte more
  than the `$00` record; generated by a behaviour probe) -/
  lenSlack : Nat

/-- the `do … while (InpHeader != FileHeaderEnd)` loop of `ProcessFile`; `n` = size of the source -/
def pbindLoop (env : Env) (errno : Nat) (n : Nat) :
    Nat → Hdr → Nat → List Byte → List Byte → Res (List Byte × Nat)
  | 0, _, _, _, _ => .stuck
  | fuel + 1, prev, sum, rest, out =>
    match readRecordHeader prev rest with
    | none => .stuck
    | some (h, rest1) =>
      if h.hdr.toNat = hStart then
        match rest1 with
        | a0 :: a1 :: a2 :: a3 :: rest2 =>
          writeRecordHeader env.cfg errno out h >>= fun o1 =>
          pbindLoop env errno n fuel h sum rest2 (o1 ++ le32 (rd32 a0 a1 a2 a3))
        | _ => .stuck
      else if h.hdr.toNat = hData then
        match rest1 with
        | a0 :: a1 :: a2 :: a3 :: l0 :: l1 :: rest2 =>
          let len := rd16 l0 l1
          if (n - rest2.length) + len ≥ n - env.lenSlack then .exit 3 out
          else if filterOK env.flt h.cpu then
            writeRecordHeader env.cfg errno out h >>= fun o1 =>
            match copyLoop env.bufSize (len + 1) len rest2 (o1 ++ le32 (rd32 a0 a1 a2 a3) ++ le16 len) with
            | some (rest3, o2) => pbindLoop env errno n fuel h (sum + len) rest3 o2
            | none => .stuck
          else pbindLoop env errno n fuel h sum (rest2.drop len) out
        | _ => .stuck
      else
        match skipRecord h.hdr rest1 with
        | none => .stuck
        | some rest2 =>
          if h.hdr.toNat = hEnd then .ok (out, sum)
          else pbindLoop env errno n fuel h sum rest2 out

/-- `ProcessFile`: magic check, then the record loop -/
def processFile (env : Env) (quiet : Bool) (st : St) (src : List Byte) : Res St :=
  match src with
  | m0 :: m1 :: rest =>
    if rd16 m0 m1 ≠ Generated.fileMagic then .exit 3 st.out
    else
      let errno := if quiet then st.errno else 0
      pbindLoop env errno src.length (src.length + 1) default 0 rest st.out >>= fun (o, sum) =>
      .ok { out := o, errno := errno, sums := st.sums ++ [sum] }
  | _ => .stuck

def processFiles (env : Env) (quiet : Bool) : St → List (List Byte) → Res St
  | st, [] => .ok st
  | st, f :: fs => processFile env quiet st f >>= fun st' => processFiles env quiet st' fs

structure Outcome where
  status : Nat
  target : List Byte
  sums : List Nat
deriving DecidableEq, Repr

/-- `main`: OpenTarget, every source in command-line order, CloseTarget.
`errno0` is the value `errno` happens to have when `main` reaches `OpenTarget`. -/
def pbindMain (env : Env) (fileID : Nat) (creator : List Byte) (quiet : Bool) (errno0 : Nat)
    (inputs : List (List Byte)) : Option Outcome :=
  match processFiles env quiet ⟨le16 fileID, errno0, []⟩ inputs with
  | .ok st => some ⟨0, st.out ++ [b hEnd] ++ creator, st.sums⟩
  | .exit s o => some ⟨s, o, []⟩
  | .stuck => none

def genCreator : List Byte := Generated.pbindCreator.map b

def genEnv (flt : FilterSt) : Env := ⟨Cfg.generated, Generated.pbindBufferSize, flt, Generated.pbindLenSlack⟩

end AslModel.Tools
