/-! MODEL of `DreheCodes()` (/repo/asmcode.c): in-place byte swapping of the per-line code buffer
(`BAsmCode`/`WAsmCode`/`DAsmCode` are one overlay) for `ActListGran` 2 and 4.

The word arithmetic is the C arithmetic (`Word` = 16 bit, `LongWord` = 32 bit, as `Nat` with explicit
truncation); the buffer is the byte view of the overlay.  The byte view of a `Word`/`LongWord` is written
for a little-endian host (`HostBigEndian` = 0 on the build host); the *byte-level* effect (reversal inside
each unit) is the same on a big-endian host.  Core only. -/
namespace AslModel.Drehe

/-- `((w & 0xff) << 8) + ((w & 0xff00) >> 8)` stored back into a `Word` -/
def swapW (w : Nat) : Nat := (((w &&& 0xff) <<< 8) + ((w &&& 0xff00) >>> 8)) % 65536

/-- `Dest = (Dest << 8) | (D & 0xff); D >>= 8;` on `LongWord`s -/
def swapDStep (p : Nat × Nat) : Nat × Nat := (((p.1 <<< 8) ||| (p.2 &&& 0xff)) % 4294967296, p.2 >>> 8)

/-- `for (z2 = 0, Dest = 0; z2 < 4; z2++) …; DAsmCode[z] = Dest;` -/
def swapD (d : Nat) : Nat := (swapDStep (swapDStep (swapDStep (swapDStep (0, d))))).1

def loadW (b0 b1 : UInt8) : Nat := b0.toNat + 256 * b1.toNat
def storeW (w : Nat) : List UInt8 := [UInt8.ofNat (w % 256), UInt8.ofNat (w / 256 % 256)]
def loadD (b0 b1 b2 b3 : UInt8) : Nat := b0.toNat + 256 * b1.toNat + 65536 * b2.toNat + 16777216 * b3.toNat
def storeD (d : Nat) : List UInt8 :=
  [UInt8.ofNat (d % 256), UInt8.ofNat (d / 256 % 256), UInt8.ofNat (d / 65536 % 256), UInt8.ofNat (d / 16777216 % 256)]

/-- `for (z = 0; z < l >> 1; z++) WAsmCode[z] = swap(WAsmCode[z])` -/
def turn2 : Nat → List UInt8 → List UInt8
  | 0, bs => bs
  | n + 1, b0 :: b1 :: rest => storeW (swapW (loadW b0 b1)) ++ turn2 n rest
  | _ + 1, bs => bs      -- past the end of the buffer (cannot happen: l ≤ MaxCodeLen ≤ buffer size)

/-- `for (z = 0; z < l >> 2; z++) DAsmCode[z] = swap(DAsmCode[z])` -/
def turn4 : Nat → List UInt8 → List UInt8
  | 0, bs => bs
  | n + 1, b0 :: b1 :: b2 :: b3 :: rest => storeD (swapD (loadD b0 b1 b2 b3)) ++ turn4 n rest
  | _ + 1, bs => bs

/-- DreheCodes: `gran` = ActListGran, `l` = CodeLen * Granularity() in bytes -/
def dreheCodes (gran l : Nat) (buf : List UInt8) : List UInt8 :=
  if gran = 2 then turn2 (l >>> 1) buf
  else if gran = 4 then turn4 (l >>> 2) buf
  else buf

end AslModel.Drehe
