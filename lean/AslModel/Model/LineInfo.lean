import AslModel.Model.Pos
import AslModel.Model.Listing
/-!
# Source positions of the debug outputs — MODEL (C19)

Transcription of what `asmdebug.c AddLineInfo` is handed by `asmsub.c BookKeeping` —
`AddLineInfo(InMacroFlag, CurrLine, CurrFileName, ActPC, ProgCounter(), CodeLen)` — and of the bookkeeping in `as.c`
that produces `CurrLine` and `CurrFileName`:

* globals `MomLineCounter`, `CurrLine`, `CurrFileName` (`Glob`);
* `TInputTag` as far as line numbers are concerned (`Tag`: which `*_Processor`, `StartLine`, `FromFile`, `LineZ`,
  `LineCnt`, `LineNums`, `SaveAttr`), `genProc` = `GenerateProcessor` (`StartLine = CurrLine`,
  `FromFile = FirstInputTag->Processor == INCLUDE_Processor`, `LineZ = 1`, `LineCnt = 0`, `LineNums = NULL`);
* `addBodyLine` = `AddBodyLine` (called by `REPT_/IRP_/WHILE_OutProcessor` for every body line they store:
  `LineNums[LineCnt++] = CurrLine - StartLine`), `collect` = the collector being fed the body lines by the supplying tag;
* `deliver` = one call of the tag's `Processor`: `INCLUDE_Processor` (`LineZ = CurrLine = (MomLineCounter += Count)`),
  `MACRO_Processor` (`CurrLine = StartLine`), `REPT_/IRP_/IRPC_/WHILE_Processor`
  (`CurrLine = StartLine; if (FromFile) CurrLine += LineNums[LineZ - 1];` then `++LineZ > LineCnt → LineZ = 1`);
* `ExpandINCLUDE_Core` (`StartLine = MomLineCounter; SaveAttr = CurrFileName; CurrFileName = file;
  MomLineCounter = 0; AddFile`) and `INCLUDE_Restorer` (`MomLineCounter = StartLine; CurrFileName = SaveAttr`);
* `runItem/runBody` drive the machine over a nesting tree as `GetNextLine` and the `*_OutProcessor` collectors do (same
  shape as `Pos.runItem`): the supplying tag delivers opener, body (every line stored by `AddBodyLine`; the closing ENDM
  is not stored) and ENDM of a block before the block's tag is pushed;
* `asmfnums.c AddFile/GetFileNum` (`addFile`, `fileNum`: comparison of the complete name), `AddLineInfo`'s insertion
  (`Listing.addLineInfo`), the order in which `DumpDebugInfo_MAP` / `DumpDebugInfo_NOICE` walk the list.

The events of a run: `.opn file` (an INCLUDE opens `file`), `.stmt file line id` (BookKeeping for the code statement `id`).
Core only.
-/
namespace AslModel.LineInfo
open AslModel.Pos

inductive Ev where
  | stmt (file : String) (line : Nat) (id : Nat)
  | opn (file : String)
deriving Repr, DecidableEq

structure Glob where
  /-- `MomLineCounter` -/
  mom : Nat
  /-- `CurrLine` -/
  curLine : Nat
  /-- `CurrFileName` -/
  curFile : String
deriving Repr

inductive PKind where | incl | macro | loop
deriving Repr, DecidableEq

structure Tag where
  kind : PKind
  startLine : Nat
  fromFile : Bool
  lineZ : Nat
  lineCnt : Nat
  /-- `LineNums`: source line of each stored body line, relative to `StartLine` (REPT/IRP/IRPC/WHILE) -/
  lineNums : List Nat
  saveAttr : String
deriving Repr

/-- `GenerateProcessor` (called while `top` is `FirstInputTag`) -/
def genProc (g : Glob) (top : Tag) (kind : PKind) : Tag :=
  { kind := kind, startLine := g.curLine, fromFile := decide (top.kind = .incl), lineZ := 1, lineCnt := 0, lineNums := [],
    saveAttr := "" }

/-- `AddBodyLine(Tag, pLine)`: `Tag->LineNums[Tag->LineCnt++] = CurrLine - Tag->StartLine` (the text of the line plays no
role here).  `CurrLine` is what the supplying tag's processor left; it is never below `StartLine` while a body is being
collected (`Lemmas/LineInfo.lean collect_stored` computes the stored values), so the truncated subtraction is the C one. -/
def addBodyLine (g : Glob) (t : Tag) : Tag :=
  { t with lineNums := t.lineNums ++ [g.curLine - t.startLine], lineCnt := t.lineCnt + 1 }

/-- one call of `FirstInputTag->Processor`: deliver one logical line (`count` physical lines when read from a file) -/
def deliver (g : Glob) (t : Tag) (count : Nat) : Glob × Tag :=
  match t.kind with
  | .incl => ({ g with mom := g.mom + count, curLine := g.mom + count }, { t with lineZ := g.mom + count })
  | .macro => ({ g with curLine := t.startLine }, { t with lineZ := t.lineZ + 1 })
  -- `CurrLine = StartLine; if (FromFile) CurrLine += LineNums[LineZ - 1];` (`1 ≤ LineZ ≤ LineCnt` whenever a loop tag
  -- is called: `Lemmas/LineInfo.lean Inv`)
  | .loop => ({ g with curLine := t.startLine + (if t.fromFile then t.lineNums.getD (t.lineZ - 1) 0 else 0) },
              { t with lineZ := if t.lineZ + 1 > t.lineCnt then 1 else t.lineZ + 1 })

/-- deliver several lines: the supplying tag's side of `collect` (`Lemmas/LineInfo.lean collect_sup`) -/
def consume (g : Glob) (t : Tag) : List Nat → Glob × Tag
  | [] => (g, t)
  | p :: ps => consume (deliver g t p).1 (deliver g t p).2 ps

/-- `REPT_/IRP_/WHILE_OutProcessor` while `NestLevel > -1`: the supplying tag `sup` delivers the body lines one by one, each
is stored in the new tag by `AddBodyLine` -/
def collect (g : Glob) (sup tag : Tag) : List Nat → (Glob × Tag) × Tag
  | [] => ((g, sup), tag)
  | p :: ps => collect (deliver g sup p).1 (deliver g sup p).2 (addBodyLine (deliver g sup p).1 tag) ps

def iter {σ α : Type} (f : σ → σ × List α) : Nat → σ → σ × List α
  | 0, s => (s, [])
  | n + 1, s => ((iter f n (f s).1).1, (f s).2 ++ (iter f n (f s).1).2)

/-- `ExpandREPT` / `ExpandIRP` / `ExpandIRPN` / `ExpandIRPC` / `ExpandWHILE` and their collectors, as far as line numbers are
concerned: the supplying tag `top` delivers the opening line (`GenerateProcessor` for the block's tag), the body lines
(`lines`; each stored by `AddBodyLine`) and the closing ENDM (not stored); then the block's tag delivers its body `n` times
(`f` = one pass through the body) and is popped -/
def runLoop (g : Glob) (top : Tag) (lines : List Nat) (n : Nat) (f : Glob × Tag → (Glob × Tag) × List Ev) :
    (Glob × Tag) × List Ev :=
  let r0 := deliver g top 1
  let c := collect r0.1 r0.2 (genProc r0.1 r0.2 .loop) lines
  let r := deliver c.1.1 c.1.2 1
  let q := iter f n (r.1, c.2)
  ((q.1.1, r.2), q.2)

mutual
def runItem (g : Glob) (top : Tag) : Item → (Glob × Tag) × List Ev
  | .plain p => (deliver g top p, [])
  | .fault p id =>
      let r := deliver g top p
      -- BookKeeping: AddLineInfo(InMacroFlag, CurrLine, CurrFileName, …)
      (r, [.stmt r.1.curFile r.1.curLine id])
  | .call _ b =>
      let r := deliver g top 1
      let tag := { genProc r.1 r.2 .macro with lineCnt := b.lines.length }
      let q := runBody r.1 tag b
      ((q.1.1, r.2), q.2)
  | .rept n b => runLoop g top b.lines n (fun s => runBody s.1 s.2 b)
  | .irp k args b => runLoop g top b.lines (tagIrpIters (mkIrp k args b.lines.length)) (fun s => runBody s.1 s.2 b)
  | .irpc s b => runLoop g top b.lines s.length (fun st => runBody st.1 st.2 b)
  | .while_ n b => runLoop g top b.lines n (fun s => runBody s.1 s.2 b)
  | .incl file b =>
      let r := deliver g top 1
      -- ExpandINCLUDE_Core: Tag->StartLine = MomLineCounter; SaveAttr = CurrFileName; CurrFileName = file; MomLineCounter = 0
      let tag := { genProc r.1 r.2 .incl with startLine := r.1.mom, saveAttr := r.1.curFile, lineZ := 0 }
      let q := runBody { r.1 with curFile := file, mom := 0 } tag b
      -- INCLUDE_Restorer: MomLineCounter = StartLine; CurrFileName = SaveAttr
      (({ q.1.1 with mom := tag.startLine, curFile := tag.saveAttr }, r.2), .opn file :: q.2)
def runBody (g : Glob) (top : Tag) : Body → (Glob × Tag) × List Ev
  | .nil => ((g, top), [])
  | .cons it b =>
      let r := runItem g top it
      let q := runBody r.1.1 r.1.2 b
      (q.1, r.2 ++ q.2)
end

/-- the tag of the main file (`AssembleFile`: `ExpandINCLUDE_Core` on an empty chain) -/
def mainTag : Tag := { kind := .incl, startLine := 0, fromFile := true, lineZ := 0, lineCnt := 0, lineNums := [], saveAttr := "" }

/-- a whole pass over the main file -/
def run (name : String) (b : Body) : List Ev :=
  (runBody { mom := 0, curLine := 0, curFile := name } mainTag b).2

/-! ## file numbers, line-info list, order of the debug files -/

/-- `asmfnums.c AddFile`: append unless `GetFileNum` finds the (complete) name -/
def addFile (fs : List String) (f : String) : List String := if fs.contains f then fs else fs ++ [f]

/-- the file list after the pass (`AssembleFile` adds the main file first) -/
def fileList (name : String) (evs : List Ev) : List String :=
  evs.foldl (fun fs e => match e with | .opn f => addFile fs f | .stmt _ _ _ => fs) [name]

/-- `GetFileNum` -/
def fileNum (fs : List String) (f : String) : Nat := fs.idxOf f

/-- the records with their start addresses: the code statements are stored contiguously from `org` on -/
def recAddrs (len : Nat → Nat) : Nat → List Ev → List (String × Nat × Nat)
  | _, [] => []
  | a, .opn _ :: es => recAddrs len a es
  | a, .stmt f l id :: es => (f, l, a) :: recAddrs len (a + len id) es

/-- `LineInfoRoot` after the pass (all records in segment CODE = 1) -/
def lineInfoList (fs : List String) (recs : List (String × Nat × Nat)) : List Listing.LineInfo :=
  recs.foldl (fun l r => Listing.addLineInfo l ⟨1, fileNum fs r.1, r.2.2, r.2.1⟩) []

/-- `DumpDebugInfo_MAP`: the list in order, file name by `GetFileName` -/
def mapOrder (fs : List String) (l : List Listing.LineInfo) : List (String × Nat × Nat) :=
  l.map (fun x => (fs.getD x.file "", x.line, x.addr))

/-- `DumpDebugInfo_NOICE`: `for (ActFile = 0; ActFile < GetFileCount(); ActFile++)` the records of that file in list order -/
def noiceOrder (fs : List String) (l : List Listing.LineInfo) : List (String × Nat × Nat) :=
  (List.range fs.length).flatMap (fun n => (l.filter (fun x => x.file == n)).map (fun x => (fs.getD n "", x.line, x.addr)))

end AslModel.LineInfo
