import AslModel.Model.IntConst
/-!
# MODEL for C08, part "constants inside formulas": the character loop of `EvalStrExpression` with the
`QualifyQuote` callback, and the argument splitter `QuotPosCore` (asmsub.c) with the same callback

`Model/Expr.lean` tokenises the rendered text for the Motorola-syntax target of the tree correspondence.  Here the
scan is transcribed character by character with the state the C code keeps (`LKlamm`, `RKlamm`, `WKlamm`, `InSgl`,
`InDbl`, `ThisEscaped`/`NextEscaped`, `OpMax`, `OpPos`), the callback is a parameter (`none` = `QualifyQuote == NULL`),
and constants are read by the full `ConstIntVal` model (`Model/IntConst.lean`) under the target's notation state.

* `qualifySQC`  – `QualifyQuote_SingleQuoteConstant` (codepseudo.c; installed by H8/300, H8/500, NS32000, SC/MP)
* `qualifyZ80`  – `QualifyQuote_Z80` (codez80.c)
* `stepQ`/`scanQ` – the `for (zp = …)` loop of `EvalStrExpression`
* `evalQ`       – one activation of `EvalStrExpression`: blanks, constants (integer, float, string), scan, bracket
                  error, monadic minus, operand count, split, recursion (right operand first), `( … )`
* `quotPosQ`/`splitArgsQ` – `QuotPosCore` and the "Argumente zerteilen" loop of `SplitLine` (as.c)
-/
namespace AslModel.ExprQ
open AslModel.Formula AslModel.Expr AslModel.IntConst AslModel.Generated

/-- `tQualifyQuoteFnc`: (complete string, position of the apostrophe) → `true` = the apostrophe delimits a character string -/
abbrev Qualify := List Char → Nat → Bool

def cIsDigit (c : Char) : Bool := decide ('0' ≤ c ∧ c ≤ '9')

def cIsAlnum (c : Char) : Bool := cIsDigit c || decide ('a' ≤ c ∧ c ≤ 'z') || decide ('A' ≤ c ∧ c ≤ 'Z')

/-- `switch (as_toupper(*(pQuotePos - 1)))` -/
def sqcBase (c : Char) : Option Nat :=
  if upC c = 'B' then some 2 else if upC c = 'O' then some 8 else if upC c = 'X' ∨ upC c = 'H' then some 16 else none

/-- the `switch (Base)` in the digit loop -/
def sqcDigitOk (base : Nat) (c : Char) : Bool :=
  if base = 16 then isXDigit c
  else if base = 8 then cIsDigit c && decide (c < '8')
  else if base = 2 then cIsDigit c && decide (c < '2')
  else false

/-- `for (pRun = pQuotePos + 1; *pRun; pRun++) { … if (!OK) break; }`: the text at `pRun` after the loop -/
def sqcRun (base : Nat) : List Char → List Char
  | [] => []
  | c :: cs => if sqcDigitOk base c then sqcRun base cs else c :: cs

/-- **`QualifyQuote_SingleQuoteConstant`** -/
def qualifySQC : Qualify := fun t p =>
  if p = 0 then true
  else
    match sqcBase (t.getD (p - 1) ' ') with
    | none => true
    | some base =>
      let after := t.drop (p + 1)
      let rest := sqcRun base after
      if rest.length = after.length then true          -- `pRun <= pQuotePos + 1`: no digit
      else
        match rest with
        | [] => false                                   -- `as_isalnum('\0')`
        | c :: _ => if c = '\'' then true else cIsAlnum c

/-- **`QualifyQuote_Z80`** (`AF'` is no quoting) -/
def qualifyZ80 : Qualify := fun t p =>
  if t.getD p ' ' = '\'' ∧ p ≥ 2 ∧ upC (t.getD (p - 2) ' ') = 'A' ∧ upC (t.getD (p - 1) ' ') = 'F' then false else true

/-- `InSgl || !QualifyQuote || QualifyQuote(str, zp)` -/
def quoteToggles (qual : Option Qualify) (t : List Char) (zp : Nat) (inSgl : Bool) : Bool :=
  inSgl || (match qual with | none => true | some f => f t zp)

/-! ## the scan of `EvalStrExpression` -/

structure QS where
  lk : Nat := 0
  rk : Nat := 0
  wk : Int := 0
  inSgl : Bool := false
  inDbl : Bool := false
  thisEsc : Bool := false
  opMax : Nat := 0
  opPos : Nat := 0
deriving Repr, DecidableEq

/-- body of the candidate loop at text position `zp` -/
def candStepQ (zp : Nat) (a : QS) (c : Nat) : QS :=
  if prioOf c ≥ prioOf a.opMax then { a with opMax := c, opPos := zp } else a

/-- one iteration of `for (zp = …; *zp; zp++, ThisEscaped = NextEscaped)`: new state and the advance of `zp` -/
def stepQ (qual : Option Qualify) (t : List Char) (zp : Nat) (c : Char) (s : QS) : QS × Nat :=
  let quoted := s.inSgl || s.inDbl
  if c = '(' then ({ s with lk := if quoted then s.lk else s.lk + 1, thisEsc := false }, 1)
  else if c = ')' then ({ s with rk := if quoted then s.rk else s.rk + 1, thisEsc := false }, 1)
  else if c = '{' then ({ s with wk := if quoted then s.wk else s.wk + 1, thisEsc := false }, 1)
  else if c = '}' then ({ s with wk := if quoted then s.wk else s.wk - 1, thisEsc := false }, 1)
  else if c = '"' then ({ s with inDbl := if !s.inSgl && !s.thisEsc then !s.inDbl else s.inDbl, thisEsc := false }, 1)
  else if c = '\'' then
    ({ s with inSgl := if !s.inDbl && !s.thisEsc && quoteToggles qual t zp s.inSgl then !s.inSgl else s.inSgl,
              thisEsc := false }, 1)
  else if c = '\\' then ({ s with thisEsc := quoted && !s.thisEsc }, 1)
  else if s.lk = s.rk ∧ s.wk = 0 ∧ !quoted then
    let cs := candsOf (t.drop zp)
    match cs.getLast? with
    | some k => ({ (cs.foldl (candStepQ zp) s) with thisEsc := false }, (rowOf k).idLen)
    | none => ({ s with thisEsc := false }, 1)
  else ({ s with thisEsc := false }, 1)

def scanQ (qual : Option Qualify) (t : List Char) : Nat → Nat → QS → QS
  | 0, _, s => s
  | fuel + 1, zp, s =>
    match t[zp]? with
    | none => s
    | some c => scanQ qual t fuel (zp + (stepQ qual t zp c s).2) (stepQ qual t zp c s).1

def scanText (qual : Option Qualify) (t : List Char) : QS := scanQ qual t (t.length + 1) 0 {}

/-! ## one activation of `EvalStrExpression` -/

def isBlankC (c : Char) : Bool := c == ' ' || c == '\t'

def trimB (s : List Char) : List Char := ((s.dropWhile isBlankC).reverse.dropWhile isBlankC).reverse

/-- `ConstStringVal` on a text without `\{…}`: the whole text is one constant in quotation marks -/
def constStringQ (t : List Char) : Option (List Char) :=
  match t with
  | c :: rest =>
    if c = '"' ∨ c = '\'' then
      match strEnd c rest false [] with
      | some (raw, []) =>
        match constStringVal (fun _ => .error .undef) c raw with
        | .ok body => some body
        | .error _ => none
      | _ => none
    else none
  | [] => none

def evalQ (cfg : IntCfg) (qual : Option Qualify) (q : Quirks) : Nat → List Char → Except Err Val
  | 0, _ => .error .fuel
  | n + 1, text =>
    let t := trimB text
    match constIntVal cfg t with
    | some v => .ok (.int v)
    | none =>
      match constFloat t with
      | some x => .ok (.flt x)
      | none =>
        match constStringQ t with
        | some s => .ok (.str s)
        | none =>
          let s := scanText qual t
          if s.lk ≠ s.rk then .error .bracket
          else if s.opMax ≠ 0 then
            let row := rowOf s.opMax
            let monMinus : Bool := row.id == ['-'] && s.opPos == 0
            let dyadic : Bool := if monMinus then minusMonadic.dyadic else row.dyadic
            let argCnt : Nat := if t.length ≤ 1 then 0 else if s.opPos = 0 ∨ s.opPos = t.length - 1 then 1 else 2
            if argCnt ≠ (if dyadic then 2 else 1) then .error .argCnt
            else
              let rv := evalQ cfg qual q n (t.drop (s.opPos + row.id.length))
              if dyadic then
                match rv, evalQ cfg qual q n (t.take s.opPos) with
                | .error e, _ => .error e
                | .ok _, .error e => .error e
                | .ok b, .ok a => (modelM q).bin s.opMax a b
              else
                match rv with
                | .error e => .error e
                | .ok b => (modelM q).un s.opMax b
          else if s.lk ≠ 0 then
            -- "Nullfunktion: nur Argument"; function calls are not part of this model
            match t with
            | '(' :: rest => evalQ cfg qual q n rest.dropLast
            | _ => .error .undef
          else .error .symbol

/-! ## `QuotPosCore` and the argument loop of `SplitLine` -/

structure PS where
  brack : Int := 0
  ang : Int := 0
  inSgl : Bool := false
  inDbl : Bool := false
  thisEsc : Bool := false
deriving Repr, DecidableEq

def stepP (qual : Option Qualify) (s : List Char) (i : Nat) (c : Char) (st : PS) : PS :=
  let quoted := st.inSgl || st.inDbl
  if c = '"' then { st with inDbl := if !st.inSgl && !st.thisEsc then !st.inDbl else st.inDbl, thisEsc := false }
  else if c = '\'' then
    { st with inSgl := if !st.inDbl && !st.thisEsc && quoteToggles qual s i st.inSgl then !st.inSgl else st.inSgl,
              thisEsc := false }
  else if c = '\\' then { st with thisEsc := quoted && !st.thisEsc }
  else if c = '(' then { st with brack := if st.ang = 0 ∧ !quoted then st.brack + 1 else st.brack, thisEsc := false }
  else if c = ')' then { st with brack := if st.ang = 0 ∧ !quoted then st.brack - 1 else st.brack, thisEsc := false }
  else if c = '[' then { st with ang := if st.brack = 0 ∧ !quoted then st.ang + 1 else st.ang, thisEsc := false }
  else if c = ']' then { st with ang := if st.brack = 0 ∧ !quoted then st.ang - 1 else st.ang, thisEsc := false }
  else { st with thisEsc := false }

/-- `QuotPosQualify(s, ch, qual)`: position of the first `ch` outside brackets and quotations -/
def quotPosQ (qual : Option Qualify) (ch : Char) (s : List Char) : Nat → Nat → PS → Option Nat
  | 0, _, _ => none
  | fuel + 1, i, st =>
    match s[i]? with
    | none => none
    | some c =>
      if c = ch ∧ st.ang = 0 ∧ st.brack = 0 ∧ !st.inSgl ∧ !st.inDbl then some i
      else quotPosQ qual ch s fuel (i + 1) (stepP qual s i c st)

def isSpaceC (c : Char) : Bool := c == ' ' || c == '\t'

def trimPost (s : List Char) : List Char := (s.reverse.dropWhile isSpaceC).reverse

/-- the loop "Argumente zerteilen" (one divide character `,`) -/
def splitArgsQ (qual : Option Qualify) : Nat → List Char → List (List Char)
  | 0, _ => []
  | fuel + 1, s =>
    let r := s.dropWhile isSpaceC
    match quotPosQ qual ',' r (r.length + 1) 0 {} with
    | none => [trimPost r]
    | some p => trimPost (r.take p) :: splitArgsQ qual fuel (r.drop (p + 1))

def splitArgs (qual : Option Qualify) (s : List Char) : List (List Char) := splitArgsQ qual (s.length + 2) s

end AslModel.ExprQ
