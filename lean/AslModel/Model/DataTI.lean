import AslModel.Model.DataWord
import AslModel.Spec.DataTI
/-!
# STRING / RSTRING / BYTE / WORD / LONG of the TMS3202x / 3205x / 3254x — MODEL (C09)

Executable transcription of `tipseudo.c`:

* `pseudo_store(callback, MaxMultCharLen)` — the argument loop: `EvalStrExpression`, float → error, string →
  `MultiCharToInt` (single-quoted and not longer than `MaxMultCharLen`: `goto ToInt`) else one callback per character
  with `CharTransTable[c]`, integer → one callback;
* the callbacks `wr_code_byte_hilo` (STRING), `wr_code_byte_lohi` (RSTRING), `wr_code_byte` (BYTE), `wr_code_word`
  (WORD), `wr_code_long` (LONG) with `RangeCheck(val, Int8 / Int16)` of `asmpars.c` (`Model/Data.lean`).

State of the loop: the cells `[0, CodeLen)` of `WAsmCode` (16-bit `Word`s) and the callbacks' counter `adr`.
`val` is a `LongInt` (32 bit, `longInt`) up to /repo commit 5ab0322 and a `LargeInt` since (`cutVal`); `largeWord v` are the bits of its sign extension; a store into a `Word` keeps the low 16 of them
(`% 65536`); `WAsmCode[adr / 2] |= x` at odd `adr` hits the cell appended at `adr - 1`, i.e. the last one (`orLast`).

Not modelled: first-pass-unknown symbols (`mFirstPassUnknownOrQuestionable`), empty arguments, `define_untyped_label`
(labels), expression evaluation (arguments are literals).
-/
namespace AslModel.DataTIModel
open AslModel.PFile (Byte b)
open AslModel.Data AslModel.DataModel AslModel.DataX AslModel.DataXModel AslModel.DataW AslModel.DataWModel AslModel.DataTI

/-- (cells `[0, CodeLen)`, `adr`) -/
abbrev TISt := List Nat × Nat

/-- `MaxMultCharLen` handed to `pseudo_store` by `DecodeSTRING/RSTRING/BYTE/WORD/LONG` -/
def maxMultCharLen : TIOp → Nat
  | .string => 1 | .rstring => 1 | .byte => 1 | .word => 2 | .long => 4

/-- the callback; `none` = `WrError(ErrNum_OverRange); *ok = False` -/
def callback (o : TIOp) (st : TISt) (v : Int) : Option TISt :=
  let buf := st.1
  let adr := st.2
  match o with
  | .string =>                                           -- wr_code_byte_hilo
    if !rangeCheck v Generated.itInt8 then none
    else if adr % 2 = 1 then some (orLast buf (largeWord v &&& 0xff), adr + 1)      -- WAsmCode[adr / 2] |= val & 0xff
    else some (buf ++ [(largeWord v <<< 8) % 65536], adr + 1)                       -- WAsmCode[adr / 2] = val << 8
  | .rstring =>                                          -- wr_code_byte_lohi
    if !rangeCheck v Generated.itInt8 then none
    else if adr % 2 = 1 then some (orLast buf ((largeWord v <<< 8) % 65536), adr + 1)  -- WAsmCode[adr / 2] |= val << 8
    else some (buf ++ [largeWord v &&& 0xff], adr + 1)                              -- WAsmCode[adr / 2] = val & 0xff
  | .byte =>                                             -- wr_code_byte
    if !rangeCheck v Generated.itInt8 then none
    else some (buf ++ [largeWord v &&& 0xff], adr + 1)
  | .word =>                                             -- wr_code_word
    if !rangeCheck v Generated.itInt16 then none
    else some (buf ++ [largeWord v % 65536], adr + 1)
  | .long =>                                             -- wr_code_long: no range check; val >> 16 is arithmetic
    some (buf ++ [largeWord v &&& 0xffff, (largeWord v >>> 16) % 65536], adr + 2)

/-- `LongInt` is `Integ32`: a 64-bit `LargeInt` converted to 32 bits -/
def longInt (v : Int) : Int := (v + 2 ^ 31) % 2 ^ 32 - 2 ^ 31

/-- the value as the callback receives it.  `cut = true`: the callbacks' parameter is `LongInt val` (the code up to
/repo commit 5ab0322: `t.Contents.Int`, a 64-bit `LargeInt`, is converted to 32 bits — finding
`ti-pseudo-store-value-cut-to-32-bit-before-range-check`); `cut = false`: the parameter is `LargeInt val` (since that
repair).  Set by a self-calibrating probe of the check each run (`byte 100000001h`); the SPEC never looks at it. -/
def cutVal (cut : Bool) (v : Int) : Int := if cut then longInt v else v

/-- `callback(&ok, &adr, <value>, t.Flags)` for each value in turn; stops at the first refusal (`forallargs(pArg, ok)`) -/
def callbacks (cut : Bool) (o : TIOp) : TISt → List Int → Option TISt
  | st, [] => some st
  | st, v :: vs =>
    match callback o st (cutVal cut v) with
    | none => none
    | some st' => callbacks cut o st' vs

/-- what `EvalStrExpression` + the `switch (t.Typ)` hand to the callback for one argument; `none` = error -/
def argVals (o : TIOp) (t : List Byte) : WArg → Option (List Int)
  | .flt _ => none                                        -- ErrNum_StringOrIntButFloat
  | .int v => some [largeInt v]
  | .str cs => some (cs.map fun c => ((ctt t c).toNat : Int))
  | .chr cs =>
    match multiCharToInt true t (maxMultCharLen o) cs with
    | some v => some [v]
    | none => some (cs.map fun c => ((ctt t c).toNat : Int))

def tiArg (cut : Bool) (o : TIOp) (t : List Byte) (st : TISt) (a : WArg) : Option TISt :=
  match argVals o t a with
  | none => none
  | some vs => callbacks cut o st vs

/-- `forallargs (pArg, ok)` -/
def tiArgs (cut : Bool) (o : TIOp) (t : List Byte) : TISt → List WArg → Option TISt
  | st, [] => some st
  | st, a :: as =>
    match tiArg cut o t st a with
    | none => none
    | some st' => tiArgs cut o t st' as

/-- `pseudo_store`: the cells `[0, CodeLen)`; `none` = `CodeLen = 0` after an error message -/
def decodeTI (cut : Bool) (o : TIOp) (t : List Byte) (as : List WArg) : Option (List Nat) :=
  (tiArgs cut o t ([], 0) as).map (·.1)

def modelStmt (cut : Bool) (d : DCtx) : TIStmt → Option (List Nat)
  | .data as => decodeDATA d as
  | .ti o as => decodeTI cut o d.t as

/-- a slot: statements at consecutive addresses; (byte offset, byte) cells and the end address in units -/
def modelRunT (cut : Bool) (d : DCtx) (gran lg : Nat) (turn : Bool) : Nat → List TIStmt → Option (Cells × Nat)
  | pc, [] => some ([], pc)
  | pc, st :: rest =>
    match modelStmt cut d st with
    | none => none
    | some cells =>
      match modelRunT cut d gran lg turn (pc + cells.length) rest with
      | none => none
      | some (r, pcEnd) => some (cellsAt (pc * gran) (dataBytes (match st with | .data _ => d.mask | .ti _ _ => 0xffff) gran lg turn cells) ++ r, pcEnd)


/-! ## hypotheses of the whole-statement theorems (`Props/C09_TI.lean`), decidable: the driver evaluates them on every case -/

/-- what the callback receives of `x` does not change what the range rule says about it.
LONG (no range check in `wr_code_long`, before and after the repair): `x` is in the manual's range of a 32-bit element;
the others, `cut = true`: `x` survives the conversion to 32 bits, or what is left of it is refused as well (this excludes
exactly the inputs of the finding `ti-pseudo-store-value-cut-to-32-bit-before-range-check`); `cut = false`: no condition. -/
def okCut (cut : Bool) (o : TIOp) (x : Int) : Bool :=
  match o with
  | .long => inRange 32 x
  | _ => !cut || decide (longInt x = x) || !inRange o.bits (longInt x)

/-- arguments the whole-statement equality is stated for: integers the 64-bit evaluator can deliver and that
`okCut` accepts; single-quoted strings that are not empty; any double-quoted string; floats (refused by both) -/
def tiArgOK (cut : Bool) (o : TIOp) : WArg → Bool
  | .int v => decide (-(2 : Int) ^ 63 ≤ v ∧ v < (2 : Int) ^ 63) && okCut cut o v
  | .chr cs => decide (1 ≤ cs.length)
  | _ => true

/-- DATA arguments of the same theorems (`ArgOK 16 false` of `Lemmas/DataWord.lean`): integers the 64-bit evaluator can
deliver, single-quoted strings that are not empty -/
def dataArgOK16 : WArg → Bool
  | .int v => decide (-(2 : Int) ^ 63 ≤ v ∧ v < (2 : Int) ^ 63)
  | .chr cs => decide (1 ≤ cs.length)
  | _ => true

def stmtOKb (cut : Bool) : TIStmt → Bool
  | .data as => as.all dataArgOK16
  | .ti o as => as.all (tiArgOK cut o)

end AslModel.DataTIModel
