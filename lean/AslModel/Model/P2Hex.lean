import AslModel.Spec.PFile
import AslModel.Generated.Families
/-!
# MODEL of `p2hex.c` (ProcessFile line generation + main's terminators)

Transcription of the anchored C code, one Lean function per C block:

* `measure…`    – `MeasureFile` / the auto-range part of `main` (`StartAdr[]`, `StopAdr[]`)
* `selectGroups`– the per-record head of `ProcessFile`: format choice (`DestFormat` or `FindFamilyById`), `ValidSegs`,
                  clipping to the window, `-a`, `-R`
* `…Line` / `…Loop` – the data-line loop (`while (ErgLen > 0)`), specialised per format: prologue, data, epilogue with the
                  `Word ChkSum` accumulator exactly as written (the loops take fuel = `ErgLen`)
* `groupHead`, `groupTail`, `terminators` – group prologue/epilogue switch statements and the tail of `main`

C widths: `ErgStart`, `IntOffset` are `LongWord` (mod 2^32), `TransLen`, `ChkSum`, `HSeg`, `RecCnt` are `Word` (mod 2^16).
`Quirks` selects between what the unchanged tree does and the intended behaviour for the three suspected defects; the
harness determines the flags with a probe on the real binary, so the model follows the code before and after a repair.
* `p2hexFiles`  – `main` with several source arguments `name(offset)`: `MeasureFile` over every argument with the
                  offset added, `ProcessFile` per argument (`InpStart += Offset`; `ChkSum` is a local of `ProcessFile`,
                  the format flags, `MaxMoto`/`MaxIntel`, the MOS line count and the C block number are globals)
Outside the model: TI-DSK and Mico8 output, `-f` filter, wildcards in source arguments, `-d`, `-k`, overlap warnings.
Core-only imports.
-/
namespace AslModel.P2Hex
open AslModel.PFile (Byte b Rec Item)

abbrev Line := List Char

/-! ### printf helpers -/

def digit (n : Nat) : Char := if n < 10 then Char.ofNat (48 + n) else Char.ofNat (55 + n)
def digitL (n : Nat) : Char := if n < 10 then Char.ofNat (48 + n) else Char.ofNat (87 + n)

/-- `"%02X"` of a byte -/
def byte2 (x : Byte) : List Char := [digit (x.toNat / 16), digit (x.toNat % 16)]
def byte2L (x : Byte) : List Char := [digitL (x.toNat / 16), digitL (x.toNat % 16)]

def bytesHex : List Byte → List Char
  | [] => []
  | x :: xs => byte2 x ++ bytesHex xs

/-- `"%02X", Lo(n)` -/
def hex2 (n : Nat) : List Char := byte2 (b n)
/-- `"%04X", LoWord(n)` -/
def hex4 (n : Nat) : List Char := bytesHex [b (n / 256), b n]
/-- `"%08lX", LoDWord(n)` -/
def hex8 (n : Nat) : List Char := bytesHex [b (n / 16777216), b (n / 65536), b (n / 256), b n]

def sumN (bs : List Byte) : Nat := (bs.map (·.toNat)).sum

def two32 : Nat := 4294967296

/-! ### options -/

inductive Fmt where
  | moto | intel | intel16 | intel32 | mos | tek | dsk | atmel | mico8 | c
deriving DecidableEq, Repr, Inhabited

/-- `tHexFormat` value → format, through the generated enumerator values -/
def fmtOfNat (n : Nat) : Option Fmt :=
  if n = Generated.hexFormatMotoS then some .moto
  else if n = Generated.hexFormatIntel then some .intel
  else if n = Generated.hexFormatIntel16 then some .intel16
  else if n = Generated.hexFormatIntel32 then some .intel32
  else if n = Generated.hexFormatMOS then some .mos
  else if n = Generated.hexFormatTek then some .tek
  else if n = Generated.hexFormatTiDSK then some .dsk
  else if n = Generated.hexFormatAtmel then some .atmel
  else if n = Generated.hexFormatMico8 then some .mico8
  else if n = Generated.hexFormatC then some .c
  else none

structure Quirks where
  /-- MOS prologue does `ChkSum += …` (running sum over all previous lines) instead of `ChkSum = …` -/
  mosCarry : Bool := true
  /-- MOS last record is the constant `;0000040004` instead of the number of data records -/
  mosConst4 : Bool := true
  /-- Tektronix checksums are byte sums instead of sums of hex digit values -/
  tekByteSums : Bool := true
deriving Repr, DecidableEq

structure Opts where
  /-- `-F`: none = default by CPU family -/
  destFormat : Option Fmt := none
  startAdr : Nat := 0
  stopAdr : Nat := 0
  startAuto : Bool := true
  stopAuto : Bool := true
  /-- `-R`, already reduced mod 2^32 (only added to a `LongWord`) -/
  relocate : Nat := 0
  relAdr : Bool := false
  /-- `-l` argument as given (1..254) -/
  lineLenArg : Nat := 16
  entry : Option Nat := none
  intelMode : Nat := 0
  multiMode : Nat := 0
  minMoto : Nat := 1
  rec5 : Bool := true
  sepMoto : Bool := false
  avrLen : Nat := 3
  forceSeg : Nat := 0
  cformat : List Char := "dSEl".toList
  cname : List Char := "out".toList
  quirks : Quirks := {}
deriving Repr

/-- `CMD_LineLen`: `LineLen += LineLen & 1` -/
def Opts.lineLen (o : Opts) : Nat := o.lineLenArg + o.lineLenArg % 2

/-! ### MeasureFile / auto range -/

def measureValid (o : Opts) (seg : Nat) : Bool :=
  if o.forceSeg ≠ 0 then seg == o.forceSeg else seg == 1 || seg == 2

def recEnd (r : Rec) : Nat := (r.start + r.data.length / r.gran.toNat + two32 - 1) % two32

def segStart (o : Opts) (recs : List Rec) (seg : Nat) : Nat :=
  if o.startAuto then
    recs.foldl (fun m r => if measureValid o r.seg.toNat && r.seg.toNat == seg && r.start < m then r.start else m) 4294967295
  else if seg = 1 then o.startAdr else 0

def segStop (o : Opts) (recs : List Rec) (seg : Nat) : Nat :=
  if o.stopAuto then
    recs.foldl (fun m r => if measureValid o r.seg.toNat && r.seg.toNat == seg && recEnd r > m then recEnd r else m) 0
  else if seg = 1 then o.stopAdr else if seg = 2 then 0x1fff else 0x7fff

/-! ### record selection -/

structure Group where
  fmt : Fmt
  seg : Nat
  gran : Nat
  /-- `ErgStart` after `-a` and `-R` -/
  ergStart : Nat
  /-- `ErgStop` (window coordinates, *before* `-a`/`-R`): used for the S-record type and the MaxAdr warning -/
  ergStop : Nat
  /-- the `ErgLen` bytes of the window -/
  data : List Byte
deriving Repr

inductive Err where
  | autoFailed | unknownFamily | unsupported
deriving Repr, DecidableEq

def maxAdr (o : Opts) : Fmt → Nat
  | .moto | .intel32 | .c | .mico8 => 0xffffffff
  | .intel16 => 0xffff0 + 0xffff
  | .atmel => (1 <<< (o.avrLen <<< 3)) - 1
  | _ => 0xffff

def actFormat (o : Opts) (cpu : Nat) : Except Err Fmt :=
  match o.destFormat with
  | some f => .ok f
  | none =>
    match Generated.familyHexFormat cpu with
    | none => .error .unknownFamily
    | some n => match fmtOfNat n with
      | some f => .ok f
      | none => .error .unknownFamily

/-- head of the `FileHeaderDataRec` branch of `ProcessFile` for one record; `none` = record not selected -/
def selectRec (o : Opts) (startOf stopOf : Nat → Nat) (r : Rec) : Except Err (Option (Group × Bool)) := do
  let f ← actFormat o r.cpu.toNat
  let seg := r.seg.toNat
  let gran := r.gran.toNat
  let valid := if o.forceSeg ≠ 0 then seg == o.forceSeg else (seg == 1 || (f == .dsk && seg == 2))
  if !valid then return none
  let inpStart := r.start
  let ergStart := max (startOf seg) inpStart
  let ergStop := min (stopOf seg) (recEnd r)
  if ergStop < ergStart then return none
  let ergLen := ((ergStop + 1 - ergStart) * gran) % 65536
  let data := (r.data.drop ((ergStart - inpStart) * gran)).take ergLen
  let s1 := if o.relAdr then (ergStart + two32 - startOf seg) % two32 else ergStart
  let s2 := (s1 + o.relocate) % two32
  return some (⟨f, seg, gran, s2, ergStop, data⟩, decide (ergStop > maxAdr o f))

/-! ### data bytes of a line: `-m` -/

def swap2 : List Byte → List Byte
  | x :: y :: rest => y :: x :: swap2 rest
  | l => l

def swap4 : List Byte → List Byte
  | x :: y :: z :: w :: rest => w :: z :: y :: x :: swap4 rest
  | l => l

def thin (gran k : Nat) : Nat → List Byte → List Byte
  | _, [] => []
  | z, x :: xs => if z % gran = k then x :: thin gran k (z + 1) xs else thin gran k (z + 1) xs

/-- the bytes the data loop prints for a buffer of `TransLen` bytes -/
def outBytes (mm gran : Nat) (buf : List Byte) : List Byte :=
  let buf1 := if mm = 1 then (if gran = 4 then swap4 buf else if gran = 2 then swap2 buf else buf) else buf
  if mm < 2 then buf1 else thin gran (mm - 2) 0 buf1

/-- `Lo(x)` for a `Word` -/
def lo (x : Nat) : Nat := x % 256

/-! ### Motorola S -/

def motoAddrBytes (t a : Nat) : List Byte :=
  (if t ≥ 2 then [b (a / 16777216)] else []) ++ (if t ≥ 1 then [b (a / 65536)] else []) ++ [b (a / 256), b a]

/-- one data line; `t` = `MotRecType` (0,1,2), `a` = `ErgStart`, `buf` = the `TransLen` bytes read -/
def motoLine (mm gran t a : Nat) (buf : List Byte) : Line :=
  let hdr := b (buf.length + 3 + t) :: motoAddrBytes t a
  let out := outBytes mm gran buf
  let chk := ((buf.length + 3 + t) + sumN (motoAddrBytes t a) + sumN out) % 65536
  'S' :: Char.ofNat (49 + t) :: (bytesHex hdr ++ bytesHex out ++ hex2 (lo (chk ^^^ 0xff)))

def motoLoop (mm gran t ll : Nat) : Nat → Nat → List Byte → List Line
  | 0, _, _ => []
  | f + 1, a, data =>
    if data = [] then [] else
    let n := min ll data.length
    motoLine mm gran t a (data.take n) :: motoLoop mm gran t ll f ((a + n / gran) % two32) (data.drop n)

def motoRecType (minMoto ergStop : Nat) : Nat :=
  let t := if ergStop / 16777216 ≠ 0 then 2 else if ergStop / 65536 ≠ 0 then 1 else 0
  if t < minMoto - 1 then minMoto - 1 else t

/-- `RecCnt` -/
def recCnt (ergLen ll : Nat) : Nat :=
  (if ergLen % ll ≠ 0 then ergLen / ll + 1 else ergLen / ll) % 65536

def s5Line (rc : Nat) : Line :=
  let chk := lo rc + lo (rc / 256) + 3
  "S503".toList ++ hex4 rc ++ hex2 (lo (chk ^^^ 0xff))

def s0Line : Line := "S0030000FC".toList

def motoSepTerm (t : Nat) : Line :=
  'S' :: Char.ofNat (57 - t) :: (hex2 (3 + t) ++ (List.replicate (2 + t) (b 0)).flatMap byte2 ++ hex2 (0xff - 3 - t))

/-- `main`: S7/S8/S9 with the entry address -/
def motoTerm (maxMoto entry : Nat) : Line :=
  let ab := motoAddrBytes maxMoto entry
  let chk := 3 + maxMoto + sumN ab
  'S' :: Char.ofNat (57 - maxMoto) :: (hex2 (3 + maxMoto) ++ bytesHex ab ++ hex2 (0xff - chk % 256))

/-! ### Intel -/

def intelLine (mm gran intOffset a : Nat) (buf : List Byte) : Line :=
  let wrLen := (if mm < 2 then buf.length else buf.length / gran) % 65536
  let wrStart := (((a + two32 - intOffset) % two32) * (if mm < 2 then gran else 1)) % two32
  let out := outBytes mm gran buf
  let chk := (lo wrLen + lo (wrStart / 256) + lo wrStart + sumN out) % 65536
  ':' :: (bytesHex [b wrLen, b (wrStart / 256), b wrStart, b 0] ++ bytesHex out ++ hex2 (lo (1 + (chk ^^^ 0xff))))

/-- `:02000002ssss` / `:02000004ssss`; `k` = 2 or 4 -/
def intelExtLine (k hseg : Nat) : Line :=
  let chk := k + 2 + lo hseg + lo (hseg / 256)
  ":020000".toList ++ hex2 k ++ hex4 hseg ++ hex2 (lo (0x100 + 0x10000 - chk))

def intelLoop (mm gran ll : Nat) (is32 : Bool) : Nat → Nat → List Byte → Nat → Bool → List Line
  | 0, _, _, _, _ => []
  | f + 1, a, data, intOffset, firstBank =>
    if data = [] then [] else
    let bank := is32 && firstBank
    let intOffset' := if bank then (intOffset + 0x10000 / gran) % two32 else intOffset
    let pre := if bank then [intelExtLine 4 ((intOffset' / 65536) % 65536)] else []
    let fb1 := if bank then false else firstBank
    let n0 := min ll data.length
    let split := is32 && decide (a % 65536 + n0 / gran ≥ 65536)
    let n := if split then (gran * (65536 - a % 65536)) % 65536 else n0
    let fb2 := if split then true else fb1
    pre ++ intelLine mm gran intOffset' a (data.take n) ::
      intelLoop mm gran ll is32 f ((a + n / gran) % two32) (data.drop n) intOffset' fb2

/-- group prologue of Intel16 / Intel32: (extended address line, IntOffset) -/
def intel16Head (gran a : Nat) : Line × Nat :=
  let io := (a * gran) % two32
  let io := io - io % 16
  (intelExtLine 2 ((io / 16) % 65536), io / gran)

def intel32Head (gran a : Nat) : Line × Nat :=
  let io := (a * gran) % two32
  let io := io - io % 65536
  (intelExtLine 4 ((io / 65536) % 65536), io / gran)

/-- tail of `main` for Intel output -/
def intelTerm (intelMode maxIntel : Nat) (entry : Option Nat) : List Line :=
  let (pre, endRec) :=
    match entry with
    | none => ([], 0)
    | some e =>
      if maxIntel = 2 then
        let chk := 4 + 5 + lo (e / 16777216) + lo (e / 65536) + lo (e / 256) + lo e
        ([":04000005".toList ++ hex8 e ++ hex2 (lo (0x100 + 0x10000 - chk % 65536))], 0)
      else if maxIntel = 1 then
        let seg := (e / 16) % 65536
        let ofs := e % 16
        let chk := 4 + 3 + lo seg + lo (seg / 256) + ofs
        ([":04000003".toList ++ hex4 seg ++ hex4 ofs ++ hex2 (lo (0x100 + 0x10000 - chk % 65536))], 0)
      else ([], e % 65536)
  let last :=
    if intelMode = 0 then
      let chk := 1 + lo (endRec / 256) + lo endRec
      ":00".toList ++ hex4 endRec ++ "01".toList ++ hex2 (lo (0x100 + 0x10000 - chk))
    else if intelMode = 1 then ":00000001".toList
    else ":0000000000".toList
  pre ++ [last]

/-! ### MOS -/

/-- returns the line and the value of `ChkSum` after it -/
def mosLine (q : Quirks) (mm gran chkIn a : Nat) (buf : List Byte) : Line × Nat :=
  let out := outBytes mm gran buf
  let chk0 := if q.mosCarry then chkIn else 0
  let chk := (chk0 + (buf.length + lo a + lo (a / 256)) + sumN out) % 65536
  (';' :: (bytesHex [b buf.length, b (a / 256), b a] ++ bytesHex out ++ hex4 chk), chk)

def mosLoop (q : Quirks) (mm gran ll : Nat) : Nat → Nat → List Byte → Nat → List Line × Nat
  | 0, _, _, chk => ([], chk)
  | f + 1, a, data, chk =>
    if data = [] then ([], chk) else
    let n := min ll data.length
    let (l, chk1) := mosLine q mm gran chk a (data.take n)
    let (ls, chk2) := mosLoop q mm gran ll f ((a + n / gran) % two32) (data.drop n) chk1
    (l :: ls, chk2)

def mosTerm (q : Quirks) (nLines : Nat) : Line :=
  if q.mosConst4 then ";0000040004".toList
  else ";00".toList ++ hex4 nLines ++ hex4 (lo nLines + lo (nLines / 256))

/-! ### Tektronix -/

def nibbles (bs : List Byte) : Nat := (bs.map (fun x => x.toNat / 16 + x.toNat % 16)).sum

def tekLine (q : Quirks) (mm gran a : Nat) (buf : List Byte) : Line :=
  let out := outBytes mm gran buf
  let hdr := [b (a / 256), b a, b buf.length]
  let c1 := if q.tekByteSums then lo (lo a + lo (a / 256) + buf.length) else lo (nibbles hdr)
  let c2 := if q.tekByteSums then lo (sumN out) else lo (nibbles out)
  '/' :: (bytesHex hdr ++ hex2 c1 ++ bytesHex out ++ hex2 c2)

def tekLoop (q : Quirks) (mm gran ll : Nat) : Nat → Nat → List Byte → List Line
  | 0, _, _ => []
  | f + 1, a, data =>
    if data = [] then [] else
    let n := min ll data.length
    tekLine q mm gran a (data.take n) :: tekLoop q mm gran ll f ((a + n / gran) % two32) (data.drop n)

/-! ### Atmel generic -/

def atmelAddr (avrLen a : Nat) : List Char :=
  (if avrLen ≥ 3 then hex2 (a / 65536) else []) ++ hex2 (a / 256) ++ hex2 a

def atmelLine (avrLen a : Nat) (buf : List Byte) : Line :=
  atmelAddr avrLen a ++ [':'] ++
    (match buf with
     | x :: y :: _ => bytesHex [y, x]
     | [x] => bytesHex [b 0, x]
     | [] => [])

def atmelLoop (avrLen gran ll : Nat) : Nat → Nat → List Byte → List Line
  | 0, _, _ => []
  | f + 1, a, data =>
    if data = [] then [] else
    let n := min 2 (min ll data.length)
    atmelLine avrLen a (data.take n) :: atmelLoop avrLen gran ll f ((a + n / gran) % two32) (data.drop n)

/-! ### C array -/

def cItem (lower : Bool) (x : Byte) (comma : Bool) : List Char :=
  "0x".toList ++ (if lower then byte2L x else byte2 x) ++ (if comma then [','] else [])

/-- one data line: `z` runs over the buffer, the comma test is `ErgLen - z > 1` with the group's remaining `ErgLen` -/
def cLineItems (lower : Bool) (mm gran ergLen : Nat) : Nat → List Byte → List Char
  | _, [] => []
  | z, x :: xs =>
    (if mm < 2 ∨ z % gran = mm - 2 then cItem lower x (decide (ergLen - z > 1)) else []) ++ cLineItems lower mm gran ergLen (z + 1) xs

def cLoop (lower : Bool) (mm gran ll : Nat) : Nat → List Byte → List Line
  | 0, _ => []
  | f + 1, data =>
    if data = [] then [] else
    let n := min ll data.length
    let buf := data.take n
    let buf1 := if mm = 1 then (if gran = 4 then swap4 buf else if gran = 2 then swap2 buf else buf) else buf
    (' ' :: ' ' :: cLineItems lower mm gran data.length 0 buf1) :: cLoop lower mm gran ll f (data.drop n)

def cBlockName (num : Nat) : List Char := if num > 0 then ('_' :: (toString (num + 1)).toList) else []

def toUpperC (c : Char) : Char := if 'a' ≤ c ∧ c ≤ 'z' then Char.ofNat (c.toNat - 32) else c
def toLowerC (c : Char) : Char := if 'A' ≤ c ∧ c ≤ 'Z' then Char.ofNat (c.toNat + 32) else c

/-- `PrCData` -/
def prCData (o : Opts) (ident : Char) (name : String) (blk : List Char) (v : Nat) : List Line :=
  let sfx := if o.cformat.contains (toUpperC ident) then some "ul" else if o.cformat.contains (toLowerC ident) then some "u" else none
  match sfx with
  | none => []
  | some s => ["#define ".toList ++ o.cname ++ blk ++ ['_'] ++ name.toList ++ " 0x".toList ++ hex8 v ++ s.toList]

def cHasData (o : Opts) : Bool := o.cformat.contains 'd' || o.cformat.contains 'D'

def cHead (o : Opts) (num a ergLen : Nat) : List Line :=
  let blk := cBlockName num
  prCData o 's' "start" blk a ++ prCData o 'l' "len" blk ergLen ++ prCData o 'e' "end" blk ((a + ergLen + two32 - 1) % two32) ++
  (if cHasData o then ["static const unsigned char ".toList ++ o.cname ++ blk ++ "_data[] =".toList, "{".toList] else [])

def cFieldDecl (c : Char) : List Line :=
  if c = 'd' ∨ c = 'D' then ["  const char *data;".toList]
  else if c = 's' then ["  unsigned start;".toList] else if c = 'S' then ["  unsigned long start;".toList]
  else if c = 'l' then ["  unsigned len;".toList] else if c = 'L' then ["  unsigned long len;".toList]
  else if c = 'e' then ["  unsigned end;".toList] else if c = 'E' then ["  unsigned long end;".toList]
  else []

def cFieldRef (o : Opts) (blk : List Char) (c : Char) : List Char :=
  let u := toUpperC c
  if u = 'D' then o.cname ++ blk ++ "_data".toList
  else if u = 'S' then o.cname ++ blk ++ "_start".toList
  else if u = 'L' then o.cname ++ blk ++ "_len".toList
  else if u = 'E' then o.cname ++ blk ++ "_end".toList
  else []

def sepBy (first rest : List Char) : Nat → List (List Char) → List Char
  | _, [] => []
  | i, x :: xs => (if i = 0 then first else rest) ++ x ++ sepBy first rest (i + 1) xs

def cFoot (o : Opts) (nBlocks : Nat) (entry : Option Nat) : List Line :=
  ["typedef struct".toList, "{".toList] ++ o.cformat.flatMap cFieldDecl ++
  [("} ".toList ++ o.cname ++ "_blk;".toList),
   ("static const ".toList ++ o.cname ++ "_blk ".toList ++ o.cname ++ "_blks[] =".toList), "{".toList] ++
  (List.range nBlocks).map (fun i =>
     "  {".toList ++ sepBy " ".toList ", ".toList 0 (o.cformat.map (cFieldRef o (cBlockName i))) ++ " },".toList) ++
  ["  {".toList ++ sepBy " 0".toList ", 0".toList 0 (o.cformat.map (fun _ => [])) ++ " }".toList, "};".toList, []] ++
  (match entry with
   | some e => ["#define ".toList ++ o.cname ++ "_entry 0x".toList ++ hex8 e ++ "ul".toList, []]
   | none => []) ++
  ["#endif /* _".toList ++ o.cname ++ "_H */".toList]

def cFileHead (o : Opts) : List Line :=
  ["#ifndef _".toList ++ o.cname ++ "_H".toList, "#define _".toList ++ o.cname ++ "_H".toList, []]

/-! ### ProcessFile state and the per-group switch statements -/

structure St where
  motoOcc : Bool := false
  intelOcc : Bool := false
  mosOcc : Bool := false
  maxMoto : Nat := 0
  maxIntel : Nat := 0
  /-- `Word ChkSum` local to `ProcessFile`: survives from line to line and from group to group -/
  chk : Nat := 0
  nCBlocks : Nat := 0
  /-- number of MOS data lines written (only used when the last record is not the constant) -/
  mosLines : Nat := 0
  overflowWarnings : Nat := 0
deriving Repr

def emitGroup (o : Opts) (st : St) (g : Group) : Except Err (St × List Line) :=
  let ll := o.lineLen
  let mm := o.multiMode
  let fuel := g.data.length
  match g.fmt with
  | .moto =>
    let t := motoRecType o.minMoto g.ergStop
    -- "the count byte also covers address and checksum: no more than 252/251/250 data bytes fit into an S1/S2/S3 record"
    -- (repair 55ce03a; before it the count byte was printed truncated)
    let cut := decide (ll + 3 + t > 255)
    let ll := if cut then (252 - t) - (252 - t) % g.gran else ll
    let rc := if cut then (g.data.length + ll - 1) / ll else recCnt g.data.length ll
    let hd := (if !st.motoOcc || o.sepMoto then [s0Line] else []) ++
              (if o.rec5 then [s5Line rc] else [])
    let body := motoLoop mm g.gran t ll fuel g.ergStart g.data
    let tl := if o.sepMoto then [motoSepTerm t] else []
    -- the Rec5 line leaves Lo(RecCnt)+Hi(RecCnt)+3 in ChkSum, every data line overwrites it
    .ok ({ st with motoOcc := true, maxMoto := max st.maxMoto t }, hd ++ body ++ tl)
  | .intel =>
    .ok ({ st with intelOcc := true }, intelLoop mm g.gran ll false fuel g.ergStart g.data 0 false)
  | .intel16 =>
    let (l, io) := intel16Head g.gran g.ergStart
    .ok ({ st with intelOcc := true, maxIntel := max st.maxIntel 1 }, l :: intelLoop mm g.gran ll false fuel g.ergStart g.data io false)
  | .intel32 =>
    let (l, io) := intel32Head g.gran g.ergStart
    .ok ({ st with intelOcc := true, maxIntel := max st.maxIntel 2 }, l :: intelLoop mm g.gran ll true fuel g.ergStart g.data io false)
  | .mos =>
    let (ls, chk) := mosLoop o.quirks mm g.gran ll fuel g.ergStart g.data st.chk
    .ok ({ st with mosOcc := true, chk := chk, mosLines := st.mosLines + ls.length }, ls)
  | .tek => .ok (st, tekLoop o.quirks mm g.gran ll fuel g.ergStart g.data)
  | .atmel => .ok (st, atmelLoop o.avrLen g.gran ll fuel g.ergStart g.data)
  | .c =>
    let body := if cHasData o then cLoop (o.cformat.contains 'd') mm g.gran ll fuel g.data ++ ["};".toList, []] else []
    .ok ({ st with nCBlocks := if cHasData o then st.nCBlocks + 1 else st.nCBlocks },
         cHead o st.nCBlocks g.ergStart g.data.length ++ body)
  | .dsk | .mico8 => .error .unsupported

def emitGroups (o : Opts) : St → List Group → Except Err (St × List Line)
  | st, [] => .ok (st, [])
  | st, g :: gs => do
    let (st1, l1) ← emitGroup o st g
    let (st2, l2) ← emitGroups o st1 gs
    return (st2, l1 ++ l2)

/-- tail of `main` -/
def terminators (o : Opts) (st : St) (entry : Option Nat) : List Line :=
  (if st.motoOcc && !o.sepMoto then [motoTerm st.maxMoto (entry.getD 0)] else []) ++
  (if st.intelOcc then intelTerm o.intelMode st.maxIntel entry else []) ++
  (if st.mosOcc then [mosTerm o.quirks st.mosLines] else []) ++
  (if o.destFormat = some .c then cFoot o st.nCBlocks entry else [])

structure Output where
  lines : List Line
  groups : List Group
  entry : Option Nat
  overflow : Nat
deriving Repr

def firstEntry : List Item → Option Nat
  | [] => none
  | .entry a :: _ => some a
  | .data _ :: rest => firstEntry rest

def selectGroups (o : Opts) (startOf stopOf : Nat → Nat) : List Rec → Except Err (List Group × Nat)
  | [] => .ok ([], 0)
  | r :: rs => do
    let g ← selectRec o startOf stopOf r
    let (gs, w) ← selectGroups o startOf stopOf rs
    match g with
    | none => return (gs, w)
    | some (g, ov) => return (g :: gs, if ov then w + 1 else w)

/-- the whole program for one source file -/
def p2hex (o : Opts) (items : List Item) : Except Err Output := do
  let recs := AslModel.PFile.dataRecs items
  let startOf := segStart o recs
  let stopOf := segStop o recs
  let chkSeg := if o.forceSeg ≠ 0 then o.forceSeg else 1
  if (o.startAuto || o.stopAuto) && decide (startOf chkSeg > stopOf chkSeg) then throw .autoFailed
  let entry := match o.entry with
    | some e => some e
    | none => firstEntry items
  let (groups, ov) ← selectGroups o startOf stopOf recs
  let (st, body) ← emitGroups o {} groups
  let head := if o.destFormat = some .c then cFileHead o else []
  return ⟨head ++ body ++ terminators o st entry, groups, entry, ov⟩

/-! ### several source arguments, each with an address offset `name(offset)` -/

/-- one source argument of the command line: the code file's items and the value `RemoveOffset` returns for the
`(offset)` suffix, as the `LongWord` it is stored in (0 without suffix; a negative value is its two's complement) -/
structure Src where
  items : List Item
  offset : Nat := 0
deriving Repr

/-- `Adr += Offset` (MeasureFile) / `InpStart += Offset` (ProcessFile), both `LongWord` -/
def shiftRec (off : Nat) (r : Rec) : Rec := { r with start := (r.start + off) % two32 }

/-- the data records of one argument as both passes see them -/
def srcRecs (s : Src) : List Rec := (AslModel.PFile.dataRecs s.items).map (shiftRec s.offset)

/-- everything `MeasureFile` sees: the arguments in command line order -/
def allRecs : List Src → List Rec
  | [] => []
  | s :: ss => srcRecs s ++ allRecs ss

def allItems : List Src → List Item
  | [] => []
  | s :: ss => s.items ++ allItems ss

/-- the `ProcessGroup(…, ProcessFile)` loop of `main`: per argument one `ProcessFile` call whose local `ChkSum` starts at 0 -/
def processFiles (o : Opts) (startOf stopOf : Nat → Nat) : St → List Src → Except Err (St × List Line × List Group × Nat)
  | st, [] => .ok (st, [], [], 0)
  | st, s :: ss => do
    let (groups, ov) ← selectGroups o startOf stopOf (srcRecs s)
    let (st1, l1) ← emitGroups o { st with chk := 0 } groups
    let (st2, l2, g2, ov2) ← processFiles o startOf stopOf st1 ss
    return (st2, l1 ++ l2, groups ++ g2, ov + ov2)

/-- the whole program for the source arguments `srcs` (command line order) -/
def p2hexFiles (o : Opts) (srcs : List Src) : Except Err Output := do
  let recs := allRecs srcs
  let startOf := segStart o recs
  let stopOf := segStop o recs
  let chkSeg := if o.forceSeg ≠ 0 then o.forceSeg else 1
  if (o.startAuto || o.stopAuto) && decide (startOf chkSeg > stopOf chkSeg) then throw .autoFailed
  -- `EntryAdrPresent` is global: `-e`, else the first entry record met in any argument; it is not moved by the offset
  let entry := match o.entry with
    | some e => some e
    | none => firstEntry (allItems srcs)
  let (st, body, groups, ov) ← processFiles o startOf stopOf {} srcs
  let head := if o.destFormat = some .c then cFileHead o else []
  return ⟨head ++ body ++ terminators o st entry, groups, entry, ov⟩

def unlines : List Line → List Char
  | [] => []
  | l :: ls => l ++ '\n' :: unlines ls

end AslModel.P2Hex
