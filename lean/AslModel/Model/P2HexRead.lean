import AslModel.Model.PBind
/-!
# MODEL of the record loop of `p2hex.c ProcessFile` / `MeasureFile` as far as it *reads* the code file

`Model/P2Hex.lean` works on the item list of a source file.  This file is the step before it: the bytes of the code file
are taken apart with the MODEL of `toolutils.c ReadRecordHeader` (`Tools.readRecordHeader`, which covers the one-byte legacy
record header: family = header byte, segment CODE, granularity `Granularity(family, CODE)`) exactly as the `do … while
(InpHeader != FileHeaderEnd)` loop does: `FileHeaderStartAdr` → `Read4`; `FileHeaderDataRec` → `Read4` start, `Read2` length,
the payload; every other kind → `SkipRecord`.  `none` = a read hits the end of the file (the tools then stop with a format
error; not a subject of C06).
-/
namespace AslModel.P2Hex
open AslModel.PFile AslModel.Tools

/-- the record loop; `prev` = the variables `InpHeader, InpCPU, InpSegment, InpGran` of the previous round -/
def readLoop : Nat → Hdr → List Byte → Option (List Item)
  | 0, _, _ => none
  | fuel + 1, prev, rest =>
    match readRecordHeader prev rest with
    | none => none
    | some (h, rest1) =>
      if h.hdr.toNat = hStart then
        match rest1 with
        | a0 :: a1 :: a2 :: a3 :: rest2 => (readLoop fuel h rest2).map (List.cons (.entry (rd32 a0 a1 a2 a3)))
        | _ => none
      else if h.hdr.toNat = hData then
        match rest1 with
        | a0 :: a1 :: a2 :: a3 :: l0 :: l1 :: rest2 =>
          if rest2.length < rd16 l0 l1 then none
          else (readLoop fuel h (rest2.drop (rd16 l0 l1))).map
            (List.cons (.data ⟨h.cpu, h.seg, h.gran, rd32 a0 a1 a2 a3, rest2.take (rd16 l0 l1)⟩))
        | _ => none
      else
        match skipRecord h.hdr rest1 with
        | none => none
        | some rest2 => if h.hdr.toNat = hEnd then some [] else readLoop fuel h rest2

/-- magic check, then the record loop -/
def readFileM (src : List Byte) : Option (List Item) :=
  match src with
  | m0 :: m1 :: rest => if rd16 m0 m1 ≠ Generated.fileMagic then none else readLoop (src.length + 1) default rest
  | _ => none

end AslModel.P2Hex
