import AslModel.Model.SymLoc
import AslModel.Spec.LocScope
/-! Observation of a run of `Model/SymLoc.lean` (no new behaviour: every state below is a state of `execItem(s)` /
`loop`): per statement the key under which a label is entered into the local table (`EnterLocSymbol`) and the key under
which `FindLocNode` finds a reference - the two facts the SPEC `Spec/LocScope.lean` speaks about - and the list of the
handles that were opened for iterations, in order.  `Props/C13_Loc.lean` proves that the observation says what the model
does (`C13_loc_obs_label`, `C13_loc_obs_ref`) and that it is the SPEC's expansion (`C13_loc_refines`).

A program with everything both sides need to know is a `PItems` tree (`isMacro` is only read by the SPEC, `wh` only by the
MODEL); `toModel` / `toSpec` are the two readings (`toSpec false`: macro expansions read as loops of one iteration). -/
namespace AslModel.SymLoc
open AslModel.Generated.Sym
open AslModel.Sym

mutual
inductive PItem where
  | op (o : Op)
  | con (isMacro wh glob : Bool) (n : Nat) (body : PItems)
inductive PItems where
  | nil
  | cons (i : PItem) (r : PItems)
end

mutual
def PItem.toModel : PItem → Item
  | .op o => .op o
  | .con _ wh glob n body => .con wh glob n body.toModel
def PItems.toModel : PItems → Items
  | .nil => .nil
  | .cons i r => .cons i.toModel r.toModel
end

/-- the name without `[section]`: a qualified name is a section's symbol, the label-space rules do not speak about it -/
def unqual (n : Name) : Option Name := if n.getLast? = some 93 then none else some n

/-- a statement of the model as the SPEC sees it -/
def toStmt (o : Op) : LocScope.Stmt Op :=
  match o with
  | .label n => { label := unqual n, ref := none, payload := o }
  | .labelOnly n => { label := unqual n, ref := none, payload := o }
  | .labelWord n r => { label := unqual n, ref := unqual r, payload := o }
  | .use r => { label := none, ref := unqual r, payload := o }
  | _ => { label := none, ref := none, payload := o }

mutual
def PItem.toSpec (keepMacro : Bool) : PItem → LocScope.Item Op
  | .op o => .stmt (toStmt o)
  | .con m _ glob n body => .con (keepMacro && m) glob n (body.toSpec keepMacro)
def PItems.toSpec (keepMacro : Bool) : PItems → LocScope.Items Op
  | .nil => .nil
  | .cons i r => .cons (i.toSpec keepMacro) (r.toSpec keepMacro)
end

/-! ### what a statement does with the local table -/

/-- the key `defineLabelL st n _` enters the label under in the local table; `none`: the label goes to the global table
(no space open, or `name[section]`) -/
def defKey (st : LSt) (n : Name) : Option Key :=
  match getSymSection st.g n with
  | .plain m => if st.mom = -1 then none else some (fold st.g.cs (chkTmpDef st.g m .label).2, st.mom)
  | _ => none

/-- the name `FindLocNode` searches for the reference `ref` of `lookupL` (after `ChkTmp2`, `ChkTmp1`, `ChkTmp3`, folding) -/
def refName (st : LSt) (ref : Name) : Name :=
  let n1 := (chkTmp2Ref st.g ref).getD ref
  let n2 := (chkTmp1 st.g n1).getD n1
  fold st.g.cs (chkTmp3Ref st.g n2)

/-- `walkConts`, answering with the handle instead of the node -/
def walkSpace (ltab : Tab) (name : Name) : List Int → Option Int
  | [] => none
  | c :: r =>
    if c = -1 then none
    else match tfind ltab (name, c) with
      | some _ => some c
      | none => walkSpace ltab name r

/-- the handle of the space in which `lookupL st ref` finds the reference; `none`: `FindLocNode` finds nothing and the
reference is looked up by `FindNode` (sections, global) -/
def refSpace (st : LSt) (ref : Name) : Option Int :=
  if st.mom = -1 then none
  else match tfind st.ltab (refName st ref, st.mom) with
    | some _ => some st.mom
    | none => walkSpace st.ltab (refName st ref) st.conts

def refKey (st : LSt) (ref : Name) : Option Key := (refSpace st ref).map (fun h => (refName st ref, h))

/-- one executed statement: the local key its label was entered under, the local key its reference was found under -/
structure Ev where
  op : Op
  dkey : Option Key := none
  rkey : Option Key := none

/-- the observation of `stepL st0 o` (same intermediate states) -/
def evOf (st0 : LSt) (o : Op) : Ev :=
  match o with
  | .label n => { op := o, dkey := defKey (bumpLine st0) n }
  | .labelOnly n => { op := o, dkey := defKey (bumpLine st0) n }
  | .labelWord n r =>
    let st := bumpLine st0
    { op := o, dkey := defKey st n, rkey := refKey (defineLabelL st n st.g.pc) r }
  | .use r => { op := o, rkey := refKey (bumpLine st0) r }
  | _ => { op := o }

/-- the iterations of `loop`, observed by `t`: the states are those of `loop` -/
def obsLoop {β : Type} (glob : Bool) (body : LSt → LSt) (t : LSt → List β) (hd : LSt → List β) : Nat → Bool → LSt → List β
  | 0, _, _ => []
  | n + 1, first, st =>
    let s := iterOpen glob first st
    hd s ++ t s ++ obsLoop glob body t hd n false (body s)

mutual
def traceItem : Item → LSt → List Ev
  | .op o, st => [evOf st o]
  | .con _ glob n body, st => obsLoop glob (execItems body) (traceItems body) (fun _ => []) n true st
def traceItems : Items → LSt → List Ev
  | .nil, _ => []
  | .cons i r, st => traceItem i st ++ traceItems r (execItem i st)
end

mutual
/-- the handles `GetLocHandle` gave to iterations (one per iteration of a construct without GLOBALSYMBOLS), in order; the
space WHILE opens for its final condition is not among them: no statement runs in it -/
def openedItem : Item → LSt → List Int
  | .op _, _ => []
  | .con _ glob n body, st =>
    obsLoop glob (execItems body) (openedItems body) (fun s => if glob then [] else [s.mom]) n true st
def openedItems : Items → LSt → List Int
  | .nil, _ => []
  | .cons i r, st => openedItem i st ++ openedItems r (execItem i st)
end

/-- the number of a label space: its position among the spaces opened for iterations -/
def spaceNo (opened : List Int) (h : Int) : Nat := opened.idxOf h

/-- the statement with the names the run gave it, label spaces written as the SPEC writes them (`name##number`);
`no` = the numbering of the handles -/
def rname (no : Int → Nat) (k : Option Key) (dflt : Option Name) : Option Name :=
  match k with
  | some (nm, h) => some (LocScope.uniqName nm (no h))
  | none => dflt

def renderWith (no : Int → Nat) (e : Ev) : LocScope.Stmt Op :=
  { toStmt e.op with
    label := rname no e.dkey (toStmt e.op).label
    ref := rname no e.rkey (toStmt e.op).ref }

def render (opened : List Int) (e : Ev) : LocScope.Stmt Op := renderWith (spaceNo opened) e

/-! ### the hypotheses of the refinement theorem, as decidable predicates -/

/-- a name the temporary-symbol machinery (`ChkTmp1/2/3`) leaves alone -/
def isTmpName (n : Name) : Bool :=
  match n with
  | 36 :: 36 :: _ => true
  | 46 :: _ => true
  | 45 :: _ => true
  | 43 :: _ => true
  | 47 :: _ => true
  | _ => false

/-- the names of labels and references of a statement are not temporary-symbol forms -/
def opOrdinary : Op → Bool
  | .label n => !isTmpName n
  | .labelOnly n => !isTmpName n
  | .labelWord n r => !isTmpName n && !isTmpName r
  | .use r => !isTmpName r
  | _ => true

mutual
/-- inside constructs (`inside = true`) labels and references are ordinary names (temporary symbols in bodies are outside
the SPEC of the label spaces) -/
def PItem.ordinary (inside : Bool) : PItem → Bool
  | .op o => !inside || opOrdinary o
  | .con _ _ _ _ body => body.ordinary true
def PItems.ordinary (inside : Bool) : PItems → Bool
  | .nil => true
  | .cons i r => i.ordinary inside && r.ordinary inside
end

/-- `#` does not occur in the name of a label (it cannot occur in a symbol name; the SPEC writes `name##number`) -/
def opNoHash : Op → Bool
  | .label n => !n.contains 35
  | .labelOnly n => !n.contains 35
  | .labelWord n _ => !n.contains 35
  | _ => true

mutual
def PItem.noHash : PItem → Bool
  | .op o => opNoHash o
  | .con _ _ _ _ body => body.noHash
def PItems.noHash : PItems → Bool
  | .nil => true
  | .cons i r => i.noHash && r.noHash
end

def hasKey (t : Tab) (k : Key) : Bool := (tfind t k).isSome

/-- the local keys the run enters labels under, in order -/
def labelKeys (p : Items) (st : LSt) : List Key := (traceItems p st).filterMap (·.dkey)

/-- **the local table is settled for this run**: it holds exactly the keys the run is going to enter labels under - what a
pass over the same program leaves for the next one (`C13_loc_settled_next_pass`) -/
def settled (p : Items) (st : LSt) : Bool :=
  let ks := labelKeys p st
  st.ltab.all (fun e => ks.contains e.1) && ks.all (hasKey st.ltab)

end AslModel.SymLoc
