import AslModel.Model.ErrCount
import AslModel.Generated.PassConsts
/-!
# MODEL of the diagnostic *channels* and of diagnostics in a multi-pass run
(`asmerr.c WrErrorString / WrXErrorPos`, `asmsub.c WrLstLine`, `asmallg.c CodeLISTING`,
`asmpars.c LookupSymbol / SymbolAdder` (the `JmpErrors` roll-back of `-Y`), `errmsg.c ChkSamePage`,
the pass loop and the tail of `as.c AssembleFile`, `main`)

`Model/ErrCount.lean` counts the diagnostics of a single pass that all go to the error channel.
This file adds what decides *where* a diagnostic is written and *whether it stays counted*:

* `WrErrorString`: a non-fatal message is handed to `WrLstLine` when a listing was requested
  (`-l` console, `-L` file); `WrLstLine` drops the line while `ListOn == 0` (`LISTING OFF`).
  It goes to the error channel unless the listing is the console **and** `ListOn != 0` **and**
  it was handed to the listing.  A fatal message only goes to the error channel.
* `WrXErrorPos(Num)`: the filters come first and in this order – (1) a message whose number is waiting in the
  `EXPECT` list is taken off that list and dropped, (2) `-w` drops numbered warnings (`Num < 1000`) –; only a message
  that passed both is *counted*: the numbered errors 1370 (jump distance too big) and 1910 (jump target not on same
  page) increment `JmpErrors` while `Repass` is not yet set, then `WrErrorString` counts and routes it.  A filtered
  message changes no counter at all (`Props/C02_Chan.lean: C02_chan_filtered_frame`).
  (The third filter, `+G` & error 1200, needs a run without code file and is outside the statement language.)
* `EXPECT n1,…` / `ENDEXPECT` (`CodeEXPECT`, `CodeENDEXPECT`, `AsmErrPassInit`, `AsmErrPassExit`): the list of expected
  numbers, error 2140 for a nested `EXPECT`, 2160 for a lone `ENDEXPECT`, one error 2130 per expectation still waiting at
  `ENDEXPECT` (each of them again passes through `WrXErrorPos`, i.e. through the rest of the list), error 2150 at the end
  of a pass that leaves a block open; list and flag are cleared at both ends of every pass.
* `SymbolAdder`: a label / constant re-entered with another value than in the previous pass:
  `if (!Repass && JmpErrors > 0) { if (ThrowErrors) ErrorCount -= JmpErrors; JmpErrors = 0; }`
  `Repass = True`.  `JmpErrors` is a C global that no pass and no file initialises again.
* `-r [n]`: from pass `n` on both places that set `Repass` also issue a numbered warning (80 resp. 170),
  which `-Werror` turns into an error like any other warning.
* `LookupSymbol`: a symbol missing from the table reads as the PC, sets `Repass` and is
  first-pass-unknown while `PassNo <= MaxSymPass`, later it is error 1010; a symbol known from the
  previous pass but not yet defined in this one is *questionable* once `Repass` is set –
  range / page checks of branches are skipped for first-pass-unknown and questionable targets.
* pass loop `do … while (ErrorCount == 0 && Repass)`; per pass `ErrorCount = WarnCount = 0`,
  `Repass = False`, `ListOn = 1`, all symbols undefined-in-this-pass; the listing *file* is
  reopened in every pass, console and error channel accumulate.
* tail: `ErrorCount != 0` ⇒ `unlink(OutName)`, `GlobErrFlag`; summary = final counters, written to
  the console unless `-q`, and into the listing file through `WrLstLine` (i.e. only if `ListOn != 0`).

The statement language is what the C02 generator renders for the 6502 and 68HC11 (relative branch, zero-page /
absolute load), the Z80 (relative jump) and the 8048 (conditional jump inside a 256-byte page).
-/
namespace AslModel.ErrChan
open AslModel.ErrCount (Diag)

inductive ListMode where
  | none | console | file
deriving DecidableEq, Repr, Inhabited

structure Cfg where
  werror : Bool := false
  suppWarns : Bool := false
  maxErrors : Nat := 0
  /-- `-Y` (`ThrowErrors`) -/
  throwY : Bool := false
  listMode : ListMode := .none
  /-- `-r [n]` (`MsgIfRepass`, `PassNoForMessage`): 0 = off, else warnings 80 / 170 are issued from pass `n` on
  wherever a further pass is requested -/
  msgPass : Nat := 0
  /-- `JmpErrors` survives from one source file to the next (true on the current tree: no initialisation
  per pass or file exists; the check probes the real binary each run and clears the flag once that is repaired) -/
  carryJmp : Bool := true
  width : Nat := Generated.errorCountBits
  maxSymPass : Nat := Generated.PassConsts.maxSymPass
deriving Repr

/-- how a branch checks its target -/
inductive BrKind where
  /-- 6502 `Bcc`: 2 bytes, distance from PC+2 must be in −128..127 -/
  | rel8
  /-- 8048 `Jcc`: 2 bytes, `ChkSamePage(PC+1, target, 8)` -/
  | page8
  /-- Z80 `JR`: 2 bytes, distance from PC+2 in −128..127, checked even for a questionable target
  (`codez80.c DecodeJR` does not consult the symbol flags) -/
  | rel8nq
deriving DecidableEq, Repr, Inhabited

inductive Stmt where
  /-- a line that raises exactly one diagnostic and lays down no code -/
  | diag (d : Diag)
  /-- `LISTING OFF|ON|NOSKIPPED|PURECODE` (0..3) -/
  | listing (v : Nat)
  /-- `SAVE` / `RESTORE`: push / pop `ListOn` (the other saved items are not touched by the language) -/
  | save
  | restore
  | label (n : Nat)
  /-- `name EQU constant` -/
  | equ (n v : Nat)
  /-- `k` bytes of code / data of fixed size -/
  | fill (k : Nat)
  /-- a line that raises exactly the numbered diagnostic `n` through `WrXErrorPos` and lays down no code
  (`n < 1000` warning, `n ≥ 10000` fatal) -/
  | num (n : Nat)
  /-- `EXPECT n1,n2,…` -/
  | expect (ns : List Nat)
  /-- `ENDEXPECT` -/
  | endexpect
  /-- 6502 `LDA sym`: zero page (2 bytes) for a known value below 256, else absolute (3 bytes) -/
  | load (n : Nat)
  | branch (k : BrKind) (n : Nat)
deriving DecidableEq, Repr, Inhabited

/-- messages of one class pair -/
structure Cnt where
  err : Nat := 0
  warn : Nat := 0
deriving DecidableEq, Repr, Inhabited

def Cnt.add (c : Cnt) (warning : Bool) : Cnt :=
  if warning then { c with warn := c.warn + 1 } else { c with err := c.err + 1 }

/-- symbol table entry: value, defined in the current pass -/
abbrev Tab := List (Nat × Nat × Bool)

def Tab.find (t : Tab) (n : Nat) : Option (Nat × Bool) :=
  match t with
  | [] => none
  | (m, v, d) :: r => if m = n then some (v, d) else Tab.find r n

def Tab.set (t : Tab) (n v : Nat) : Tab :=
  match t with
  | [] => [(n, v, true)]
  | (m, w, d) :: r => if m = n then (m, v, true) :: r else (m, w, d) :: Tab.set r n v

def Tab.undefAll (t : Tab) : Tab := t.map fun (m, v, _) => (m, v, false)

structure M where
  pc : Nat := 0
  passNo : Nat := 0
  errCnt : Nat := 0
  warnCnt : Nat := 0
  /-- C global `JmpErrors`: survives passes and files -/
  jmpErrors : Nat := 0
  repass : Bool := false
  listOn : Nat := 1
  /-- `FirstSaveState` chain, the `SaveListOn` fields -/
  saved : List Nat := []
  tab : Tab := []
  /-- messages written by `WrLstLine` to the console listing (this pass) -/
  con : Cnt := {}
  /-- messages written to the error channel (this pass) -/
  chan : Cnt := {}
  /-- messages written by `WrLstLine` into the listing file (this pass) -/
  lst : Cnt := {}
  /-- 1370/1910 messages among the error messages of this pass -/
  jmpMsgs : Nat := 0
  /-- errors taken off the counter by `-Y` in this pass -/
  forgotten : Nat := 0
  /-- a symbol was defined twice in one pass (outside the statement language's intended use) -/
  dbl : Bool := false
  fatal : Bool := false
  /-- `pExpectErrors`: numbers announced by `EXPECT` that have not occurred yet (head = added last) -/
  expects : List Nat := []
  /-- `InExpect` -/
  inExpect : Bool := false
  /-- messages dropped by a filter of `WrXErrorPos` in this pass (never shown, never counted) -/
  filtered : Nat := 0
deriving Repr, DecidableEq, Inhabited

/-- `WrErrorString(…, Warning, Fatal, …)` -/
def wrErrorString (c : Cfg) (m : M) (warning fatal : Bool) : M :=
  let warning := warning && !(c.werror && !fatal)
  let e := if warning then m.errCnt else (m.errCnt + 1) % 2 ^ c.width
  let w := if warning then (m.warnCnt + 1) % 2 ^ c.width else m.warnCnt
  -- `if (strcmp(LstName, "/dev/null") && !Fatal) { WrLstLine…; ErrorsWrittenToListing = True; }`
  let handed := c.listMode != .none && !fatal
  let listed := handed && m.listOn != 0          -- WrLstLine: `if (ListOn == 0 || ListToNull) return`
  let toChan := c.listMode != .console || m.listOn == 0 || !handed
  { m with
    errCnt := e, warnCnt := w,
    con := if listed && c.listMode == .console then m.con.add warning else m.con,
    lst := if listed && c.listMode == .file then m.lst.add warning else m.lst,
    chan := if toChan then m.chan.add warning else m.chan,
    fatal := fatal || decide (c.maxErrors ≠ 0 ∧ e ≥ c.maxErrors) }

/-- `WrXErrorPos(ErrNum_JmpDistTooBig | ErrNum_TargOnDiffPage, …)` behind the filters: the `JmpErrors` block, then `WrErrorString` -/
def wrJmpError (c : Cfg) (m : M) : M :=
  let m1 := if m.repass then m else { m with jmpErrors := m.jmpErrors + 1 }
  wrErrorString c { m1 with jmpMsgs := m1.jmpMsgs + 1 } false false

/-- `FindAndTakeExpectError`: the list without the first entry equal to `n`; `none` = not expected -/
def takeExpect : List Nat → Nat → Option (List Nat)
  | [], _ => none
  | x :: r, n => if x = n then some r else (takeExpect r n).map (x :: ·)

def isJmpNum (n : Nat) : Bool := n == 1370 || n == 1910

/-- the message `Num` is dropped by one of the filters in front of the counting -/
def isFiltered (c : Cfg) (m : M) (num : Nat) : Bool :=
  (takeExpect m.expects num).isSome || (c.suppWarns && decide (num < 1000))

/-- `WrXErrorPos(Num, …)`: EXPECT filter → `SuppWarns` filter → `JmpErrors` → `WrErrorString` -/
def wrXErrorPos (c : Cfg) (m : M) (num : Nat) : M :=
  match takeExpect m.expects num with
  | some r => { m with expects := r, filtered := m.filtered + 1 }
  | none =>
    if c.suppWarns && decide (num < 1000) then { m with filtered := m.filtered + 1 }
    else if isJmpNum num then wrJmpError c m
    else wrErrorString c m (decide (num < 1000)) (decide (num ≥ 10000))

/-- a numbered warning (290 "no memory reserved" is the one the generator renders) -/
def wrNumWarning (c : Cfg) (m : M) : M := wrXErrorPos c m 290

def wrDiag (c : Cfg) (m : M) : Diag → M
  | .warning => wrNumWarning c m
  | .uwarning => wrErrorString c m true false
  | .error => wrErrorString c m false false
  | .fatal => wrErrorString c m false true

/-- `CodeENDEXPECT`: `while (pExpectErrors) { take the head; WrXError(ErrNum_ExpectedError, …) }`; the fuel is the
length of the list (every round removes at least the head); a fatal stop (`-maxerrors`) ends the process -/
def drainExpects (c : Cfg) : Nat → M → M
  | 0, m => m
  | f + 1, m =>
    if m.fatal then m else
    match m.expects with
    | [] => m
    | _ :: r => drainExpects c f (wrXErrorPos c { m with expects := r } 2130)

/-- `AsmErrPassExit`: `if (InExpect) WrError(ErrNum_MissingENDEXPECT); ClearExpectErrors(); InExpect = False` -/
def passExit (c : Cfg) (m : M) : M :=
  if m.fatal then m else
  let m1 := if m.inExpect then wrXErrorPos c m 2150 else m
  { m1 with expects := [], inExpect := false }

/-- `if (MsgIfRepass && PassNo >= PassNoForMessage) WrXError(ErrNum_PhaseErr | ErrNum_RepassUnknown, …)` -/
def repassMsg (c : Cfg) (m : M) (num : Nat) : M :=
  if c.msgPass ≠ 0 ∧ m.passNo ≥ c.msgPass then wrXErrorPos c m num else m

/-- `SymbolAdder` for a constant `n := v` -/
def symbolAdder (c : Cfg) (m : M) (n v : Nat) : M :=
  match m.tab.find n with
  | none => { m with tab := m.tab.set n v }
  | some (_, true) => { m with dbl := true }
  | some (old, false) =>
    if old = v then { m with tab := m.tab.set n v } else
    let m1 :=
      if !m.repass && m.jmpErrors > 0 then
        if c.throwY then
          { m with errCnt := (m.errCnt + 2 ^ c.width - m.jmpErrors % 2 ^ c.width) % 2 ^ c.width,
                   forgotten := m.forgotten + m.jmpErrors, jmpErrors := 0 }
        else { m with jmpErrors := 0 }
      else m
    repassMsg c { m1 with repass := true, tab := m1.tab.set n v } 80

/-- value and flags `LookupSymbol` delivers: `(value, firstPassUnknown, questionable)`;
`none` = error 1010 symbol undefined -/
def lookup (c : Cfg) (m : M) (n : Nat) : Option (Nat × Bool × Bool) × M :=
  match m.tab.find n with
  | some (v, d) => (some (v, false, !d && m.repass), m)
  | none =>
    if m.passNo ≤ c.maxSymPass then (some (m.pc, true, false), repassMsg c { m with repass := true } 170)
    else (none, m)

/-- 1370 "jump distance too big" for the relative branches, 1910 "jump target not on same page" for the 8048 -/
def jmpNum : BrKind → Nat
  | .rel8 => 1370
  | .page8 => 1910
  | .rel8nq => 1370

def branchOk (k : BrKind) (pc v : Nat) : Bool :=
  match k with
  | .rel8 => decide ((v : Int) - ((pc : Int) + 2) ≤ 127 ∧ (v : Int) - ((pc : Int) + 2) ≥ -128)
  | .page8 => (pc + 1) / 256 == v / 256
  | .rel8nq => decide ((v : Int) - ((pc : Int) + 2) ≤ 127 ∧ (v : Int) - ((pc : Int) + 2) ≥ -128)

def step (c : Cfg) (m : M) (s : Stmt) : M :=
  if m.fatal then m else
  match s with
  | .diag d => wrDiag c m d
  | .listing v => { m with listOn := v }
  | .save => { m with saved := m.listOn :: m.saved }
  | .restore =>
    match m.saved with
    -- `WrError(ErrNum_NoSaveFrame)`; written without the filters (1450 is an error, so `-w` does not apply, and the
    -- statement language never announces 1450 by `EXPECT`) because `Lemmas/PosChan.lean` (C20) reasons about this step
    -- for arbitrary states
    | [] => wrErrorString c m false false
    | v :: r => { m with listOn := v, saved := r }
  | .label n => symbolAdder c m n m.pc
  | .equ n v => symbolAdder c m n v
  | .fill k => { m with pc := m.pc + k }
  | .num n => wrXErrorPos c m n
  | .expect ns =>
    if m.inExpect then wrXErrorPos c m 2140       -- `WrStrErrorPos(ErrNum_NoNestExpect, …)`
    else { m with expects := ns.foldl (fun l n => n :: l) m.expects, inExpect := true }
  | .endexpect =>
    if !m.inExpect then wrXErrorPos c m 2160      -- `WrStrErrorPos(ErrNum_MissingEXPECT, …)`
    else
      let m1 := drainExpects c m.expects.length m
      if m1.fatal then m1 else { m1 with inExpect := false }
  | .load n =>
    match lookup c m n with
    | (some (v, fpu, _), m1) => { m1 with pc := m1.pc + (if v < 256 && !fpu then 2 else 3) }
    | (none, m1) => wrXErrorPos c m1 1010        -- `ErrNum_SymbolUndef`
  | .branch k n =>
    match lookup c m n with
    | (some (v, fpu, q), m1) =>
      let ok := match k with
        | .rel8 => branchOk k m1.pc v || q      -- distance of a first-pass-unknown target is −2
        | .page8 => branchOk k m1.pc v || fpu || q
        | .rel8nq => branchOk k m1.pc v
      if ok then { m1 with pc := m1.pc + 2 } else wrXErrorPos c m1 (jmpNum k)
    | (none, m1) => wrXErrorPos c m1 1010

/-- `AssembleFile_InitPass` + `AsmErrPassInit` (which also clears the EXPECT list and flag) -/
def initPass (org : Nat) (m : M) : M :=
  { m with pc := org, passNo := m.passNo + 1, errCnt := 0, warnCnt := 0, repass := false, listOn := 1, saved := [],
           tab := m.tab.undefAll, con := {}, chan := {}, lst := {}, jmpMsgs := 0, forgotten := 0,
           expects := [], inExpect := false, filtered := 0 }

/-- one pass: `AssembleFile_InitPass`, the source lines, `AssembleFile_ExitPass` -/
def runPass (c : Cfg) (org : Nat) (p : List Stmt) (m : M) : M := passExit c (p.foldl (step c) (initPass org m))

/-- what one pass sent to console listing / error channel -/
structure PassOut where
  con : Cnt
  chan : Cnt
  jmpMsgs : Nat
  forgotten : Nat
  filtered : Nat := 0
deriving Repr, DecidableEq, Inhabited

def passOut (m : M) : PassOut := { con := m.con, chan := m.chan, jmpMsgs := m.jmpMsgs, forgotten := m.forgotten, filtered := m.filtered }

/-- the pass loop with a fuel bound; `none` = fuel exhausted -/
def passLoop (c : Cfg) (org : Nat) (p : List Stmt) : Nat → M → List PassOut → Option (M × List PassOut)
  | 0, _, _ => none
  | fuel + 1, m, acc =>
    let m1 := runPass c org p m
    let acc1 := acc ++ [passOut m1]
    if m1.fatal then some (m1, acc1)
    else if m1.errCnt == 0 && m1.repass then passLoop c org p fuel m1 acc1
    else some (m1, acc1)

structure FileOut where
  codeFile : Bool
  sumErr : Nat
  sumWarn : Nat
  /-- the summary reaches the listing file -/
  lstSummary : Bool
  lst : Cnt
  passes : List PassOut
  fatal : Bool
  dbl : Bool
deriving Repr, DecidableEq, Inhabited

def fileOut (c : Cfg) (m : M) (ps : List PassOut) : FileOut :=
  { codeFile := !m.fatal && m.errCnt == 0, sumErr := m.errCnt, sumWarn := m.warnCnt,
    lstSummary := c.listMode == .file && m.listOn != 0, lst := m.lst, passes := ps, fatal := m.fatal, dbl := m.dbl }

/-- the state a new source file starts from: everything fresh except the C globals nobody resets -/
def nextFile (c : Cfg) (m : M) : M := { jmpErrors := if c.carryJmp then m.jmpErrors else 0 }

/-- an invocation: `(org, program)` per source file; `none` = pass fuel exhausted -/
def runFiles (c : Cfg) (fuel : Nat) : List (Nat × List Stmt) → M → Bool → Option (List FileOut × Nat)
  | [], _, glob => some ([], if glob then 2 else 0)
  | (org, p) :: fs, m, glob =>
    match passLoop c org p fuel m [] with
    | none => none
    | some (m1, ps) =>
      if m1.fatal then some ([fileOut c m1 ps], 3)
      else
        match runFiles c fuel fs (nextFile c m1) (glob || m1.errCnt != 0) with
        | none => none
        | some (outs, st) => some (fileOut c m1 ps :: outs, st)

def invoke (c : Cfg) (fuel : Nat) (files : List (Nat × List Stmt)) : Option (List FileOut × Nat) :=
  runFiles c fuel files {} false

end AslModel.ErrChan
