import AslModel.Model.Listing
/-!
# Symbol table of the listing and share-file constants under `-h` — MODEL (C19)

Transcription of

* `chardefs.c UTF8ToUnicode` (only how far it advances) and `asmsub.c visible_strlen`,
* `asmpars.c PrintSymbolList_PNode` (one entry `"%c%s : [ [section]]<blanks>VALUE S | "`, padded to a
  multiple of the column width by *visible* length) and `PrintSymbolList_AddOut` / the final flush of
  `PrintSymbolList` (the pending line `Zeilenrest` with its byte length `ZeilenrestLen` and its visible
  length `ZeilenrestVisibleLen`),
* `asmallg.c IntLine` with `HexStartCharacter` (command line option `-h`: hex digits, the Intel suffix
  `H` and the IBM prefix `X` in lower case) for all four integer syntaxes, and the `CodeSHARED` lines.

A C string is a `List Char` whose characters are the bytes (code < 256), as the driver hands them over.
Core-only imports.
-/
namespace AslModel.Listing

/-! ## visible length -/

/-- `CheckOneUTF8(Val, Mask, …)`: `(Val & Mask) == ((Mask << 1) & 0xff)` -/
def chkUTF8 (v mask : Nat) : Bool := (v &&& mask) == ((mask <<< 1) &&& 0xff)

/-- byte `i` of a C string (`0` = the terminator behind the end) -/
def byteAt (s : List Char) (i : Nat) : Nat := (s.getD i (Char.ofNat 0)).toNat

/-- by how many bytes `UTF8ToUnicode` advances (the four-byte form advances by 3, as the C code does) -/
def utf8Adv (s : List Char) : Nat :=
  if chkUTF8 (byteAt s 0) 0x80 then 1
  else if chkUTF8 (byteAt s 0) 0xe0 && chkUTF8 (byteAt s 1) 0xc0 then 2
  else if chkUTF8 (byteAt s 0) 0xf0 && chkUTF8 (byteAt s 1) 0xc0 && chkUTF8 (byteAt s 2) 0xc0 then 3
  else if chkUTF8 (byteAt s 0) 0xf8 && chkUTF8 (byteAt s 1) 0xc0 && chkUTF8 (byteAt s 2) 0xc0
          && chkUTF8 (byteAt s 3) 0xc0 then 3
  else 1

/-- `while (*pSym) { UTF8ToUnicode(&pSym); Result++; }` (`f` = fuel, the length suffices) -/
def utf8Count : Nat → List Char → Nat
  | 0, _ => 0
  | _ + 1, [] => 0
  | f + 1, c :: cs => 1 + utf8Count f ((c :: cs).drop (utf8Adv (c :: cs)))

/-- `visible_strlen`: `ValidSymCharLen > 256` ⇔ the character set is UTF-8 -/
def visibleLen (utf8 : Bool) (s : List Char) : Nat :=
  if utf8 then utf8Count s.length s else s.length

/-! ## one entry (`PrintSymbolList_PNode`) -/

/-- `for (nBlanks = cwidth - 1 - l1; nBlanks < 0; nBlanks += cwidth);` – `acc` = `nBlanks + l1 + 1` -/
def nBlanksAux (cw l1 : Nat) : Nat → Nat → Nat
  | 0, _ => 0
  | f + 1, acc => if l1 + 1 ≤ acc then acc - (l1 + 1) else nBlanksAux cw l1 f (acc + cw)

def nBlanks (cw l1 : Nat) : Nat := nBlanksAux cw l1 (l1 + 2) cw

/-- `"%c%s : "` + `" [%s]"` -/
def symHead (used : Bool) (name : List Char) (sect : Option (List Char)) : List Char :=
  (if used then ' ' else '*') :: name ++ [' ', ':', ' '] ++
    (match sect with
     | some s => [' ', '['] ++ s ++ [']']
     | none => [])

/-- the entry handed to `PrintSymbolList_AddOut`; `val` = `StrSym` text, `seg` = `SegShorts[…]` -/
def symEntry (utf8 : Bool) (cw : Nat) (used : Bool) (name : List Char) (sect : Option (List Char))
    (val : List Char) (seg : Char) : List Char :=
  let sh := symHead used name sect
  let l1 := val.length + visibleLen utf8 sh + 4
  sh ++ List.replicate (nBlanks cw l1) ' ' ++ val ++ [' ', seg, ' ', '|', ' ']

/-! ## the line builder (`PrintSymbolList_AddOut`, final flush of `PrintSymbolList`) -/

structure ListCtx where
  /-- `Zeilenrest` -/
  rest : List Char := []
  /-- `ZeilenrestLen` -/
  restLen : Nat := 0
  /-- `ZeilenrestVisibleLen` -/
  restVis : Nat := 0
  /-- lines handed to `WrLstLine` so far -/
  out : List (List Char) := []
deriving Repr, DecidableEq

/-- `PrintSymbolList_AddOut`.  `Zeilenrest.p_str[ZeilenrestLen - 1] = '\0'` cuts the C string at that
index (`take`); with `ZeilenrestLen = 0` the C code writes in front of the buffer: `none`. -/
def addOut (utf8 : Bool) (width : Nat) (s : List Char) (c : ListCtx) : Option ListCtx :=
  let av := visibleLen utf8 s
  let al := s.length
  if av + c.restVis > width then
    if c.restLen = 0 then none
    else some { rest := s, restLen := al, restVis := av, out := c.out ++ [c.rest.take (c.restLen - 1)] }
  else some { c with rest := c.rest ++ s, restLen := c.restLen + al, restVis := c.restVis + av }

def addAll (utf8 : Bool) (width : Nat) : List (List Char) → ListCtx → Option ListCtx
  | [], c => some c
  | e :: es, c =>
    match addOut utf8 width e c with
    | some c' => addAll utf8 width es c'
    | none => none

/-- `if (Zeilenrest.p_str[0] != '\0') { Zeilenrest.p_str[strlen(Zeilenrest.p_str) - 1] = '\0'; WrLstLine(…); }` -/
def finalFlush (c : ListCtx) : List (List Char) :=
  if c.rest = [] then c.out else c.out ++ [c.rest.dropLast]

/-- the lines of the symbol table for the entries in tree order -/
def symListLines (utf8 : Bool) (width : Nat) (entries : List (List Char)) : Option (List (List Char)) :=
  (addAll utf8 width entries {}).map finalFlush

/-! ## `IntLine` / `CodeSHARED` with `HexStartCharacter` -/

/-- what `HexStartCharacter = 'a'` does to a digit character `0-9A-Z` -/
def lowerAZ (c : Char) : Char := if 65 ≤ c.toNat ∧ c.toNat ≤ 90 then Char.ofNat (c.toNat + 32) else c

/-- `%x` of `as_snprintf`: digits with `HexStartCharacter` (`lower` ⇔ option `-h`) -/
def hexOfH (lower : Bool) (v : Nat) : List Char := if lower then (hexOf v).map lowerAZ else hexOf v

inductive IntModeX where
  | intel | moto | c | ibm
deriving Repr, DecidableEq, Inhabited

/-- `IntLine`: Intel `%x` + `GetIntConstIntelSuffix(16)` (`'H' + (HexStartCharacter - 'A')`) with a `0` in
front when the first character is beyond `'9'`; Motorola `$%x`; C `0x%x`; IBM `x'%x'` -/
def intLineH (lower : Bool) (m : IntModeX) (v : Nat) : List Char :=
  match m with
  | .intel =>
    let s := hexOfH lower v ++ [if lower then 'h' else 'H']
    match s with
    | c :: _ => if c.toNat > '9'.toNat then '0' :: s else s
    | [] => s
  | .moto => '$' :: hexOfH lower v
  | .c => '0' :: 'x' :: hexOfH lower v
  | .ibm => 'x' :: '\'' :: (hexOfH lower v ++ ['\''])

/-- `CodeSHARED` output line (no comment) for a value text `s`: ShareMode 1 Pascal, 2 C, 3 assembler -/
def shareLineText (shareMode : Nat) (changeable : Bool) (name s : List Char) : List Char :=
  if shareMode = 1 then name ++ [' ', '=', ' '] ++ s ++ [';']
  else if shareMode = 2 then ['#', 'd', 'e', 'f', 'i', 'n', 'e', ' '] ++ name ++ [' '] ++ s
  else name ++ [' '] ++ (if changeable then ['s', 'e', 't', ' '] else ['e', 'q', 'u', ' ']) ++ s

/-- `CodeSHARED` for an integer symbol -/
def shareLineH (lower : Bool) (shareMode : Nat) (m : IntModeX) (changeable : Bool) (name : List Char) (v : Nat) : List Char :=
  shareLineText shareMode changeable name
    (intLineH lower (if shareMode = 1 then .moto else if shareMode = 2 then .c else m) v)

/-- `CodeSHARED` for a string symbol: `'…'` (Pascal) / `"…"` -/
def shareLineStr (shareMode : Nat) (changeable : Bool) (name s : List Char) : List Char :=
  let q := if shareMode = 1 then '\'' else '"'
  shareLineText shareMode changeable name (q :: s ++ [q])

end AslModel.Listing
