import AslModel.Spec.MacroLabels
/-! MODEL for C11, labels of enclosing expansions seen from nested bodies: a transcription of `asmpars.c` (`GetLocHandle`,
`PushLocHandle`, `PopLocHandle`, `FindLocNode_FNode`, `FindLocNode` - the current space `MomLocHandle` first, then the
WHOLE chain `FirstLocHandle` of the enclosing expansions up to a `-1` entry -, `LookupSymbol`: local spaces before the
global table, `EnterLocSymbol` under `(name, MomLocHandle)`, the switch `MomLocHandle == -1` of `EnterIntSymbolWithFlags`)
and of the handle discipline of `as.c` (`MACRO_/IRP_/IRPC_/REPT_/WHILE_Processor`: at the first body line of an iteration
the space of the previous iteration is popped and a fresh one pushed; `MACRO_Restorer` pops once when a space was opened;
`WHILE_Processor` opens one more space in which the final, false condition is evaluated), and the pass loop as far as it
matters (`AssembleFile_InitPass`: `MomLocHandle = -1; LocHandleCnt = 0`, the tables survive; a second pass only when pass 1 met an undefined symbol).

Programs are those of `Spec/MacroLabels.lean` (one-byte label / reference statements, constructs).  Self-contained: the
symbol-table side (sections, temporary symbols, SET/EQU) is C13's `Model/SymLoc.lean`; here only the handle stack and the two
tables matter. -/
namespace AslModel.MacroLabels
open AslModel.MacroLabelsSpec

abbrev LTab := List ((Nat × Int) × Nat)       -- FirstLocSymbol: (name, handle) ↦ value
abbrev GTab := List (Nat × Nat)               -- FirstSymbol

def tfind (t : LTab) (key : Nat × Int) : Option Nat :=
  match t with
  | [] => none
  | (k, v) :: r => if k = key then some v else tfind r key

def tset (t : LTab) (key : Nat × Int) (v : Nat) : LTab :=
  match t with
  | [] => [(key, v)]
  | (k, w) :: r => if k = key then (k, v) :: r else (k, w) :: tset r key v

def gfind (t : GTab) (key : Nat) : Option Nat :=
  match t with
  | [] => none
  | (k, v) :: r => if k = key then some v else gfind r key

def gset (t : GTab) (key : Nat) (v : Nat) : GTab :=
  match t with
  | [] => [(key, v)]
  | (k, w) :: r => if k = key then (k, v) :: r else (k, w) :: gset r key v

structure St where
  mom : Int := -1              -- MomLocHandle
  conts : List Int := []       -- FirstLocHandle: the `Cont` fields, newest first
  cnt : Nat := 0               -- LocHandleCnt
  ltab : LTab := []
  gtab : GTab := []
  pc : Nat := 0
  out : List (Option Nat) := []   -- newest first; `none`: symbol undefined
deriving Inhabited

/-- `PushLocHandle` -/
def pushLoc (st : St) (h : Int) : St := { st with conts := st.mom :: st.conts, mom := h }

/-- `PopLocHandle` -/
def popLoc (st : St) : St :=
  match st.conts with
  | [] => st
  | c :: r => { st with mom := c, conts := r }

/-- `PushLocHandle(GetLocHandle())` -/
def pushFresh (st : St) : St := pushLoc { st with cnt := st.cnt + 1 } (st.cnt : Int)

/-- the loop of `FindLocNode` over `FirstLocHandle`: `while (Run && Run->Cont != -1) { ...; Run = Run->Next; }` -/
def walkConts (ltab : LTab) (name : Nat) : List Int → Option Nat
  | [] => none
  | c :: r =>
    if c = -1 then none
    else match tfind ltab (name, c) with
      | some e => some e
      | none => walkConts ltab name r

/-- `FindLocNode` -/
def findLocNode (st : St) (name : Nat) : Option Nat :=
  if st.mom = -1 then none
  else match tfind st.ltab (name, st.mom) with
    | some e => some e
    | none => walkConts st.ltab name st.conts

/-- `LookupSymbol`: `FindLocNode`, and only when that finds nothing the global table -/
def lookup (st : St) (name : Nat) : Option Nat :=
  match findLocNode st name with
  | some v => some v
  | none => gfind st.gtab name

/-- a label: local (`EnterLocSymbol`, key `(name, MomLocHandle)`) when a space is open, global otherwise -/
def defineLabel (st : St) (name v : Nat) : St :=
  if st.mom = -1 then { st with gtab := gset st.gtab name v }
  else { st with ltab := tset st.ltab (name, st.mom) v }

def emit (st : St) (b : Option Nat) : St := { st with out := b :: st.out, pc := st.pc + 1 }

/-- first body line of an iteration (`LineZ == 1`): `if (!First) PopLocHandle(); PushLocHandle(GetLocHandle())` -/
def iterOpen (glob first : Bool) (st : St) : St :=
  if glob then st else pushFresh (if first then st else popLoc st)

/-- `MACRO_Restorer` (shared by all constructs): pop when a space was opened -/
def restorer (glob first : Bool) (st : St) : St := if !glob && !first then popLoc st else st

/-- `n` iterations of a body; the flag is `PInp->First` -/
def loop (glob : Bool) (body : St → St) : Nat → Bool → St → St × Bool
  | 0, first, st => (st, first)
  | n + 1, first, st => loop glob body n false (body (iterOpen glob first st))

/-- WHILE opens a space for the evaluation of the final condition; then the restorer -/
def finish (wh glob : Bool) (r : St × Bool) : St :=
  if wh then restorer glob false (iterOpen glob r.2 r.1) else restorer glob r.2 r.1

mutual
def execItem : Item → St → St
  | .lab k, st => emit (defineLabel st k st.pc) (some (labByte k))
  | .ref k, st => emit st (lookup st k)
  | .con wh glob n body, st => finish wh glob (loop glob (execItems body) n true st)
def execItems : Items → St → St
  | .nil, st => st
  | .cons i r, st => execItems r (execItem i st)
end

/-- `AssembleFile_InitPass` -/
def initPass (st : St) : St := { st with mom := -1, conts := [], cnt := 0, pc := 0, out := [] }

def pass (st : St) (prog : Items) : St := execItems prog (initPass st)

/-- the pass loop: a reference that finds nothing in pass 1 ("symbol undefined") asks for a second pass; all sizes are fixed and no
value changes, so the second pass is the last.  A reference that finds *something* in pass 1 - a label of an enclosing
expansion or a global symbol of the same name, while the body's own label follows further down - asks for nothing. -/
def assemble (prog : Items) : St :=
  let s1 := pass {} prog
  if s1.out.any Option.isNone then pass s1 prog else s1

/-- what the assembler would give if a second pass were made in any case (hook `ASL_VERIF_EXTRA_PASSES=1`) -/
def assemble2 (prog : Items) : St := pass (pass {} prog) prog

def bytesOf (prog : Items) : List (Option Nat) := (assemble prog).out.reverse

end AslModel.MacroLabels
