import AslModel.Model.Files
import AslModel.Generated.GenState
/-!
The `VarSpec` table of the *current* C sources: `Generated/GenState.lean` (clang AST of every code*.c)
read as the parameter of the file/pass model.  Used by the driver (correspondence) and by `Props/C18.lean`.
-/
namespace AslModel.Files
open AslModel.Generated

/-- number of the code generator = position of its code*.c in the generated file list -/
def genIndex (file : String) : Nat := (genFiles.map (·.1)).idxOf file

/-- is the variable given a fresh value on a path that runs before every pass, or whenever its target is selected?
(`switchFrom` is recorded but not counted: it runs *after* the last use, and not before the first file.) -/
def isReset (r : GenVar) : Bool := r.initPass || r.switchTo || r.core

def varSpecOf (r : GenVar) (dflt : Int) : VarSpec :=
  { gen := genIndex r.file
    perPass := r.initPass || (r.core && r.kind != "cpuarg")
    perCpu := r.switchTo || (r.core && r.kind == "cpuarg")
    dflt := dflt }

/-- the model's parameter for a selection `rows` of table rows (variable `v` = `rows[v]`); indices outside the
selection denote no variable of the program and are treated as reset -/
def specOf (rows : List GenVar) (dflts : Nat → Int) : SpecT :=
  fun v => match rows[v]? with
    | some r => varSpecOf r (dflts v)
    | none => ⟨0, true, true, 0⟩

def findVar (file var : String) : Option GenVar := genVars.find? (fun r => r.file == file && r.var == var)

/-- the default target at the start of every pass is CPU number 0, registered by code68k.c -/
def defaultGen : Nat := genIndex "code68k.c"

def bootCarry (dflts : Nat → Int) : Carry := { vals := dflts, stack := [] }

end AslModel.Files
