/-!
# `ExpandStrSymbol` (asmpars.c) — MODEL (C03, names built with `{stringsymbol}`)

Transcription of the loop that expands `{expr}` inside symbol / section / macro / stack names into a caller-supplied
`String` buffer of `size` bytes (`STRINGSIZE`), with the two bounded copies the C code uses:

* the literal text in front of a `{`: `if (ld + ls + 1 > DestSize) ls = DestSize - 1 - ld; memcpy(pDest + ld, src, ls)`
* `strmaxcat(pDest, Result, DestSize)` / `strmaxcat(pDest, rest, DestSize)` (strutil.c): at most `MaxLen - 1 - DLen` bytes.

Both subtractions are `size_t` subtractions in C: they are meaningful only while `strlen(pDest) <= DestSize - 1`.  The
model does not hide that behind a truncated subtraction - it answers `Fault.overflow` when one of them would wrap (the C
program then writes behind the buffer).  `Props/C03_Names.lean` proves that this never happens and that the result is
always shorter than `size`.

Characters are `Nat` codes.  The expression between the braces is abstracted to a lookup `ev : List Nat → Ev` (what
`EvalStrStringExpressionWithResult` returns for the text): a string value, "not evaluatable in the first pass" (undefined
symbol) or an evaluation error.  Core-only imports (linked into the driver).
-/
namespace AslModel.StrSymName

abbrev Str := List Nat

/-- result of evaluating the text between the braces -/
inductive Ev where
  | str (v : Str)          -- a string value (already cut to the `String Result` buffer by the evaluator)
  | firstPassUnknown       -- `mFirstPassUnknown`: error 1820
  | evalError (n : Nat)    -- `!EvalResult.OK`: the evaluator has reported error `n`
deriving Repr, DecidableEq

inductive Fault where
  | overflow               -- a `size_t` subtraction wrapped: bytes are written behind the buffer
  | err (n : Nat)          -- `ExpandStrSymbol` returns False after reporting error `n`
  | fuel                   -- not reachable with fuel > length of the name (see `expand`)
deriving Repr, DecidableEq

def errInvSymName : Nat := 1020
def errFirstPassCalc : Nat := 1820

def lbrace : Nat := 123
def rbrace : Nat := 125

def upChar (c : Nat) : Nat := if 97 ≤ c ∧ c ≤ 122 then c - 32 else c
def upString (s : Str) : Str := s.map upChar

/-- `strmaxcat(dest, src, size)`; `none` = `MaxLen - 1 - DLen` wraps -/
def strmaxcat (size : Nat) (dest src : Str) : Option Str :=
  if dest.length + 1 > size then none
  else some (dest ++ src.take (size - 1 - dest.length))

/-- the bounded copy of the literal text in front of a `{`; `none` = `DestSize - 1 - ld` wraps -/
def copyLiteral (size : Nat) (dest lit : Str) : Option Str :=
  if dest.length + lit.length + 1 > size then
    (if dest.length + 1 > size then none else some (dest ++ lit.take (size - 1 - dest.length)))
  else some (dest ++ lit)

/-- `strchr(s, '{')`: text in front of the first `{` and the text behind it -/
def splitAt (c : Nat) : Str → Option (Str × Str)
  | [] => none
  | x :: r => if x = c then some ([], r) else (splitAt c r).map (fun p => (x :: p.1, p.2))

/-- `QuotPos(p, '}')`: the first `}` outside of quotes (single / double quoted text is skipped) -/
def quotPos (c : Nat) : Str → Nat → Option (Str × Str)
  | [], _ => none
  | x :: r, q =>
    if q = 0 ∧ x = c then some ([], r)
    else
      let q' := if q = 0 then (if x = 34 then 1 else if x = 39 then 2 else 0)
                else if (q = 1 ∧ x = 34) ∨ (q = 2 ∧ x = 39) then 0 else q
      (quotPos c r q').map (fun p => (x :: p.1, p.2))

/-- the loop of `ExpandStrSymbol` (`fuel` bounds the number of `{`...`}` groups) -/
def expandAux (size : Nat) (cs : Bool) (ev : Str → Ev) : Nat → Str → Str → Except Fault Str
  | 0, _, _ => .error .fuel
  | fuel + 1, dest, src =>
    match splitAt lbrace src with
    | none =>
      match strmaxcat size dest src with
      | none => .error .overflow
      | some d => .ok d
    | some (lit, behind) =>
      match copyLiteral size dest lit with
      | none => .error .overflow
      | some d1 =>
        match quotPos rbrace behind 0 with
        | none => .error (.err errInvSymName)
        | some (expr, rest) =>
          match ev expr with
          | .evalError n => .error (.err n)
          | .firstPassUnknown => .error (.err errFirstPassCalc)
          | .str v =>
            match strmaxcat size d1 (if cs then v else upString v) with
            | none => .error .overflow
            | some d2 => expandAux size cs ev fuel d2 rest

/-- `ExpandStrSymbol(pDest, DestSize, pSrc)`: `*pDest = 0`, then the loop -/
def expand (size : Nat) (cs : Bool) (ev : Str → Ev) (src : Str) : Except Fault Str :=
  expandAux size cs ev (src.length + 1) [] src

/-- as.c `SplitLine`: the label field is copied into `LabPart` with `strmemcpy(LabPart, STRINGSIZE, ..)` - cut to
`size - 1` characters *including* a colon behind the name - and a colon that is still there is removed.  Names given as
arguments (SECTION, PUSHV) are not cut before they are expanded. -/
def labPart (size : Nat) (raw : Str) (colon : Bool) : Str :=
  let t := (raw ++ (if colon then [58] else [])).take (size - 1)
  if t.getLast? = some 58 then t.dropLast else t

/-! ### what the callers do with the expanded name -/

def isLetter (c : Nat) : Bool := (65 ≤ c ∧ c ≤ 90) ∨ (97 ≤ c ∧ c ≤ 122)
def isDigit (c : Nat) : Bool := 48 ≤ c ∧ c ≤ 57
/-- asmsub.c `ValidSymChar` (7-bit part): first character / following characters of a symbol name -/
def validS1 (c : Nat) : Bool := isLetter c || c = 46 || c = 95
def validSN (c : Nat) : Bool := validS1 c || isDigit c
/-- macro names and macro / function parameter names: letters, then letters and digits -/
def validM1 (c : Nat) : Bool := isLetter c
def validMN (c : Nat) : Bool := isLetter c || isDigit c

/-- `ChkSymbName` -/
def chkSymbName : Str → Bool
  | [] => false
  | c :: r => validS1 c && r.all validSN

/-- `ChkMacSymbName` -/
def chkMacSymbName : Str → Bool
  | [] => false
  | c :: r => validM1 c && r.all validMN

end AslModel.StrSymName
