import AslModel.Model.Data
import AslModel.Spec.DataExt
/-!
# Data-definition statements — MODEL, extension (C09)

Executable transcription of the parts of the anchored functions that `Model/Data.lean` leaves out:

* `asmsub.c` `TranslateString`, `asmpars.c` `NonZString2Int`/`TempResultToInt`/`MultiCharToInt`
  (single-quoted strings up to the operand size become integers), `asmallg.c` `CodeCHARSET`
  (valid statements only) — the active `CharTransTable`;
* `motpseudo.c` `DecodeMotoBYT`, `DecodeMotoADR`, `DecodeFCC` (the string is translated in place
  *once, before* the repeat loop), `DecodeMotoDC` (`CharTransTable[...]` per character inside the loop);
* `intpseudo.c` for every `Grans[ActPC]`: `tCurrCodeFill` arithmetic (`SubCodeFill`, `MultCodeFill`,
  `IncCodeFill`, `IncCurrCodeFill`, `IncCodeFillBy`), `Put4I_To_8/16`, `Put8I_To_8/16`,
  `Put16I/32I/64I_To_8/16`, `Put16F/32F/64F/80F_To_8/16`, `Replicate4_To_8/16`, `Replicate8_To_16`,
  `Replicate8ToN_To_8`, `Replicate16ToN_To_16`, `LayoutNibble/Byte/Word/DoubleWord/QuadWord/TenBytes`,
  `DecodeIntelPseudo_LayoutMult`, `DecodeIntelDx` (final padding of a partly filled word),
  `DecodeIntelDN/DB/DW/DD/DQ/DT` (the `LoHiMap` of every size/granularity pair), `DecodeIntelDS`.

The low-level helpers (`enterInt`, `putByte`, `putADR`, float conversions, `rangeCheck`,
`writeBytes`) are those of `Model/Data.lean`.  Counts are small in the check, so the C widths of
`FullWordCnt`/`LastWordFill` (32-bit) are not modelled.  Not modelled: `SetMaxCodeLen`.
-/
namespace AslModel.DataXModel
open AslModel.PFile (Byte b)
open AslModel.Data AslModel.DataModel AslModel.DataX

/-! ## CharTransTable -/

/-- the table at the start of a pass -/
def tableInit : List Byte := (List.range 256).map b

/-- `CodeCHARSET` (arguments already evaluated and valid) -/
def modelCharset (t : List Byte) : CsOp → List Byte
  | .reset => (List.range 256).foldl (fun t z => t.set z (b z)) t
  | .range start stop tstart =>
    -- for (z = Start; z <= Stop; z++) CharTransTable[z] = TStart + (z - Start);
    (List.range (stop + 1 - start)).foldl (fun t k => t.set (start + k) (b (tstart + k))) t
  | .one start tstart => t.set start (b tstart)
  | .str start cs =>
    if start + cs.length > 256 then t
    else (List.range cs.length).foldl (fun t z => t.set (start + z) (cs.getD z 0)) t

def modelCharsets (ops : List CsOp) : List Byte := ops.foldl modelCharset tableInit

/-- `CharTransTable[c & 0xff]` -/
def ctt (t : List Byte) (c : Byte) : Byte := t.getD c.toNat 0

/-- `TranslateString(s, len)`: in place, every character once -/
def translateString (t : List Byte) (cs : List Byte) : List Byte := cs.map (ctt t)

/-- `NonZString2Int` -/
def nonZString2Int (t : List Byte) (cs : List Byte) : Option Int :=
  if 0 < cs.length ∧ cs.length ≤ 4 then
    some ((cs.foldl (fun r c => r * 256 + (ctt t c).toNat) 0 : Nat) : Int)
  else none

/-- `MultiCharToInt(&t, MaxLen)` on a single-quoted string: `none` = it stays a string; `some v` =
every caller continues at its `ToInt:` label with `Contents.Int = v`.  When `TempResultToInt`
fails (more than four characters) the type becomes `TempNone` but the callers do not look at it;
`Contents.Int` then still overlays the string descriptor, whose first member is the length. -/
def multiCharToInt (mcFix : Bool) (t : List Byte) (maxLen : Nat) (cs : List Byte) : Option Int :=
  if cs.length ≤ maxLen then
    some (match nonZString2Int t cs with
      | some v => v
      | none =>
        if mcFix then ((cs.foldl (fun r c => r * 256 + (ctt t c).toNat) 0 : Nat) : Int)
        else (cs.length : Int))
  else none

/-- self-calibrating probes of the check (set by probing the real binary each run; the specification
never looks at them): which of the recorded defects the current tree still has -/
structure XP where
  sx : Bool        -- string characters above 127 arrive sign-extended in wide elements (`dw "a"` under `charset 97,128` = 80 FF)
  mcFix : Bool     -- `dq 'abcde'` lays the integer $6162636465 (false: it lays the string's length)
  dsBytes : Bool   -- `DS n` on a packed segment reserves `DB n DUP (?)` (false: n address units)
deriving DecidableEq, Repr

/-- a character of a (translated) string handed to a parameter wider than a byte
(`Put16I(str[z])`, `PutADR(str[z])`, `Put80F(str[z])` …): `char` is signed on the build host, so
codes above 127 arrive sign-extended.  `sx` is set by a self-calibrating probe of the check
(`dw "a"` under `charset 97,128`); the specification never sign-extends. -/
def charArg (sx : Bool) (ch : Byte) : Int :=
  if sx && decide (ch.toNat ≥ 128) then (ch.toNat : Int) - 256 else (ch.toNat : Int)

/-! ## motpseudo.c with the character table -/

def cutRepX : XArg → Int × XArg
  | .rep n a => (n, a)
  | a => (1, a)

/-- loop body of `DecodeMotoBYT` (`wide = false`), `DecodeMotoADR` (`wide = true`), `DecodeFCC` (`strOnly`) -/
def moto8ArgX (c : MCfg) (p : XP) (t : List Byte) (wide strOnly : Bool) (st : MSt) (arg : XArg) : Option MSt :=
  let (rep, a) := cutRepX arg
  let put := if wide then putADR c else putByte c
  let strPath (cs : List Byte) : Option MSt :=
    if st.space = 1 then none
    else
      -- TranslateString(...) first, then `for (z2 = 0; z2 < Rep; z2++) for (z3 ...) Put(str[z3])`
      let sv := translateString t cs
      some { st with space := 0, buf := iterate (fun bf => sv.foldl (fun bf ch => put bf (largeWord (charArg (p.sx && wide) ch))) bf) rep.toNat st.buf }
  let intPath (v : Int) : Option MSt :=
    if st.space = 1 then none
    else
      let v := largeInt v
      if !rangeCheck v (if wide then Generated.itInt16 else Generated.itInt8) then none
      else some { st with space := 0, buf := iterate (fun bf => put bf (largeWord v)) rep.toNat st.buf }
  if strOnly then
    match a with
    | .str cs | .chr cs =>
      let sv := translateString t cs
      some { st with buf := iterate (fun bf => sv.foldl (fun bf ch => putByte c bf ch.toNat) bf) rep.toNat st.buf }
    | _ => none
  else
  match a with
  | .q =>
    if st.space = 0 then none
    else some { st with space := 1, res := st.res + (if wide then 2 * rep else rep) }
  | .int v => intPath v
  | .str cs => strPath cs
  | .chr cs =>
    match multiCharToInt p.mcFix t (if wide then 2 else 1) cs with
    | some v => intPath v
    | none => strPath cs
  | _ => none

def moto8ArgsX (c : MCfg) (p : XP) (t : List Byte) (wide strOnly : Bool) : XArgs → MSt → Option MSt
  | .nil, st => some st
  | .cons a as, st => match moto8ArgX c p t wide strOnly st a with
    | none => none
    | some st' => moto8ArgsX c p t wide strOnly as st'

def decodeMoto8X (c : MCfg) (p : XP) (t : List Byte) (wide strOnly : Bool) (as : XArgs) : Option SRes :=
  match moto8ArgsX c p t wide strOnly as {} with
  | none => none
  | some st => some ⟨none, mkOut (st.space == 1) st.res (writeBytes c st.buf), []⟩

/-- body of the `forallargs` loop of `DecodeMotoDC` -/
def motoDCArgX (c : MCfg) (p : XP) (t : List Byte) (e : Elem) (st : MSt) (arg : XArg) : Option MSt :=
  let (rep, a) := cutRepX arg
  match a with
  | .q =>
    if st.space = 0 then none
    else
      let st := doPad st true
      some { st with space := 1, res := st.res + rep * e.bytes }
  | .rep _ _ => none
  | .dup _ _ => none
  | a =>
    if st.space = 1 then none
    else
      let st := doPad { st with space := 0 } false
      let asFloat (bits : Nat) (st : MSt) : Option MSt :=
        match e.flt with
        | none => none
        | some k =>
          if !floatRangeCheck bits k then none
          else repeatM (motoEnterFloat c k bits) rep.toNat st
      let intPath (v : Int) : Option MSt :=
        let v := largeInt v
        if e.intOK then
          if !rangeCheck v (intTypeOfBytes e.bytes) then none
          else some { st with buf := iterate (fun bf => enterInt c.lg e.bytes bf (largeWord v)) rep.toNat st.buf }
        else asFloat (intToDouble v) st
      let strPath (cs : List Byte) : Option MSt :=
        if e.intOK then
          -- EnterInt(CharTransTable[*zp]) inside both loops: the string itself is not modified
          some { st with buf := iterate (fun bf => cs.foldl (fun bf ch => enterInt c.lg e.bytes bf (ctt t ch).toNat) bf) rep.toNat st.buf }
        else match e.flt with
          | none => none
          | some k => repeatM (motoChars (fun ch s => motoEnterFloat c k (natToDouble (ctt t (b ch)).toNat) s) cs) rep.toNat st
      match a with
      | .int v => intPath v
      | .flt bits => asFloat bits st
      | .str cs => strPath cs
      | .chr cs =>
        match multiCharToInt p.mcFix t (if e.bytes < 8 then e.bytes else 8) cs with
        | some v => intPath v
        | none => strPath cs
      | _ => none

def motoDCArgsX (c : MCfg) (p : XP) (t : List Byte) (e : Elem) : XArgs → MSt → Option MSt
  | .nil, st => some st
  | .cons a as, st => match motoDCArgX c p t e st a with
    | none => none
    | some st' => motoDCArgsX c p t e as st'

def decodeMotoDCX (c : MCfg) (p : XP) (t : List Byte) (pc : Nat) (e : Elem) (as : XArgs) : Option SRes :=
  let padBeforeStart := pc % 2 == 1 && c.padding && decide (e.bytes ≠ 1)
  match motoDCArgsX c p t e as { padPending := padBeforeStart } with
  | none => none
  | some st => some ⟨st.pad, mkOut (st.space == 1) st.res (writeBytes c st.buf), st.wild⟩

/-! ## intpseudo.c for any granularity -/

/-- the constants of `struct sLayoutCtx` set by `DecodeIntelDN/DB/…` and `DecodeIntelDx` -/
structure XCtx where
  g : Nat        -- FullWordSize = Grans[ActPC]
  bits : Nat     -- BaseElemLenBits
  loHi : Nat     -- LoHiMap

/-- ElemsPerFullWord -/
def XCtx.k (cx : XCtx) : Nat := 8 * cx.g / cx.bits

/-- `LoHiMap` as set by `DecodeIntelDN/DB/DW/DD/DQ/DT` for (BaseElemLenBits, Grans[ActPC], BigEndian flag) -/
def loHiMapOf (bits g : Nat) (big : Bool) : Nat :=
  if !big then 0
  else match bits, g with
    | 4, 1 => 1
    | 4, 2 => 3
    | 8, 2 => 1
    | 16, 1 => 1
    | 32, 1 => 3
    | 32, 2 => 1
    | 64, 1 => 7
    | 64, 2 => 3
    | 80, 1 => 1
    | 80, 2 => 1
    | _, _ => 0          -- DB on bytes, DW on 16-bit words: not set (memset 0)

structure Fill where
  fw : Int       -- FullWordCnt
  lw : Int       -- LastWordFill
deriving DecidableEq, Repr

/-- `SubCodeFill`: c = a - b -/
def subCodeFill (k : Nat) (a bb : Fill) : Fill :=
  let fw := a.fw - bb.fw
  let lw := a.lw - bb.lw
  if lw < 0 then ⟨fw - 1, lw + k⟩ else ⟨fw, lw⟩

/-- `MultCodeFill`: b *= a -/
def multCodeFill (k : Nat) (bb : Fill) (a : Nat) : Fill :=
  let fw := bb.fw * a
  let lw := bb.lw * a
  if k > 1 then ⟨fw + lw / k, lw % k⟩ else ⟨fw, lw⟩

/-- `IncCodeFillBy`: a += inc -/
def incCodeFillBy (k : Nat) (a inc : Fill) : Fill :=
  let lw := a.lw + inc.lw
  if k > 1 ∧ lw ≥ k then ⟨a.fw + 1 + inc.fw, lw - k⟩ else ⟨a.fw + inc.fw, lw⟩

/-- `IncCodeFill`: advance by one base element -/
def incCodeFill (k : Nat) (p : Nat × Nat) : Nat × Nat :=
  if p.2 + 1 ≥ k then (p.1 + 1, p.2 + 1 - k) else (p.1, p.2 + 1)

/-- `FillIncPerElem` as computed by `DecodeIntelDx` -/
def fillIncPerElem (cx : XCtx) : Fill :=
  if cx.k > 1 then ⟨0, 1⟩ else ⟨((cx.bits / (8 * cx.g) : Nat) : Int), 0⟩

structure XSt where
  mem : List Nat := []     -- BAsmCode (g = 1) resp. WAsmCode (g = 2), indexed by full word
  fw : Nat := 0            -- CurrCodeFill.FullWordCnt
  lw : Nat := 0            -- CurrCodeFill.LastWordFill
  ds : DS := .none
deriving DecidableEq

def memSet (mem : List Nat) (i v : Nat) : List Nat :=
  if i < mem.length then mem.set i v else mem ++ List.replicate (i - mem.length) 0 ++ [v]

def memGet (mem : List Nat) (i : Nat) : Nat := mem.getD i 0

def XSt.fill (st : XSt) : Fill := ⟨st.fw, st.lw⟩

def XSt.withFill (st : XSt) (f : Fill) : XSt := { st with fw := f.fw.toNat, lw := f.lw.toNat }

/-- `SetDSFlag` -/
def setDSX (st : XSt) (f : DS) : Option XSt :=
  if st.ds ≠ .none ∧ st.ds ≠ f then none else some { st with ds := f }

/-- `IncCurrCodeFill`: a newly entered word is cleared -/
def incCurrCodeFill (cx : XCtx) (st : XSt) : XSt :=
  let p := incCodeFill cx.k (st.fw, st.lw)
  if p.1 = st.fw then { st with fw := p.1, lw := p.2 }
  else { st with fw := p.1, lw := p.2, mem := memSet st.mem p.1 0 }

/-- `Put4I_To_8`, `Put4I_To_16`, `Put8I_To_16`: an element of `eb` bits into its place of the current word -/
def putPacked (cx : XCtx) (eb : Nat) (v : Nat) (st : XSt) : XSt :=
  let st1 := incCurrCodeFill cx st
  let x := (v % 2 ^ eb) * 2 ^ (eb * (st.lw ^^^ cx.loHi))
  if st.lw = 0 then { st1 with mem := memSet st1.mem st.fw x }
  else { st1 with mem := memSet st1.mem st.fw (memGet st1.mem st.fw ||| x) }

/-- `Replicate4_To_8`, `Replicate4_To_16`, `Replicate8_To_16`: element by element from the DUP's
start position up to its end position -/
def replLoop (cx : XCtx) (eb : Nat) : Nat → Nat × Nat → Nat × Nat → XSt → XSt
  | 0, _, _, st => st
  | f + 1, cur, stop, st =>
    if cur = stop then st
    else
      let v := memGet st.mem cur.1 / 2 ^ (eb * (cur.2 ^^^ cx.loHi)) % 2 ^ eb
      replLoop cx eb f (incCodeFill cx.k cur) stop (putPacked cx eb v st)

def writeAt (mem : List Nat) (i : Nat) : List Nat → List Nat
  | [] => mem
  | v :: vs => writeAt (memSet mem i v) (i + 1) vs

/-- an element that occupies whole words: `BAsmCode[fw + i] = …; fw += n` -/
def putCells (st : XSt) (cells : List Nat) : XSt :=
  { st with mem := writeAt st.mem st.fw cells, fw := st.fw + cells.length }

/-- `PutnI_To_16`: 16-bit part `i` of the value goes to `WAsmCode[fw + (i ^ LoHiMap)]` -/
def putMappedW (n loHi : Nat) (u : Nat) : List Nat :=
  (List.range n).map fun p => u / 65536 ^ (p ^^^ loHi) % 65536

/-- `PutnF_To_16`: `ByteInWord(Tmp[2j], 0 ^ m) | ByteInWord(Tmp[2j+1], 1 ^ m)` -/
def pairWords (m : Nat) : List Byte → List Nat
  | x :: y :: rest => (x.toNat * 2 ^ (8 * (0 ^^^ m)) ||| y.toNat * 2 ^ (8 * (1 ^^^ m))) :: pairWords m rest
  | _ => []

/-- outcome of a `Layout*` call: `err` = False after an error message, `silent` = False without any
message, `crash` = call through a NULL `Put*` pointer (no `case` for this granularity) -/
inductive XLR where
  | ok (st : XSt)
  | err
  | silent
  | crash
deriving DecidableEq

def XLR.ofOption : Option XSt → XLR
  | some s => .ok s
  | none => .err

/-- integer element of `bits` ≥ 8 (`Put8I/16I/32I/64I`) -/
def putInt (cx : XCtx) (u : Nat) (st : XSt) : XSt :=
  if cx.g = 1 then putCells st ((putMapped (cx.bits / 8) cx.loHi u).map UInt8.toNat)
  else if cx.bits = 8 then putPacked cx 8 u st
  else putCells st (putMappedW (cx.bits / 16) cx.loHi u)

/-- float element (`Put16F/32F/64F/80F`): conversion with `NeedsBig = !!LoHiMap` -/
def putFloatBytes (cx : XCtx) (bytes : List Byte) (st : XSt) : XSt :=
  if cx.g = 1 then putCells st (bytes.map UInt8.toNat)
  else putCells st (pairWords (cx.loHi % 2) bytes)

/-- is there a `Put*` function for this size on this granularity (`switch (Grans[ActPC])`)? -/
def hasPut (cx : XCtx) : Bool := cx.g = 1 || cx.g = 2

/-- `LayoutNibble/Byte/Word/DoubleWord/QuadWord/TenBytes` for one evaluated argument -/
def layoutLeafX (c : MCfg) (p : XP) (cx : XCtx) (t : List Byte) (st : XSt) (a : XArg) : XLR :=
  let big : Bool := cx.loHi != 0
  let intPath (v : Int) : XLR :=
    let v := largeInt v
    match cx.bits with
    | 4 =>
      if !rangeCheck v Generated.itInt4 then .err
      else if !hasPut cx then .crash
      else .ok (putPacked cx 4 (largeWord v % 256 % 16) st)
    | 8 =>
      if !rangeCheck v Generated.itInt8 then .err
      else if !hasPut cx then .crash
      else .ok (putInt cx (largeWord v) st)
    | 16 =>
      if !hasPut cx then .err            -- Put16I and Put16F are NULL: "expected string or integer"
      else if !rangeCheck v Generated.itInt16 then .err
      else .ok (putInt cx (largeWord v) st)
    | 32 =>
      if !hasPut cx then .err
      else if !rangeCheck v Generated.itInt32 then .err
      else .ok (putInt cx (largeWord v) st)
    | 64 =>
      if !hasPut cx then .err
      else .ok (putInt cx (largeWord v) st)
    | _ =>
      if !hasPut cx then .crash
      else .ok (putFloatBytes cx (ieee10Bytes big (intToDouble v)) st)
  let fltPath (x : Nat) : XLR :=
    match cx.bits with
    | 16 =>
      if !hasPut cx then .err
      else if !floatRangeCheck x .half then .err
      else match ieee2Bytes c.fixHalf big x with
        | some bs => .ok (putFloatBytes cx bs st)
        | none => .err
    | 32 =>
      if !hasPut cx then .err
      else if !floatRangeCheck x .single then .err
      else .ok (putFloatBytes cx (ieee4Bytes big x) st)
    | 64 => if !hasPut cx then .err else .ok (putFloatBytes cx (ieee8Bytes big x) st)
    | 80 => if !hasPut cx then .crash else .ok (putFloatBytes cx (ieee10Bytes big x) st)
    | _ => .err
  let strPath (cs : List Byte) : XLR :=
    if cx.bits = 4 then .err                    -- LayoutNibble: "expected integer, but got string"
    else if !hasPut cx then .crash
    else
      -- TranslateString first, then one Put per character
      let sv := translateString t cs
      if cx.bits = 80 then .ok (sv.foldl (fun st ch => putFloatBytes cx (ieee10Bytes big (intToDouble (charArg p.sx ch))) st) st)
      else .ok (sv.foldl (fun st ch => putInt cx (largeWord (charArg (p.sx && decide (cx.bits > 8)) ch)) st) st)
  match a with
  | .int v => intPath v
  | .flt x => fltPath x
  | .str cs => strPath cs
  | .chr cs =>
    if cx.bits = 4 then .err
    else
      match multiCharToInt p.mcFix t (if cx.bits = 80 then 4 else cx.bits / 8) cs with
      | some v => intPath v
      | none => strPath cs
  | _ => .err

/-- `pCtx->Replicate(&DUPStartFill, &DUPEndFill, pCtx)` -/
def replicateX (cx : XCtx) (start stop : Nat × Nat) (st : XSt) : XSt :=
  if cx.k > 1 then replLoop cx cx.bits ((stop.1 + 1 - start.1) * cx.k) start stop st
  else putCells st ((st.mem.drop start.1).take (stop.1 - start.1))    -- Replicate8ToN_To_8 / Replicate16ToN_To_16

mutual
/-- `DecodeIntelPseudo_LayoutMult` -/
def layoutMultX (c : MCfg) (p : XP) (cx : XCtx) (t : List Byte) : XArg → XSt → XLR
  | .dup n as, st =>
    if n ≤ 0 then .ok st
    else
      match layoutMultLX c p cx t as st with
      | .ok st' =>
        match st'.ds with
        | .const => .ok (iterate (replicateX cx (st.fw, st.lw) (st'.fw, st'.lw)) (n.toNat - 1) st')
        | .space =>
          let diff := multCodeFill cx.k (subCodeFill cx.k st'.fill st.fill) (n.toNat - 1)
          .ok (st'.withFill (incCodeFillBy cx.k st'.fill diff))
        | .none => .ok st'      -- the body laid nothing (only DUPs with count <= 0): nothing to replicate (repair b951363; silent failure before)
      | r => r
  | .q, st =>
    match setDSX st .space with
    | none => .err
    | some s => .ok (s.withFill (incCodeFillBy cx.k s.fill (fillIncPerElem cx)))
  | .rep _ _, _ => .err
  | a, st =>
    -- "the Put.../Replicate functions only exist for 8- and 16-bit granular segments" (repair 3178fe5: error 1995)
    if !hasPut cx then .err
    else
    match setDSX st .const with
    | none => .err
    | some s => layoutLeafX c p cx t s a
/-- the argument loop (of `DecodeIntelDx` and of the DUP body) -/
def layoutMultLX (c : MCfg) (p : XP) (cx : XCtx) (t : List Byte) : XArgs → XSt → XLR
  | .nil, st => .ok st
  | .cons a as, st =>
    match layoutMultX c p cx t a st with
    | .ok st' => layoutMultLX c p cx t as st'
    | r => r
end

/-- result of one statement on a segment of `g`-byte units -/
inductive XRes where
  | err
  | crash
  | ok (r : SRes)
deriving DecidableEq

/-- the code of `CodeLen` full words as the code file shows it -/
def wordsToBytes (c : MCfg) (g : Nat) (ws : List Nat) : List Byte :=
  if g = 1 then ws.map b
  else writeBytes c (ws.flatMap storeWord)

/-- `DecodeIntelDx`: `Out.data` = bytes of whole units, `Out.space` = units -/
def decodeIntelDxX (c : MCfg) (p : XP) (g bits : Nat) (t : List Byte) (as : XArgs) : XRes :=
  let cx : XCtx := ⟨g, bits, loHiMapOf bits g c.ibig⟩
  match layoutMultLX c p cx t as {} with
  | .err => .err
  | .crash => .crash
  | .silent => .ok ⟨none, .empty, []⟩
  | .ok st =>
    -- "Padding added"
    let fw := if st.lw ≠ 0 then st.fw + 1 else st.fw
    if st.ds == .space then .ok ⟨none, (if fw = 0 then .empty else .space fw), []⟩
    else
      let ws := (List.range fw).map (memGet st.mem)
      .ok ⟨none, (if fw = 0 then .empty else .data (wordsToBytes c g ws)), []⟩

def XRes.ofOption : Option SRes → XRes
  | some r => .ok r
  | none => .err

def modelStmtX (c : MCfg) (p : XP) (g : Nat) (t : List Byte) (pc : Nat) : XStmt → XRes
  | .dc e as => .ofOption (decodeMotoDCX c p t pc e as)
  | .byt as => .ofOption (decodeMoto8X c p t false false as)
  | .adr as => .ofOption (decodeMoto8X c p t true false as)
  | .fcc as => .ofOption (decodeMoto8X c p t false true as)
  | .dfs n => .ofOption (decodeMotoDFS n)
  | .ix bits _ _ as => decodeIntelDxX c p g bits t as
  | .ds n =>
    -- CodeLen = HVal: address units
    if p.dsBytes then .ofOption ((decodeIntelDS n).map fun r =>
      match r.out with
      | .space k => { r with out := .space ((k + g - 1) / g) }
      | _ => r)
    else .ofOption (decodeIntelDS n)
  | .raw bs => .ok ⟨none, .data bs, []⟩

/-- outcome of a slot -/
inductive XRun where
  | err
  | crash
  | ok (cells : Cells) (pcEnd : Nat) (wild : List Nat)
deriving DecidableEq

/-- statements at consecutive addresses (in units); cells are (byte offset, byte) -/
def modelRunX (c : MCfg) (p : XP) (g : Nat) (t : List Byte) : Nat → List XStmt → XRun
  | pc, [] => .ok [] pc []
  | pc, st :: rest =>
    match modelStmtX c p g t pc st with
    | .err => .err
    | .crash => .crash
    | .ok r =>
      let (padCells, pc1) : Cells × Nat :=
        match r.pad with
        | some false => ([(pc * g, (0 : Byte))], pc + 1)
        | some true => ([], pc + 1)
        | none => ([], pc)
      let (cs, pc2) : Cells × Nat :=
        match r.out with
        | .data bs => (cellsAt (pc1 * g) bs, pc1 + (bs.length + g - 1) / g)
        | .space n => ([], pc1 + n)
        | .empty => ([], pc1)
      match modelRunX c p g t pc2 rest with
      | .ok rc pcEnd w => .ok (padCells ++ cs ++ rc) pcEnd (r.wild.map (· + pc1) ++ w)
      | r' => r'

end AslModel.DataXModel
