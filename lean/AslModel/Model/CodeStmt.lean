import AslModel.Model.CodeFile
import AslModel.Model.BInclude
/-!
# MODEL (C04): statements that reach `WriteBytes` more than once, and several sources in one `asl` run

`Model/CodeFile.lean` describes what *one* call of `WriteCode()` does to the code file (`Ev.emit` / `Ev.jump`).
Two things lie above that layer and can be seen in the code file:

* **`BINCLUDE`** (`asmallg.c CodeBINCLUDE`) does not go through `WriteCode` for its data.  It reads the file in blocks
  of at most 256 bytes and calls `WriteBytes()` itself for every block, adding the block length to `PCs[ActPC]` *after
  every block* (`WriteBytes` opens a continuation record at `ProgCounter()` when the 0xffff limit is reached, so the
  counter has to be the address of the block).  Behind the loop it restores the counter, sets `CodeLen` to the number of
  bytes transferred and `DontPrint`; `WriteCode` then calls `NewRecord(PC + CodeLen)`.  `bincludeEvs` is that sequence
  as events of the record machine: one `emit` per block, then a `jump` to the address behind the data in the unchanged
  context.  `CodeLen` counts address units: `CodeLen = (RLen + Gran - 1) / Gran`, a partial last unit is filled with
  zeros (`padUnits`; since the repair of `binclude-word-granular-segment`).
* **One `asl` call with several sources** (`as.c`: `AssembleFile` per argument, `AssembleFile_InitPass` at the start of
  every pass of every source): the globals `StartAdrPresent` / `StartAdr` (asmdef.c) are written by `CodeEND` and read by
  `CloseFile`; they survive from pass to pass and from source to source unless `AssembleFile_InitPass` clears the flag.

Core-only imports (linked into the driver).
-/
namespace AslModel.CodeFile
open AslModel.PFile

/-! ## BINCLUDE -/

/-- the blocks the transfer loop hands to `WriteBytes`, one call each

    do { Curr = (Rest <= 256) ? Rest : 256;  RLen = fread(BAsmCode, 1, Curr, F);
         CodeLen = RLen; WriteBytes(); PCs[ActPC] += CodeLen;  Rest -= RLen; }
    while ((Rest != 0) && (RLen == Curr));

(same recursion as `BInclude.xfer`, which returns the concatenation) -/
def chunks (file : List Byte) (pos rest : Nat) : List (List Byte) :=
  if rest - (BInclude.block file pos rest).length ≠ 0 ∧ (BInclude.block file pos rest).length = BInclude.blockLen rest then
    BInclude.block file pos rest ::
      chunks file (pos + (BInclude.block file pos rest).length) (rest - (BInclude.block file pos rest).length)
  else [BInclude.block file pos rest]
termination_by rest
decreasing_by
  rename_i h
  have h2 := h.2
  have h1 := h.1
  unfold BInclude.blockLen at h2
  split at h2 <;> omega

/-- `Len`: the third argument, or `FSize - Ofs` (a negative difference is refused with "unexpected end of file"
before anything is written; `StmtsWF` asks for `ofs ≤ file.length`) -/
def bincLen (file : List Byte) (ofs : Nat) (len : Option Nat) : Nat :=
  match len with
  | some l => l
  | none => file.length - ofs

/-- a source statement as far as the code file can see it -/
inductive Stmt where
  /-- a statement that goes through `WriteCode` once -/
  | ev (e : Ev)
  /-- `BINCLUDE "file"[,ofs[,len]]` with the file's contents -/
  | binclude (file : List Byte) (ofs : Nat) (len : Option Nat)
deriving Repr, Inhabited

/-- `CodeLen = (RLen + Gran - 1) / Gran; memset(BAsmCode + RLen, 0, CodeLen * Gran - RLen);`: what `WriteBytes`
takes from `BAsmCode` for a block of `RLen` bytes in a segment with `g`-byte address units -/
def padUnits (g : Nat) (blk : List Byte) : List Byte :=
  blk ++ List.replicate ((blk.length + g - 1) / g * g - blk.length) 0

/-- the blocks of one `BINCLUDE` as `WriteBytes` sees them -/
def bincChunks (g : Nat) (file : List Byte) (ofs : Nat) (len : Option Nat) : List (List Byte) :=
  (chunks file ofs (bincLen file ofs len)).map (padUnits g)

/-- address units transferred by one `BINCLUDE` (`ProgCounter() - OldPC` behind the loop: the sum of the `CodeLen`s) -/
def bincUnits (g : Nat) (file : List Byte) (ofs : Nat) (len : Option Nat) : Nat :=
  ((bincChunks g file ofs len).map (fun blk => blk.length / g)).sum

/-- `CodeBINCLUDE` + `WriteCode` as events: every block is a `WriteBytes` call at the advanced counter, then
`NewRecord(OldPC + CodeLen)` because of `DontPrint` -/
def bincludeEvs (c : Ctx) (pc : Nat) (file : List Byte) (ofs : Nat) (len : Option Nat) : List Ev :=
  (bincChunks c.gran.toNat file ofs len).map Ev.emit ++ [Ev.jump c (pc + bincUnits c.gran.toNat file ofs len)]

/-- statements → `WriteBytes`/`NewRecord` events; `c`, `pc`: context and counter in front of the first statement -/
def expand (c : Ctx) (pc : Nat) : List Stmt → List Ev
  | [] => []
  | .ev (.emit bs) :: r => .emit bs :: expand c (pc + bs.length / c.gran.toNat) r
  | .ev (.jump c' pc') :: r => .jump c' pc' :: expand c' pc' r
  | .binclude f o l :: r => bincludeEvs c pc f o l ++ expand c (pc + bincUnits c.gran.toNat f o l) r

/-! ## what the source specifies -/

/-- the manual on `BINCLUDE <file>,<offset>,<length>`: "`<length>` bytes are included starting at `<offset>`";
without `<length>`: "starting at `<offset>` up to the file's end"; without both: "the file is completely included" -/
def included (file : List Byte) (ofs : Nat) (len : Option Nat) : List Byte :=
  match len with
  | some l => (file.drop ofs).take l
  | none => file.drop ofs

/-- the cells a statement list specifies: a `BINCLUDE` is *one* statement that lays down the included bytes at
consecutive addresses from the statement's address on -/
def specCellsS (c : Ctx) (pc : Nat) : List Stmt → List Cell
  | [] => []
  | .ev (.emit bs) :: r => cellsFrom c.cpu c.seg c.gran (pc * c.gran.toNat) bs ++ specCellsS c (pc + bs.length / c.gran.toNat) r
  | .ev (.jump c' pc') :: r => specCellsS c' pc' r
  | .binclude f o l :: r =>
      cellsFrom c.cpu c.seg c.gran (pc * c.gran.toNat) (included f o l) ++
        specCellsS c (pc + (included f o l).length / c.gran.toNat) r

/-- statements emit whole granules; a `BINCLUDE` names bytes the file has, a whole number of address units of them
(the manual counts bytes and does not say what a partial unit would be), and the address unit divides the 256-byte
block of the transfer loop (1, 2, 4 and 8 do) -/
def StmtsWF (c : Ctx) : List Stmt → Prop
  | [] => True
  | .ev (.emit bs) :: r => c.gran.toNat ≠ 0 ∧ bs.length % c.gran.toNat = 0 ∧ StmtsWF c r
  | .ev (.jump c' _) :: r => StmtsWF c' r
  | .binclude f o l :: r =>
      c.gran.toNat ≠ 0 ∧ 256 % c.gran.toNat = 0 ∧ bincLen f o l % c.gran.toNat = 0 ∧ o + bincLen f o l ≤ f.length ∧ StmtsWF c r

/-- no single `WriteCode` statement hands more than 65535 bytes to `WriteBytes` (`SetMaxCodeLen`); a `BINCLUDE` may
be of any length -/
def StmtsFit : List Stmt → Prop
  | [] => True
  | .ev (.emit bs) :: r => bs.length ≤ 65535 ∧ StmtsFit r
  | .ev (.jump _ _) :: r => StmtsFit r
  | .binclude _ _ _ :: r => StmtsFit r

/-! ## several sources in one run -/

/-- how a source ends -/
inductive EndStmt where
  /-- no `END` statement -/
  | absent
  /-- `END` without operand -/
  | plain
  /-- `END <address>` -/
  | addr (a : Nat)
deriving Repr, DecidableEq, Inhabited

/-- what the manual says about the entry record: "`END` may optionally have an integer expression as argument that
marks the program's entry point.  AS stores this in the code file with a special record" (and doc/file-formats.md:
"Such a record is the result of an `END` statement with a corresponding address as argument") -/
def specEntries : EndStmt → List Nat
  | .addr a => [a]
  | _ => []

/-- one source of the command line -/
structure Src where
  ctx : Ctx
  pc0 : Nat
  stmts : List Stmt
  endS : EndStmt
  /-- passes after the first one (every pass re-reads the source and rewrites the code file) -/
  morePasses : Nat := 0
  creator : List Byte
deriving Repr

/-- the globals of asmdef.c that `CodeEND` writes and `CloseFile` reads -/
structure Glob where
  startAdrPresent : Bool := false
  startAdr : Nat := 0
deriving Repr, DecidableEq

/-- `AssembleFile_InitPass`: `StartAdrPresent = False;` (`StartAdr` keeps its old value) -/
def initPass (g : Glob) : Glob := { g with startAdrPresent := false }

/-- `CodeEND`: with an operand `StartAdr = HVal; StartAdrPresent = True;` -/
def codeEND (g : Glob) : EndStmt → Glob
  | .addr a => { startAdrPresent := true, startAdr := a }
  | _ => g

/-- `CloseFile`: `if (StartAdrPresent) { ... Adr = StartAdr; Write4 ... }` -/
def entryOf (g : Glob) : Option Nat := if g.startAdrPresent then some g.startAdr else none

/-- one pass over one source: the code file of that pass and the globals behind it -/
def onePass (g : Glob) (s : Src) : Glob × List Byte :=
  let g2 := codeEND (initPass g) s.endS
  (g2, writeCodeFile s.ctx s.pc0 (expand s.ctx s.pc0 s.stmts) (entryOf g2) s.creator)

/-- `n` further passes; the file of the last pass is the one that stays on disk -/
def morePasses (s : Src) : Nat → Glob × List Byte → Glob × List Byte
  | 0, r => r
  | n + 1, r => morePasses s n (onePass r.1 s)

/-- `AssembleFile` -/
def assembleFile (g : Glob) (s : Src) : Glob × List Byte := morePasses s s.morePasses (onePass g s)

/-- `asl src1 src2 ...`: the code files, in the order of the command line -/
def session (g : Glob) : List Src → List (List Byte)
  | [] => []
  | s :: r => (assembleFile g s).2 :: session (assembleFile g s).1 r

/-- the same source as the only argument of its own `asl` call (zero-initialised globals) -/
def alone (s : Src) : List Byte := (assembleFile {} s).2

end AslModel.CodeFile
