/-! MODEL for C01, part "operand positions" on the 6809/6309: transcription of the program-counter relative branch of
`code6809.c DecodeAdr` (`n,PCR` / `n,PC`, optionally indirect, with `<` / `>` forcing the offset length),

    AdrInt = value - (EProgCounter() + 2 + OpcodeLen + Ord(ExtFlag));     /* `Integer`: 16 bit, wraps */
    (ZeroMode == 2) || ((ZeroMode == 0) && MayShort(AdrInt))  ->  postbyte 0x8c, Lo(AdrInt)       (OverRange unless MayShort)
    else                                                      ->  AdrInt--; postbyte 0x8d, Hi(AdrInt), Lo(AdrInt)

and of the callers that decide what stands in front of the postbyte (`OpcodeLen`): `DecodeALU`
(`1 + !!Hi(pOrder->Code)`: page-2/3 prebyte), `DecodeRMW` / `DecodeLEA` (1), `DecodeLDQ` (2), `DecodeImm` (HD6309
OIM/AIM/EIM/TIM: opcode and immediate byte, `DecodeAdr(2, ArgCnt, 2)`).  `ExtFlag` is never set in this file (0).
State of the last pass.  Core only. -/
namespace AslModel.Model.M6809Pcr

/-- what the decode function puts in front of the postbyte -/
inductive Head
  | page1 (op : Nat)               -- opcode of the indexed form (`Code + 0x20` / `Code + 0x60` / LEA)
  | page23 (pre : Nat) (op : Nat)  -- `Hi(Code)` = 0x10 / 0x11, then the opcode
  | imm (op : Nat) (v : Nat)       -- `DecodeImm`: `Code + 0x60`, immediate byte
deriving Repr

def Head.bytes : Head → List Nat
  | .page1 op => [op]
  | .page23 pre op => [pre, op]
  | .imm op v => [op, v % 256]

/-- the `OpcodeLen` argument the caller passes to `DecodeAdr` -/
def Head.opcodeLen : Head → Nat
  | .page1 _ => 1
  | .page23 _ _ => 2       -- 1 + !!Hi(pOrder->Code)
  | .imm _ _ => 2          -- DecodeAdr(2, ArgCnt, 2)

/-- `ChkZero`: no prefix / `<` / `>` -/
inductive ZeroMode
  | auto | short | long
deriving DecidableEq, Repr

inductive Err
  | overRange
deriving DecidableEq, Repr

/-- `MayShort`: `(Arg >= -128) && (Arg < 127)` -/
def mayShort (d : Int) : Bool := decide (-128 ≤ d ∧ d < 127)

/-- a value stored in an `Integer` (16 bit, two's complement) -/
def int16 (i : Int) : Int := (i + 32768) % 65536 - 32768

def lo (i : Int) : Nat := (i % 256).toNat
def hi (i : Int) : Nat := (i / 256 % 256).toNat

/-- postbyte and offset bytes of `n,PCR` (`ind`: in square brackets) -/
def decodeAdrPcr (opcodeLen : Nat) (ind : Bool) (zm : ZeroMode) (epc value : Int) : Except Err (List Nat) :=
  let adr := int16 (int16 value - (epc + 2 + opcodeLen))
  let i := if ind then 16 else 0
  if zm = .short ∨ (zm = .auto ∧ mayShort adr = true) then
    if !mayShort adr then .error .overRange else .ok [i + 0x8c, lo adr]
  else
    let adr' := int16 (adr - 1)
    .ok [i + 0x8d, hi adr', lo adr']

/-- the instruction bytes (`memcpy(BAsmCode + CodeLen, AdrVals, AdrCnt)` behind the head) -/
def encode (h : Head) (ind : Bool) (zm : ZeroMode) (epc value : Int) : Except Err (List Nat) :=
  match decodeAdrPcr h.opcodeLen ind zm epc value with
  | .error e => .error e
  | .ok v => .ok (h.bytes ++ v)

end AslModel.Model.M6809Pcr
