import AslModel.Model.Data
import AslModel.Spec.DataSwitch
/-!
# Data statements behind CPU switches — MODEL (C09)

Transcription of the one piece of `motpseudo.c` that outlives a statement:

```c
static Boolean M16Turn = False;
Boolean DecodeMotoPseudo(Boolean Turn) { …; M16Turn = Turn; return LookupInstTable(InstTable, OpPart.str.p_str); }
```

`PutByte()`/`PutADR()` read `M16Turn`.  The code generators `code65.c`, `code7700.c` call
`DecodeMotoPseudo(False)`, `code68.c`, `code6804.c`, `code6805.c`, `code6809.c`, `code6812.c`, `code6816.c`,
`code68rs08.c`, `codes12z.c`, `codest7.c`, `codexgate.c` call `DecodeMotoPseudo(True)` at the start of
`MakeCode` for **every** statement (so also before their own `DB`/`DW` entries, which are `DecodeMotoBYT`/
`DecodeMotoADR`); `codest6.c` has `BYTE`/`WORD`/`BLOCK` = `DecodeMotoBYT/ADR/DFS` in its own table and never
calls `DecodeMotoPseudo` — its `WORD` sees whatever the last statement of another family left in the flag
(`False` when the process started).  The flag is a C static: it survives CPU switches, passes and source files
of one run.

Everything inside a statement is `Model/Data.lean` (`modelRun` with `MCfg.mturn` = the flag).
-/
namespace AslModel.DataSwModel
open AslModel.PFile (Byte b)
open AslModel.Data AslModel.DataModel AslModel.DataSw

/-- a target as its code generator presents it to motpseudo.c -/
structure SwCpu where
  cfg : MCfg          -- `mturn` is replaced by the running flag
  turn : Bool         -- the argument of `DecodeMotoPseudo(Turn)` in the generator's `MakeCode`
  viaPseudo : Bool    -- `MakeCode` calls `DecodeMotoPseudo` (false: codest6.c)

/-- `M16Turn` after a statement of that target went through `MakeCode` -/
def noteCpu (m16 : Bool) (c : SwCpu) : Bool := if c.viaPseudo then c.turn else m16

/-- `M16Turn` after the statements of a segment -/
def segFlag (m16 : Bool) (c : SwCpu) (stmts : List Stmt) : Bool := if stmts.isEmpty then m16 else noteCpu m16 c

/-- the flag at the start of a slot: process start, then every earlier segment of the run in order
(each of them holds at least one statement) -/
def flagAfter (hist : List SwCpu) : Bool := hist.foldl noteCpu false

structure MSeg where
  cpu : SwCpu
  pc : Nat
  stmts : List Stmt

/-- one segment: every statement is decoded with the flag `DecodeMotoPseudo` has just set (or left) -/
def runSeg (m16 : Bool) (s : MSeg) : Option (Cells × Nat × List Nat) :=
  modelRun { s.cpu.cfg with mturn := segFlag m16 s.cpu s.stmts } s.pc s.stmts

/-- the segments of a slot in source order; cells, addresses of uninitialised bytes -/
def modelRunSw : Bool → List MSeg → Option (Cells × List Nat)
  | _, [] => some ([], [])
  | m16, s :: rest =>
    match runSeg m16 s, modelRunSw (segFlag m16 s.cpu s.stmts) rest with
    | some (cs, _, w), some (r, w') => some (cs ++ r, w ++ w')
    | _, _ => none

end AslModel.DataSwModel
