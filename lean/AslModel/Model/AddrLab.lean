import AslModel.Model.Data
import AslModel.Spec.AddrLab
/-!
# Labels, pad bytes and Motorola-style reservations — MODEL (C10, label part)

Transcription of

* `as.c Produce_Code`: the label part (`LabelPresent` → `LabelHandle(&LabPart, EProgCounter(), False)`), the
  construct-opening lines (`ResetLastLabel = !ExpandIRP()` / `!ExpandIRPN()` / `!ExpandIRPC()` / `!ExpandREPT()` /
  `!ExpandWHILE()`, macro call: `ResetLastLabel = False`; no `WriteCode` on these lines) and the last step
  `if (*OpPart.str.p_str && ResetLastLabel) LabelReset();`
* `asmlabel.c`: `LabelReset`, `LabelHandle` (structure element *or* symbol table entry, `LabelValue`), `LabelModify`
  (`if (OldValue == LabelValue)` → element offset / `ChangeSymbol`, `LabelValue = NewValue`);
* `asmcode.c InsertPadding` (`WriteCode` of one byte, written or only reserved, then `LabelModify(OldValue, EProgCounter())`);
* the alignment step of `code68k.c` / `codemsp.c` / `code9900.c` / `codeavr.c MakeCode` (`if (Odd(EProgCounter())) { if
  (DoPadding) InsertPadding(1, False); else WrError(ErrNum_AddrNotAligned); }`);
* `motpseudo.c DecodeMotoBYT / DecodeMotoADR / DecodeMotoDC / DecodeMotoDFS` through their C09 transcription
  (`Model/Data.lean modelStmt`: `CodeLen += Rep` / `CodeLen += 2 * Rep` / `CodeLen += Rep * WSize` of the reservation
  branches, `PadBeforeStart`), `DecodeMoto16Pseudo`'s `DS` branch;
* `as.c WriteCode` (`PCs[ActPC] += CodeLen`; inside a structure: no code, `BumpStructLength` for unions),
  `asmallg.c CodeORG_Core / CodePHASE / CodeDEPHASE / CodeSTRUCT / CodeENDSTRUCT` restricted to one structure level
  (the full versions are `Model/Addr.lean`), `asmstructs.c AddStructSymbol`.

The lines the machine runs over are those `Produce_Code` sees (`flatM`): the opening line of a construct, then - the body
lines are swallowed by the construct's output processor (`FirstOutputTag->Processor(); return;`) - the lines of the
expansion.

`fixStruct` (self-calibrated by a probe of the binary under test): `LabelModify` also corrects the *symbol* of a structure
field - the tree since the repair 0cba171.  Before it only `pLabelElement->Offset` was corrected; the symbol `AddStructSymbol`
entered kept the offset of the pad byte (repaired finding `struct-field-symbol-keeps-pad-offset`); `fixStruct = false` is that tree.
-/
namespace AslModel.AddrLabModel
open AslModel.PFile (Byte b)
open AslModel.Data AslModel.DataModel AslModel.AddrLab

structure Cfg where
  mc : MCfg
  fixStruct : Bool := false

/-- `pLabelElement` / `pLabelEntry` + `LabelValue` -/
structure Last where
  sym : Sym
  isElem : Bool
  value : Int
deriving DecidableEq, Repr

structure M where
  pc : Int := 0                        -- PCs[ActPC]
  ph : Int := 0                        -- Phases[ActPC]
  pstack : List Int := []
  padding : Bool := false              -- DoPadding
  frame : Option Frame := none         -- StructStack (one level): name, IsUnion, SaveCurrPC, TotLen
  last : Option Last := none
  syms : List (Sym × Int) := []
  cells : List (Nat × Byte) := []
  errs : List Nat := []
deriving Repr

/-- `EProgCounter()` (inside a structure: `Phases[StructSeg] = 0`) -/
def epc (m : M) : Int := if m.frame.isSome then m.pc else m.pc + m.ph

def setSym (syms : List (Sym × Int)) (k : Sym) (v : Int) : List (Sym × Int) :=
  if syms.any (·.1 = k) then syms.map fun e => if e.1 = k then (k, v) else e else syms ++ [(k, v)]

/-- value of a symbol -/
def lookup (syms : List (Sym × Int)) (k : Sym) : Option Int := (syms.find? (fun e => e.1 = k)).map (·.2)

/-- `LabelHandle(&LabPart, EProgCounter(), False)` -/
def labelHandle (m : M) (l : Nat) : M :=
  match m.frame with
  | some f =>
    -- structure element + `AddStructSymbol`; `AddStructElem` bumps `TotLen` to the offset
    let k : Sym := ⟨some f.name, some l⟩
    { m with syms := setSym m.syms k (epc m), last := some ⟨k, true, epc m⟩,
             frame := some { f with maxLen := max f.maxLen (epc m) } }
  | none =>
    let k : Sym := ⟨none, some l⟩
    { m with syms := setSym m.syms k (epc m), last := some ⟨k, false, epc m⟩ }

/-- `LabelModify(OldValue, NewValue)` -/
def labelModify (c : Cfg) (m : M) (old new : Int) : M :=
  match m.last with
  | some la =>
    if old = la.value then
      let syms := if la.isElem && !c.fixStruct then m.syms else setSym m.syms la.sym new
      { m with syms := syms, last := some { la with value := new } }
    else m
  | none => m

/-- `WriteCode` for `CodeLen = n`; `bytes = []`: `DontPrint` -/
def writeCode (m : M) (n : Nat) (bytes : List Byte) : M :=
  match m.frame with
  | some f =>
    if f.isUnion then { m with frame := some { f with maxLen := max f.maxLen n } }     -- `BumpStructLength`, `PCs = 0`
    else { m with pc := m.pc + n }
  | none => { m with pc := m.pc + n, cells := m.cells ++ cellsAt m.pc.toNat bytes }

/-- `InsertPadding(1, OnlyReserve)` -/
def insertPadding (c : Cfg) (m : M) (onlyReserve : Bool) : M :=
  let old := epc m
  let m1 := writeCode m 1 (if onlyReserve then [] else [0])
  labelModify c m1 old (epc m1)

def errAt (m : M) (src : Nat) : M := { m with errs := m.errs ++ [src] }

/-- the statement decoder + `WriteCode`; `none` = outside the transcription -/
def decode (c : Cfg) (m : M) (ln : Line) : Option M :=
  match ln.op with
  | .blank => some m
  | .opener _ => some m
  | .other => some m
  | .padding on => some { m with padding := on }
  | .pbyte => none
  | .org v =>
    -- `CodeORG_Core`: the argument is the value `EProgCounter()` shall have
    if m.frame.isSome then none else some { m with pc := (v : Int) - m.ph }
  | .phase v => if m.frame.isSome then none else some { m with pstack := m.ph :: m.pstack, ph := (v : Int) - m.pc }
  | .dephase =>
    if m.frame.isSome then none
    else match m.pstack with
      | p :: rest => some { m with ph := p, pstack := rest }
      | [] => some { m with ph := 0 }
  | .struct name u =>
    if m.frame.isSome then none else some { m with frame := some ⟨name, u, m.pc, 0⟩, pc := 0 }
  | .endstruct =>
    match m.frame with
    | none => none
    | some f =>
      let tot := max f.maxLen m.pc
      some { m with syms := setSym m.syms ⟨some f.name, none⟩ tot, pc := f.savePc, frame := none }
  | .bytes bs => if m.frame.isSome then none else some (writeCode m bs.length bs)
  | .obj bs =>
    if m.frame.isSome then none
    else if epc m % 2 == 1 then
      if m.padding then
        let m1 := insertPadding c m false
        some (writeCode m1 bs.length bs)
      else some (writeCode m bs.length bs)          -- `WrError(ErrNum_AddrNotAligned)` is a warning (180), the code is produced
    else some (writeCode m bs.length bs)
  | .dsx w n =>
    -- `DecodeMoto16Pseudo`, `DS` with a count > 0
    if n = 0 || w = 0 then none
    else
      let m1 := if epc m % 2 == 1 && m.padding && w != 1 then insertPadding c m true else m
      some (writeCode m1 (n * w) [])
  | .moto st =>
    if epc m < 0 then none else
    match modelStmt { c.mc with padding := m.padding } (epc m).toNat st with
    | none =>
      -- error: `CodeLen = 0`; a pad byte `DecodeMotoDC` has already inserted stays (not transcribed: undefined here)
      let wouldPad : Bool := match st with
        | .dc e _ => epc m % 2 == 1 && m.padding && e.bytes != 1
        | _ => false
      if wouldPad then none else some (errAt m ln.src)
    | some r =>
      let m1 := match r.pad with
        | some onlyReserve => insertPadding c m onlyReserve
        | none => m
      match r.out with
      | .data bs => if m1.frame.isSome then none else some (writeCode m1 bs.length bs)
      | .space n => some (writeCode m1 n [])
      | .empty => some m1

def labelPresent (ln : Line) : Bool :=
  match ln.op with
  | .struct _ _ => false
  | .endstruct => false
  | _ => ln.label.isSome

/-- the instruction field of the line is empty -/
def opEmpty : Op → Bool
  | .blank => true
  | _ => false

/-- `ResetLastLabel` at the end of `Produce_Code` -/
def resetLast : Op → Bool
  | .opener ok => !ok
  | _ => true

/-- `Produce_Code` for one line -/
def step (c : Cfg) (m : M) (ln : Line) : Option M :=
  let m1 := match ln.label with
    | some l => if labelPresent ln then labelHandle m l else m
    | none => m
  match decode c m1 ln with
  | none => none
  | some m2 => some (if !opEmpty ln.op && resetLast ln.op then { m2 with last := none } else m2)

def run (c : Cfg) : M → List Line → Nat → M × Option Nat
  | m, [], _ => (m, none)
  | m, ln :: rest, i =>
    match step c m ln with
    | none => (m, some i)
    | some m' => run c m' rest (i + 1)

/-! ## the lines `Produce_Code` sees -/

mutual
def flatNode (src : Nat) : Node → List Line
  | .line l op => [⟨src, l, op⟩]
  | .rep l args body => ⟨src, l, .opener true⟩ :: iterLines (flatNodes src body) args
def flatNodes (src : Nat) : Nodes → List Line
  | .nil => []
  | .cons n ns => flatNode src n ++ flatNodes src ns
end

def flatM (i : Nat) : Nodes → List Line
  | .nil => []
  | .cons n ns => flatNode i n ++ flatM (i + 1) ns

end AslModel.AddrLabModel
