import AslModel.Model.FileOut
import AslModel.Spec.PosFiles
/-!
# Diagnostic positions of a run over several source files — MODEL (C20, part "files")

Nothing is transcribed a second time.  The error channel of the file loop is the one of C18 (`Model/FileOut.lean`: `errName`,
`headEvs` = `unlink` of a per-source log, `deliver` = the output part of `asmerr.c WrErrorString` with the lazily opened handle
`if (!ErrorFile) OpenWithStandard(&ErrorFile, ErrorName)`, `content` = the file-system reading of the events).  What this file
adds is the *guard* of the close at the end of `as.c AssembleFile`

    if (!*ErrorPath) CloseIfOpen(&ErrorFile);

as data (`guarded`): `Model/FileOut.finish` has the guard built in (`o.dest == .perFile && o.closePerFile`); here the handle a
source leaves is `afterFile guarded o h`, which for `guarded = true` is exactly `finish`'s (`run_eq_assembleFiles` in
`Lemmas/PosFiles.lean`).  The diagnostics of a source are a list of messages `Msg.m <source> <k> <isErr>` – the `k`-th line
the tag-chain machine (`Model/Pos.lean`, `run`) reports for it; the payload (position prefix) is looked up by `(source, k)`.

Core only.
-/
namespace AslModel.PosFiles
open AslModel.FileOut

def Target.dest : Target → ErrDest
  | .perSource => .perFile
  | .named => .named
  | .stdout => .stdout
  | .stderr => .stderr

def Place.chan : Place → Chan
  | .log k => .log k
  | .named => .named
  | .stdout => .out
  | .stderr => .err

/-- the one place a shared target names -/
def Target.place : Target → Place
  | .perSource => .log 0
  | .named => .named
  | .stdout => .stdout
  | .stderr => .stderr

/-- the options of an invocation: only the `-E` target matters here; the per-file close is the generated fact of C18 -/
def optsOf (t : Target) (closes : Bool) : Opts := ⟨t.dest, false, 0, false, closes, true⟩

/-- tail of `AssembleFile`: the handle the next source finds.  `guarded`: the close stands under `if (!*ErrorPath)` -/
def afterFile (guarded : Bool) (o : Opts) (h : Option Chan) : Option Chan :=
  if o.closePerFile && (o.dest == .perFile || !guarded) then none else h

/-- reading of the generated fact `Generated.errCloseGuard` (clang AST of `AssembleFile`): the close is unguarded iff a
`CloseIfOpen(&ErrorFile)` stands under no condition at all -/
def guardOf (fact : Nat) : Bool := fact != 2

/-- `main`'s loop over the file arguments, error channel only: source number and its messages, in argument order -/
def run (guarded : Bool) (o : Opts) : Option Chan → List (Nat × List Msg) → List Ev
  | _, [] => []
  | h, (idx, msgs) :: r =>
    headEvs o idx ++ (deliver (errName o idx) h msgs).2 ++
      run guarded o (afterFile guarded o (deliver (errName o idx) h msgs).1) r

/-- the messages of source `idx` whose diagnostics are `kinds` (`true` = a warning) -/
def msgsOf (idx : Nat) (kinds : List Bool) : List Msg :=
  (List.range kinds.length).map fun k => .m idx k (!(kinds.getD k false))

/-- the sources of an invocation, numbered in argument order from `i` -/
def sources : Nat → List (List Bool) → List (Nat × List Msg)
  | _, [] => []
  | i, ks :: r => (i, msgsOf i ks) :: sources (i + 1) r

/-- the same sources as statement lists of `Model/FileOut.lean` (`WARNING` / `ERROR` lines) -/
def opSources : Nat → List (List Bool) → List Source
  | _, [] => []
  | i, ks :: r => (i, ks.map fun w => if w then Op.warn else Op.err) :: opSources (i + 1) r

/-- what a place holds after the run (`none` = the file does not exist) -/
def holdsAfter (guarded : Bool) (t : Target) (closes : Bool) (kinds : List (List Bool)) (p : Place) : Option (List Msg) :=
  content p.chan none (run guarded (optsOf t closes) none (sources 0 kinds))

/-- payload of a message: the `k`-th diagnostic of source `file` -/
def payload {α : Type} (per : List (List α)) : Msg → Option α
  | .m file k _ => (per.getD file [])[k]?
  | _ => none

end AslModel.PosFiles
