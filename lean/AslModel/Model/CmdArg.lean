import AslModel.Spec.Options
/-! MODEL of /repo/cmdarg.c (ProcessParam, DecodeLine, ProcessFile, ProcessCMD), function by function,
at character level where the C code works on characters (`DecodeLine` splits the `ASCMD` string / a key
file line in place; `ProcessParam` indexes `Param[Start..]`, walks the `CMDRec` table by index).

What is *not* modelled: `strmaxcpy` truncation to STRINGSIZE-1 = 1023 characters (hypotheses of the theorems exclude
longer inputs; the 255-character chunks of `ReadLn` ARE modelled: `fgets`, `readLn`, `keyFileLines`), `SLASHARGS` (not defined on this
platform), message texts.  A callback returning `CMDFile` does not occur in as.c and is not representable.
Core only. -/
namespace AslModel.CmdArg
open AslModel.Options

abbrev CMDRec := Switch

/-- `as_isspace` in the C locale -/
def isSpace (c : Char) : Bool := c.toNat == 32 || (9 ≤ c.toNat && c.toNat ≤ 13)

/-- `ErrProc` calls and messages -/
inductive ErrEv
  | invalid (inEnv : Bool) (t : Tok)      -- ErrProc(InEnv, token)
  | keyNotFound (name : Tok)              -- ErrProc(True, ErrMsgKeyFileNotFound)
  deriving DecidableEq, Repr

structure St (σ : Type) where
  user : σ
  files : List Tok            -- FileArgList
  errs : List ErrEv           -- ErrProc calls, in order
  noKeyMsgs : Nat             -- "no key file inside key file" messages printed to stderr
  ub : Bool                   -- `EnvStr[256]` overrun in DecodeLine (undefined behaviour)

def St.init (u : σ) : St σ := ⟨u, [], [], 0, false⟩

/-- ClrBlanks -/
def clrBlanks (s : Tok) : Tok := s.dropWhile isSpace

/-- `strchr(s, c)` as an offset -/
def strchr (c : Char) : Tok → Option Nat
  | [] => none
  | x :: xs => if x == c then some 0 else (strchr c xs).map (· + 1)

/-- `for (Search = 0; Search < CMDRecCnt; Search++) if (p(pCMDRecs[Search])) break;` -/
def search (p : CMDRec σ → Bool) : List (CMDRec σ) → Nat
  | [] => 0
  | r :: rs => if p r then 0 else search p rs + 1

/-- the single-letter loop `for (z = Start; z < strlen(Param); z++)` -/
def letterLoop (recs : List (CMDRec σ)) (neg : Bool) (next : Tok) : List Char → PRes → σ → PRes × σ
  | [], temp, u => (temp, u)
  | c :: cs, temp, u =>
    if temp ≠ .err then
      let s := search (fun r => r.name.length == 1 && r.name.head? == some c) recs
      if s ≥ recs.length then letterLoop recs neg next cs .err u
      else
        match recs[s]? with
        | none => letterLoop recs neg next cs .err u
        | some r =>
          match r.act neg next u with
          | (.err, u') => letterLoop recs neg next cs .err u'
          | (.arg, u') => letterLoop recs neg next cs .arg u'
          | (.ok, u') => letterLoop recs neg next cs temp u'
    else letterLoop recs neg next cs temp u

/-- `Start`: 1, or 2 after a `#` / `~` case prefix -/
def startIdx (param : Tok) : Nat :=
  if (param.drop 1).head? == some '#' then 2 else if (param.drop 1).head? == some '~' then 2 else 1

/-- `Param` after the in-place case conversion of `Param[Start+1..]` -/
def convCase (param : Tok) : Tok :=
  if (param.drop 1).head? == some '#' then param.take 2 ++ (param.drop 2).map Char.toUpper
  else if (param.drop 1).head? == some '~' then param.take 2 ++ (param.drop 2).map Char.toLower
  else param

/-- ProcessParam for a parameter that starts with '-' or '+' (`Param` = whole parameter) -/
def switchBranch (recs : List (CMDRec σ)) (param next : Tok) (u : σ) : PRes × σ :=
  let negate := param.head? == some '+'
  let start := startIdx param
  let conv := convCase param
  let s := (conv.drop start).map Char.toUpper
  let idx := search (fun r => decide (r.name.length > 1) && r.name == s) recs
  if idx < recs.length then
    match recs[idx]? with
    | some r =>
      match r.act negate next u with
      | (.ok, u') => (.ok, u')
      | (.arg, u') => (.arg, u')
      | (.err, u') => (.err, u')
    | none => (.ok, u)
  else letterLoop recs negate next (conv.drop start) .ok u

/-- `if (*Next == '-' || *Next == '+' || *Next == '@') *Next = '\0';` -/
def clearNext (next : Tok) : Tok :=
  match next with
  | c :: _ => if c == '-' || c == '+' || c == '@' then [] else next
  | [] => next

/-- ProcessParam with AllowLink = False -/
def processParam0 (recs : List (CMDRec σ)) (param next : Tok) (st : St σ) : PRes × St σ :=
  let next := clearNext next
  if param.head? == some '@' then (.err, { st with noKeyMsgs := st.noKeyMsgs + 1 })
  else if param.head? == some '-' || param.head? == some '+' then
    let (r, u) := switchBranch recs param next st.user
    (r, { st with user := u })
  else (.file, st)

/-- the in-place split of DecodeLine: a parameter ends at the first ' ' of the remaining line, or - only if the
remaining line has no ' ' at all - at its first TAB; white space after the delimiter is skipped -/
def splitLine : Nat → Tok → List Tok
  | 0, _ => []
  | fuel + 1, start =>
    if start.isEmpty then [] else
    let p := match strchr ' ' start with
      | some p => some p
      | none => strchr '\t' start
    match p with
    | some p => start.take p :: splitLine fuel ((start.drop (p + 1)).dropWhile isSpace)
    | none => [start]

/-- the `for (z = 0; z < EnvCnt; z++)` loop of DecodeLine over `EnvStr[]` (`z++` on CMDArg) -/
def envLoop (recs : List (CMDRec σ)) : List Tok → St σ → St σ
  | [], st => st
  | t :: rest, st =>
    match processParam0 recs t (rest.headD []) st with
    | (.file, st') => envLoop recs rest { st' with files := st'.files ++ [t] }
    | (.err, st') => envLoop recs rest { st' with errs := st'.errs ++ [.invalid true t] }
    | (.ok, st') => envLoop recs rest st'
    | (.arg, st') =>
      match rest with
      | [] => st'
      | _ :: rest' => envLoop recs rest' st'

/-- number of parameters up to which all option sources are compared (`MAXPARAM` of the argv path; the former capacity of `EnvStr`) -/
def envStrCap : Nat := 256

def decodeLine (recs : List (CMDRec σ)) (oneLine : Tok) (st : St σ) : St σ :=
  let l := clrBlanks oneLine
  match l with
  | [] => st
  | c :: _ =>
    if c == ';' then st else
    let toks := splitLine (l.length + 1) l
    -- `EnvStr` is allocated for the line since the repair `d9043c1`; it was `char *EnvStr[256]`, overrun from 256 parameters on
    envLoop recs toks st

/-! ### the key file reader: `ReadLn` (strutil.c) and the `while (!feof(KeyFile))` loop of ProcessFile

A key file is its content (a character list, one `Char` per byte).  `fgets` is the C library's: at most 255 characters
(`fgets(Zeile, 256, Datei)`), up to and including the first line feed; the stream's end-of-file indicator is set when the
content runs out while `fgets` still wants characters - in particular by a last line WITHOUT a terminating line feed, which
`fgets` nevertheless delivers.  ProcessFile tests the indicator only at the loop head, i.e. after the line just read has been
decoded.  Not modelled: read errors (`ferror`, `errno`). -/

/-- `fgets(buf, cap + 1, f)` on the rest of the file: (characters stored, rest of the file, end-of-file indicator) -/
def fgets : Nat → Tok → Tok × Tok × Bool
  | 0, s => ([], s, false)
  | _ + 1, [] => ([], [], true)
  | n + 1, c :: s =>
    if c == '\n' then ([c], s, false)
    else let r := fgets n s; (c :: r.1, r.2.1, r.2.2)

/-- the buffer seen as a C string (`strlen`): up to the first NUL -/
def cstr (b : Tok) : Tok := b.takeWhile (fun c => c.toNat != 0)

/-- `if ((l > 0) && (Zeile[l - 1] == c)) Zeile[--l] = '\0';` -/
def stripLast (c : Char) (l : Tok) : Tok := if l.getLast? == some c then l.dropLast else l

/-- `fgets(Zeile, 256, …)` -/
def readLnCap : Nat := 255

/-- ReadLn: one `fgets`, then a trailing LF, a trailing CR and a trailing Ctrl-Z (DOS end-of-file mark) are removed, in this order -/
def readLn (content : Tok) : Tok × Tok × Bool :=
  let r := fgets readLnCap content
  (stripLast (Char.ofNat 26) (stripLast '\r' (stripLast '\n' (cstr r.1))), r.2.1, r.2.2)

/-- `while (!feof(KeyFile)) { ReadLn(KeyFile, OneLine); DecodeLine(…, OneLine, …); }`: the lines handed to DecodeLine.
`fuel` bounds the iterations; `content.length + 1` always suffices (`readLoop_fuel` in Lemmas/KeyFile.lean). -/
def readLoop : Nat → Tok → List Tok
  | 0, _ => []
  | fuel + 1, content =>
    let r := readLn content
    r.1 :: (if r.2.2 then [] else readLoop fuel r.2.1)

/-- the lines ProcessFile decodes for a key file with this content -/
def keyFileLines (content : Tok) : List Tok := readLoop (content.length + 1) content

/-- a file system given by file contents, seen as the file system of lines that `processFile` consumes -/
def rawFs (fc : Tok → Option Tok) : Tok → Option (List Tok) := fun n => (fc n).map keyFileLines

/-- ProcessFile; `fs name` = the lines ReadLn delivers (`keyFileLines` of the file's content, see `rawFs`) -/
def processFile (recs : List (CMDRec σ)) (fs : Tok → Option (List Tok)) (name : Tok) (st : St σ) : St σ :=
  match fs name with
  | none => { st with errs := st.errs ++ [.keyNotFound name] }
  | some lines => lines.foldl (fun st l => decodeLine recs l st) st

/-- ProcessParam with AllowLink = True -/
def processParam (recs : List (CMDRec σ)) (fs : Tok → Option (List Tok)) (param next : Tok) (st : St σ) : PRes × St σ :=
  if param.head? == some '@' then (.ok, processFile recs fs (param.drop 1) st)
  else processParam0 recs param next st

/-- the argv loop of ProcessCMD.  `Unprocessed[z+1] = False` (set on CMDArg) is the only entry of the
array that is cleared before it is visited, so it is carried as the flag `skip`. -/
def argvLoop (recs : List (CMDRec σ)) (fs : Tok → Option (List Tok)) : List Tok → Bool → St σ → St σ
  | [], _, st => st
  | _ :: rest, true, st => argvLoop recs fs rest false st
  | t :: rest, false, st =>
    match processParam recs fs t (rest.headD []) st with
    | (.err, st') => argvLoop recs fs rest false { st' with errs := st'.errs ++ [.invalid false t] }
    | (.ok, st') => argvLoop recs fs rest false st'
    | (.arg, st') => argvLoop recs fs rest true st'
    | (.file, st') => argvLoop recs fs rest false { st' with files := st'.files ++ [t] }

/-- `MAXPARAM`: `CMDProcessed` = `Boolean[MAXPARAM + 1]` -/
def maxParam : Nat := 256

/-- ProcessCMD: environment first (`@file` or a line), then argv[1..].
`for (z = 0; z < argc; z++) Unprocessed[z] = …` overruns `Unprocessed` when argc > MAXPARAM + 1
(the further corner `Unprocessed[z + 1]` for a CMDArg at z = MAXPARAM is not tracked). -/
def processCMD (recs : List (CMDRec σ)) (fs : Tok → Option (List Tok)) (env : Tok) (argv : List Tok) (st : St σ) : St σ :=
  let st1 := if env.head? == some '@' then processFile recs fs (env.drop 1) st else decodeLine recs env st
  let st2 := if argv.length + 1 > maxParam + 1 then { st1 with ub := true } else st1
  argvLoop recs fs argv false st2

/-- what the spec talks about -/
def St.view (st : St σ) : Out σ :=
  ⟨st.user, st.files, st.errs.map (fun e => match e with | .invalid _ t => t | .keyNotFound n => '@' :: n)⟩

end AslModel.CmdArg
