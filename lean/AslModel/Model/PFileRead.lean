import AslModel.Spec.PFile
import AslModel.Spec.PList
import AslModel.Generated.Tools
/-!
# MODEL of the utilities' code-file reader loop (C03)

Transcribes, as one *total* function `List UInt8 → Except ToolErr (List Record)`, the record loop
that `plist.c ProcessSingle`, `pbind.c ProcessFile`, `p2bin.c ProcessFile/MeasureFile` and
`p2hex.c ProcessFile/MeasureFile` share.  One pass of the C `do { ... } while (Header != 0)` loop is
`step`; `readRecs` iterates it.

* `Read2` + magic test (`FormatError` "invalid header", exit 3).  `as_endian.inl.h Read2/Read4/Read8` start
  from `val = 0`, `fread` into it and *always* store the result: a read that comes back short leaves the bytes
  that were there, padded with zeros - a determinate value (so a file shorter than two bytes has an `ID` that
  is not the magic).
* `toolutils.c ReadRecordHeader`: the header byte; when that one byte cannot be read the file lacks its end
  record: `FormatError` "unexpected end of file", exit 3 (`ToolErr.eof`; since `fix: a code file that ends
  without its end record is rejected ...`).  Kinds `$00`, `$80`, `$81..$84` with CPU/Segment/Gran bytes,
  `$01..$7f` short form with implied segment CODE and `Granularity(CPU, SegCode)`, everything else: header byte
  only.  The three single-byte `fread`s of CPU/Segment/Gran are followed by `ChkIO` only, which returns while
  `errno` is 0: a file that ends inside these three bytes leaves the tool with the *previous* record's values
  (or none); `dataAtEof` is what every tool does then - always a format error, exit 3 (`ToolErr.staleHeader`,
  the message depends on the stale values).
* the data branch with the tool's header tests ("invalid record header": granularity 0 - behind the probed flag
  `granCheck` -, plist/p2hex: segment number `>= SegCount`, p2hex without forced format: `FindFamilyById`) and
  its *length-versus-file-size* test (`plist`: `ftell + Len >= FileSize`; `pbind`, `p2bin`, `p2hex`:
  `NextPos >= FileSize`; the two `MeasureFile`s: `NextPos > FileSize`) - `rest.length < Len + slack` with
  `slack` = 1, 1, 0.  A short `Read4`/`Read2` of address/length leaves the file position at the end of the
  file, so the same test decides with the zero-padded length (`dataFields`).
* `toolutils.c SkipRecord` for the kinds a tool does not interpret (`$82..$84` outside plist, `$85`
  relocation info with `Length = 16*RelocCount + 16*ExportCount + StringLen` computed as `LargeWord` and
  handed to `fseek` limited to `LONG_MAX` - on the LP64 build under test the sum (< 2^37) never reaches the
  limit, so the position only moves forward -, and the default branch: 4 address bytes, 2 length bytes, `Length`
  data bytes).  `fseek` beyond the end succeeds; the next `ReadRecordHeader` then reports the end of file.
* `toolutils.c ReadRelocInfo` for plist (`$85`): all entries present, every string offset `< StringLen`, the
  string area ends in NUL; otherwise `NULL`, which plist answers with "invalid record length", exit 3
  (`ToolErr.badReloc`).  (`malloc` is assumed to succeed for a record whose entries are all in the file.)
* p2hex's `FindFamilyById(InpCPU)` test when no format was forced ("invalid record header").

* `toolutils.c ChkIO` after a read that came back short: it looks at `errno` only.  `fread` does not set `errno`
  at the end of the file, but `errno` may still hold a value from the program's start-up (the search for the
  message catalogue leaves `ENOENT` unless the `*.msg` files lie in the current directory) when the code has not
  executed one of its `errno = 0` statements since: then `ChkIO` reports that *stale* value as I/O error and exits
  with status 2.  This is the case for the `Read2` of the magic in pbind/p2bin/p2hex (`errnoMagic`) and for the
  whole measuring passes of p2bin/p2hex (`errnoLoop`); plist and the processing passes (not in quiet mode) have
  reset `errno` before they enter the loop.  Both flags are environment parameters of the model, measured on
  the real binaries in every run (a 1-byte file, a file that consists of the magic).

Every access to the input is a pattern match on the remaining list, so there is no offset that could
be out of range.  Every error of the reader is a `FormatError` of the C code (exit status 3) or - only under a
stale `errno` - `ChkIO`'s exit with status 2 (`exitStatus`).

`granCheck` is the guard "granularity 0 is a format error" (the flag is set per run by probing the real
binaries with the 14-byte witness).
-/
namespace AslModel.PFileRead
open AslModel.PFile

inductive ToolErr where
  /-- `FormatError(..., "invalid header")`: exit 3 -/
  | badMagic
  /-- `FormatError(..., "invalid record length")`: exit 3 -/
  | badLength
  /-- p2hex without forced format: `FindFamilyById` fails, "invalid record header": exit 3 -/
  | badFamily
  /-- granularity 0, "invalid record header": exit 3 -/
  | badGran
  /-- plist, p2hex: segment number `>= SegCount`, "invalid record header": exit 3 -/
  | badSeg
  /-- plist: `ReadRelocInfo` returned NULL, "invalid record length": exit 3 -/
  | badReloc
  /-- `ReadRecordHeader` could not read the header byte, "unexpected end of file": exit 3 -/
  | eof
  /-- the file ends inside the CPU/Segment/Gran bytes of a record the tool interprets: the tool goes on with
      stale values and ends with one of the format errors above (`dataAtEof`): exit 3 -/
  | staleHeader
  /-- a read came back short while `errno` still held a value from the start-up: `ChkIO` exits with status 2 -/
  | io
  /-- the recursion ran out of fuel — proved impossible (`readRecs_fuel`) -/
  | fuel
deriving DecidableEq, Repr

inductive Record where
  /-- `$81..$84` (long) or `$01..$7f` (`short = true`, then `hdr = $81`) -/
  | data (short : Bool) (hdr cpu seg gran : Byte) (start : Nat) (payload : List Byte)
  | entry (a0 a1 a2 a3 : Byte)
  /-- `$85`: the three counts (raw bytes) and the body of `16*R + 16*E + S` bytes -/
  | reloc (counts : List Byte) (body : List Byte)
  /-- any other header: skipped by `SkipRecord`'s default branch -/
  | other (hdr : Byte) (adr : List Byte) (payload : List Byte)
  | fin (creator : List Byte)
deriving DecidableEq, Repr

structure Cfg where
  /-- bytes that must follow a data record's payload -/
  slack : Nat
  /-- headers `$81..dataUpTo` take the data branch (plist `$84`, the others `$81`) -/
  dataUpTo : Nat
  /-- plist parses `$85` with `ReadRelocInfo`, the others skip it -/
  parseReloc : Bool
  /-- p2hex with default format: the family must be known -/
  famCheck : Bool
  /-- the tool computes `Len / Gran` -/
  divides : Bool
  /-- guard: `Gran = 0` is a format error -/
  granCheck : Bool
  /-- plist, p2hex (both passes): `Segment >= SegCount` is a format error -/
  segCheck : Bool
  /-- environment: `errno ≠ 0` when the magic is read (no `errno = 0` executed since the start-up) -/
  errnoMagic : Bool := false
  /-- environment: `errno ≠ 0` throughout the record loop (measuring passes: nothing resets it) -/
  errnoLoop : Bool := false
deriving DecidableEq, Repr

/-! The driver overrides `slack`, `granCheck`, `errnoMagic` and `errnoLoop` with values *measured on the real
binaries in every run* (`slack` was 2 in pbind/p2bin/p2hex before `fix: accept code files whose creator string
is empty`). -/

def cfgPlist (g : Bool) : Cfg := ⟨1, 0x84, true, false, true, g, true, false, false⟩
def cfgPbind : Cfg := ⟨1, 0x81, false, false, false, false, false, false, false⟩
def cfgP2bin (g : Bool) : Cfg := ⟨1, 0x81, false, false, true, g, false, false, false⟩
def cfgP2hex (g : Bool) : Cfg := ⟨1, 0x81, false, true, true, g, true, false, false⟩
def cfgMeasureBin (g : Bool) : Cfg := ⟨0, 0x81, false, false, true, g, false, false, false⟩
def cfgMeasureHex (g : Bool) : Cfg := ⟨0, 0x81, false, false, true, g, true, false, false⟩

def knownFamily (cpu : Byte) : Bool := (PList.lookupName Generated.families cpu.toNat).isSome

/-- every error of the reader is a `FormatError` call of the C code, or `ChkIO` with a stale `errno` -/
def ToolErr.status : ToolErr → Nat
  | .io => 2
  | _ => 3

/-- the exit status the reader model predicts: 0 (the tool goes on to its output), 3, or 2 under a stale `errno` -/
def exitStatus {α : Type} : Except ToolErr α → Nat
  | .ok _ => 0
  | .error e => e.status

/-- the text `FormatError` prints, where the model determines it -/
inductive Msg where
  | invHeader | invRecordHeader | invRecordLen | unexpectedEof
deriving DecidableEq, Repr

def ToolErr.msg : ToolErr → Option Msg
  | .badMagic => some .invHeader
  | .badLength => some .invRecordLen
  | .badFamily => some .invRecordHeader
  | .badGran => some .invRecordHeader
  | .badSeg => some .invRecordHeader
  | .badReloc => some .invRecordLen
  | .eof => some .unexpectedEof
  | .staleHeader => none
  | .io => none
  | .fuel => none

/-- `ChkIO` after a short read in the record loop: exit 2 under a stale `errno`, otherwise the code goes on
and ends as `e` says -/
def onShort (cfg : Cfg) (e : ToolErr) : ToolErr := if cfg.errnoLoop = true then .io else e

/-- `Length` of `SkipRecord` for `$85`, and what `ReadRelocInfo` reads after the three counts -/
def relocFull (r e s : Nat) : Nat := 16 * r + 16 * e + s

/-- the string offset (4 bytes at `off`) of one 16-byte entry lies inside the string area -/
def strPosOK (s off : Nat) (e : List Byte) : Bool :=
  match e.drop off with
  | p0 :: p1 :: p2 :: p3 :: _ => decide (rd32 p0 p1 p2 p3 < s)
  | _ => false

/-- `n` entries of 16 bytes each, string offset at `off` (8 in a relocation entry, 0 in an export entry) -/
def entriesOK (s off : Nat) : Nat → List Byte → Bool
  | 0, _ => true
  | n + 1, l => strPosOK s off (l.take 16) && entriesOK s off n (l.drop 16)

/-- the tests of `ReadRelocInfo` on a body of `16*r + 16*e + s` bytes -/
def relocValid (r e s : Nat) (body : List Byte) : Bool :=
  entriesOK s 8 r body && entriesOK s 0 e (body.drop (16 * r)) &&
    (s == 0 || (body.drop (16 * r + 16 * e)).getLast? == some 0)

/-- the header tests of the data branch ("invalid record header"), before the address/length fields -/
def preCheck (cfg : Cfg) (cpu seg gran : Byte) : Except ToolErr Unit :=
  if cfg.granCheck = true ∧ gran.toNat = 0 then .error .badGran
  else if cfg.segCheck = true ∧ Generated.segCount ≤ seg.toNat then .error .badSeg
  else if cfg.famCheck = true ∧ knownFamily cpu = false then .error .badFamily
  else .ok ()

/-- the data branch entered with the file position at the end of the file and arbitrary (stale) header
variables: header tests, `Read4`/`Read2` deliver 0, the length test sees `ftell = FileSize`; a measuring pass
(`slack = 0`) survives that with `Length = 0` and meets the end of the file in the next `ReadRecordHeader`.
Never an acceptance (`dataAtEof_status`). -/
def dataAtEof (cfg : Cfg) (cpu seg gran : Byte) (len : Nat) : ToolErr :=
  match preCheck cfg cpu seg gran with
  | .error e => e
  | .ok _ => if 0 < len + cfg.slack then .badLength else .eof

/-- what one pass of the record loop yields -/
inductive Step where
  /-- the `$00` record: the loop ends -/
  | fin (creator : List Byte)
  /-- a record, and the bytes behind it -/
  | more (r : Record) (rest : List Byte)
  | err (e : ToolErr)
deriving DecidableEq, Repr

/-- `Len` as `Read2` delivers it when fewer than the six address/length bytes are left: the bytes that are
there, zero padded -/
def partialLen (l : List Byte) : Nat :=
  match l.drop 4 with
  | l0 :: _ => l0.toNat
  | [] => 0

/-- address, length and the length test of the data branch; `mk` builds the record from start and payload -/
def dataFields (cfg : Cfg) (mk : Nat → List Byte → Record) : List Byte → Step
  | a0 :: a1 :: a2 :: a3 :: l0 :: l1 :: rest' =>
    if rest'.length < rd16 l0 l1 + cfg.slack then .err .badLength
    else .more (mk (rd32 a0 a1 a2 a3) (rest'.take (rd16 l0 l1))) (rest'.drop (rd16 l0 l1))
  | l =>
    -- `Read4`/`Read2` short: the position is the file size, `Len` the zero-padded rest
    .err (onShort cfg (if 0 < partialLen l + cfg.slack then .badLength else .eof))

/-- `SkipRecord`, default branch: no test against the file size; `fseek` beyond the end succeeds and the
next `ReadRecordHeader` finds the end of the file.  A short `Read4`/`Read2` ends there as well. -/
def skipFields (cfg : Cfg) (mk : Byte → Byte → Byte → Byte → List Byte → Record) : List Byte → Step
  | a0 :: a1 :: a2 :: a3 :: l0 :: l1 :: rest' =>
    if rest'.length < rd16 l0 l1 then .err (onShort cfg .eof)
    else .more (mk a0 a1 a2 a3 (rest'.take (rd16 l0 l1))) (rest'.drop (rd16 l0 l1))
  | _ => .err (onShort cfg .eof)

/-- `$85`: plist `ReadRelocInfo`, the others `SkipRecord` -/
def relocFields (cfg : Cfg) : List Byte → Step
  | r0 :: r1 :: r2 :: r3 :: e0 :: e1 :: e2 :: e3 :: s0 :: s1 :: s2 :: s3 :: rest' =>
    if rest'.length < relocFull (rd32 r0 r1 r2 r3) (rd32 e0 e1 e2 e3) (rd32 s0 s1 s2 s3) then
      .err (if cfg.parseReloc = true then .badReloc else onShort cfg .eof)
    else if cfg.parseReloc = true ∧
        relocValid (rd32 r0 r1 r2 r3) (rd32 e0 e1 e2 e3) (rd32 s0 s1 s2 s3)
          (rest'.take (relocFull (rd32 r0 r1 r2 r3) (rd32 e0 e1 e2 e3) (rd32 s0 s1 s2 s3))) = false then
      .err .badReloc
    else
      .more (.reloc [r0, r1, r2, r3, e0, e1, e2, e3, s0, s1, s2, s3]
              (rest'.take (relocFull (rd32 r0 r1 r2 r3) (rd32 e0 e1 e2 e3) (rd32 s0 s1 s2 s3))))
           (rest'.drop (relocFull (rd32 r0 r1 r2 r3) (rd32 e0 e1 e2 e3) (rd32 s0 s1 s2 s3)))
  | _ => .err (if cfg.parseReloc = true then .badReloc else onShort cfg .eof)

/-- one pass of the record loop: `ReadRecordHeader` and the tool's branch for the header kind -/
def step (cfg : Cfg) : List Byte → Step
  | [] => .err (onShort cfg .eof)
  | h :: rest =>
    if h.toNat = 0x00 then .fin rest
    else if h.toNat = 0x80 then
      match rest with
      | a0 :: a1 :: a2 :: a3 :: rest' => .more (.entry a0 a1 a2 a3) rest'
      | _ => .err (onShort cfg .eof)    -- `Read4` short (or `SkipRecord` seeks beyond the end): next header read fails
    else if h.toNat < 0x80 then
      -- short form: CPU = Header, Header = $81, Segment = CODE, Gran = Granularity(CPU, CODE)
      match preCheck cfg h segCode (granOf h segCode) with
      | .error e => .err e
      | .ok _ => dataFields cfg (fun st p => .data true 0x81 h segCode (granOf h segCode) st p) rest
    else if h.toNat ≤ 0x84 then
      match rest with
      | c :: s :: g :: rest0 =>
        if h.toNat ≤ cfg.dataUpTo then
          match preCheck cfg c s g with
          | .error e => .err e
          | .ok _ => dataFields cfg (fun st p => .data false h c s g st p) rest0
        else skipFields cfg (fun a0 a1 a2 a3 p => .data false h c s g (rd32 a0 a1 a2 a3) p) rest0
      | _ => .err (onShort cfg (if h.toNat ≤ cfg.dataUpTo then .staleHeader else .eof))
    else if h.toNat = 0x85 then relocFields cfg rest
    else skipFields cfg (fun a0 a1 a2 a3 p => .other h [a0, a1, a2, a3] p) rest

/-- the record loop.  `fuel` bounds the number of records; `rest.length + 1` is always enough. -/
def readRecs (cfg : Cfg) : Nat → List Byte → Except ToolErr (List Record)
  | 0, _ => .error .fuel
  | f + 1, l =>
    match step cfg l with
    | .fin cr => .ok [.fin cr]
    | .err e => .error e
    | .more r rest =>
      match readRecs cfg f rest with
      | .ok rs => .ok (r :: rs)
      | .error e => .error e

/-- `Read2` + magic test + record loop.  (A file of fewer than two bytes: `ChkIO` under a stale `errno`;
otherwise `Read2` has delivered the zero-padded rest, which is not the magic.) -/
def readFile (cfg : Cfg) (bs : List Byte) : Except ToolErr (List Record) :=
  match bs with
  | m0 :: m1 :: rest =>
    if rd16 m0 m1 = Generated.fileMagic then readRecs cfg (rest.length + 1) rest else .error .badMagic
  | _ => .error (if cfg.errnoMagic = true then .io else .badMagic)

/-- bytes of a record as they stand in the file -/
def Record.bytes : Record → List Byte
  | .data true _ cpu _ _ start p => [cpu] ++ le32 start ++ le16 p.length ++ p
  | .data false hdr cpu seg gran start p => [hdr, cpu, seg, gran] ++ le32 start ++ le16 p.length ++ p
  | .entry a0 a1 a2 a3 => [0x80, a0, a1, a2, a3]
  | .reloc c body => [0x85] ++ c ++ body
  | .other h adr p => [h] ++ adr ++ le16 p.length ++ p
  | .fin cr => [0x00] ++ cr

def fileBytes (rs : List Record) : List Byte := magic ++ (rs.map Record.bytes).flatten

/-- the documented content of a record list: `none` when a reserved kind (`$82..$ff`) occurs or the
list does not end with the `$00` record -/
def toItems : List Record → Option (List Item × List Byte)
  | [.fin cr] => some ([], cr)
  | .data _ hdr cpu seg gran start p :: rs =>
    if hdr.toNat = 0x81 then
      match toItems rs with
      | some (is, cr) => some (.data ⟨cpu, seg, gran, start, p⟩ :: is, cr)
      | none => none
    else none
  | .entry a0 a1 a2 a3 :: rs =>
    match toItems rs with
    | some (is, cr) => some (.entry (rd32 a0 a1 a2 a3) :: is, cr)
    | none => none
  | _ => none

/-! ## what the tools compute from an accepted record: the divisions by `Gran` -/

inductive Fault where
  | divZero
deriving DecidableEq, Repr

/-- C integer division: a zero divisor is a trap (SIGFPE), not a value -/
def cdiv (a g : Nat) : Except Fault Nat := if g = 0 then .error .divZero else .ok (a / g)

/-- `Len / Gran` of the record: plist only `if (Len != 0)`; p2bin/p2hex for every `$81` record that
passes filter and segment selection (over-approximated here: for every `$81` record).  pbind never
divides. -/
def useRecord (cfg : Cfg) (plistStyle : Bool) : Record → Except Fault Nat
  | .data _ hdr _ _ gran _ p =>
    if cfg.divides = false then .ok 0
    else if hdr.toNat ≤ cfg.dataUpTo then
      if plistStyle = true ∧ p.length = 0 then .ok 0 else cdiv p.length gran.toNat
    else .ok 0
  | _ => .ok 0

def useAll (cfg : Cfg) (plistStyle : Bool) : List Record → Except Fault (List Nat)
  | [] => .ok []
  | r :: rs =>
    match useRecord cfg plistStyle r with
    | .error e => .error e
    | .ok v =>
      match useAll cfg plistStyle rs with
      | .error e => .error e
      | .ok vs => .ok (v :: vs)

/-! ## features of an accepted file, for the signatures of the findings -/

def Record.seg? : Record → Option Nat
  | .data _ _ _ seg _ _ _ => some seg.toNat
  | _ => none

def maxSeg (rs : List Record) : Nat := rs.foldl (fun m r => match r.seg? with | some s => max m s | none => m) 0

def hasGran0 (rs : List Record) : Bool :=
  rs.any fun | .data _ _ _ _ g _ _ => g.toNat == 0 | _ => false

def hasReloc (rs : List Record) : Bool := rs.any fun | .reloc _ _ => true | _ => false

def hasUnknownFamily (rs : List Record) : Bool :=
  rs.any fun | .data _ _ c _ _ _ _ => !knownFamily c | _ => false

/-- lowest start and highest end (in address units; bytes when `Gran = 0`) over the data records -/
def window (rs : List Record) : Option (Nat × Nat) :=
  rs.foldl (fun w r => match r with
    | .data _ _ _ _ g st p =>
      let e := st + (if g.toNat = 0 then p.length else p.length / g.toNat)
      match w with
      | none => some (st, e)
      | some (lo, hi) => some (min lo st, max hi e)
    | _ => w) none

end AslModel.PFileRead
