import AslModel.Spec.PFile
import AslModel.Spec.PList
import AslModel.Generated.Tools
/-!
# MODEL of the utilities' code-file reader loop (C03)

Transcribes, as one *total* function `List UInt8 → Except ToolErr (List Record)`, the record loop
that `plist.c ProcessSingle`, `pbind.c ProcessFile`, `p2bin.c ProcessFile/MeasureFile` and
`p2hex.c ProcessFile/MeasureFile` share:

* `Read2` + magic test (`FormatError` "invalid header", exit 3),
* `toolutils.c ReadRecordHeader` (kinds `$00`, `$80`, `$81..$84` with CPU/Segment/Gran bytes,
  `$01..$7f` short form with implied segment CODE and `Granularity(CPU, SegCode)`, everything else:
  header byte only),
* the data branch with the tool's *length-versus-file-size* test
  (`plist`: `ftell + Len >= FileSize`; `pbind`, `p2bin`, `p2hex`: `NextPos >= FileSize - 1`;
  the two `MeasureFile`s: `NextPos > FileSize`)  — all three are `rest.length < Len + slack` with
  `slack` = 1, 2, 0,
* `toolutils.c SkipRecord` for the kinds a tool does not interpret (`$82..$84` outside plist, `$85`
  relocation info with `Length = 16*RelocCount + 16*ExportCount + StringLen` computed in 32 bits and
  stored in an `int`, and the default branch: 4 address bytes, 2 length bytes, `Length` data bytes),
* `toolutils.c ReadRelocInfo` for plist (`$85`),
* p2hex's `FindFamilyById(InpCPU)` test when no format was forced ("invalid record header").

Every access to the input is a pattern match on the remaining list, so there is no offset that could
be out of range.  Where the C code reads past the end of the file (`fread`/`Read2`/`Read4` return
short, `ChkIO` looks only at `errno`) the model answers `shortRead`; what the C code does then
(exit 2 when `errno` happens to be set, otherwise it *continues with stale variables*) is outside the
model and is the known finding `short-read-undetected`.

`granCheck` is the *intended* guard "granularity 0 is a format error"; the unchanged tree has no such
test (the flag is set per run by probing the real binaries with the 14-byte witness).
-/
namespace AslModel.PFileRead
open AslModel.PFile

inductive ToolErr where
  /-- `FormatError(..., "invalid header")`: exit 3 -/
  | badMagic
  /-- `FormatError(..., "invalid record length")`: exit 3 -/
  | badLength
  /-- p2hex without forced format: `FindFamilyById` fails, "invalid record header": exit 3 -/
  | badFamily
  /-- intended: granularity 0 rejected as format error (not on the unchanged tree) -/
  | badGran
  /-- a read hit the end of the file (documented outcome: I/O error exit 2, or format error) -/
  | shortRead
  /-- `SkipRecord` computed a negative `int Length` for a `$85` record: `fseek` backwards (fails with
      EINVAL → `ChkIO` exit 2 when it would leave the file; otherwise re-reads earlier bytes) -/
  | badSeek
  /-- the recursion ran out of fuel — proved impossible (`readRecs_fuel`) -/
  | fuel
deriving DecidableEq, Repr

inductive Record where
  /-- `$81..$84` (long) or `$01..$7f` (`short = true`, then `hdr = $81`) -/
  | data (short : Bool) (hdr cpu seg gran : Byte) (start : Nat) (payload : List Byte)
  | entry (a0 a1 a2 a3 : Byte)
  /-- `$85`: the three counts (raw bytes) and the body of `16*R + 16*E + S` bytes -/
  | reloc (counts : List Byte) (body : List Byte)
  /-- any other header: skipped by `SkipRecord`'s default branch -/
  | other (hdr : Byte) (adr : List Byte) (payload : List Byte)
  | fin (creator : List Byte)
deriving DecidableEq, Repr

structure Cfg where
  /-- bytes that must follow a data record's payload -/
  slack : Nat
  /-- headers `$81..dataUpTo` take the data branch (plist `$84`, the others `$81`) -/
  dataUpTo : Nat
  /-- plist parses `$85` with `ReadRelocInfo`, the others skip it -/
  parseReloc : Bool
  /-- p2hex with default format: the family must be known -/
  famCheck : Bool
  /-- the tool computes `Len / Gran` -/
  divides : Bool
  /-- intended guard: `Gran = 0` is a format error -/
  granCheck : Bool
deriving DecidableEq, Repr

/-! The configurations below carry the `slack` values of the pinned tree (commit d9f49b6).  The driver
overrides `slack` and `granCheck` with values *measured on the real binaries in every run*, so a repaired
tree (`fix: accept code files whose creator string is empty` made it 1 everywhere) is followed. -/

def cfgPlist (g : Bool) : Cfg := ⟨1, 0x84, true, false, true, g⟩
def cfgPbind : Cfg := ⟨2, 0x81, false, false, false, false⟩
def cfgP2bin (g : Bool) : Cfg := ⟨2, 0x81, false, false, true, g⟩
def cfgP2hex (g : Bool) : Cfg := ⟨2, 0x81, false, true, true, g⟩
def cfgMeasureBin (g : Bool) : Cfg := ⟨0, 0x81, false, false, true, g⟩
def cfgMeasureHex (g : Bool) : Cfg := ⟨0, 0x81, false, false, true, g⟩

def knownFamily (cpu : Byte) : Bool := (PList.lookupName Generated.families cpu.toNat).isSome

/-- the 32-bit sum of `SkipRecord`, as the `int Length` handed to `fseek`: `none` when negative -/
def relocLen (r e s : Nat) : Option Nat :=
  let l := (16 * r + 16 * e + s) % 4294967296
  if l < 2147483648 then some l else none

/-- what `ReadRelocInfo` reads after the three counts -/
def relocFull (r e s : Nat) : Nat := 16 * r + 16 * e + s

/-- the tests of the data branch that come before the address/length fields -/
def preCheck (cfg : Cfg) (cpu gran : Byte) : Except ToolErr Unit :=
  if cfg.famCheck = true ∧ knownFamily cpu = false then .error .badFamily
  else if cfg.granCheck = true ∧ gran.toNat = 0 then .error .badGran
  else .ok ()

/-- the record loop.  `fuel` bounds the number of records; `rest.length + 1` is always enough. -/
def readRecs (cfg : Cfg) : Nat → List Byte → Except ToolErr (List Record)
  | 0, _ => .error .fuel
  | _ + 1, [] => .error .shortRead
  | f + 1, h :: rest =>
    if h.toNat = 0x00 then .ok [.fin rest]
    else if h.toNat = 0x80 then
      match rest with
      | a0 :: a1 :: a2 :: a3 :: rest' =>
        match readRecs cfg f rest' with
        | .ok rs => .ok (.entry a0 a1 a2 a3 :: rs)
        | .error e => .error e
      | _ => .error .shortRead
    else if h.toNat < 0x80 then
      -- short form: CPU = Header, Header = $81, Segment = CODE, Gran = Granularity(CPU, CODE)
      match preCheck cfg h (granOf h segCode) with
      | .error e => .error e
      | .ok _ =>
        match rest with
        | a0 :: a1 :: a2 :: a3 :: l0 :: l1 :: rest' =>
          if rest'.length < rd16 l0 l1 + cfg.slack then .error .badLength
          else
            match readRecs cfg f (rest'.drop (rd16 l0 l1)) with
            | .ok rs => .ok (.data true 0x81 h segCode (granOf h segCode) (rd32 a0 a1 a2 a3) (rest'.take (rd16 l0 l1)) :: rs)
            | .error e => .error e
        | _ => .error .shortRead
    else if h.toNat ≤ 0x84 then
      match rest with
      | c :: s :: g :: rest0 =>
        if h.toNat ≤ cfg.dataUpTo then
          match preCheck cfg c g with
          | .error e => .error e
          | .ok _ =>
            match rest0 with
            | a0 :: a1 :: a2 :: a3 :: l0 :: l1 :: rest' =>
              if rest'.length < rd16 l0 l1 + cfg.slack then .error .badLength
              else
                match readRecs cfg f (rest'.drop (rd16 l0 l1)) with
                | .ok rs => .ok (.data false h c s g (rd32 a0 a1 a2 a3) (rest'.take (rd16 l0 l1)) :: rs)
                | .error e => .error e
            | _ => .error .shortRead
        else
          -- SkipRecord default branch: no test against the file size; `fseek` beyond the end
          -- succeeds and the *next* read comes back short
          match rest0 with
          | a0 :: a1 :: a2 :: a3 :: l0 :: l1 :: rest' =>
            if rest'.length < rd16 l0 l1 then .error .shortRead
            else
              match readRecs cfg f (rest'.drop (rd16 l0 l1)) with
              | .ok rs => .ok (.data false h c s g (rd32 a0 a1 a2 a3) (rest'.take (rd16 l0 l1)) :: rs)
              | .error e => .error e
          | _ => .error .shortRead
      | _ => .error .shortRead
    else if h.toNat = 0x85 then
      match rest with
      | r0 :: r1 :: r2 :: r3 :: e0 :: e1 :: e2 :: e3 :: s0 :: s1 :: s2 :: s3 :: rest' =>
        if cfg.parseReloc = true then
          -- ReadRelocInfo: all entries and strings must be present (else NULL: see findings)
          if rest'.length < relocFull (rd32 r0 r1 r2 r3) (rd32 e0 e1 e2 e3) (rd32 s0 s1 s2 s3) then .error .shortRead
          else
            match readRecs cfg f (rest'.drop (relocFull (rd32 r0 r1 r2 r3) (rd32 e0 e1 e2 e3) (rd32 s0 s1 s2 s3))) with
            | .ok rs => .ok (.reloc [r0, r1, r2, r3, e0, e1, e2, e3, s0, s1, s2, s3]
                (rest'.take (relocFull (rd32 r0 r1 r2 r3) (rd32 e0 e1 e2 e3) (rd32 s0 s1 s2 s3))) :: rs)
            | .error e => .error e
        else
          match relocLen (rd32 r0 r1 r2 r3) (rd32 e0 e1 e2 e3) (rd32 s0 s1 s2 s3) with
          | none => .error .badSeek        -- negative `int Length`: backwards seek
          | some len =>
            if rest'.length < len then .error .shortRead
            else
              match readRecs cfg f (rest'.drop len) with
              | .ok rs => .ok (.reloc [r0, r1, r2, r3, e0, e1, e2, e3, s0, s1, s2, s3] (rest'.take len) :: rs)
              | .error e => .error e
      | _ => .error .shortRead
    else
      match rest with
      | a0 :: a1 :: a2 :: a3 :: l0 :: l1 :: rest' =>
        if rest'.length < rd16 l0 l1 then .error .shortRead
        else
          match readRecs cfg f (rest'.drop (rd16 l0 l1)) with
          | .ok rs => .ok (.other h [a0, a1, a2, a3] (rest'.take (rd16 l0 l1)) :: rs)
          | .error e => .error e
      | _ => .error .shortRead

/-- `Read2` + magic test + record loop -/
def readFile (cfg : Cfg) (bs : List Byte) : Except ToolErr (List Record) :=
  match bs with
  | m0 :: m1 :: rest =>
    if rd16 m0 m1 = Generated.fileMagic then readRecs cfg (rest.length + 1) rest else .error .badMagic
  | _ => .error .shortRead

/-- bytes of a record as they stand in the file -/
def Record.bytes : Record → List Byte
  | .data true _ cpu _ _ start p => [cpu] ++ le32 start ++ le16 p.length ++ p
  | .data false hdr cpu seg gran start p => [hdr, cpu, seg, gran] ++ le32 start ++ le16 p.length ++ p
  | .entry a0 a1 a2 a3 => [0x80, a0, a1, a2, a3]
  | .reloc c body => [0x85] ++ c ++ body
  | .other h adr p => [h] ++ adr ++ le16 p.length ++ p
  | .fin cr => [0x00] ++ cr

def fileBytes (rs : List Record) : List Byte := magic ++ (rs.map Record.bytes).flatten

/-- the documented content of a record list: `none` when a reserved kind (`$82..$ff`) occurs or the
list does not end with the `$00` record -/
def toItems : List Record → Option (List Item × List Byte)
  | [.fin cr] => some ([], cr)
  | .data _ hdr cpu seg gran start p :: rs =>
    if hdr.toNat = 0x81 then
      match toItems rs with
      | some (is, cr) => some (.data ⟨cpu, seg, gran, start, p⟩ :: is, cr)
      | none => none
    else none
  | .entry a0 a1 a2 a3 :: rs =>
    match toItems rs with
    | some (is, cr) => some (.entry (rd32 a0 a1 a2 a3) :: is, cr)
    | none => none
  | _ => none

/-! ## what the tools compute from an accepted record: the divisions by `Gran` -/

inductive Fault where
  | divZero
deriving DecidableEq, Repr

/-- C integer division: a zero divisor is a trap (SIGFPE), not a value -/
def cdiv (a g : Nat) : Except Fault Nat := if g = 0 then .error .divZero else .ok (a / g)

/-- `Len / Gran` of the record: plist only `if (Len != 0)`; p2bin/p2hex for every `$81` record that
passes filter and segment selection (over-approximated here: for every `$81` record).  pbind never
divides. -/
def useRecord (cfg : Cfg) (plistStyle : Bool) : Record → Except Fault Nat
  | .data _ hdr _ _ gran _ p =>
    if cfg.divides = false then .ok 0
    else if hdr.toNat ≤ cfg.dataUpTo then
      if plistStyle = true ∧ p.length = 0 then .ok 0 else cdiv p.length gran.toNat
    else .ok 0
  | _ => .ok 0

def useAll (cfg : Cfg) (plistStyle : Bool) : List Record → Except Fault (List Nat)
  | [] => .ok []
  | r :: rs =>
    match useRecord cfg plistStyle r with
    | .error e => .error e
    | .ok v =>
      match useAll cfg plistStyle rs with
      | .error e => .error e
      | .ok vs => .ok (v :: vs)

/-! ## features of an accepted file, for the signatures of the findings -/

def Record.seg? : Record → Option Nat
  | .data _ _ _ seg _ _ _ => some seg.toNat
  | _ => none

def maxSeg (rs : List Record) : Nat := rs.foldl (fun m r => match r.seg? with | some s => max m s | none => m) 0

def hasGran0 (rs : List Record) : Bool :=
  rs.any fun | .data _ _ _ _ g _ _ => g.toNat == 0 | _ => false

def hasReloc (rs : List Record) : Bool := rs.any fun | .reloc _ _ => true | _ => false

def hasUnknownFamily (rs : List Record) : Bool :=
  rs.any fun | .data _ _ c _ _ _ _ => !knownFamily c | _ => false

/-- lowest start and highest end (in address units; bytes when `Gran = 0`) over the data records -/
def window (rs : List Record) : Option (Nat × Nat) :=
  rs.foldl (fun w r => match r with
    | .data _ _ _ _ g st p =>
      let e := st + (if g.toNat = 0 then p.length else p.length / g.toNat)
      match w with
      | none => some (st, e)
      | some (lo, hi) => some (min lo st, max hi e)
    | _ => w) none

end AslModel.PFileRead
