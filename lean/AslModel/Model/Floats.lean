import AslModel.Model.Data
/-!
# Floating-point conversions — MODEL (C09, float encodings)

Executable transcription, function by function, of

* `ieeefloat.c`  `Double_2_ieee2` (the version that denormalises *before* rounding, step (1g)),
  `Double_2_ieee10` (re-used from `Model/Data.lean`: `DataModel.ieee10Bytes`)
* `ibmfloat.c`   `Double2IBMFloat` (short and long format; TMS99xx `SINGLE`/`DOUBLE`, MN161x `DC`):
  `ibmAlign` (2), `ibmRoundUp`/`ibmRound` (2a), `ibmLoop`/`ibmPack` (3)
* `tipseudo.c`   `SplitExt`, `ExtToTIC34xShort`, `ExtToTIC34xSingle`, `ExtToTIC34xExt`
  (320C3x/C4x `SINGLE`, `EXTENDED`, `DATA`, float immediates of `code3203x.c`)

The argument is the bit pattern of the IEEE double (`Double_2_ieee8(inp, Buf, True)` is a byte
copy on this host); C variables keep their names.  As in `Model/Data.lean`: `x & (2^k-1)` is
`x % 2^k`, `x >> k` is `x / 2^k`, `|` of disjoint fields is `+`, a test `x & bit` is
`x / bit % 2 = 1`.  C widths: `Integer` = 16 bit signed (exponents stay within ±2100),
`LongWord` = 32 bit (the mantissa variables never exceed 30 bits, except in `SplitExt`, where
the negation and the final XOR are taken modulo 2^32), `LongInt` = 32 bit signed.
-/
namespace AslModel.FloatModel

/-- steps (1a)-(1d) shared by `Double_2_ieee2` and `Double2IBMFloat` -/
structure Dis where
  sign : Nat          -- Sign
  expo : Int          -- Exponent (bias removed)
  mant : Nat          -- Mantissa: the upper 28 bits of the mantissa field
  frac : Nat          -- Fraction: the lower 24 bits

def dissect (bits : Nat) : Dis :=
  ⟨bits / 2 ^ 63 % 2, ((bits / 2 ^ 52 % 2048 : Nat) : Int) - 1023, bits / 2 ^ 24 % 2 ^ 28, bits % 2 ^ 24⟩

/-! ## ieeefloat.c `Double_2_ieee2` -/

/-- (1f) `if (Exponent != -1023) Mantissa |= 0x10000000ul;` -/
def hidden (expo : Int) (mant : Nat) : Nat := if expo ≠ -1023 then mant + 0x10000000 else mant

/-- (1g) denormalise before rounding: (Mantissa, Fraction, Exponent) -/
def h2Denorm (mant frac : Nat) (expo : Int) : Nat × Nat × Int :=
  if expo < -14 then
    let shift := (-14 - expo).toNat
    if shift > 31 then (0, frac ||| mant, -15)
    else (mant / 2 ^ shift, if mant % 2 ^ shift ≠ 0 then frac ||| 1 else frac, -15)
  else (mant, frac, expo)

/-- (2) the `RoundUp` decision (decision bit 17) -/
def h2RoundUp (mant frac : Nat) : Bool :=
  if mant / 0x20000 % 2 = 1 then
    (if mant % 0x20000 ≠ 0 ∨ frac ≠ 0 then true else decide (mant / 0x40000 % 2 = 1))
  else false

/-- `if (RoundUp) { Mantissa += 0x40000 - (Mantissa & 0x3ffff); if (Mantissa & 0x20000000) { Mantissa >>= 1; Exponent++; }
if (IsDenormal && (Mantissa & 0x10000000)) Exponent = -14; }` -/
def h2Rounded (isDenormal : Bool) (mant frac : Nat) (expo : Int) : Nat × Int :=
  if h2RoundUp mant frac then
    let mant2 := mant + (0x40000 - mant % 0x40000)
    let r : Nat × Int := if mant2 / 0x20000000 % 2 = 1 then (mant2 / 2, expo + 1) else (mant2, expo)
    if isDenormal ∧ r.1 / 0x10000000 % 2 = 1 then (r.1, -14) else r
  else (mant, expo)

/-- (3b) `while ((Exponent < -15) && Mantissa) { Exponent++; Mantissa >>= 1; }` -/
def h2Loop : Nat → Int → Nat → Int × Nat
  | 0, e, m => (e, m)
  | f + 1, e, m => if e < -15 ∧ m ≠ 0 then h2Loop f (e + 1) (m / 2) else (e, m)

/-- (3a)-(3d): overrange test, degeneration loop, bias, packing into the 16-bit word
`pDest[1^Big] << 8 | pDest[0^Big]` -/
def h2Pack (isDenormal : Bool) (sign mant : Nat) (expo : Int) : Option Nat :=
  if expo > 15 then none
  else
    let lp := h2Loop 2048 expo mant
    let exp3 : Int := if lp.1 < -15 then -15 else lp.1
    let mant5 := if lp.1 < -15 then lp.2 else if lp.1 = -15 ∧ !isDenormal then lp.2 / 2 else lp.2
    let expB := (exp3 + 15).toNat
    some ((sign * 128 + expB * 4 % 128 + mant5 / 2 ^ 26 % 4) * 256 + mant5 / 2 ^ 18 % 256)

/-- `Double_2_ieee2`: `some (16-bit word)`, `none` = returns False -/
def ieee2 (bits : Nat) : Option Nat :=
  let d := dissect bits
  if d.expo = 1024 then
    let hi0 := d.sign * 128 + 0x7c
    if d.mant = 0x0fffffff ∧ d.frac = 0x00ffffff then some ((hi0 + 3) * 256 + 0xff)
    else some ((hi0 + (if d.mant / 2 ^ 27 % 2 = 1 then 2 else 0)) * 256 + (if d.mant % 2 = 1 then 1 else 0))
  else
    let isDenormal := decide (d.expo < -14)
    let dn := h2Denorm (hidden d.expo d.mant) d.frac d.expo
    let r := h2Rounded isDenormal dn.1 dn.2.1 dn.2.2
    h2Pack isDenormal d.sign r.1 r.2

/-! ## ieeefloat.c `Double_2_ieee10` -/

/-- the 80-bit image as a number (byte 9 = sign and upper exponent bits) -/
def ieee10 (bits : Nat) : Nat := Data.decLE (DataModel.ieee10Bytes false bits)

/-! ## ibmfloat.c `Double2IBMFloat` -/

/-- (2) `while ((Mantissa & 0x10000000ul) || (Exponent & 3)) { if (Mantissa & 1) Fraction |= 0x1000000ul;
Mantissa >>= 1; Fraction >>= 1; Exponent++; }` — `Fraction` is below 2^24 at the loop head -/
def ibmAlign : Nat → Nat → Nat → Int → Nat × Nat × Int
  | 0, m, f, e => (m, f, e)
  | n + 1, m, f, e =>
    if m / 0x10000000 % 2 = 1 ∨ e % 4 ≠ 0 then
      ibmAlign n (m / 2) ((if m % 2 = 1 then f + 0x1000000 else f) / 2) (e + 1)
    else (m, f, e)

/-- (2a) the `RoundUp` decision for single precision (decision bit 3) -/
def ibmRoundUp (m f : Nat) : Bool :=
  if m / 8 % 2 = 1 then (if m % 8 ≠ 0 ∨ f ≠ 0 then true else decide (m / 16 % 2 = 1)) else false

/-- (2a) `if (RoundUp) { Mantissa += 16 - (Mantissa & 15); Fraction = 0; if (Mantissa & 0x10000000ul) { Mantissa >>= 4; Exponent++; } }`:
(Mantissa, Fraction, Exponent) -/
def ibmRound (m f : Nat) (e : Int) : Nat × Nat × Int :=
  if ibmRoundUp m f then
    let m2 := m + (16 - m % 16)
    if m2 / 0x10000000 % 2 = 1 then (m2 / 16, 0, e + 1) else (m2, 0, e)
  else (m, f, e)

/-- (3b) `while ((Exponent < -64) && Mantissa) { Exponent++; Mantissa >>= 4; }` -/
def ibmLoop : Nat → Int → Nat → Int × Nat
  | 0, e, m => (e, m)
  | n + 1, e, m => if e < -64 ∧ m ≠ 0 then ibmLoop n (e + 1) (m / 16) else (e, m)

/-- (3a)-(3d): overrange test, degeneration loop, bias, packing of `pDest[0..1]` (short) resp.
`pDest[0..3]` (long) into one number, most significant word first -/
def ibmPack (toDouble : Bool) (sign mant0 frac : Nat) (e16 : Int) : Option Nat :=
  if e16 > 63 then none
  else
    let lp := ibmLoop 2048 e16 mant0
    let expo : Int := if lp.1 < -64 then -64 else lp.1
    let expB := (expo + 64).toNat
    let mant := lp.2
    let w0 := sign * 2 ^ 15 + expB * 256 % 0x8000 + mant / 2 ^ 20 % 256
    let w1 := mant / 16 % 2 ^ 16
    if toDouble then
      let w2 := mant % 16 * 2 ^ 12 + frac / 2 ^ 12 % 2 ^ 12
      let w3 := frac % 2 ^ 12 * 16
      some (w0 * 2 ^ 48 + w1 * 2 ^ 32 + w2 * 2 ^ 16 + w3)
    else some (w0 * 2 ^ 16 + w1)

/-- `Double2IBMFloat`; `none` = `WrError(ErrNum_OverRange)`, returns False -/
def ibmFloat (toDouble : Bool) (bits : Nat) : Option Nat :=
  let d := dissect bits
  let al := ibmAlign 8 (hidden d.expo d.mant) d.frac d.expo
  let e16 : Int := al.2.2 / 4                     -- `Exponent /= 4` (a multiple of four here)
  let r := if toDouble then (al.1, al.2.1, e16) else ibmRound al.1 al.2.1 e16
  ibmPack toDouble d.sign r.1 r.2.1 r.2.2

/-! ## tipseudo.c -/

/-- the tail of `SplitExt`, from `*Expo -= 0x3ff` on: negation of the mantissa of a negative number
(modulo 2^32), the special case `if (*Mant == 0x80000000) { *Mant = 0; (*Expo)--; }` inside `if (Sign)`
(`-1.0·2^n` is `-2.0·2^(n-1)`), and the final `*Mant ^ 0x80000000` -/
def splitTail (sign expo m1 : Nat) : Int × Nat :=
  let m2 := if sign = 1 then (0xffffffff - m1 + 1) % 2 ^ 32 else m1
  if sign = 1 ∧ m2 = 0x80000000 then ((expo : Int) - 0x3ff - 1, (0 + 0x80000000) % 2 ^ 32)
  else ((expo : Int) - 0x3ff, (m2 + 0x80000000) % 2 ^ 32)

/-- `SplitExt`: (Expo, Mant) — `Mant` holds the 32 upper bits of the significand as a
two's-complement number with inverted top bit -/
def splitExt (bits : Nat) : Int × Nat :=
  let sign := bits / 2 ^ 63 % 2                   -- Field[7] > 0x7f
  let expo : Nat := bits / 2 ^ 52 % 2048
  let m0 := bits / 2 ^ 48 % 16 + (if expo ≠ 0 then 16 else 0)
  -- Field[5..3] appended bytewise, then `(Mant << 3) + (Field[2] >> 5)`
  let m1 := m0 * 2 ^ 27 + bits / 2 ^ 21 % 2 ^ 27
  splitTail sign expo m1

/-- `Inp == 0` -/
def dblIsZero (bits : Nat) : Bool := bits % 2 ^ 63 == 0

/-- `ChkRange(Expo, lo, hi)` -/
def chkRange (v lo hi : Int) : Bool := decide (lo ≤ v) && decide (v ≤ hi)

/-- `ExtToTIC34xShort` (16 bit) -/
def tiShort (bits : Nat) : Option Nat :=
  if dblIsZero bits then some 0x8000
  else
    let s := splitExt bits
    if !chkRange s.1 (-7) 7 then none
    else some ((s.1 % 16).toNat * 2 ^ 12 + s.2 / 2 ^ 20 % 2 ^ 12)

/-- `ExtToTIC34xSingle` (32 bit) -/
def tiSingle (bits : Nat) : Option Nat :=
  if dblIsZero bits then some 0x80000000
  else
    let s := splitExt bits
    if !chkRange s.1 (-127) 127 then none
    else some ((s.1 % 256).toNat * 2 ^ 24 + s.2 / 2 ^ 8)

/-- `ExtToTIC34xExt`: `ErgH * 2^32 + ErgL` (40 bit) -/
def tiExt (bits : Nat) : Option Nat :=
  if dblIsZero bits then some (0x80 * 2 ^ 32)
  else
    let s := splitExt bits
    if !chkRange s.1 (-127) 127 then none
    else some ((s.1 % 256).toNat * 2 ^ 32 + s.2)

end AslModel.FloatModel
