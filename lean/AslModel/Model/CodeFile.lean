import AslModel.Spec.PFile
/-!
# MODEL of `asmcode.c`: how `asl` writes its code file

Two layers.

* **L2** (`St`, `step`): the record machine – `NewRecord` (an empty open record is overwritten,
  a non-empty one is closed) and `WriteBytes` (a record is split when `LenSoFar + ErgLen > 0xffff`).
* **L1** (`B`, `bstep`): the byte machine – the file as a byte list with `fseek`-style overwriting,
  the 512 byte `CodeBuffer`, `RecPos`, `LenPos`, `LenSoFar : Word`, exactly in the order
  `OpenFile`, `NewRecord`, `WriteBytes`, `FlushBuffer`, `CloseFile` perform their writes.

Events are what `WriteCode()` (as.c) hands down for one source statement:
`emit bs`   – `WriteBytes()` with `ErgLen = bs.length` bytes (already multiplied by the granularity),
`jump c pc` – a statement with `DontPrint` (ORG, reservation, SEGMENT, CPU, ALIGN …): the context
              (family, segment, granularity) becomes `c` and `NewRecord(pc)` is called.
-/
namespace AslModel.CodeFile
open AslModel.PFile

structure Ctx where
  cpu : Byte
  seg : Byte
  gran : Byte
deriving DecidableEq, Repr, Inhabited

inductive Ev where
  | emit (bs : List Byte)
  | jump (c : Ctx) (pc : Nat)
deriving Repr, Inhabited

/-! ## L2: record machine -/

structure St where
  closed : List Rec := []
  /-- header of the open record (written by the last `WrRecHeader`) -/
  octx : Ctx
  ostart : Nat
  odata : List Byte := []
  /-- current context (`HeaderID`, `ActPC`, `Grans[ActPC]`) -/
  ctx : Ctx
  /-- program counter of the active segment in granules -/
  pc : Nat
deriving Repr

def mkRec (c : Ctx) (start : Nat) (d : List Byte) : Rec := ⟨c.cpu, c.seg, c.gran, start, d⟩

/-- `NewRecord(start)` under the current context -/
def newRecord (s : St) (start : Nat) : St :=
  if s.odata = [] then { s with octx := s.ctx, ostart := start }
  else { s with closed := s.closed ++ [mkRec s.octx s.ostart s.odata], octx := s.ctx, ostart := start, odata := [] }

def step (s : St) : Ev → St
  | .emit bs =>
      let s1 := if s.odata.length + bs.length > 65535 then newRecord s s.pc else s
      { s1 with odata := s1.odata ++ bs, pc := s.pc + bs.length / s.ctx.gran.toNat }
  | .jump c pc =>
      let s1 := newRecord { s with ctx := c } pc
      { s1 with pc := pc }

def run (s : St) (evs : List Ev) : St := evs.foldl step s

def init (c : Ctx) (pc : Nat) : St := { octx := c, ostart := pc, ctx := c, pc := pc }

/-- `CloseFile`: `NewRecord(ProgCounter())`, then the empty open record is overwritten -/
def finish (s : St) : List Rec := (newRecord s s.pc).closed

def finishItems (s : St) (entry : Option Nat) : List Item :=
  (finish s).map Item.data ++ (match entry with | some a => [Item.entry a] | none => [])

/-! ## what the source specifies -/

/-- the (family, segment, granularity, byte address, byte) cells a statement list specifies -/
def specCells (c : Ctx) (pc : Nat) : List Ev → List Cell
  | [] => []
  | .emit bs :: evs => cellsFrom c.cpu c.seg c.gran (pc * c.gran.toNat) bs ++ specCells c (pc + bs.length / c.gran.toNat) evs
  | .jump c' pc' :: evs => specCells c' pc' evs

/-- statements emit whole granules, and the granularity is not zero -/
def EvsWF (c : Ctx) : List Ev → Prop
  | [] => True
  | .emit bs :: evs => c.gran.toNat ≠ 0 ∧ bs.length % c.gran.toNat = 0 ∧ EvsWF c evs
  | .jump c' _ :: evs => EvsWF c' evs

/-! ## L1: byte machine -/

/-- overwrite `bs` at offset `pos` (the file never has holes: `pos ≤ f.length` in every use) -/
def writeAt (f : List Byte) (pos : Nat) (bs : List Byte) : List Byte :=
  f.take pos ++ bs ++ f.drop (pos + bs.length)

structure B where
  file : List Byte
  /-- stdio position of `PrgFile` -/
  fpos : Nat
  buf : List Byte := []
  recPos : Nat
  lenPos : Nat
  /-- `LenSoFar : Word` -/
  lenSoFar : Nat := 0
  ctx : Ctx
  pc : Nat
deriving Repr

def codeBufferSize : Nat := 512

def fwrite (m : B) (bs : List Byte) : B :=
  { m with file := writeAt m.file m.fpos bs, fpos := m.fpos + bs.length }

def fseek (m : B) (pos : Nat) : B := { m with fpos := pos }

def flushBuffer (m : B) : B :=
  if m.buf.length > 0 then { fwrite m m.buf with buf := [] } else m

def wrRecHeader (m : B) : B := fwrite m [0x81, m.ctx.cpu, m.ctx.seg, m.ctx.gran]

def bNewRecord (m0 : B) (nstart : Nat) : B :=
  let m := flushBuffer m0
  if m.lenSoFar = 0 then
    let m := fseek m m.recPos
    let m := wrRecHeader m
    let m := fwrite m (le32 nstart)
    let m := { m with lenPos := m.fpos }
    fwrite m (le16 m.lenSoFar)
  else
    let h := m.fpos
    let m := fseek m m.lenPos
    let m := fwrite m (le16 m.lenSoFar)
    let m := fseek m h
    let m := { m with recPos := m.fpos, lenSoFar := 0 }
    let m := wrRecHeader m
    let m := fwrite m (le32 nstart)
    let m := { m with lenPos := m.fpos }
    fwrite m (le16 m.lenSoFar)

def bOpenFile (c : Ctx) (pc : Nat) : B :=
  let m : B := { file := [], fpos := 0, recPos := 0, lenPos := 0, ctx := c, pc := pc }
  let m := fwrite m (le16 Generated.fileMagic)
  let m := { m with recPos := m.fpos, lenSoFar := 0 }
  bNewRecord m pc

/-- the three-way buffer/flush/direct-write decision of `WriteBytes` -/
def bBuffer (m : B) (bs : List Byte) : B :=
  if m.buf.length + bs.length < codeBufferSize then { m with buf := m.buf ++ bs }
  else
    let mf := flushBuffer m
    if bs.length < codeBufferSize then { mf with buf := bs } else fwrite mf bs

def bWriteBytes (m : B) (bs : List Byte) : B :=
  if bs.length = 0 then m else
  let ergLen := bs.length % 65536            -- `Word ErgLen = CodeLen * Granularity()`
  let m1 := if m.lenSoFar + ergLen > 0xffff then bNewRecord m m.pc else m
  let m2 := bBuffer m1 (bs.take ergLen)
  { m2 with lenSoFar := (m2.lenSoFar + ergLen) % 65536 }

def bstep (m : B) : Ev → B
  | .emit bs =>
      let m1 := bWriteBytes m bs
      { m1 with pc := m.pc + bs.length / m.ctx.gran.toNat }
  | .jump c pc =>
      let m1 := bNewRecord { m with ctx := c } pc
      { m1 with pc := pc }

def brun (m : B) (evs : List Ev) : B := evs.foldl bstep m

def bCloseFile (m : B) (entry : Option Nat) (creator : List Byte) : List Byte :=
  let m := bNewRecord m m.pc
  let m := fseek m m.recPos
  let m := match entry with
    | some a => fwrite m ([0x80] ++ le32 a)
    | none => m
  let m := fwrite m [0x00]
  let m := fwrite m creator
  m.file

/-- the whole life of a code file -/
def writeCodeFile (c : Ctx) (pc : Nat) (evs : List Ev) (entry : Option Nat) (creator : List Byte) : List Byte :=
  bCloseFile (brun (bOpenFile c pc) evs) entry creator

end AslModel.CodeFile
