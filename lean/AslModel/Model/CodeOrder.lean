import AslModel.Model.CodeCtl
/-!
# MODEL / SPEC (C04): the byte order in which the units of a data statement reach the code file - `TurnWords`

`Model/CodeCtl.lean` takes the bytes of a data statement as given.  This file is the layer in front of it for statements
that place 16-bit data (`DC.W`, `FDB`, `DW`, `ADR`, `WORD`, `DATA` ...):

MODEL (motpseudo.c `EnterWord`, the back ends' word buffers, asmcode.c `WriteBytes` / `DreheCodes`):
* a back end whose list unit (`ListGrans[ActPC]`) is 2 bytes lays the datum into `WAsmCode[]`, i.e. in the byte order of the
  *host* (little endian here: `HostBigEndian = 0`, stated as an assumption of the check); a back end that lists byte by byte
  writes the two bytes itself, in its own order (`BAsmCode[CodeLen] = Hi(w); BAsmCode[CodeLen + 1] = Lo(w);` resp. lo, hi);
* `WriteBytes()`: `if (TurnWords != HostBigEndian) DreheCodes();` - the buffer is turned unit by unit (`ActListGran` 2: byte
  pairs, 4: quadruples, else nothing) before it is handed to the record machine;
* `TurnWords` is a global that every `SwitchTo_*` assigns (obligation `C04_switch_sets_byte_order` over the generated
  inventory of the switch functions), so at every statement it is the value of the processor in effect: `s.cpu.turn`.

SPEC: a 16-bit datum `d` of a big-endian processor occupies two consecutive byte addresses with `d / 256` first, of a
little-endian processor with `d % 256` first - whatever processor was selected before.

Core-only imports (linked into the driver).
-/
namespace AslModel.CodeFile
open AslModel.PFile

/-- a source statement: one of `Model/CodeCtl.lean`, or a statement placing 16-bit data -/
inductive WStmt where
  | ctl (x : Ctl)
  | words (vals : List Nat)
deriving Repr, Inhabited

def hiB (v : Nat) : Byte := b (v / 256)
def loB (v : Nat) : Byte := b v

/-! ## SPEC -/

/-- the bytes a list of 16-bit data occupies, in address order -/
def specWordBytes (big : Bool) : List Nat → List Byte
  | [] => []
  | v :: r => (if big then [hiB v, loB v] else [loB v, hiB v]) ++ specWordBytes big r

/-! ## MODEL -/

/-- the code buffer behind the data statement: `WAsmCode[]` in host order when the list unit is a word, else the back end's
own byte-wise order -/
def enterWords (lg : Byte) (big : Bool) : List Nat → List Byte
  | [] => []
  | v :: r => (if lg = 1 then (if big then [hiB v, loB v] else [loB v, hiB v]) else [loB v, hiB v]) ++ enterWords lg big r

/-- `DreheCodes()` for `ActListGran == 2` -/
def drehe2 : List Byte → List Byte
  | x :: y :: r => y :: x :: drehe2 r
  | l => l

/-- `DreheCodes()` for `ActListGran == 4` -/
def drehe4 : List Byte → List Byte
  | w :: x :: y :: z :: r => z :: y :: x :: w :: drehe4 r
  | l => l

/-- `DreheCodes()` -/
def drehe (lg : Byte) (l : List Byte) : List Byte :=
  if lg = 2 then drehe2 l else if lg = 4 then drehe4 l else l

/-- what `WriteBytes()` hands to the record machine for this buffer (`HostBigEndian = 0`) -/
def writeOrder (turnWords : Bool) (lg : Byte) (buf : List Byte) : List Byte :=
  if turnWords then drehe lg buf else buf

/-- the bytes of a 16-bit data statement as they reach the file, under the globals `s` -/
def modelWordBytes (s : CS) (vals : List Nat) : List Byte :=
  writeOrder s.cpu.turn (s.cpu.lgran s.actPC) (enterWords (s.cpu.lgran s.actPC) s.cpu.big vals)

/-- MODEL: the statement list in terms of `Model/CodeCtl.lean`, the globals followed by `ctlStep` -/
def lowerM (s : CS) : List WStmt → List Ctl
  | [] => []
  | .ctl x :: r => x :: lowerM (ctlStep s x).1 r
  | .words vs :: r => .data (modelWordBytes s vs) :: lowerM (ctlStep s (.data (modelWordBytes s vs))).1 r

/-- SPEC: the statement list as the manual reads it -/
def lowerS (s : CS) : List WStmt → List Ctl
  | [] => []
  | .ctl x :: r => x :: lowerS (specStepC s x) r
  | .words vs :: r => .data (specWordBytes s.cpu.big vs) :: lowerS (specStepC s (.data (specWordBytes s.cpu.big vs))) r

/-- the description of a processor is coherent in an address space: a word-listed back end leaves the turning to
`WriteBytes` and asks for it exactly when the processor is big-endian; list units are 1 or 2 bytes -/
def Cpu.Coherent (c : Cpu) (seg : Byte) : Prop :=
  c.lgran seg = 1 ∨ (c.lgran seg = 2 ∧ c.turn = c.big)

instance (c : Cpu) (seg : Byte) : Decidable (c.Coherent seg) := by unfold Cpu.Coherent; infer_instance

/-- every 16-bit data statement stands under a coherent processor description -/
def OrderWF (s : CS) : List WStmt → Prop
  | [] => True
  | .ctl x :: r => OrderWF (specStepC s x) r
  | .words vs :: r => s.cpu.Coherent s.actPC ∧ OrderWF (specStepC s (.data (specWordBytes s.cpu.big vs))) r

end AslModel.CodeFile
