import AslModel.Model.DataExt
import AslModel.Spec.CodePage
/-!
# Code pages — MODEL (C09)

Executable transcription of

* `as.c` `AssembleFile_InitPass`: `TransTables = CurrTransTable = {Next = NULL, Name = "STANDARD", Table[z] = z}`
  (and `asmpars.c` `ClearCodepages` at the end of a pass: the list is emptied);
* `asmallg.c` `CodeCODEPAGE`: `UpString` of both arguments unless `CaseSensitive`; `Source` =
  `CurrTransTable` (one argument) or the list node whose `Name` equals the second argument
  (`NULL` → error 'unknown codepage', nothing else happens); the list is kept sorted by `strcmp`:
  the loop stops at the first node with `strcmp(ArgStr[1], Run->Name) <= 0`; if it ran off the end
  or stopped at a greater name a new node is linked in front of `Run` with
  `memcpy(New->Table, Source->Table, 256)` and becomes current, otherwise `Run` becomes current;
* `asmallg.c` `CodeCHARSET` (valid statements, `modelCharset` of `Model/DataExt.lean`) on
  `CharTransTable` = `CurrTransTable->Table`;
* `asmallg.c` `CodeSAVE` / `CodeRESTORE`: `SaveTransTable = CurrTransTable` / `CurrTransTable = Old->SaveTransTable`
  (`FirstSaveState == NULL` → error 'no save frame'); the other saved variables are outside
  (the check sets CPU, segment and PADDING anew in front of every data slot);
* the data statements of `Model/DataExt.lean` with `CharTransTable` of the moment.

`CurrTransTable` and `SaveTransTable` are pointers to list nodes; nodes are never unlinked during a
pass and no two nodes carry the same name (`CodePage.names_unique` in `Lemmas/CodePage.lean`), so a node
is identified by its name.
-/
namespace AslModel.CodePageModel
open AslModel.PFile (Byte b)
open AslModel.Data AslModel.DataModel AslModel.DataX AslModel.DataXModel AslModel.CodePage

/-- `TTransTable` without the `Next` pointer -/
structure TransTable where
  name : Name
  table : List Byte
deriving DecidableEq, Repr

structure St where
  transTables : List TransTable      -- the chain from `TransTables`
  curr : Name                        -- `CurrTransTable`
  saves : List Name := []            -- `SaveTransTable` of the chain from `FirstSaveState`
deriving DecidableEq, Repr

/-- state at the beginning of a pass -/
def initPass : St := ⟨[⟨standard, tableInit⟩], standard, []⟩

/-- `strcmp` on byte strings -/
def strcmp : Name → Name → Ordering
  | [], [] => .eq
  | [], _ :: _ => .lt
  | _ :: _, [] => .gt
  | a :: as, c :: cs => if a < c then .lt else if c < a then .gt else strcmp as cs

/-- `UpString` (ASCII) -/
def upString (n : Name) : Name := n.map fun c => if 97 ≤ c ∧ c ≤ 122 then c - 32 else c

/-- `for (Source = TransTables; Source; Source = Source->Next) if (!strcmp(Source->Name, name)) break;` -/
def findTable : List TransTable → Name → Option TransTable
  | [], _ => none
  | r :: rest, n => if strcmp r.name n = .eq then some r else findTable rest n

/-- the search-and-link loop of `CodeCODEPAGE`: the chain afterwards -/
def linkTable (name : Name) (src : List Byte) : List TransTable → List TransTable
  | [] => [⟨name, src⟩]                                     -- !Run
  | r :: rest =>
    match strcmp name r.name with
    | .lt => ⟨name, src⟩ :: r :: rest                       -- erg < 0: New->Next = Run
    | .eq => r :: rest                                      -- found: CurrTransTable = Run
    | .gt => r :: linkTable name src rest

/-- `if (!CaseSensitive) UpString(...)` -/
def foldArg (caseSensitive : Bool) (n : Name) : Name := if caseSensitive then n else upString n

/-- `Source`: `CurrTransTable` when `ArgCnt == 1`, else the node named by the second argument (or `NULL`) -/
def sourceTable (st : St) (a2 : Option Name) : Option TransTable :=
  match a2 with
  | none => findTable st.transTables st.curr
  | some s => findTable st.transTables s

/-- `CodeCODEPAGE`; `false` = error message, nothing changed -/
def codeCODEPAGE (caseSensitive : Bool) (st : St) (arg1 : Name) (arg2 : Option Name) : St × Bool :=
  match sourceTable st (arg2.map (foldArg caseSensitive)) with
  | none => (st, false)
  | some src =>
    ({ st with transTables := linkTable (foldArg caseSensitive arg1) src.table st.transTables, curr := foldArg caseSensitive arg1 }, true)

/-- `CharTransTable` -/
def charTransTable (st : St) : List Byte :=
  match findTable st.transTables st.curr with
  | some r => r.table
  | none => tableInit

/-- assignment through `CharTransTable[...]`: the node `CurrTransTable` points to gets the new contents -/
def storeTable (n : Name) (t : List Byte) : List TransTable → List TransTable
  | [] => []
  | r :: rest => if strcmp r.name n = .eq then { r with table := t } :: rest else r :: storeTable n t rest

/-- `CodeCHARSET` -/
def codeCHARSET (st : St) (o : CsOp) : St :=
  { st with transTables := storeTable st.curr (modelCharset (charTransTable st) o) st.transTables }

def codeSAVE (st : St) : St := { st with saves := st.curr :: st.saves }

def codeRESTORE (st : St) : St × Bool :=
  match st.saves with
  | [] => (st, false)
  | n :: r => ({ st with curr := n, saves := r }, true)

/-- what the model needs to know of the target of a data slot besides the spec's `Slot` -/
structure MSlot where
  mc : MCfg
  xp : XP
  g : Nat
  pc : Nat
  stmts : List XStmt

inductive MOp where
  | page (name : Name) (src : Option Name)
  | charset (o : CsOp)
  | save
  | restore
  | data (s : MSlot)

inductive MObs where
  | accepted
  | rejected
  | slot (r : XRun)
deriving DecidableEq

def mstep (cs : Bool) (st : St) : MOp → St × MObs
  | .page n src =>
    let (st', ok) := codeCODEPAGE cs st n src
    (st', if ok then .accepted else .rejected)
  | .charset o => (codeCHARSET st o, .accepted)
  | .save => (codeSAVE st, .accepted)
  | .restore =>
    let (st', ok) := codeRESTORE st
    (st', if ok then .accepted else .rejected)
  | .data s => (st, .slot (modelRunX s.mc s.xp s.g (charTransTable st) s.pc s.stmts))

def mrunState (cs : Bool) : St → List MOp → St
  | st, [] => st
  | st, o :: r => mrunState cs (mstep cs st o).1 r

def mrun (cs : Bool) : St → List MOp → List MObs
  | _, [] => []
  | st, o :: r => (mstep cs st o).2 :: mrun cs (mstep cs st o).1 r

/-- every pass starts from `initPass` (the chain of the previous pass was released by `ClearCodepages`);
the code file is that of the last pass -/
def mrunPass (cs : Bool) (ops : List MOp) : List MObs := mrun cs initPass ops

end AslModel.CodePageModel
