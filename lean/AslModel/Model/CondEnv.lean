import AslModel.Spec.CondEnv
import AslModel.Model.Cond
import AslModel.Model.TagsCtx
/-!
# Conditional assembly — MODEL of where the truth of IFDEF / IFUSED / IFEXIST comes from

Transcribed:
* asmpars.c `SymbolAdder` (a new entry: `Defined = True; Used = False`; an entry that exists - from an earlier pass or an earlier
  SET - is replaced: `Defined = True; Used = (*Node)->Used`), `GetIntSymbol`/`LookupSymbol` (`if (pEntry) … pEntry->Used = True` - a
  symbol without entry, i.e. a forward reference in the first pass, is *not* marked), `IsSymbolDefined` (`pEntry && pEntry->Defined`),
  `IsSymbolUsed` (`pEntry && pEntry->Used`), `ResetSymbolDefines_ResetNode` (`Defined = False; Used = False` for every entry,
  called by `AssembleFile_InitPass` at the start of every pass; the entries themselves stay).
* asmif.c `CodeIFDEF`, `CodeIFUSED` (the table is only asked on a live line with one argument - `Cond.codeIF` does that part),
  `CodeIFEXIST`: `NPath = "." DIRSEP IncludeList; Found = !FSearch(…, FileName, CurrFileName, NPath)`; bpemu.c `FSearch` as in
  Model/TagsCtx.lean (`Ctx.candidates`: directory of `CurrFileName` - the file being read, Props/C11_Ctx `C11_ctx_curr_inv` -, then
  every entry of the list), here with the working directory in front of the list.
* as.c `AssembleFile`: the passes run over the same text, the symbol table is carried from pass to pass.

The symbol table is three predicates (entry exists / `Defined` / `Used`); everything else is Model/Cond.lean.
-/
namespace AslModel.CondEnv
open AslModel.Cond AslModel.CtxSpec

/-- the symbol tree as far as the conditions look at it -/
structure Tab where
  /-- an entry exists -/
  has : Nat → Bool
  defined : Nat → Bool
  used : Nat → Bool

def Tab.empty : Tab := ⟨fun _ => false, fun _ => false, fun _ => false⟩

/-- `ResetSymbolDefines()` -/
def resetSymbolDefines (t : Tab) : Tab := { t with defined := fun _ => false, used := fun _ => false }

/-- `IsSymbolDefined` -/
def isSymbolDefined (t : Tab) (s : Nat) : Bool := t.has s && t.defined s

/-- `IsSymbolUsed` -/
def isSymbolUsed (t : Tab) (s : Nat) : Bool := t.has s && t.used s

/-- `LookupSymbol`/`GetIntSymbol`: `if (pEntry) pEntry->Used = True` -/
def lookupSym (t : Tab) (s : Nat) : Tab :=
  if t.has s then { t with used := fun x => x == s || t.used x } else t

/-- `EnterIntSymbol` → `SymbolAdder` -/
def enterSym (t : Tab) (s : Nat) : Tab :=
  if t.has s then { t with defined := fun x => x == s || t.defined x }
  else { has := fun x => x == s || t.has x, defined := fun x => x == s || t.defined x, used := fun x => !(x == s) && t.used x }

def applyEv (t : Tab) : Ev → Tab
  | .code _ => t
  | .define s => enterSym t s
  | .use s => lookupSym t s
  | .effect _ => t

/-- everything an ordinary line does when it is assembled: `Produce_Code`'s label part (`LabelHandle`), then the statement -/
def Leaf.evs (l : Leaf) : List Ev :=
  (if (!l.isMacro || !l.intLabel) && l.labelPresent then [.define l.sym] else []) ++ l.exec

/-- the symbol-table events of one source line (only ordinary lines touch the table, and only `if (IfAsm)`) -/
def lineEvs (m : M) : Stmt → List Ev
  | .leaf l => if m.ifAsm && !m.crashed then Leaf.evs l else []
  | _ => []

/-- `CodeIFEXIST` puts the working directory in front of the include list (`strmaxprep(NPath, ".", …)`), `INCLUDE_SearchCore` does
not: a difference to "the same rules … as for the INCLUDE instruction" (finding `ifexist-searches-working-directory`); the check
probes the real binary each run and sets the flag accordingly -/
structure EnvCfg where
  existCwd : Bool := true
deriving Repr

/-- `FSearch(FileName, CurrFileName, "." DIRSEP IncludeList)` -/
def existCandidates (ec : EnvCfg) (fs : FS) (curr : Path) (f : FName) : List Path :=
  (if f.abs then resolve [] f.comps else resolve curr.dropLast f.comps) ::
    ((if ec.existCwd then [resolve fs.cwd f.comps] else []) ++ (Ctx.inclEntries fs).map (fun d => resolve d f.comps))

def existFound (ec : EnvCfg) (fs : FS) (curr : Path) (f : FName) : Bool := ((existCandidates ec fs curr f).find? fs.has).isSome

structure ES where
  m : M
  tab : Tab

/-- what `CodeIFDEF`/`CodeIFUSED` read from the table -/
def symRaw (tab : Tab) (t : SymTest) (s : Nat) : Bool :=
  match t with
  | .defined => isSymbolDefined tab s
  | .used => isSymbolUsed tab s
  | .exist => false

/-- the statement of Model/Cond.lean a line amounts to, with the truth value the assembler computes -/
def seen (ec : EnvCfg) (fs : FS) (e : ES) : ELine → Stmt
  | .plain s => s
  | .ifsym t neg s => .iff 1 (.sym t neg (symRaw e.tab t s))
  | .ifexist neg curr f => .iff 1 (.sym .exist neg (existFound ec fs curr f))

def stepE (cfg : Cfg) (ec : EnvCfg) (fs : FS) (e : ES) (l : ELine) : ES :=
  { m := step cfg e.m (seen ec fs e l), tab := (lineEvs e.m (seen ec fs e l)).foldl applyEv e.tab }

def runE (cfg : Cfg) (ec : EnvCfg) (fs : FS) (e : ES) (ls : List ELine) : ES := ls.foldl (stepE cfg ec fs) e

/-- the statements the pass went through -/
def seenAll (cfg : Cfg) (ec : EnvCfg) (fs : FS) : ES → List ELine → List Stmt
  | _, [] => []
  | e, l :: r => seen ec fs e l :: seenAll cfg ec fs (stepE cfg ec fs e l) r

/-- one pass: `AssembleFile_InitPass` (`ResetSymbolDefines`, `AsmIFInit`), the lines, `AssembleFile_ExitPass` -/
def passE (cfg : Cfg) (ec : EnvCfg) (fs : FS) (tab : Tab) (ls : List ELine) : ES :=
  let e := runE cfg ec fs ⟨init, resetSymbolDefines tab⟩ ls
  { e with m := endPass e.m }

/-- `n` passes over the same text, the first on an empty table; the result of the last one -/
def passesE (cfg : Cfg) (ec : EnvCfg) (fs : FS) (ls : List ELine) : Nat → ES
  | 0 => ⟨init, Tab.empty⟩
  | n + 1 => passE cfg ec fs (passesE cfg ec fs ls n).tab ls

end AslModel.CondEnv
