/-!
# MODEL of the multipass core (`as.c` pass loop, `asmpars.c` LookupSymbol / SymbolAdder,
`asmlabel.c` LabelModify after `asmcode.c` InsertPadding)

* `label n`      – `LabelHandle` → `EnterIntSymbol` → `SymbolAdder`: re-entering a constant with a
                   different value sets `Repass`.
* `ref n sz szU` – an instruction or data item referring to `n` whose *length* may depend on the
                   value: `LookupSymbol` of an unknown symbol yields the PC, sets `Repass`
                   (first-pass-unknown; the code generator then uses its `szU` form if it has one,
                   otherwise the size for the value PC).
* `skip k`       – code/data/reservation of fixed size.
* `align2`       – padding to an even address that moves no label.
* `padLabel n`   – a label on a line whose instruction inserts a padding byte when the PC is odd:
                   `SymbolAdder` has compared the *pre-padding* PC, afterwards `LabelModify` patches
                   the stored value to the padded PC without a comparison (parameter `cmpPre = true`,
                   the pinned tree); with `cmpPre = false` the comparison sees the padded value.
-/
namespace AslModel.Pass

abbrev Sym := Nat
abbrev Tab := Sym → Option Int

inductive Stmt where
  | label (n : Sym)
  | ref (n : Sym) (size : Int → Nat) (sizeU : Option Nat)
  | skip (k : Nat)
  | align2
  | padLabel (n : Sym) (cmpPre : Bool)

structure PS where
  pc : Nat := 0
  tab : Tab
  repass : Bool := false
  out : List (Nat × Sym × Int) := []   -- (address, referenced symbol, value encoded)

def upd (t : Tab) (n : Sym) (v : Int) : Tab := fun m => if m = n then some v else t m

def step (s : PS) : Stmt → PS
  | .label n =>
      -- SymbolAdder: re-entering with a different value requests another pass
      let mism := match s.tab n with
        | some v' => v' != (s.pc : Int)
        | none => false
      { s with tab := upd s.tab n s.pc, repass := s.repass || mism }
  | .ref n size sizeU =>
      match s.tab n with
      | some v => { s with pc := s.pc + size v, out := s.out ++ [(s.pc, n, v)] }
      | none =>   -- LookupSymbol: unknown => value := PC, Repass := True
          { s with pc := s.pc + sizeU.getD (size s.pc), out := s.out ++ [(s.pc, n, (s.pc : Int))], repass := true }
  | .skip k => { s with pc := s.pc + k }
  | .align2 => { s with pc := s.pc + s.pc % 2 }
  | .padLabel n cmpPre =>
      let padded := s.pc + s.pc % 2
      let cmp : Nat := if cmpPre then s.pc else padded
      let mism := match s.tab n with
        | some v' => v' != (cmp : Int)
        | none => false
      { s with pc := padded, tab := upd s.tab n padded, repass := s.repass || mism }

def run (s : PS) (p : List Stmt) : PS := p.foldl step s
def pass (T : Tab) (p : List Stmt) : PS := run { tab := T } p


/-- the pass loop `do … while (ErrorCount == 0 && Repass)` with a fuel bound on the number of
passes; returns the number of passes run and the final pass state, or `none` when the fuel ran out -/
def assemble (p : List Stmt) : Nat → Tab → Nat → Option (Nat × PS)
  | 0, _, _ => none
  | fuel + 1, T, k =>
    let s := pass T p
    if s.repass then assemble p fuel s.tab (k + 1) else some (k + 1, s)

def emptyTab : Tab := fun _ => none

end AslModel.Pass
