import AslModel.Model.AddrLab
/-!
# The precondition of the whole-program refinement `C10_lab_refine` (`Props/C10_Lab.lean`) — executable, core only

Kept apart from the lemmas so that the driver (`Driver/C10L.lean`) can report for every generated program whether the theorem
applies to it.

* `erase`: the lines `Produce_Code` sees (`flatM`) seen through the manual - the opening line of a construct leaves a line that
  only holds its label (or nothing);
* `preLine` / `runPre` / `Pre`: the decidable side conditions, evaluated along the SPEC run.
-/
namespace AslModel.AddrLabRefine
open AslModel.PFile (Byte b)
open AslModel.Data AslModel.DataModel AslModel.AddrLab AslModel.AddrLabModel

/-! ## the two line lists -/

/-- what the manual makes of a line `Produce_Code` sees: the opening line of a construct is replaced by a line that only holds
its label (the expansion follows in the list anyway) -/
def eraseLine (ln : Line) : List Line :=
  match ln.op, ln.label with
  | .opener _, some x => [⟨ln.src, some x, .blank⟩]
  | .opener _, none => []
  | _, _ => [ln]

def erase : List Line → List Line
  | [] => []
  | ln :: rest => eraseLine ln ++ erase rest

def isOpener : Op → Bool
  | .opener _ => true
  | _ => false

mutual
/-- a *source* program: `.opener` is not something one can write (it is the MODEL's name for the opening line of a construct) -/
def srcNode : Node → Bool
  | .line _ op => !isOpener op
  | .rep _ _ body => srcNodes body
def srcNodes : Nodes → Bool
  | .nil => true
  | .cons n ns => srcNode n && srcNodes ns
end


/-- `fresh ss k`: the symbol is not defined yet -/
def fresh (ss : List (Sym × Option Int)) (k : Sym) : Bool := !(ss.any (fun e => decide (e.1 = k)))


/-! ## the side conditions -/

/-- address units an `Out` advances the program counter by -/
def outUnits : Out → Nat
  | .empty => 0
  | .space n => n
  | .data bs => bs.length

def outBytes : Out → List Byte
  | .data bs => bs
  | _ => []

/-- the statement defines constants (as opposed to: reserves, lays nothing) -/
def outIsData : Out → Bool
  | .data _ => true
  | _ => false

/-- **the data statement lays down the same in MODEL and SPEC** (this is C09's subject: `Props/C09*.lean`; for placeholders
`C10_moto_res_model_eq_spec`): both refuse it, or both accept it with the same pad byte (written in front of constants - also
when their repeat factors leave no byte at all -, only reserved in front of placeholders), the same number of address units and
the same bytes -/
def motoAgree (c : Cfg) (big : Bool) (s : S) (st : Stmt) : Bool :=
  match modelStmt { c.mc with padding := s.padding } (AddrLab.epc s).toNat st, specStmt ⟨big, s.padding⟩ (AddrLab.epc s).toNat st with
  | none, none => true
  | some r, some (pad, o) =>
    decide (outUnits r.out = outUnits o) && decide (outBytes r.out = outBytes o) &&
    (match r.out with | .data bs => !bs.isEmpty | _ => true) &&
    (match r.pad with
     | none => pad == 0
     | some res => pad == 1 && (res == !outIsData o))
  | _, _ => false

/-- pad bytes the SPEC puts in front of the object of the line -/
def padOfLine (big : Bool) (s : S) (ln : Line) : Nat :=
  match ln.op with
  | .obj _ => if isOdd (AddrLab.epc s) && s.padding then 1 else 0
  | .dsx w _ => padBefore s.padding (AddrLab.epc s).toNat w
  | .moto st => match specStmt ⟨big, s.padding⟩ (AddrLab.epc s).toNat st with | some (pad, _) => pad | none => 0
  | _ => 0

/-- every symbol is defined once -/
def preFresh (s : S) (ln : Line) : Bool :=
  (match ln.label with | some l => fresh s.syms (symOf s l) | none => true) &&
  (match ln.op, s.frame with | .endstruct, some f => fresh s.syms ⟨some f.name, none⟩ | _, _ => true)

/-- the statement is inside the transcription -/
def preOp (c : Cfg) (big : Bool) (s : S) (ln : Line) : Bool :=
  match ln.op with
  | .opener ok => ok                                        -- the construct opens (`ExpandIRP()` … return True)
  | .bytes bs => !(s.frame.isSome && bs.isEmpty)            -- a data statement without data inside a structure
  | .moto st => motoAgree c big s st
  | _ => true

/-- the repaired finding `struct-field-symbol-keeps-pad-offset` (repair 0cba171): a pad byte is inserted and a label is moved inside
a structure while `LabelModify` does not correct field symbols (`Cfg.fixStruct = false`: a tree without the repair; with
`fixStruct = true` the condition is always met) -/
def preKnown (c : Cfg) (big : Bool) (s : S) (ln : Line) : Bool :=
  padOfLine big s ln == 0 || c.fixStruct || s.frame.isNone || (ln.label.isNone && s.pending.isNone)

def preLine (c : Cfg) (big : Bool) (s : S) (ln : Line) : Bool := preFresh s ln && preOp c big s ln && preKnown c big s ln

/-- the SPEC on what the manual makes of the line -/
def stepE (big : Bool) (s : S) (ln : Line) : Step :=
  match eraseLine ln with
  | [] => .ok s
  | x :: _ => AddrLab.step big s x

/-- the side conditions along the run of the SPEC (up to the line the text does not cover) -/
def runPre (c : Cfg) (big : Bool) : S → List Line → Bool
  | _, [] => true
  | s, ln :: rest =>
    preLine c big s ln &&
    match stepE big s ln with
    | .ok s' => runPre c big s' rest
    | .unspecified => true


/-- the precondition of `C10_lab_refine`: a source program (no `.opener` written by hand) whose lines, as `Produce_Code` sees them,
meet the side conditions `preLine` along the run of the SPEC -/
def Pre (c : Cfg) (big : Bool) (s : S) (prog : Nodes) : Bool := srcNodes prog && runPre c big s (flatM 0 prog)


end AslModel.AddrLabRefine
