import AslModel.Model.Expr
import AslModel.Generated.IntFormats
/-!
# MODEL: `ConstIntVal` (asmpars.c) with the notation list of intformat.c

`IntFormatList_All[]`, the per-syntax masks and the `BadMask` come from `Generated/IntFormats.lean`.
`IntCfg` is the state the C code keeps in `NativeIntConstModeMask`/`OtherIntConstModeMask`/`RelaxedMode`/
`RadixBase`/`IntConstModeIBMNoTerm`.
-/
namespace AslModel.IntConst
open AslModel.Formula AslModel.Expr AslModel.Generated

inductive Mode where
  | moto | intel | c | ibm
deriving DecidableEq, Repr

structure IntCfg where
  native : Nat
  other : Nat
  relaxed : Bool
  radix : Nat
  ibmNoTerm : Bool
deriving Repr

def bit (i : Nat) : Nat := 1 <<< i

/-- `SetIntConstMode` -/
def setMode (m : Mode) (relaxed : Bool) (radix : Nat) (ibmNoTerm : Bool) : IntCfg :=
  let c := intFormatMaskC; let i := intFormatMaskIntel; let mo := intFormatMaskMoto; let ib := intFormatMaskIBM
  let (n, o) := match m with
    | .c => (c, i ||| mo ||| ib)
    | .intel => (i, c ||| mo ||| ib)
    | .moto => (mo, c ||| i ||| ib)
    | .ibm => (ib, c ||| i ||| mo)
  ⟨n ||| bit intFormatDefRadixId, o, relaxed, radix, ibmNoTerm⟩

/-- `ModifyIntConstModeByMask`; `none` = rejected (`ErrNum_InvIntFormatList`), state unchanged -/
def modify (cfg : IntCfg) (andMask orMask : Nat) : Option IntCfg :=
  let new := (cfg.native &&& (Nat.xor (2 ^ 32 - 1) andMask)) ||| orMask
  if new &&& intFormatBadMask = intFormatBadMask then none else some { cfg with native := new }

/-- the mask handed to `SetIntConstModeByMask` -/
def IntCfg.mask (cfg : IntCfg) : Nat := cfg.native ||| (if cfg.relaxed then cfg.other else 0)

/-- `IntFormatList`: the rows of `IntFormatList_All` whose id is in the mask, in table order -/
def IntCfg.list (cfg : IntCfg) : List IntFmtRow := intFormats.filter fun r => (cfg.mask >>> r.fid) % 2 = 1

def upC (c : Char) : Char := if 'a' ≤ c ∧ c ≤ 'z' then Char.ofNat (c.toNat - 32) else c

/-- `DigitVal` -/
def digitValC (c : Char) (base : Nat) : Option Nat :=
  let d := if '0' ≤ c ∧ c ≤ '9' then c.toNat - 48
    else if 'A' ≤ c ∧ c ≤ 'Z' then c.toNat - 55
    else if 'a' ≤ c ∧ c ≤ 'z' then c.toNat - 87 else 99
  if d < base then some d else none

def isXDigit (c : Char) : Bool := ('0' ≤ c ∧ c ≤ '9') || ('a' ≤ c ∧ c ≤ 'f') || ('A' ≤ c ∧ c ≤ 'F')

/-- the `Check` functions: `some (digits)` when the notation applies (with the marker removed) -/
def check (cfg : IntCfg) (r : IntFmtRow) (s : List Char) : Option (List Char) :=
  let ch := Char.ofNat r.ch
  let len := s.length
  match r.chk with
  | .CHex =>
    if len > 2 ∧ s.head? = some '0' ∧ cfg.radix ≤ r.ch - 65 + 10 ∧ (s.getD 1 ' ' |> upC) = ch then some (s.drop 2) else none
  | .CBin =>
    if len > 2 ∧ s.head? = some '0' ∧ cfg.radix ≤ r.ch - 65 + 10 ∧ (s.getD 1 ' ' |> upC) = ch
        ∧ (s.drop 2).all (fun c => (digitValC c 2).isSome) then some (s.drop 2) else none
  | .Mot => if len > 1 ∧ s.head? = some ch then some (s.drop 1) else none
  | .Int =>
    if len < 2 ∨ !(isDigitC (s.headD ' ')) then none
    else if cfg.radix ≤ r.ch - 65 + 10 ∧ upC (s.getLastD ' ') = ch then some s.dropLast else none
  | .IBM =>
    if len < 3 ∨ upC (s.headD ' ') ≠ ch ∨ s.getD 1 ' ' ≠ '\'' then none
    else if len > 3 ∧ s.getLastD ' ' = '\'' then some (s.drop 2).dropLast
    else if cfg.ibmNoTerm then some (s.drop 2)
    else none
  | .COct =>
    if len < 2 ∨ s.head? ≠ some '0' then none
    else if (s.drop 1).all (fun c => (digitValC c 8).isSome) then some s else none
  | .NatHex =>
    if len < 2 ∨ s.head? ≠ some '0' then none
    else if (s.drop 1).all isXDigit then some s else none
  | .Def => some s

def firstMatch (cfg : IntCfg) (s : List Char) : List IntFmtRow → Option (Nat × List Char)
  | [] => none
  | r :: rs =>
    match check cfg r s with
    | some d => some (if r.base > 0 then r.base.toNat else cfg.radix, d)
    | none => firstMatch cfg s rs

def digitLoop (base : Nat) : List Char → W → Option W
  | [], acc => some acc
  | c :: cs, acc =>
    match digitValC (upC c) base with
    | none => none
    | some d => digitLoop base cs (acc * BitVec.ofNat 64 base + BitVec.ofNat 64 d)

/-- **`ConstIntVal`**: `none` = "not an integer constant" -/
def constIntVal (cfg : IntCfg) (s : List Char) : Option W :=
  match s with
  | [] => some 0
  | c :: rest =>
    let neg := c == '-'
    let body := if c == '-' ∨ c == '+' then rest else s
    match firstMatch cfg body cfg.list with
    | none => none
    | some (base, digits) =>
      match digitLoop base digits 0 with
      | none => none
      | some v => some (if neg then -v else v)

end AslModel.IntConst
