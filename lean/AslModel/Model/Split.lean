import AslModel.Spec.SrcLine
/-! MODEL (C16): the source-line reader and splitter of the assembler at character level.

Transcribed function by function from
 * `strutil.c ReadLnCont`   – LF / CR-LF stripping, `^Z`, backslash continuation, physical line count
 * `asmsub.c QuotPosCore`   – the quote/bracket aware search used for the comment cut and the argument split
   (`QuotSMultPosQualify`, `QuotPosQualify`), with the per-target `QualifyQuote` callbacks
   (`codez80.c QualifyQuote_Z80`, `codepseudo.c QualifyQuote_SingleQuoteConstant`)
 * `as.c SplitLine`         – comment cut, column-1 label rule, optional colon, mnemonic / argument field separation,
   trailing separator on the mnemonic, attribute split (incl. the `.instr.attr` retry), `KillPostBlanks`, argument loop
 * `as.c Produce_Code`      – `NLS_UpString(OpPart)` (ASCII part of the NLS table)

Lines are `List Char` (8-bit).  Outside the model: `ExpandDefines` (identity unless `#define` is used), `STRINGSIZE`
truncation of label/attribute (`STRINGSIZE` - 1), `ArgCntMax`, the 8-bit wrap of the bracket counters (`ShortInt`), fgets
fragmenting of lines longer than the line buffer, `!`-prefix and `{sym}` expansion of the mnemonic. -/
namespace AslModel.Split
open AslModel.SrcLine (Fields upStr)

/-- C `isspace` in the "C" locale (`as_isspace`) -/
def isSpace (c : Char) : Bool :=
  c == ' ' || c == '\t' || c == '\n' || c == '\x0b' || c == '\x0c' || c == '\r'

/-- `KillPostBlanks` -/
def trimRight : List Char → List Char
  | [] => []
  | c :: cs =>
    let r := trimRight cs
    if r.isEmpty && isSpace c then [] else c :: r

/-! ## QuotPosCore -/

inductive QKind where
  | none      -- QualifyQuote = NULL
  | z80       -- QualifyQuote_Z80: `AF'` is no quote
  | sglConst  -- QualifyQuote_SingleQuoteConstant: H'..' X'..' B'..' O'..' are integer constants
  deriving DecidableEq, Repr

structure QState where
  brack : Int := 0
  ang : Int := 0
  sgl : Bool := false
  dbl : Bool := false
  esc : Bool := false      -- ThisEscaped
  deriving DecidableEq, Repr

def QState.neutral (s : QState) : Bool := s.ang == 0 && s.brack == 0 && !s.sgl && !s.dbl

def isXDigit (c : Char) : Bool := c.isDigit || ('a' ≤ c && c ≤ 'f') || ('A' ≤ c && c ≤ 'F')

/-- digits valid in the given base, as in the scan loop of QualifyQuote_SingleQuoteConstant -/
def baseDigit (base : Nat) (c : Char) : Bool :=
  if base == 16 then isXDigit c
  else if base == 8 then c.isDigit && c < '8'
  else if base == 2 then c.isDigit && c < '2'
  else false

/-- the QualifyQuote callback: `rp` = characters before the quote, reversed (from `pStart`); `after` = characters
after the quote.  `true` = the quote opens a character string. -/
def qualify (qk : QKind) (rp : List Char) (after : List Char) : Bool :=
  match qk with
  | .none => true
  | .z80 =>
    match rp with
    | f :: a :: _ => !(a.toUpper == 'A' && f.toUpper == 'F')
    | _ => true
  | .sglConst =>
    match rp with
    | [] => true
    | c :: _ =>
      let u := c.toUpper
      let base : Nat := if u == 'B' then 2 else if u == 'O' then 8 else if u == 'X' || u == 'H' then 16 else 0
      if base == 0 then true
      else
        -- scan the following valid digits
        let restAfter := after.dropWhile (baseDigit base)
        if restAfter.length == after.length then true          -- none -> "bad": ordinary quote
        else
          match restAfter with
          | [] => false                                        -- H'12 : integer constant, no string
          | c :: _ => if c == '\'' then true else c.isAlphanum -- x'..' harmless form / string continues

/-- one iteration of the `switch (*i)` in QuotPosCore (after the match test) -/
def stepQ (qk : QKind) (st : QState) (rp : List Char) (c : Char) (after : List Char) : QState :=
  let s0 := { st with esc := false }
  if c == '"' then
    if !st.sgl && !st.esc then { s0 with dbl := !st.dbl } else s0
  else if c == '\'' then
    if !st.dbl && !st.esc then
      (if st.sgl || qualify qk rp after then { s0 with sgl := !st.sgl } else s0)
    else s0
  else if c == '\\' then
    if (st.sgl || st.dbl) && !st.esc then { s0 with esc := true } else s0
  else if c == '(' then
    if st.ang == 0 && !st.dbl && !st.sgl then { s0 with brack := st.brack + 1 } else s0
  else if c == ')' then
    if st.ang == 0 && !st.dbl && !st.sgl then { s0 with brack := st.brack - 1 } else s0
  else if c == '[' then
    if st.brack == 0 && !st.dbl && !st.sgl then { s0 with ang := st.ang + 1 } else s0
  else if c == ']' then
    if st.brack == 0 && !st.dbl && !st.sgl then { s0 with ang := st.ang - 1 } else s0
  else s0

/-- QuotPosCore: index of the first position where `m` (the SearchFnc, looking at the remaining text) matches
outside quotes and brackets -/
def quotPosAux (qk : QKind) (m : List Char → Bool) : QState → List Char → List Char → Nat → Option Nat
  | _, _, [], _ => none
  | st, rp, c :: rest, i =>
    if m (c :: rest) && st.neutral then some i
    else quotPosAux qk m (stepQ qk st rp c rest) (c :: rp) rest (i + 1)

def quotPos (qk : QKind) (m : List Char → Bool) (s : List Char) : Option Nat :=
  quotPosAux qk m {} [] s 0

/-- SearchSingleChar -/
def matchChar (ch : Char) (s : List Char) : Bool :=
  match s with
  | c :: _ => c == ch
  | [] => false

/-- SearchMultString over the list of comment lead-ins -/
def matchLeadIn (lis : List (List Char)) (s : List Char) : Bool :=
  lis.any (fun li => !li.isEmpty && li.isPrefixOf s)

/-! ## SplitLine -/

structure Params where
  divideChars : List Char := [',']
  hasAttrs : Bool := false
  attrChars : List Char := ['.']
  leadIns : List (List Char) := [[';']]
  qk : QKind := .none

/-- comment cut: (text before the comment, comment incl. lead-in) -/
def cutComment (p : Params) (line : List Char) : List Char × List Char :=
  match quotPos p.qk (matchLeadIn p.leadIns) line with
  | some i => (line.take i, line.drop i)
  | none => (line, [])

def isLabEnd (c : Char) : Bool := isSpace c || c == ':'

/-- "Non-blank character in first column is always label": (label, rest after the one delimiter) -/
def splitLabel (body : List Char) : List Char × List Char :=
  match body with
  | [] => ([], [])
  | c :: _ =>
    if isSpace c then ([], body)
    else
      let lab := body.takeWhile (fun c => !isLabEnd c)
      (lab, body.drop (lab.length + 1))

/-- the `while (True)` loop "Opcode & Argument trennen": (label, OpPart, ArgPart) -/
def splitOpAux (dc : List Char) : Nat → List Char → List Char → List Char × List Char × List Char
  | 0, lab, rest => (lab, [], rest)
  | n + 1, lab, rest =>
    match rest.dropWhile isSpace with
    | [] => (lab, [], [])
    | c :: r =>
      if dc.contains c then (lab, [], c :: r)
      else
        let op := (c :: r).takeWhile (fun c => !isSpace c)
        let r' := (c :: r).drop (op.length + 1)
        if lab.isEmpty && op.getLast? == some ':' then splitOpAux dc n op.dropLast r'
        else (lab, op, r')

/-- "trailing separator on OpPart means we have to push in another empty argument" -/
def opTrailDiv (dc : List Char) (op : List Char) : List Char × List (List Char) :=
  match op.getLast? with
  | some c => if dc.contains c then (op.dropLast, [[]]) else (op, [])
  | none => (op, [])

/-- earliest position of any attribute character (minimum over `strchr(OpPart, *pActAttrChar)`): (before, after) -/
def splitAttr1 (ac : List Char) : List Char → Option (List Char × List Char)
  | [] => none
  | c :: cs =>
    if ac.contains c then some ([], cs)
    else (splitAttr1 ac cs).map (fun r => (c :: r.1, r.2))

/-- "Attribut abspalten" incl. the one retry for `.instr.attr` -/
def splitAttr (p : Params) (op : List Char) : List Char × List Char :=
  if !p.hasAttrs then (op, [])
  else
    match splitAttr1 p.attrChars op with
    | none => (op, [])
    | some (o1, a1) =>
      if o1.isEmpty && !a1.isEmpty then
        match splitAttr1 p.attrChars a1 with
        | none => (a1, [])
        | some (o2, a2) => if o2.isEmpty && !a2.isEmpty then (a2, []) else (o2, a2)
      else (o1, a1)

/-- position of the nearest divider and whether the search for the *last* divide char succeeded (`pActDivPos`) -/
def divPos (p : Params) (r : List Char) : Nat × Bool :=
  p.divideChars.foldl
    (fun (acc : Nat × Bool) d =>
      match quotPos p.qk (matchChar d) r with
      | some i => (min acc.1 i, true)
      | none => (acc.1, false))
    (r.length, false)

/-- "Argumente zerteilen" -/
def splitArgsAux (p : Params) : Nat → List Char → Bool → List (List Char)
  | 0, _, _ => []
  | n + 1, run, forced =>
    if run.isEmpty && !forced then []
    else
      let r := run.dropWhile isSpace
      let dp := divPos p r
      trimRight (r.take dp.1) :: splitArgsAux p n (r.drop (dp.1 + 1)) dp.2

def splitArgs (p : Params) (argPart : List Char) : List (List Char) :=
  let ap := trimRight argPart
  if ap.isEmpty then [] else splitArgsAux p (ap.length + 2) ap false

/-- the part of SplitLine after the comment cut -/
def splitBody (p : Params) (body : List Char) : Fields :=
  let lr := splitLabel body
  let t := splitOpAux p.divideChars (lr.2.length + 1) lr.1 lr.2
  let od := opTrailDiv p.divideChars t.2.1
  let oa := splitAttr p od.1
  ⟨t.1, oa.1, oa.2, od.2 ++ splitArgs p t.2.2⟩

def split (p : Params) (line : List Char) : Fields :=
  splitBody p (cutComment p line).1

/-- what the instruction dispatch sees: `NLS_UpString(OpPart)` in Produce_Code (ASCII part of the NLS table); the
attribute is compared case-insensitively by the code generators.  "Equal up to letter case of op/attr" is equality of
`Fields.norm` (Spec/SrcLine.lean). -/
def produceOp (f : Fields) : List Char := upStr f.op

/-! ## Second-level splitting: statements whose first parameter carries a further statement

`SplitLine` divides the parameter field at commas only.  A few code generators accept *prefix style* statements
(`RPTC #5 ADDX.W R4,R7`, `|| [B0] SUB.S2 B8,B9,B7`, `OP MOV @A,B`, `ALTD INC IY`): the first parameter they receive still
contains blanks, and they split it once more themselves.  The blank/tab runs at which they split are separators between
components of the line (manual: "To separate the individual components you may also use tabulators instead of spaces"),
so their spelling must not matter.  Transcribed:
 * `asmsub.c FirstBlank`                   – position of the first blank or TAB, whichever comes first
 * `strutil.c KillPrefBlanks`              – `trimLeft`
 * `code3206x.c ReiterateOpPart` + the calling sequence in `MakeCode_3206X` (`||` / `[cond]` in label or mnemonic position)
 * `code7720.c DecodeOP`
 * `codemsp.c DecodeRPT`                   (the splitting part)
 * `codez80.c StripPref`                   (Rabbit 2000 `ALTD`)
 * `asmmac.c Preprocess`                   (`#define NAME text`, `#undef NAME`)
Outside the model: what the code generators do with the parts afterwards (register / condition syntax, table lookup). -/

/-- `strchr`: index of the first occurrence -/
def strchr (ch : Char) : List Char → Option Nat
  | [] => none
  | c :: cs => if c == ch then some 0 else (strchr ch cs).map (· + 1)

/-- `strrchr`: index of the last occurrence -/
def strrchr (ch : Char) : List Char → Option Nat
  | [] => none
  | c :: cs =>
    match strrchr ch cs with
    | some i => some (i + 1)
    | none => if c == ch then some 0 else none

/-- `FirstBlank`: `h = strchr(s, ' ')` and `h = strchr(s, Char_HT)`, each kept if it is the smaller position -/
def firstBlank (s : List Char) : Option Nat :=
  let m0 : Option Nat := none
  let m1 : Option Nat :=
    match strchr ' ' s with
    | some h => (match m0 with | none => some h | some m => if h < m then some h else some m)
    | none => m0
  match strchr '\t' s with
  | some h => (match m1 with | none => some h | some m => if h < m then some h else some m)
  | none => m1

/-- `KillPrefBlanks` -/
def trimLeft (s : List Char) : List Char := s.dropWhile isSpace

/-- the split every caller performs: (text before the first blank/TAB, text after it with leading blanks removed) -/
def splitAtBlank (s : List Char) : Option (List Char × List Char) :=
  (firstBlank s).map (fun i => (s.take i, trimLeft (s.drop (i + 1))))

/-- the prefix words taken off a statement (in source order) and the statement that remains -/
structure PFields where
  pre : List (List Char)
  f : Fields
  deriving DecidableEq, Repr

inductive PrefixKind where
  | plain     -- no prefix handling
  | c6x       -- TMS320C6x: `||` and `[cond]`
  | op7720    -- uPD7720/7725: `OP`
  | rpt       -- MSP430X: `RPTC` / `RPTZ`
  | altd      -- Rabbit 2000: `ALTD`
  deriving DecidableEq, Repr

/-- `ReiterateOpPart` (after `CheckOpt(OpPart)` succeeded): the first parameter becomes mnemonic (+ attribute at the
first '.') and, if text follows a blank, the new first parameter (`StrCompSplitLeft` at `FirstBlank`, `KillPrefBlanks`).
`none` = "wrong number of arguments". -/
def reiterateOpPart (f : Fields) : Option Fields :=
  match f.args with
  | [] => none
  | a :: rest =>
    let oa : List Char × List (List Char) :=
      match splitAtBlank a with
      | none => (a, rest)
      | some (h, t) => (h, t :: rest)
    let opU := upStr oa.1
    match strchr '.' opU with
    | none => some ⟨f.lab, opU, [], oa.2⟩
    | some j => some ⟨f.lab, opU.take j, opU.drop (j + 1), oa.2⟩

def isCondOrPar (s : List Char) : Bool := s == ['|', '|'] || s.head? == some '['

/-- the head of `MakeCode_3206X`: options from the label (a label `||` / `[cond]` is an option, not a symbol:
`IsDef_3206X`), then `||` and `[cond]` in mnemonic position -/
def makeCode3206 (f00 : Fields) : Option PFields :=
  let pre0 : List (List Char) := if isCondOrPar f00.lab then [upStr f00.lab] else []
  let f0 : Fields := { f00 with lab := if isCondOrPar f00.lab then [] else f00.lab }
  let s1 : Option PFields :=
    if f0.op == ['|', '|'] then (reiterateOpPart f0).map (fun f => ⟨pre0 ++ [f0.op], f⟩) else some ⟨pre0, f0⟩
  match s1 with
  | none => none
  | some pf =>
    if pf.f.op.head? == some '[' then (reiterateOpPart pf.f).map (fun f => ⟨pf.pre ++ [pf.f.op], f⟩) else some pf

/-- `DecodeOP`: the inner mnemonic is upper-cased with and without parameters behind it (without them only since the
repair abd5d30) -/
def decodeOP7720 (f : Fields) : PFields :=
  match f.args with
  | [] => ⟨[f.op], ⟨f.lab, [], [], []⟩⟩
  | a :: rest =>
    match splitAtBlank a with
    | some (h, t) => ⟨[f.op], ⟨f.lab, upStr h, [], t :: rest⟩⟩
    | none => ⟨[f.op], ⟨f.lab, upStr a, [], rest⟩⟩

/-- attribute at the last '.' (`strrchr`) -/
def splitAttrLast (opU : List Char) : List Char × List Char :=
  match strrchr '.' opU with
  | some k => (opU.take k, opU.drop (k + 1))
  | none => (opU, [])

/-- `DecodeRPT`, splitting part: repeat count, mnemonic (`UpString`; attribute at the last '.'), first operand.
`none` = "useless attribute" / "failed splitting argument into parts" / wrong argument count -/
def decodeRPT (f : Fields) : Option PFields :=
  if !f.attr.isEmpty then none
  else
    match f.args with
    | [] => none
    | a :: rest =>
      match splitAtBlank a with
      | none => none
      | some (mult, r1) =>
        match splitAtBlank r1 with
        | none => none
        | some (o, a1) =>
          let oa := splitAttrLast (upStr o)
          some ⟨[f.op, mult], ⟨f.lab, oa.1, oa.2, a1 :: rest⟩⟩

/-- `StripPref("ALTD", ..)`: the mnemonic is the first parameter up to its first white space -/
def stripPref (f : Fields) : PFields :=
  match f.args with
  | [] => ⟨[f.op], ⟨f.lab, [], [], []⟩⟩
  | a :: rest =>
    let w := a.takeWhile (fun c => !isSpace c)
    let r := (a.drop w.length).dropWhile isSpace
    ⟨[f.op], ⟨f.lab, upStr w, [], if r.isEmpty then rest else r :: rest⟩⟩

/-- is the (upper-cased) mnemonic one that makes the code generator split its first parameter once more? -/
def isPrefixStmt (k : PrefixKind) (opU : List Char) : Bool :=
  match k with
  | .plain => false
  | .c6x => opU == ['|', '|'] || opU.head? == some '['
  | .op7720 => opU == "OP".toList
  | .rpt => opU == "RPTC".toList || opU == "RPTZ".toList
  | .altd => opU == "ALTD".toList

/-- what the code generator of a prefix-style statement works on: `f` = fields as SplitLine delivered them; the
mnemonic passes `NLS_UpString` in Produce_Code first.  Statements that are not prefix statements of the given kind are
returned unchanged. -/
def resplit (k : PrefixKind) (f : Fields) : Option PFields :=
  let fu : Fields := { f with op := upStr f.op }
  match k with
  | .plain => some ⟨[], fu⟩
  | .c6x => makeCode3206 fu
  | .op7720 => if isPrefixStmt .op7720 fu.op then some (decodeOP7720 fu) else some ⟨[], fu⟩
  | .rpt => if isPrefixStmt .rpt fu.op then decodeRPT fu else some ⟨[], fu⟩
  | .altd => if isPrefixStmt .altd fu.op then some (stripPref fu) else some ⟨[], fu⟩

/-- equality of re-split statements up to the letter case of attribute (the mnemonic is already upper case) -/
def PFields.norm (x : PFields) : PFields := { x with f := x.f.norm }

/-! ### `Preprocess` -/

/-- `Preprocess`: (directive, name, replacement text).  `#define NAME text` gives `("define", NAME, text)`, `#undef NAME`
gives `("undef", NAME, [])`; a `define` without a blank after the name defines nothing (`none`).  The directive is
compared with `as_strcasecmp`, reported here upper-cased. -/
def preprocess (line : List Char) : Option (List Char × List Char × List Char) :=
  match strchr '#' line with
  | none => none
  | some k =>
    let h0 := line.drop (k + 1)
    let ch : List Char × List Char :=
      match splitAtBlank h0 with
      | none => (h0, [])
      | some (c, r) => (c, r)
    let h := trimRight ch.2
    let cmd := upStr ch.1
    if cmd == "DEFINE".toList then
      match splitAtBlank h with
      | some (n, v) => some (cmd, n, v)
      | none => none
    else if cmd == "UNDEF".toList then some (cmd, h, [])
    else none

/-! ## The component buffers of SplitLine

`SplitLine` does not work on the line itself: the comment, the argument field and every single argument are copied
into buffers of their own (`CommPart`, `ArgPart`, `ArgStr[i]`; `asmdef.c`: `StrCompAlloc(.., STRINGSIZE)`), which grow
in steps of 128 characters.  Transcribed:
 * `dynstr.h as_dynstr_roundup_len`   – `((len) + 128) & ~127`
 * `strutil.c strmemcpy`              – copy limited to capacity - 1 characters (room for the NUL)
 * `as.c adjust_copy_comp`            – grow if `newsz + 1 > capacity`, then `strmemcpy`
 * `asmdef.c AppendArg`               – grow `ArgStr[ArgCnt]` if `capacity <= ReqSize`
 * `dynstr.c as_dynstr_realloc`       – the capacity becomes the requested one (out of memory is outside the model)
`splitBuf` is `split` with these copies in place; `Props/C16_Long.lean` proves that no copy ever loses a character, for
every capacity history - which is what allows `split` to work on unbounded lists. -/

/-- `STRINGSIZE` (datatypes.h): initial capacity of every component buffer -/
def stringSize : Nat := 1024

/-- `as_dynstr_roundup_len` -/
def roundupLen (n : Nat) : Nat := (n + 128) / 128 * 128

/-- `strmemcpy(dest, cap, src, src.length)`: what is stored -/
def strmemcpy (cap : Nat) (src : List Char) : List Char :=
  if cap < src.length + 1 then src.take (cap - 1) else src

/-- `adjust_copy_comp`: (capacity afterwards, stored text) -/
def adjustCopyComp (cap : Nat) (src : List Char) : Nat × List Char :=
  let cap' := if src.length + 1 > cap then roundupLen src.length else cap
  (cap', strmemcpy cap' src)

/-- `AppendArg(ReqSize)`: capacity of the argument buffer afterwards -/
def appendArgCap (cap req : Nat) : Nat := if cap ≤ req then roundupLen req else cap

/-- capacities of `CommPart`, `ArgPart` and of the argument buffers `ArgStr[1..]` (missing entries = `STRINGSIZE`) -/
structure Caps where
  comm : Nat := stringSize
  arg : Nat := stringSize
  args : List Nat := []
  deriving DecidableEq, Repr

/-- the argument field as SplitLine hands it to `adjust_copy_comp` (before `KillPostBlanks`) -/
def argPartOf (p : Params) (line : List Char) : List Char :=
  let lr := splitLabel (cutComment p line).1
  (splitOpAux p.divideChars (lr.2.length + 1) lr.1 lr.2).2.2

/-- "Argumente zerteilen" with the per-argument buffers: (capacities afterwards, arguments) -/
def splitArgsBufAux (p : Params) : Nat → List Char → Bool → List Nat → List Nat × List (List Char)
  | 0, _, _, caps => (caps, [])
  | n + 1, run, forced, caps =>
    if run.isEmpty && !forced then (caps, [])
    else
      let r := run.dropWhile isSpace
      let dp := divPos p r
      let raw := r.take dp.1
      let c0 := caps.headD stringSize
      let cp := adjustCopyComp (appendArgCap c0 raw.length) raw
      let rest := splitArgsBufAux p n (r.drop (dp.1 + 1)) dp.2 caps.tail
      (cp.1 :: rest.1, trimRight cp.2 :: rest.2)

def splitArgsBuf (p : Params) (argPart : List Char) (caps : List Nat) : List Nat × List (List Char) :=
  let ap := trimRight argPart
  if ap.isEmpty then (caps, []) else splitArgsBufAux p (ap.length + 2) ap false caps

/-- `SplitLine` with its component buffers: (capacities afterwards, fields) -/
def splitBuf (c : Caps) (p : Params) (line : List Char) : Caps × Fields :=
  let cc := cutComment p line
  let cm := if cc.2.isEmpty then (c.comm, []) else adjustCopyComp c.comm cc.2
  let lr := splitLabel cc.1
  let t := splitOpAux p.divideChars (lr.2.length + 1) lr.1 lr.2
  let ap := adjustCopyComp c.arg t.2.2
  let od := opTrailDiv p.divideChars t.2.1
  let oa := splitAttr p od.1
  let sa := splitArgsBuf p ap.2 (if od.2.isEmpty then c.args else c.args.tail)
  (⟨cm.1, ap.1, (if od.2.isEmpty then [] else [c.args.headD stringSize]) ++ sa.1⟩, ⟨t.1, oa.1, oa.2, od.2 ++ sa.2⟩)

/-- a whole sequence of lines through the same buffers (one assembler run): fields of every line, and how many lines had
an argument field / a comment exactly as long as the buffer's capacity at that moment (the copy needs one more for the NUL) -/
def splitBufRun (p : Params) : Caps → List (List Char) → List Fields × Nat × Nat
  | _, [] => ([], 0, 0)
  | c, l :: ls =>
    let r := splitBuf c p l
    let rest := splitBufRun p r.1 ls
    let ha := if (argPartOf p l).length == c.arg then 1 else 0
    let hc := if (cutComment p l).2.length == c.comm then 1 else 0
    (r.2 :: rest.1, rest.2.1 + ha, rest.2.2 + hc)

/-! ## ReadLnCont

The per-call loop of ReadLnCont (fgets up to LF, strip LF and one preceding CR, append to the line buffer, strip a
trailing ^Z of the buffer, a trailing backslash continues with the next physical line) over the characters of a whole
file, as a state machine: `buf` = logical line so far, `cur` = current physical line, `cnt` = physical lines consumed
for this logical line.  (Outside the model: the empty line INCLUDE_Processor delivers after the last LF before feof is
seen; several backslashes directly before the end of the file; fgets fragments of over-long lines.) -/

def stripLast (ch : Char) (l : List Char) : List Char :=
  if l.getLast? == some ch then l.dropLast else l

/-- buffer after one physical line has been appended (`term` = it ended in LF) -/
def finishPhys (buf cur : List Char) (term : Bool) : List Char :=
  stripLast '\x1a' (buf ++ (if term then stripLast '\r' cur else cur))

def readGo : List Char → List Char → Nat → List Char → List (List Char × Nat)
  | buf, cur, cnt, [] =>
    if cur.isEmpty && cnt == 0 then []
    else
      let b := finishPhys buf cur false
      if b.getLast? == some '\\' then [(b.dropLast, cnt + 2)] else [(b, cnt + 1)]
  | buf, cur, cnt, c :: cs =>
    if c == '\n' then
      let b := finishPhys buf cur true
      if b.getLast? == some '\\' then readGo b.dropLast [] (cnt + 1) cs
      else (b, cnt + 1) :: readGo [] [] 0 cs
    else readGo buf (cur ++ [c]) cnt cs

/-- all logical lines of a file with the number of physical lines each one consumed -/
def readFile (text : List Char) : List (List Char × Nat) := readGo [] [] 0 text

end AslModel.Split
