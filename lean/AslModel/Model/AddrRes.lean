import AslModel.Model.DataExt
import AslModel.Spec.AddrRes
/-!
# Address bookkeeping across Intel-style data statements — MODEL (C10, reservation part)

What a `DN/DB/DW/DD/DQ` statement does to the program counter of the active segment is `CodeLen` as set by
`intpseudo.c DecodeIntelDx`: the transcription in `Model/DataExt.lean` (`decodeIntelDxX`, with the
`tCurrCodeFill` arithmetic `SubCodeFill`/`MultCodeFill`/`IncCodeFillBy` of the reservation form of `DUP`,
`FillIncPerElem`, the final "Padding added" step) for `Grans[ActPC]` of the segment the statement stands in.
`as.c WriteCode` then does `PCs[ActPC] += CodeLen`; `CodeORG_Core`, `CodeRORG`, `CodeSEGMENT` and the label part of
`Produce_Code` are those of `Model/Addr.lean` without PHASE offsets (`C10_refine` covers them); here they are
the shared machine `AddrRes.run`, instantiated with the layout function below.
-/
namespace AslModel.AddrResModel
open AslModel.PFile (Byte b)
open AslModel.Data AslModel.DataModel AslModel.DataX AslModel.DataXModel AslModel.AddrRes

/-- `DecodeIntelDx` seen from the address bookkeeping: error, or `CodeLen` units and the bytes of the units -/
def modelLay (c : MCfg) (p : XP) (g bits : Nat) (as : XArgs) : Lay :=
  match decodeIntelDxX c p g bits tableInit as with
  | .err => .reject
  | .crash => .unspecified
  | .ok r =>
    match r.out with
    | .empty => .adv 0 []
    | .space n => .adv n []
    | .data bs => .adv ((bs.length + g - 1) / g) bs

end AslModel.AddrResModel
