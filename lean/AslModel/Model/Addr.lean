import AslModel.Generated.SegParams
/-!
# MODEL of the address bookkeeping of `asl` (C10)

Transcription, function by function, of
`asmallg.c`: `SetNSeg`, `CodeCPU`, `CodeORG_Core`, `CodeRORG`, `CodeALIGN`, `CodePHASE`, `CodeDEPHASE`,
`CodeSAVE`, `CodeRESTORE`, `CodeSEGMENT`, `CodeSTRUCT`, `CodeENDSTRUCT`;
`as.c`: `WriteCode`, the label part of `Produce_Code`; `asmsub.c`: `ProgCounter`, `EProgCounter`, `DefChkPC`;
`asmlabel.c`: `LabelHandle`; `asmstructs.c`: `AddStructElem` (length bump), `AddStructSymbol`,
`BumpStructLength`, `BuildStructName`.

One `step` per source statement.  C integer widths: `PCs/Phases : LargeWord` (64 bit, wrap),
`CodeLen, NewPC (CodeALIGN), TotLen : LongInt` (32 bit signed), `AlignValue : Word`.
Values are `Int`s kept in range by `wrap64` / `toI32` exactly where the C code stores them.
-/
namespace AslModel.Addr
open AslModel.Generated

def wrap64 (x : Int) : Int := x % (2 : Int) ^ pcBits
/-- store into a signed `LongInt` -/
def toI32 (x : Int) : Int := (x + (2 : Int) ^ (codeLenBits - 1)) % (2 : Int) ^ codeLenBits - (2 : Int) ^ (codeLenBits - 1)
/-- store into a signed `LargeInt` -/
def toI64 (x : Int) : Int := (x + (2 : Int) ^ (pcBits - 1)) % (2 : Int) ^ pcBits - (2 : Int) ^ (pcBits - 1)
def toWord (x : Int) : Int := x % (2 : Int) ^ alignValueBits

def upd {α : Type} (f : Nat → α) (i : Nat) (v : α) : Nat → α := fun j => if j = i then v else f j

/-- how `CodeORG_Core` is written in the tree under test (self-calibrated by a probe, see
`vlib/props/c10.py`): `false` = `PCs = HVal - Phases` guarded by `EProgCounter() != HVal` (pinned tree),
`true` = the argument is the load address (`PCs = HVal`, guarded by `ProgCounter() != HVal`). -/
structure Cfg where
  orgLoad : Bool := false
  /-- `ALIGN 0`: 0 = the tree divides by zero (`NewPC % AlignValue`, SIGFPE – pinned tree); otherwise the error
  number a repaired tree reports for it (probe-calibrated) -/
  alignZeroErr : Nat := 0
deriving Repr, DecidableEq

/-- a symbol the statements define: `path` = ids of the enclosing *named* structures (outermost
first), `leaf` = `some l` for label `l` (or a nested structure's name), `none` for the length symbol -/
structure Sym where
  path : List Nat
  leaf : Option Nat
deriving Repr, DecidableEq

inductive Op where
  | org (v : Int)
  | rorg (d : Int)
  | align (n : Int) (fill : Option Nat)
  | res (k : Int)
  | emit (k : Int)
  | segment (s : Nat)
  | cpu (c : Nat)
  | phase (v : Int)
  | dephase
  | save
  | restore
  | listing (on : Bool)
  | struct (name : Option Nat) (isUnion : Bool)
  | endstruct
  | nop
deriving Repr, DecidableEq

structure Stmt where
  label : Option Nat
  op : Op
deriving Repr, DecidableEq

/-- `TStructStack` entry + the `TotLen`/`IsUnion` of its `StructRec` -/
structure Frame where
  name : Option Nat
  /-- `Name` as built by `BuildStructName`: named ancestors then the own name; `[]` for a nameless one -/
  path : List Nat
  isUnion : Bool
  savePC : Int
  totLen : Int
deriving Repr, DecidableEq

structure St where
  cpu : Nat
  actPC : Nat
  pcs : Nat → Int
  phases : Nat → Int
  pstack : Nat → List Int
  used : Nat → Bool
  listOn : Bool
  /-- `FirstSaveState`: (SaveCPU, SavePC, SaveListOn) -/
  saves : List (Nat × Nat × Bool)
  structs : List Frame
  structSaveSeg : Nat

/-- what `WriteCode` hands to `asmcode.c` -/
inductive Ev where
  | none
  | jump (pc : Int)
  | emit (units : Int) (fill : Option Nat)
deriving Repr, DecidableEq

structure Out where
  errs : List Nat := []
  defs : List (Sym × Int) := []
  ev : Ev := .none
  crash : Bool := false
deriving Repr, DecidableEq

/-- state after the leading `CPU c` statement of a program (pass start: `ActPC = SegCode`,
nothing used, `SetNSeg(SegCode)`) -/
def init (c : Nat) : St :=
  { cpu := c, actPC := segCode, pcs := upd (fun _ => 0) segCode (segP c segCode).init, phases := fun _ => 0,
    pstack := fun _ => [], used := upd (fun _ => false) segCode true, listOn := true, saves := [], structs := [],
    structSaveSeg := segCode }

/-- state at the start of a pass when the target came from the command line (`asl -cpu`, no CPU statement yet): as `init`,
but the initial CODE segment has not been entered through `SetNSeg` - `PCsUsed[]` is all `False` until `WriteCode`
marks it at the first statement -/
def initCmdline (c : Nat) : St := { init c with used := fun _ => false }

/-- `ProgCounter()` -/
def pc (s : St) : Int := s.pcs s.actPC
/-- `EProgCounter()` -/
def epc (s : St) : Int := wrap64 (s.pcs s.actPC + s.phases s.actPC)

/-- `DefChkPC` -/
def chkPC (s : St) (addr : Int) : Bool :=
  (segP s.cpu s.actPC).valid && decide (addr ≤ (segP s.cpu s.actPC).limit)

/-- `SetNSeg`; returns the new `DontPrint` contribution -/
def setNSeg (s : St) (n : Nat) : St × Bool :=
  if s.actPC ≠ n ∨ s.used s.actPC = false then
    let s1 := { s with actPC := n }
    let s2 := if s1.used n = false then { s1 with pcs := upd s1.pcs n (segP s1.cpu n).init } else s1
    ({ s2 with used := upd s2.used n true }, true)
  else (s, false)

/-- `BumpStructLength(rec, (LargeInt)len)` (`TotLen` and the parameter are `LargeInt` since the repair cd7d018; `LongInt`
before it, which dropped lengths of 2^31 and more as negative) -/
def bump (f : Frame) (len : Int) : Frame :=
  if f.totLen < toI64 len then { f with totLen := toI64 len } else f

/-- `BumpStructLength(pInnermostNamedStruct->StructRec, …)` -/
def bumpNamed : List Frame → Int → List Frame
  | [], _ => []
  | f :: fs, l => if f.name.isSome then bump f l :: fs else f :: bumpNamed fs l

def innermostNamed : List Frame → Option Frame
  | [] => none
  | f :: fs => if f.name.isSome then some f else innermostNamed fs

/-- `AddStructSymbol`: Σ `SaveCurrPC` over every stack entry that has a `Next` -/
def sumSave : List Frame → Int
  | [] => 0
  | [_] => 0
  | f :: g :: fs => f.savePC + sumSave (g :: fs)

/-- Σ `SaveCurrPC` of the entries above the innermost named one (`CodeSTRUCT`'s `Offset` loop) -/
def sumAboveNamed : List Frame → Int
  | [] => 0
  | f :: fs => if f.name.isSome then 0 else f.savePC + sumAboveNamed fs

/-- `BuildStructName(…, own)`: base names of the named entries, outermost first -/
def namedIds (fs : List Frame) : List Nat :=
  (fs.reverse.filterMap (fun f => f.name))

/-- the label part of `Produce_Code` + `LabelHandle(&LabPart, EProgCounter(), False)` -/
def labelHandle (s : St) (l : Nat) : St × List (Sym × Int) :=
  match innermostNamed s.structs with
  | some nf =>
      ({ s with structs := bumpNamed s.structs (epc s) },
       [(⟨nf.path, some l⟩, wrap64 (epc s + sumSave s.structs))])
  | none => (s, [(⟨[], some l⟩, epc s)])

def labelPresent (st : Stmt) : Bool :=
  match st.op with
  | .struct _ _ => false
  | .endstruct => false
  | _ => st.label.isSome

/-- result of the statement decoder, before `WriteCode` -/
structure Dec where
  s : St
  codeLen : Int := 0
  dontPrint : Bool := false
  errs : List Nat := []
  defs : List (Sym × Int) := []
  fill : Option Nat := none
  crash : Bool := false

/-- `CodeORG_Core` -/
def codeORG (cfg : Cfg) (s : St) (v : Int) : Dec :=
  let hv := wrap64 v
  if cfg.orgLoad then
    if pc s ≠ hv then { s := { s with pcs := upd s.pcs s.actPC hv }, dontPrint := true } else { s := s }
  else
    if epc s ≠ hv then { s := { s with pcs := upd s.pcs s.actPC (wrap64 (hv - s.phases s.actPC)) }, dontPrint := true }
    else { s := s }

/-- `CodeRORG` -/
def codeRORG (s : St) (d : Int) : Dec :=
  { s := { s with pcs := upd s.pcs s.actPC (wrap64 (s.pcs s.actPC + d)) }, dontPrint := true }

/-- `CodeALIGN` -/
def codeALIGN (cfg : Cfg) (s : St) (n : Int) (fill : Option Nat) : Dec :=
  let av := toWord n
  -- `EvalStrIntExpression(…, Int16, …)` range check
  if n < -32768 then { s := s, errs := [errUnderRange] }
  else if n > 65535 then { s := s, errs := [errOverRange] }
  else if av = 0 then (if cfg.alignZeroErr = 0 then { s := s, crash := true }      -- `NewPC % 0`
                       else { s := s, errs := [cfg.alignZeroErr] })
  else
    let e := epc s
    let np0 := toI32 (wrap64 (e + av - 1))
    let np := toI32 (np0 - Int.tmod np0 av)
    let cl := toI32 (wrap64 (np - e))
    match fill with
    | none => { s := s, codeLen := cl, dontPrint := decide (cl ≠ 0) }
    | some f =>
      if cl > maxCodeLen then { s := s, codeLen := cl, errs := [errCodeOverflow] }
      else { s := s, codeLen := cl, fill := some f }

/-- `CodePHASE` -/
def codePHASE (s : St) (v : Int) : Dec :=
  if s.actPC = structSeg then { s := s, errs := [errPhaseDisallowed] }
  -- `EvalStrIntExpression(…, Int32, …)` range check
  else if v < -2147483648 then { s := s, errs := [errUnderRange] }
  else if v > 4294967295 then { s := s, errs := [errOverRange] }
  else { s := { s with pstack := upd s.pstack s.actPC (s.phases s.actPC :: s.pstack s.actPC),
                        phases := upd s.phases s.actPC (wrap64 (toI32 v - pc s)) } }

/-- `CodeDEPHASE` -/
def codeDEPHASE (s : St) : Dec :=
  if s.actPC = structSeg then { s := s, errs := [errPhaseDisallowed] }
  else match s.pstack s.actPC with
    | v :: rest => { s := { s with pstack := upd s.pstack s.actPC rest, phases := upd s.phases s.actPC v } }
    | [] => { s := { s with phases := upd s.phases s.actPC 0 } }

/-- `CodeSAVE` -/
def codeSAVE (s : St) : Dec := { s := { s with saves := (s.cpu, s.actPC, s.listOn) :: s.saves } }

/-- `CodeRESTORE` -/
def codeRESTORE (s : St) : Dec :=
  match s.saves with
  | [] => { s := s, errs := [errNoSaveFrame] }
  | (c, p, l) :: rest =>
    let s0 := { s with saves := rest }
    -- the structure pseudo segment is only valid while its STRUCT is open: it is never reinstated
    let dp1 := decide (p ≠ s0.actPC ∧ p ≠ structSeg)
    let s1 := if p ≠ s0.actPC ∧ p ≠ structSeg then { s0 with actPC := p } else s0
    let dp2 := decide (c ≠ s1.cpu)           -- `SetCPUByType` → `SetCPUCore` sets `DontPrint`
    let s2 := if c ≠ s1.cpu then { s1 with cpu := c } else s1
    { s := { s2 with listOn := l }, dontPrint := dp1 || dp2 }

/-- `CodeSEGMENT` (`DecodeSegment` + `SetNSeg`) -/
def codeSEGMENT (s : St) (n : Nat) : Dec :=
  if (segP s.cpu n).valid then
    let r := setNSeg s n
    { s := r.1, dontPrint := r.2 }
  else { s := s, errs := [errUnknownSegment] }

/-- `CodeCPU` (`SetCPUCore` + `SetNSeg(SegCode)`) -/
def codeCPU (s : St) (c : Nat) : Dec :=
  let r := setNSeg { s with cpu := c } segCode
  { s := r.1, dontPrint := true }

/-- `CodeSTRUCT` -/
def codeSTRUCT (s : St) (name : Option Nat) (isUnion : Bool) : Dec :=
  if name.isNone ∧ (innermostNamed s.structs).isNone then { s := s, errs := [errFreestandingUnnamedStruct] }
  else
    -- named and embedded: element of the innermost named parent + symbol
    let (structs1, defs) :=
      match name, innermostNamed s.structs with
      | some n, some nf =>
        (bumpNamed s.structs (wrap64 (pc s + sumAboveNamed s.structs)),
         [((⟨nf.path, some n⟩ : Sym), wrap64 (pc s + sumSave s.structs))])
      | _, _ => (s.structs, [])
    let fr : Frame := { name := name, path := (match name with | some n => namedIds s.structs ++ [n] | none => []),
                        isUnion := isUnion, savePC := pc s, totLen := 0 }
    let saveSeg := if s.actPC ≠ structSeg then s.actPC else s.structSaveSeg
    { s := { s with structs := fr :: structs1, structSaveSeg := saveSeg, actPC := structSeg,
                    pcs := upd s.pcs structSeg 0, phases := upd s.phases structSeg 0 },
      codeLen := 0, dontPrint := true, defs := defs }

/-- `CodeENDSTRUCT` -/
def codeENDSTRUCT (s : St) : Dec :=
  match s.structs with
  | [] => { s := s, errs := [errMissingStruct] }
  | f :: rest =>
    let f1 := bump f (pc s)
    let tot := f1.totLen
    let defs := match f.name with
      | some _ => [((⟨f.path, none⟩ : Sym), tot)]
      | none => []
    let s1 := { s with structs := rest, pcs := upd s.pcs s.actPC f.savePC }
    if rest.isEmpty then { s := { s1 with actPC := s.structSaveSeg }, codeLen := 0, dontPrint := true, defs := defs }
    else { s := s1, codeLen := tot, dontPrint := true, defs := defs }

def decode (cfg : Cfg) (s : St) : Op → Dec
  | .org v => codeORG cfg s v
  | .rorg d => codeRORG s d
  | .align n f => codeALIGN cfg s n f
  | .res k => { s := s, codeLen := toI32 k, dontPrint := true }
  | .emit k => { s := s, codeLen := toI32 k }
  | .segment n => codeSEGMENT s n
  | .cpu c => codeCPU s c
  | .phase v => codePHASE s v
  | .dephase => codeDEPHASE s
  | .save => codeSAVE s
  | .restore => codeRESTORE s
  | .listing b => { s := { s with listOn := b } }
  | .struct n u => codeSTRUCT s n u
  | .endstruct => codeENDSTRUCT s
  | .nop => { s := s }

/-- `WriteCode` (with `StopfZahl = 0`, `CodeOutput` on) -/
def writeCode (d : Dec) : St × Out :=
  let s := d.s
  if d.crash then (s, { errs := d.errs, defs := d.defs, crash := true })
  else if s.actPC ≠ structSeg ∧ d.codeLen ≠ 0 ∧ (chkPC s (epc s) = false ∨ chkPC s (wrap64 (epc s + d.codeLen - 1)) = false) then   -- first and last address (repair 6af1385; only the last before it)
    (s, { errs := d.errs ++ [errAdrOverflow], defs := d.defs })
  else
    let newPC := wrap64 (pc s + d.codeLen)
    if s.actPC = structSeg then
      match s.structs with
      | [] => (s, { errs := d.errs, defs := d.defs, crash := true })   -- `StructStack->StructRec` with NULL
      | f :: fs =>
        let errs := if d.codeLen ≠ 0 ∧ d.dontPrint = false then d.errs ++ [errNotInStruct] else d.errs
        if f.isUnion then
          ({ s with structs := bump f d.codeLen :: fs, pcs := upd s.pcs s.actPC 0 }, { errs := errs, defs := d.defs })
        else
          ({ s with pcs := upd s.pcs s.actPC newPC }, { errs := errs, defs := d.defs })
    else
      ({ s with used := upd s.used s.actPC true, pcs := upd s.pcs s.actPC newPC },
       { errs := d.errs, defs := d.defs,
         ev := if d.dontPrint then .jump newPC else .emit d.codeLen d.fill })

/-- the label part of `Produce_Code` -/
def labelPart (s : St) (st : Stmt) : St × List (Sym × Int) :=
  match st.label with
  | some l => if labelPresent st then labelHandle s l else (s, [])
  | none => (s, [])

/-- one source statement: label, decoder, `WriteCode` -/
def step (cfg : Cfg) (s : St) (st : Stmt) : St × Out :=
  let lp := labelPart s st
  let r := writeCode (decode cfg lp.1 st.op)
  (r.1, { r.2 with defs := lp.2 ++ r.2.defs })

def run (cfg : Cfg) (s : St) : List Stmt → St × List Out
  | [] => (s, [])
  | st :: rest =>
    let r := step cfg s st
    if r.2.crash then (r.1, [r.2])
    else
      let q := run cfg r.1 rest
      (q.1, r.2 :: q.2)

/-- end-of-pass checks of `AssembleFile_ExitPass` -/
def endErrs (s : St) : List Nat :=
  (if s.saves.isEmpty then [] else [errNoRestoreFrame]) ++ (if s.structs.isEmpty then [] else [errOpenStruct])

end AslModel.Addr
