import AslModel.Spec.Files
/-!
# MODEL for C18 (state of shared helper modules) — pending relocation output and the byte-order flag

Two pieces of process state that live outside the code generators and outside the core's per-pass initialisation:

* asmcode.c `PatchList` / `ExportList`: entries queued by `AddExport` (`EXPORT_SYM`) / `TransferRelocs` are written by
  `WrPatches`, which `NewRecord` calls only when it closes a *non-empty* record (`LenSoFar != 0`).  `CloseFile` ends with
  `NewRecord`; if the last record is empty the lists stay as they are – into the next pass, and into the next file.
* motpseudo.c `M16Turn`: stored by `DecodeMotoPseudo(Turn)` (called by `MakeCode_*` of the 68xx / 65xx families for every
  statement) and read by `DecodeMotoADR` / `DecodeMotoBYT`.  A target that registers these handlers directly in its own
  instruction table (ST6 `WORD`) reads whatever the last statement of another family stored.

Mirrors `OpenFile` (`LenSoFar = 0`), `WriteBytes`, `NewRecord`, `WrPatches`, `CloseFile`, `AddExport`, `DecodeMotoPseudo`,
`PutADR` at the granularity the code file shows: the sequence of records with their bytes and attached exports.
-/
namespace AslModel.SharedState

inductive Op where
  /-- a machine statement: `sets = some b` – the target's `MakeCode` calls `DecodeMotoPseudo(b)` first; then code bytes -/
  | stmt (sets : Option Bool) (bytes : List Nat)
  /-- a 16-bit data statement handled by `DecodeMotoADR`: `src = some b` – reached through `DecodeMotoPseudo(b)`;
  `none` – registered directly in the target's own table (the flag is whatever it was) -/
  | word (src : Option Bool) (v : Nat)
  /-- ORG / SEGMENT / CPU: `NewRecord` -/
  | newrec
  /-- `EXPORT_SYM` of symbol number `k` -/
  | exportSym (k : Nat)
deriving Repr, DecidableEq, Inhabited

structure Rec where
  bytes : List Nat
  exports : List Nat
deriving Repr, DecidableEq, Inhabited

/-- what survives a pass / a file -/
structure Carry where
  pending : List Nat
  turn : Bool
deriving Repr, DecidableEq, Inhabited

structure St where
  pending : List Nat
  turn : Bool
  /-- bytes of the open record, newest first (`LenSoFar` = length) -/
  cur : List Nat
  /-- closed records, newest first -/
  recs : List Rec
deriving Repr, DecidableEq, Inhabited

structure Source where
  /-- passes forced after convergence (hook H1) -/
  extra : Nat
  ops : List Op
deriving Repr, DecidableEq, Inhabited

/-- `NewRecord`: an empty record is overwritten and the queued entries wait; otherwise `WrPatches` -/
def newRecord (s : St) : St :=
  if s.cur = [] then s
  else { s with recs := ⟨s.cur.reverse, s.pending⟩ :: s.recs, cur := [], pending := [] }

/-- `PutADR` for a byte-listed target -/
def putADR (hiFirst : Bool) (v : Nat) : List Nat :=
  if hiFirst then [v / 256 % 256, v % 256] else [v % 256, v / 256 % 256]

def step (s : St) : Op → St
  | .stmt sets bytes =>
    { s with turn := sets.getD s.turn, cur := bytes.reverse ++ s.cur }
  | .word src v =>
    let t := src.getD s.turn
    { s with turn := t, cur := (putADR t v).reverse ++ s.cur }
  | .newrec => newRecord s
  | .exportSym k => { s with pending := s.pending ++ [k] }

def run (s : St) (ops : List Op) : St := ops.foldl step s

/-- `CloseFile`: `NewRecord`; `flush` = the repaired behaviour (entries still queued behind an empty last record are
written with that record instead of staying queued) – a parameter measured on the real binary by the check -/
def closeFile (flush : Bool) (s : St) : St :=
  let s' := newRecord s
  if flush && !s'.pending.isEmpty then { s' with recs := ⟨[], s'.pending⟩ :: s'.recs, pending := [] } else s'

/-- `OpenFile` … `CloseFile` of one pass -/
def runPass (flush : Bool) (c : Carry) (ops : List Op) : St :=
  closeFile flush (run { pending := c.pending, turn := c.turn, cur := [], recs := [] } ops)

def carryOf (s : St) : Carry := { pending := s.pending, turn := s.turn }

/-- the code file of the last pass -/
def passLoop (flush : Bool) : Nat → Carry → List Op → List Rec × Carry
  | 0, c, ops => let s := runPass flush c ops; (s.recs.reverse, carryOf s)
  | n + 1, c, ops => passLoop flush n (carryOf (runPass flush c ops)) ops

def assembleFile (flush : Bool) (c : Carry) (src : Source) : List Rec × Carry := passLoop flush src.extra c src.ops

def assembleFiles (flush : Bool) : Carry → List Source → List (List Rec) × Carry := FilesSpec.runFiles (assembleFile flush)

/-- a fresh process -/
def boot : Carry := { pending := [], turn := false }

/-- no statement reads the byte-order flag without storing it first in the same statement -/
def noStale : List Op → Bool
  | [] => true
  | .word none _ :: _ => false
  | _ :: r => noStale r

/-- abstract run over (open record non-empty?, entries queued?): are entries left queued at the end of a pass that starts
with empty lists? -/
def leavesPendingFrom : Bool → Bool → List Op → Bool
  | ne, q, [] => if ne then false else q
  | ne, q, .stmt _ bytes :: r => leavesPendingFrom (ne || !bytes.isEmpty) q r
  | _, q, .word _ _ :: r => leavesPendingFrom true q r
  | ne, q, .newrec :: r => if ne then leavesPendingFrom false false r else leavesPendingFrom false q r
  | ne, _, .exportSym _ :: r => leavesPendingFrom ne true r

def leavesPending (ops : List Op) : Bool := leavesPendingFrom false false ops

end AslModel.SharedState
