import AslModel.Spec.PrefixCarry
/-! MODEL (C16): the hand-over of a pending Z380 `DDIR` directive from one statement to the next.

Transcribed from `codez80.c`:
 * `PrefType`, `ExtendPrefix`, `GetPrefixCode`, `ChangeDDPrefix` (with `asmcode.c RetractWords`)
 * `MakeCode_Z80`  – per-line entry: the early exit `if (Memo("")) return;` for lines without a mnemonic comes *before*
   `LastPrefix = CurrPrefix; CurrPrefix = Pref_IN_N;`
 * `DecodeDDIR`, `DecodeJP` (constant absolute address, `ExtFlag` set: `Int32`)
 * `InitCode_Z80`  – `CurrPrefix = LastPrefix = Pref_IN_N`
`code` is the byte stream written so far (one record, byte granularity); `RetractWords(2)` takes the last two bytes
back.  Outside the model: all other Z380 instructions, Rabbit prefixes, symbolic addresses, ORG between the lines. -/
namespace AslModel.PrefixCarry
open AslModel.PrefixSpec (Mode Stmt byteOf)

/-- `PrefType`, in the order of the C enum (the order is used by `GetPrefixCode`) -/
inductive PrefType where
  | IN_N | IN_W | IB_W | IW_W | IB_N | IN_LW | IB_LW | IW_LW | IW_N
  deriving DecidableEq, Repr

def PrefType.toNat : PrefType → Nat
  | .IN_N => 0 | .IN_W => 1 | .IB_W => 2 | .IW_W => 3 | .IB_N => 4 | .IN_LW => 5 | .IB_LW => 6 | .IW_LW => 7 | .IW_N => 8

/-- `ExtendPrefix` (the `default: return False` branch cannot be reached with a decoded mode name) -/
def extendPrefix (d : PrefType) (m : Mode) : PrefType :=
  let iPart0 : Nat :=
    match d with
    | .IB_N | .IB_W | .IB_LW => 1
    | .IW_N | .IW_W | .IW_LW => 2
    | _ => 0
  let sPart0 : Nat :=
    match d with
    | .IN_W | .IB_W | .IW_W => 1
    | .IN_LW | .IB_LW | .IW_LW => 2
    | _ => 0
  let sPart : Nat := match m with | .W => 1 | .LW => 2 | _ => sPart0
  let iPart : Nat := match m with | .IB => 1 | .IW => 2 | _ => iPart0
  match iPart * 16 + sPart with
  | 0x00 => .IN_N
  | 0x01 => .IN_W
  | 0x02 => .IN_LW
  | 0x10 => .IB_N
  | 0x11 => .IB_W
  | 0x12 => .IB_LW
  | 0x20 => .IW_N
  | 0x21 => .IW_W
  | 0x22 => .IW_LW
  | _ => d

/-- `GetPrefixCode`: `z = inp - 1; b1 = 0xdd + ((z & 4) << 3); b2 = 0xc0 + (z & 3)` -/
def getPrefixCode (p : PrefType) : List UInt8 :=
  let z := p.toNat - 1
  [byteOf (0xdd + ((z &&& 4) <<< 3)), byteOf (0xc0 + (z &&& 3))]

structure St where
  curr : PrefType := .IN_N     -- CurrPrefix: directive given by the current statement
  last : PrefType := .IN_N     -- LastPrefix: directive given by the statement before
  code : List UInt8 := []
  deriving DecidableEq, Repr

/-- `ChangeDDPrefix` with `PrefixCnt = 0`: (state after a possible retraction, prefix bytes in front of the instruction);
`none` = RetractWords' "not possible" error -/
def changeDDPrefix (st : St) (m : Mode) : Option (St × List UInt8) :=
  let act := extendPrefix st.last m
  if st.last ≠ act then
    if st.last ≠ .IN_N then
      (if st.code.length < 2 then none
       else some ({ st with code := st.code.dropLast.dropLast }, getPrefixCode act))
    else some (st, getPrefixCode act)
  else some (st, [])

/-- `0xc2 + Cond`: `Cond = 1` without condition, `Cond <<= 3` with one -/
def jpOpc (cond : Option Nat) : Nat := 0xc2 + (match cond with | none => 1 | some c => c <<< 3)

/-- `DecodeJP`, address constant -/
def decodeJP (st : St) (cond : Option Nat) (a : Nat) : Option St :=
  let opc : Nat := jpOpc cond
  if a ≤ 0xffff then
    some { st with code := st.code ++ [byteOf opc, byteOf a, byteOf (a >>> 8)] }
  else if a ≤ 0xffffff then
    (changeDDPrefix st .IB).map fun (s, pre) =>
      { s with code := s.code ++ pre ++ [byteOf opc, byteOf a, byteOf (a >>> 8), byteOf (a >>> 16)] }
  else
    (changeDDPrefix st .IW).map fun (s, pre) =>
      { s with code := s.code ++ pre ++ [byteOf opc, byteOf a, byteOf (a >>> 8), byteOf (a >>> 16), byteOf (a >>> 24)] }

/-- `MakeCode_Z80` for one source line; `none` = the line is rejected with an error -/
def makeCode (st : St) : Stmt → Option St
  | .empty => some st                                         -- if (Memo("")) return;
  | .ddir mods =>
    let st1 := { st with last := st.curr, curr := .IN_N }     -- letzten Praefix umkopieren
    if mods.length < 1 || mods.length > 2 then none           -- ChkArgCnt(1, 2)
    else
      let c := mods.foldl extendPrefix st1.curr
      some { st1 with curr := c, code := st1.code ++ getPrefixCode c }
  | .jp cond a =>
    let st1 := { st with last := st.curr, curr := .IN_N }
    if a ≥ 4294967296 then none
    else match cond with
      | some c => if c ≥ 8 then none else decodeJP st1 cond a
      | none => decodeJP st1 cond a

def runFrom (st : St) : List Stmt → Option St
  | [] => some st
  | s :: rest =>
    match makeCode st s with
    | none => none
    | some st' => runFrom st' rest

/-- a whole program, from `InitCode_Z80` -/
def run (prog : List Stmt) : Option (List UInt8) := (runFrom {} prog).map St.code

end AslModel.PrefixCarry
