import AslModel.Model.Macro
import AslModel.Generated.MacroConsts
/-! MODEL for C11: one body line through `MACRO_OutProcessor` (KillCtrl, parameters 1..n, then the implicit
parameters ARGCOUNT = token ArgCntMax+2 and ALLARGS = token ArgCntMax+3, both case-insensitive) and through
`MACRO_Processor` (tokens 1..ParCnt in order, then the implicit ones).  ATTRIBUTE (targets with HasAttrs) and
`__LABEL__` (INTLABEL) are outside the model.  `ArgCntMax` and the names are regenerated from asmdef.h. Core only. -/
namespace AslModel.Macro
open AslModel.MacroSpec AslModel.Generated

def storeLine (cs : Bool) (params : List Line) (raw : Line) : Line :=
  let s1 := compressAll cs 1 params (killCtrl 0 raw)
  let s2 := compressLine false argCName (argCntMax + 2) s1
  compressLine false allArgName (argCntMax + 3) s2

def deliverLine (args : List Line) (numArgs allArgs : Line) (stored : Line) : Line :=
  let e1 := expandAll 1 args stored
  let e2 := expandLine (argCntMax + 2) numArgs e1
  expandLine (argCntMax + 3) allArgs e2

def macroLineFull (cs : Bool) (params args : List Line) (numArgs allArgs raw : Line) : Line :=
  deliverLine args numArgs allArgs (storeLine cs params raw)

end AslModel.Macro
