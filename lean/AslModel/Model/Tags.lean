import AslModel.Model.MacroCall
/-! MODEL for C11, processor layer: the input-tag machine of as.c.

Transcribed functions (as.c): `GetNextLine` (pop the exhausted tags, call the processor of the first tag),
`Produce_Code` as far as it dispatches MACRO / IRP / IRPN / IRPC / REPT / ENDM / EXITM / SHIFT / macro calls /
plain lines and hands every line to `FirstOutputTag->Processor` while a body is being collected,
`MacroStart` / `MacroEnd`, `MACRO_OutProcessor`, `IRP_OutProcessor`, `REPT_OutProcessor`, `WaitENDM_Processor`
(`NestLevel` counting, storing the lines through `KillCtrl` + `CompressLine`), `ReadMacro`, `ExpandIRP`, `ExpandIRPN`
(ragged tail padded with `Remainder` empty arguments), `ExpandIRPC`, `ExpandREPT`, `ExpandMacro` (argument binding:
positional, keyword, defaults, excess; `NumArgs`, `AllArgs`), `MACRO_Processor`, `IRP_Processor`, `IRPC_Processor`,
`REPT_Processor` (`LineZ` / `LineRun` / `ParZ` / `ParIter` / `ParCnt` stepping), `ExpandEXITM`, `ExpandSHIFT` +
`ComputeMacroStrings`.

Abstraction level: a source line is already split (`SLine`): the statement kind and its text fields.  The token
layer (`storeLine` / `deliverLine` / `compressAll` / `expandAll` of Model/Macro.lean, Model/MacroCall.lean) is applied
to every text field of a line (`SLine.map`); the real code applies it to the unsplit text, so a substitution that
changes the statement kind or the number of arguments of a line is outside the model (also: a line whose only
argument is empty has no argument at all for the real parser).  Not modelled: WHILE (needs the
expression evaluator and the symbol table), INCLUDE nesting (the main file is the only file tag), conditional
assembly (`IfAsm`, `SaveIFs`/`RestoreIFs` - C12's model), the local-symbol handles pushed per expansion
(`PushLocHandle`), `UpString` of arguments in case-insensitive mode, `UsesNumArgs`/`UsesAllArgs` (an optimisation:
lines stored through `KillCtrl` contain a token only if it was put there), listing flags, the recursion limit NESTMAX.

The machine is written once over an interface `TagOps` of the operations on one input tag, and instantiated with the
concrete tags (`Tag`, `ops`).  The proofs instantiate it a second time with tags that only know the lines they still
have to deliver (Lemmas/TagsSim.lean).  Core only. -/
namespace AslModel.Tags
open AslModel.MacroSpec AslModel.Macro AslModel.Generated

/-- one source line as far as the tag machine looks at it -/
inductive SLine where
  | plain (t : Line)                                    -- anything else: goes to the assembler core
  | macroDef (id : Nat) (params defaults : List Line)   -- `mac<id> MACRO p1=d1,...`
  | rept (n : Int)                                      -- `REPT n` (count already evaluated)
  | irp (var : Line) (args : List Line)                 -- `IRP var,a1,...`
  | irpn (k : Nat) (rest : List Line)                   -- `IRPN k,v1..vk,a1,...` (count already evaluated)
  | irpc (var : Line) (chars : Line)                    -- `IRPC var,"chars"` (string already evaluated)
  | endm                                                -- ENDM / ENDR
  | exitm
  | shift
  | call (id : Nat) (args : List CallArg)               -- `mac<id> a1,key=a2,...`
  deriving Repr

def mapArg (f : Line → Line) (a : CallArg) : CallArg := { key := a.key.map f, val := f a.val }

/-- a function on the text applied to every text field of the line -/
def SLine.map (f : Line → Line) : SLine → SLine
  | .plain t => .plain (f t)
  | .macroDef id ps ds => .macroDef id (ps.map f) (ds.map f)
  | .rept n => .rept n
  | .irp v as => .irp (f v) (as.map f)
  | .irpn k r => .irpn k (r.map f)
  | .irpc v c => .irpc (f v) (f c)
  | .endm => .endm
  | .exitm => .exitm
  | .shift => .shift
  | .call id as => .call id (as.map (mapArg f))

/-- `MacroStart()` (WHILE is not in the model) -/
def SLine.isStart : SLine → Bool
  | .macroDef .. => true
  | .rept _ => true
  | .irp .. => true
  | .irpn .. => true
  | .irpc .. => true
  | _ => false

/-- `MacroEnd()` -/
def SLine.isEnd : SLine → Bool
  | .endm => true
  | _ => false

/-- behaviours of the current code that are known findings of C11; set by probing the real binary each run -/
structure Quirks where
  irpcEmptyOnce : Bool      -- IRPC with an empty string delivers the body once
  exitmIrpCrash : Bool      -- EXITM directly inside IRP/IRPN: IRP_Cleanup runs twice (NULL dereference)
  argCountWritten : Bool    -- ARGCOUNT = number of arguments written at the call (not the bound count)
  shiftLeavesToken : Bool   -- after SHIFT only the tokens 1..ParCnt are expanded (the last formal parameter's token stays)
  allArgsSkipsEmpty : Bool  -- ComputeMacroStrings writes no comma while ALLARGS is still empty (leading empty arguments vanish)
  deriving Repr

/-! ## output tags (body collectors) -/

inductive CKind where
  | mac (id : Nat) (params defaults : List Line)
  | rept (n : Int)
  | irp (names : List Line) (params : List Line) (parIter : Nat)
  | irpc (name : Line) (chars : Line)
  | wait                                               -- WaitENDM_Processor / WaitENDR_Processor
  deriving Repr

/-- `TOutputTag`: `NestLevel` (0 .. ; the C code ends at -1, here: an end line met at 0) and the collected lines -/
structure Coll where
  kind : CKind
  nest : Nat
  lines : List SLine
  deriving Repr

/-- `IRP_OutProcessor`: KillCtrl, then CompressLine for placeholder 1..ParIter -/
def irpStore (cs : Bool) (names : List Line) (l : Line) : Line := compressAll cs 1 names (killCtrl 0 l)

/-- what the OutProcessor of the kind appends for a body line -/
def CKind.store (cs : Bool) : CKind → SLine → SLine
  | .mac _ ps _ => SLine.map (storeLine cs ps)
  | .rept _ => id
  | .irp names _ _ => SLine.map (irpStore cs names)
  | .irpc name _ => SLine.map (irpStore cs [name])
  | .wait => id

structure MacroRec where
  id : Nat
  params : List Line
  defaults : List Line
  lines : List SLine
  deriving Repr

def findMacro : List MacroRec → Nat → Option MacroRec
  | [], _ => none
  | m :: ms, id => if m.id = id then some m else findMacro ms id

/-- `AddMacro`: a second definition of the same name is an error and is dropped -/
def addMacro (ms : List MacroRec) (m : MacroRec) : List MacroRec :=
  match findMacro ms m.id with
  | some _ => ms
  | none => ms ++ [m]

/-! ## input tags -/

inductive TKind where
  | file | mac | irp | irpc | rept
  deriving DecidableEq, Repr

/-- `TInputTag` -/
structure Tag where
  kind : TKind
  lines : List SLine        -- Lines (stored form)
  lineCnt : Nat
  lineZ : Nat
  lineRun : List SLine      -- LineRun
  params : List Line        -- Params
  parCnt : Int
  parZ : Nat
  parIter : Nat
  isEmpty : Bool
  specName : Line           -- IRPC: the string
  numArgs : Line
  allArgs : Line
  fixedTok : Option Nat     -- none: expand the tokens 1..ParCnt (the code as it is); some n: always 1..n (repaired SHIFT)
  skipEmptyJoin : Bool      -- how ComputeMacroStrings joins ALLARGS (quirk allArgsSkipsEmpty)
  deriving Repr

def intDigits (n : Int) : Line := if n < 0 then 45 :: natDigits n.natAbs else natDigits n.toNat

/-- `ChkMacSymbName`: a letter, then letters/digits (ASCII part of the table in asmsub.c) -/
def isLetter (c : Ch) : Bool := (65 ≤ c.toNat && c.toNat ≤ 90) || (97 ≤ c.toNat && c.toNat ≤ 122)

def chkMacSymbName : Line → Bool
  | [] => false
  | c :: r => isLetter c && r.all isAlnum

def blankTag (kind : TKind) (lines : List SLine) : Tag :=
  { kind := kind, lines := lines, lineCnt := lines.length, lineZ := 1, lineRun := [], params := [], parCnt := 0,
    parZ := 0, parIter := 0, isEmpty := lines.isEmpty, specName := [], numArgs := [], allArgs := [], fixedTok := none, skipEmptyJoin := true }

/-- the main source file (INCLUDE_Processor: line by line, empty at end of file) -/
def mkFile (lines : List SLine) : Tag := blankTag .file lines

def mkRept (n : Nat) (lines : List SLine) : Tag :=
  { blankTag .rept lines with parCnt := n, parZ := 1 }

def mkIrp (parIter : Nat) (params : List Line) (lines : List SLine) : Tag :=
  { blankTag .irp lines with params := params, parCnt := params.length, parZ := 1, parIter := parIter }

def mkIrpc (chars : Line) (lines : List SLine) : Tag :=
  { blankTag .irpc lines with specName := chars, parCnt := chars.length, parZ := 1 }

/-! ### ExpandMacro: argument binding -/

/-- the `for (z2 = 0; z2 < z1 - 1; z2++)` walk, then `pArg->Content = strdup(...)` -/
def setSlot : Nat → Line → List (Option Line) → List (Option Line)
  | _, _, [] => []
  | 0, v, _ :: ss => some v :: ss
  | n + 1, v, s :: ss => s :: setSlot n v ss

/-- search the parameter by name (`strcmp` after both sides were upper-cased unless case sensitive) -/
def setNamed (cs : Bool) : List Line → List (Option Line) → Line → Line → List (Option Line)
  | p :: ps, s :: ss, k, v => if eqLine cs p k then some v :: ss else s :: setNamed cs ps ss k v
  | _, ss, _, _ => ss

structure BindSt where
  slots : List (Option Line)
  extra : List Line
  named : Bool

/-- body of the loop 3b for argument number `z1` -/
def bindStep (cs : Bool) (names : List Line) (b : BindSt) (z1 : Nat) (a : CallArg) : BindSt :=
  match a.key with
  | some k => { b with slots := setNamed cs names b.slots k a.val, named := true }
  | none =>
    if b.named then b                                                       -- ErrNum_NoPosArg
    else if z1 ≤ names.length ∧ a.val ≠ [] then { b with slots := setSlot (z1 - 1) a.val b.slots }
    else if z1 > names.length then { b with extra := b.extra ++ [a.val] }
    else b

def bindLoop (cs : Bool) (names : List Line) : Nat → List CallArg → BindSt → BindSt
  | _, [], b => b
  | z1, a :: as, b => bindLoop cs names (z1 + 1) as (bindStep cs names b z1 a)

/-- loop 3c -/
def fillDefaults : List (Option Line) → List Line → List Line
  | s :: ss, d :: ds => s.getD d :: fillDefaults ss ds
  | _, _ => []

/-- the argument as written (`ArgStr[z1]` before the `=` is cut off) -/
def rawArg (a : CallArg) : Line :=
  match a.key with
  | some k => k ++ 61 :: a.val
  | none => a.val

def boundParams (cs : Bool) (m : MacroRec) (args : List CallArg) : List Line :=
  let b := bindLoop cs m.params 1 args ⟨List.replicate m.params.length none, [], false⟩
  fillDefaults b.slots m.defaults ++ b.extra

def expandMacro (q : Quirks) (cs : Bool) (m : MacroRec) (args : List CallArg) : Tag :=
  let pars := boundParams cs m args
  { blankTag .mac m.lines with
    params := pars, parCnt := m.params.length,
    numArgs := natDigits (if q.argCountWritten then args.length else pars.length),
    allArgs := joinComma (args.map rawArg),
    fixedTok := if q.shiftLeavesToken then none else some m.params.length,
    skipEmptyJoin := q.allArgsSkipsEmpty }

/-! ### processors -/

/-- the first `n` entries of the parameter list, filled up with empty texts -/
def padTake (n : Nat) (l : List Line) : List Line := l.take n ++ List.replicate (n - l.length) []

/-- the arguments for the tokens 1..ParCnt: `for (z = 1; z <= ParCnt; z++) ExpandLine(Lauf->Content, z, ...)` -/
def tokArgs (t : Tag) : List Line :=
  padTake (match t.fixedTok with
    | none => t.parCnt.toNat
    | some n => n) t.params

/-- `MACRO_Processor` -/
def macroProcessor (t : Tag) : Option (SLine × Tag) :=
  match t.lines.drop (t.lineZ - 1) with
  | [] => none
  | l :: _ =>
    let z := t.lineZ + 1
    some (l.map (deliverLine (tokArgs t) t.numArgs t.allArgs),
          { t with lineZ := z, isEmpty := decide (z > t.lineCnt) })

def parIter1 (t : Tag) : Nat := if t.parIter = 0 then 1 else t.parIter

/-- `IRP_Processor`: `ExpandLine` for the `ParIter` parameters starting at `ParZ` -/
def irpExpand (params : List Line) (parIter : Nat) (z : Nat) (l : Line) : Line :=
  expandAll 1 ((params.drop (z - 1)).take parIter) l

/-- the text `IRPC_Processor` inserts for the character: a backslash is doubled, the terminating NUL of an empty
    string gives the empty text -/
def charArg (c : Ch) : Line := if c == 92 then [92, 92] else if c == 0 then [] else [c]

def irpcExpand (spec : Line) (z : Nat) (l : Line) : Line :=
  expandLine 1 (charArg (spec.getD (z - 1) 0)) l

/-- what the processor of a repetition does to the text of a body line in the iteration that starts at `ParZ = z` -/
def iterFn (t : Tag) (z : Nat) : Line → Line :=
  match t.kind with
  | .irp => irpExpand t.params (parIter1 t) z
  | .irpc => irpcExpand t.specName z
  | _ => fun l => l

/-- what is added to `ParZ` at the end of the body -/
def incOf (t : Tag) : Nat :=
  match t.kind with
  | .irp => parIter1 t
  | _ => 1

/-- the line pointer: `if (LineZ == 1) LineRun = Lines` -/
def cur (t : Tag) : List SLine := if t.lineZ = 1 then t.lines else t.lineRun

/-- the common skeleton of `REPT_Processor`, `IRP_Processor`, `IRPC_Processor` -/
def iterProcessor (t : Tag) : Option (SLine × Tag) :=
  match cur t with
  | [] => none
  | l :: run =>
    let z := t.lineZ + 1
    if z > t.lineCnt then
      let pz := t.parZ + incOf t
      some (l.map (iterFn t t.parZ),
            { t with lineRun := run, lineZ := 1, parZ := pz, isEmpty := decide ((pz : Int) > t.parCnt) })
    else
      some (l.map (iterFn t t.parZ), { t with lineRun := run, lineZ := z })

/-- `INCLUDE_Processor` on the main file -/
def fileProcessor (t : Tag) : Option (SLine × Tag) :=
  match t.lines.drop (t.lineZ - 1) with
  | [] => none
  | l :: _ =>
    let z := t.lineZ + 1
    some (l, { t with lineZ := z, isEmpty := decide (z > t.lineCnt) })

def processor (t : Tag) : Option (SLine × Tag) :=
  match t.kind with
  | .file => fileProcessor t
  | .mac => macroProcessor t
  | _ => iterProcessor t

/-- `ExpandEXITM` on the first tag: Cleanup, `IsEmpty = True` -/
def exitTag (t : Tag) : Tag := { t with isEmpty := true }

/-- `ComputeMacroStrings`: the list is joined with commas, but no comma is written while the text is still empty -/
def catAllArgs : Line → List Line → Line
  | acc, [] => acc
  | acc, p :: ps => catAllArgs ((if acc.isEmpty then acc else acc ++ [44]) ++ p) ps

def shiftTag (t : Tag) : Tag :=
  match t.params with
  | [] => t
  | _ :: ps =>
    { t with params := ps, parCnt := t.parCnt - 1, numArgs := intDigits (t.parCnt - 1),
             allArgs := if t.skipEmptyJoin then catAllArgs [] ps else joinComma ps }

/-- `ExpandSHIFT`: the first tag of the chain that is a macro expansion -/
def shiftChain : List Tag → List Tag
  | [] => []
  | t :: rest => if t.kind = .mac then shiftTag t :: rest else t :: shiftChain rest

/-! ## the machine, generic in the representation of an input tag -/

structure TagOps (τ : Type) where
  isEmpty : τ → Bool
  kind : τ → TKind
  next : τ → Option (SLine × τ)
  exitm : τ → τ
  shift : List τ → List τ
  mkRept : Nat → List SLine → τ
  mkIrp : Nat → List Line → List SLine → τ
  mkIrpc : Line → List SLine → τ
  mkMacro : Quirks → Bool → MacroRec → List CallArg → τ

def ops : TagOps Tag where
  isEmpty := Tag.isEmpty
  kind := Tag.kind
  next := processor
  exitm := exitTag
  shift := shiftChain
  mkRept := mkRept
  mkIrp := mkIrp
  mkIrpc := mkIrpc
  mkMacro := expandMacro

structure St (τ : Type) where
  inp : List τ               -- FirstInputTag chain
  coll : Option Coll         -- FirstOutputTag
  macros : List MacroRec
  out : List Line            -- the plain lines handed to the assembler core
  crashed : Bool
  shifted : Bool             -- a SHIFT was executed (bookkeeping for the proofs)

variable {τ : Type}

/-- the `while (FirstInputTag && FirstInputTag->IsEmpty)` loop of `GetNextLine` -/
def popEmpty (o : TagOps τ) : List τ → List τ
  | [] => []
  | t :: rest => if o.isEmpty t then popEmpty o rest else t :: rest

inductive Fetch (τ : Type) where
  | eof
  | crash
  | line (l : SLine) (inp : List τ)

/-- `GetNextLine` -/
def fetch (o : TagOps τ) (inp : List τ) : Fetch τ :=
  match popEmpty o inp with
  | [] => .eof
  | t :: rest =>
    match o.next t with
    | none => .crash
    | some (l, t') => .line l (t' :: rest)

def startColl (s : St τ) (k : CKind) : St τ := { s with coll := some ⟨k, 0, []⟩ }

/-- the end line that closes the collection: hang the new tag into the input chain / define the macro -/
def finishColl (o : TagOps τ) (q : Quirks) (c : Coll) (s : St τ) : St τ :=
  match c.kind with
  | .mac id ps ds => { s with coll := none, macros := addMacro s.macros ⟨id, ps, ds, c.lines⟩ }
  | .rept n =>
    if n > 0 then { s with coll := none, inp := o.mkRept n.toNat c.lines :: s.inp } else { s with coll := none }
  | .irp _ params parIter => { s with coll := none, inp := o.mkIrp parIter params c.lines :: s.inp }
  | .irpc _ chars =>
    if chars.isEmpty && !q.irpcEmptyOnce then { s with coll := none }
    else { s with coll := none, inp := o.mkIrpc chars c.lines :: s.inp }
  | .wait => { s with coll := none }

/-- the OutProcessor keeps collecting: new `NestLevel`, the line is appended in stored form (not by WaitENDM) -/
def keepLine (cs : Bool) (c : Coll) (l : SLine) (n : Nat) (s : St τ) : St τ :=
  match c.kind with
  | .wait => { s with coll := some { c with nest := n } }
  | k => { s with coll := some { c with nest := n, lines := c.lines ++ [k.store cs l] } }

/-- `FirstOutputTag->Processor()` -/
def collect (o : TagOps τ) (q : Quirks) (cs : Bool) (c : Coll) (l : SLine) (s : St τ) : St τ :=
  if l.isStart then keepLine cs c l (c.nest + 1) s
  else if l.isEnd then
    if c.nest = 0 then finishColl o q c s else keepLine cs c l (c.nest - 1) s
  else keepLine cs c l c.nest s

/-- `as_isspace` -/
def isSpace (c : Ch) : Bool := c == 32 || (9 ≤ c.toNat && c.toNat ≤ 13)

/-- `SplitLine` cuts the blanks off both ends of every argument -/
def trimArg (l : Line) : Line := ((l.dropWhile isSpace).reverse.dropWhile isSpace).reverse

/-- `Produce_Code` with no output tag hung in (the arguments as `SplitLine` hands them over: trimmed) -/
def execute (o : TagOps τ) (q : Quirks) (cs : Bool) (l : SLine) (s : St τ) : St τ :=
  match l with
  | .plain t => { s with out := s.out ++ [t] }
  | .macroDef id ps ds =>
    let ps := ps.map trimArg
    startColl s (if ps.all chkMacSymbName then .mac id ps ds else .wait)
  | .rept n => startColl s (.rept n)
  | .irp var args =>
    let var := trimArg var
    let args := args.map trimArg
    startColl s (if args.isEmpty || args.length + 1 > argCntMax || !chkMacSymbName var then .wait else .irp [var] args 0)
  | .irpn k rest =>
    let rest := rest.map trimArg
    if k = 0 || rest.length < 2 * k || rest.length + 1 > argCntMax || !(rest.take k).all chkMacSymbName then
      startColl s .wait
    else
      let args := rest.drop k
      startColl s (.irp (rest.take k) (args ++ List.replicate ((k - args.length % k) % k) []) k)
  | .irpc var chars =>
    let var := trimArg var
    startColl s (if chkMacSymbName var then .irpc var chars else .wait)
  | .endm => s                                                        -- unknown instruction: an error, no effect
  | .exitm =>
    match s.inp with
    | [] => s
    | t :: rest =>
      if o.kind t = .file then s                                       -- ErrNum_EXITMOutsideMacro
      else if o.kind t = .irp && q.exitmIrpCrash then { s with crashed := true }
      else { s with inp := o.exitm t :: rest }
  | .shift =>
    match s.inp with
    | [] => s
    | t :: _ =>
      if o.kind t = .file then s
      else { s with inp := o.shift s.inp, shifted := true }
  | .call id args =>
    match findMacro s.macros id with
    | none => s                                                        -- unknown instruction
    | some m => { s with inp := o.mkMacro q cs m (args.map (mapArg trimArg)) :: s.inp }

def dispatch (o : TagOps τ) (q : Quirks) (cs : Bool) (l : SLine) (s : St τ) : St τ :=
  match s.coll with
  | some c => collect o q cs c l s
  | none => execute o q cs l s

/-- one round of the main loop: `GetNextLine`, then the statement; `none`: the input has ended (or the assembler has crashed) -/
def step (o : TagOps τ) (q : Quirks) (cs : Bool) (s : St τ) : Option (St τ) :=
  if s.crashed then none else
  match fetch o s.inp with
  | .eof => if s.inp.isEmpty then none else some { s with inp := [] }
  | .crash => some { s with crashed := true }
  | .line l inp => some (dispatch o q cs l { s with inp := inp })

def run (o : TagOps τ) (q : Quirks) (cs : Bool) : Nat → St τ → St τ
  | 0, s => s
  | n + 1, s =>
    match step o q cs s with
    | none => s
    | some s' => run o q cs n s'

def initSt (file : τ) : St τ :=
  { inp := [file], coll := none, macros := [], out := [], crashed := false, shifted := false }

/-- run the concrete machine on a source file -/
def runFile (q : Quirks) (cs : Bool) (fuel : Nat) (src : List SLine) : St Tag :=
  run ops q cs fuel (initSt (mkFile src))

/-! ## the source text of a construct tree (what the theorems run the machine on) -/

mutual
def flatItem : Item → List SLine
  | .line l => [.plain l]
  | .exitm => [.exitm]
  | .rept _ n _ body => .rept n :: (flatBody body ++ [.endm])
  | .irp _ var args _ body => .irp var args :: (flatBody body ++ [.endm])
  | .irpn _ vars args _ body => .irpn vars.length (vars ++ args) :: (flatBody body ++ [.endm])
  | .irpc _ var chars _ body => .irpc var chars :: (flatBody body ++ [.endm])
  | .call id _ _ _ _ args => [.call id args]
def flatBody : Body → List SLine
  | .nil => []
  | .cons i rest => flatItem i ++ flatBody rest
end

mutual
/-- the macro definitions a tree needs, innermost first (every call node carries its macro) -/
def defsItem : Item → List SLine
  | .line _ => []
  | .exitm => []
  | .rept _ _ _ body => defsBody body
  | .irp _ _ _ _ body => defsBody body
  | .irpn _ _ _ _ body => defsBody body
  | .irpc _ _ _ _ body => defsBody body
  | .call id params defaults _ body _ => defsBody body ++ (.macroDef id params defaults :: (flatBody body ++ [.endm]))
def defsBody : Body → List SLine
  | .nil => []
  | .cons i rest => defsItem i ++ defsBody rest
end

/-- the program text: all macro definitions, then the top-level body -/
def flatten (prog : Body) : List SLine := defsBody prog ++ flatBody prog

end AslModel.Tags
