import AslModel.Model.Drehe
/-! MODEL of the per-line tail of the assembler where report features touch state that the code path
also uses (as.c `WriteCode` + `AssembleFile` loop body, asmcode.c `WriteBytes`, asmsub.c `BookKeeping`,
asmlist.c `MakeList`, asmpars.c `FindNode_FNode` → `AddReference`).

Input per line = what `MakeCode` produced (`CodeLen`, the code buffer, `DontPrint`, the symbols looked up);
instruction encoding and expression evaluation are *outside* this model.  The state is split into the
code-affecting part (`CodeSt`) and the report part (`RepSt`); the configuration into code-affecting
(`CodeCfg`) and report options (`RepCfg`).  Core only. -/
namespace AslModel.ReportPipe
open AslModel.Drehe

structure CodeCfg where
  turnWords : Bool        -- TurnWords != HostBigEndian
  listGran : Nat          -- ActListGran
  gran : Nat              -- Granularity()
  codeOutput : Bool       -- -G
  deriving DecidableEq, Repr

structure RepCfg where
  makeUseList : Bool      -- -u
  debugInfo : Bool        -- -g (DebugMode != DebugNone)
  makeCrossList : Bool    -- -C
  listOn : Bool           -- -L / -l and ListMask & 1 and DoLst…
  listRadix : Nat         -- -LISTRADIX
  lowerHex : Bool         -- -h
  deriving DecidableEq, Repr

structure Cfg where
  code : CodeCfg
  rep : RepCfg

structure CodeSt where
  pc : Nat                    -- PCs[ActPC]
  out : List UInt8            -- bytes handed to the code file (CodeBuffer / PrgFile) so far
  newRecords : List Nat       -- NewRecord(NewPC) calls (DontPrint lines)
  buf : List UInt8            -- the BAsmCode/WAsmCode/DAsmCode overlay as the line leaves it
  deriving DecidableEq, Repr

structure RepSt where
  chunks : List (Nat × Nat)         -- AddChunk(SegChunks + ActPC, pc, len)
  lineInfo : List (Nat × Nat × Nat) -- AddLineInfo(line, pc, len)
  refs : List (Nat × Nat)           -- AddReference(symbol, line)
  listing : List (Nat × Nat × Bool × List UInt8)  -- (radix, pc, lower-case hex, code bytes) per listed line
  deriving DecidableEq, Repr

structure Line where
  lineNo : Nat
  codeLen : Nat               -- CodeLen (in units of Granularity())
  code : List UInt8           -- buffer content after MakeCode
  dontPrint : Bool
  lookups : List Nat          -- symbols FindNode found while evaluating the line
  deriving DecidableEq, Repr

/-- BookKeeping() -/
def bookKeeping (cfg : Cfg) (pc : Nat) (l : Line) (r : RepSt) : RepSt :=
  let r1 := if cfg.rep.makeUseList then { r with chunks := r.chunks ++ [(pc, l.codeLen)] } else r
  if cfg.rep.debugInfo then { r1 with lineInfo := r1.lineInfo ++ [(l.lineNo, pc, l.codeLen)] } else r1

/-- WriteBytes(): swap, copy `ErgLen` bytes, swap back -/
def writeBytes (cfg : Cfg) (l : Line) (c : CodeSt) : CodeSt :=
  if l.codeLen = 0 then c else
  let ergLen := l.codeLen * cfg.code.gran
  let b1 := if cfg.code.turnWords then dreheCodes cfg.code.listGran ergLen c.buf else c.buf
  let out := c.out ++ b1.take ergLen
  let b2 := if cfg.code.turnWords then dreheCodes cfg.code.listGran ergLen b1 else b1
  { c with out := out, buf := b2 }

/-- WriteCode() (no StructSeg, no padding, address check passed) -/
def writeCode (cfg : Cfg) (l : Line) (s : CodeSt × RepSt) : CodeSt × RepSt :=
  let c := s.1
  let newPC := c.pc + l.codeLen
  let r := if !l.dontPrint && l.codeLen > 0 then bookKeeping cfg c.pc l s.2 else s.2
  let c1 := if cfg.code.codeOutput then
      (if l.dontPrint then { c with newRecords := c.newRecords ++ [newPC] } else writeBytes cfg l c)
    else c
  ({ c1 with pc := newPC }, r)

/-- MakeList(): DreheCodes before and after printing the code words -/
def makeList (cfg : Cfg) (l : Line) (s : CodeSt × RepSt) : CodeSt × RepSt :=
  if cfg.rep.listOn then
    let c := s.1
    let effLen := l.codeLen * cfg.code.gran
    let turn := cfg.code.turnWords && cfg.code.gran != cfg.code.listGran && cfg.code.listGran == 1
    let b1 := if turn then dreheCodes cfg.code.listGran effLen c.buf else c.buf
    let r := { s.2 with listing := s.2.listing ++ [(cfg.rep.listRadix, c.pc - l.codeLen, cfg.rep.lowerHex, b1.take effLen)] }
    let b2 := if turn then dreheCodes cfg.code.listGran effLen b1 else b1
    ({ c with buf := b2 }, r)
  else s

/-- one source line: symbol lookups (cross reference under -C), WriteCode, MakeList -/
def step (cfg : Cfg) (s : CodeSt × RepSt) (l : Line) : CodeSt × RepSt :=
  let r0 := if cfg.rep.makeCrossList then { s.2 with refs := s.2.refs ++ l.lookups.map (fun x => (x, l.lineNo)) } else s.2
  let s1 := writeCode cfg l ({ s.1 with buf := l.code }, r0)
  makeList cfg l s1

def run (cfg : Cfg) (s : CodeSt × RepSt) (ls : List Line) : CodeSt × RepSt := ls.foldl (step cfg) s

end AslModel.ReportPipe
