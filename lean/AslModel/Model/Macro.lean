import AslModel.Spec.MacroSubst
/-! MODEL for C11, token layer: transcription of asmsub.c
`CompressLine_NErl`, `IsValidParameterName`, `ReplaceLine` (incl. the `\name\` form and the case rule),
`ReplaceLineUnchecked` for the two-byte tokens, `SetToken`, `CompressLine`, `ExpandLine`, `KillCtrl`, and of the
loops in as.c `MACRO_OutProcessor` / `IRP_OutProcessor` (compress parameter 1..n in order) and
`MACRO_Processor` / `IRP_Processor` (expand token 1..ParCnt in order).  Characters are bytes.  Core only. -/
namespace AslModel.Macro
open AslModel.MacroSpec

/-- `CompressLine_NErl`: the boundary test knows ASCII letters and digits only -/
abbrev nErl (c : Ch) : Bool := isAlnum c

/-- `SetToken`: `Token[0] = (TokenNum >> 4) + 1; Token[1] = (TokenNum & 15) + 1` -/
def tok1 (z : Nat) : Ch := UInt8.ofNat (z / 16 + 1)
def tok2 (z : Nat) : Ch := UInt8.ofNat (z % 16 + 1)
def token (z : Nat) : Line := [tok1 z, tok2 z]

/-- `strncmp` / `as_strncasecmp` of the search string against the text at the current position -/
def headIs (cs : Bool) : Line → Line → Bool
  | [], _ => true
  | _ :: _, [] => false
  | p :: ps, c :: rest => eqCh cs p c && headIs cs ps rest

def nextAl : Line → Bool
  | [] => false
  | c :: _ => nErl c

/-- is the character before `Pos` alphanumeric after `repl` was copied in front of `Pos` -/
def lastAl (prevAl : Bool) (repl : Line) : Bool :=
  match repl.getLast? with
  | some x => nErl x
  | none => prevAl

/-- `ReplaceLine(p_str, n::ns, repl, cs)`.  `prevAl`: the character at `Pos-1` of the string *as rewritten so far*
    is alphanumeric (`IsValidParameterName` reads the rewritten buffer).  The argument is the text from `Pos`. -/
def replaceLine (cs : Bool) (n : Ch) (ns : Line) (repl : Line) : Bool → Line → Line
  | _, [] => []
  | prevAl, c :: rest =>
    if c == 92 && (rest.drop (ns.length + 1)).head? == some 92 then
      -- `\name\`: Start = Pos+1, End = Pos+SearchLen+2; no boundary test
      if headIs cs (n :: ns) rest then
        repl ++ replaceLine cs n ns repl (lastAl prevAl repl) (rest.drop (ns.length + 2))
      else c :: replaceLine cs n ns repl (nErl c) rest
    else if headIs cs (n :: ns) (c :: rest) && !prevAl && !nextAl ((c :: rest).drop (ns.length + 1)) then
      repl ++ replaceLine cs n ns repl (lastAl prevAl repl) ((c :: rest).drop (ns.length + 1))
    else c :: replaceLine cs n ns repl (nErl c) rest
termination_by _ s => s.length
decreasing_by
  all_goals simp_wf
  all_goals (try simp [List.length_drop]) <;> omega

/-- `CompressLine(TokNam, TokenNum, p_str, cs)` (an empty name never reaches it: ChkMacSymbName) -/
def compressLine (cs : Bool) (name : Line) (z : Nat) (line : Line) : Line :=
  match name with
  | [] => line
  | n :: ns => replaceLine cs n ns (token z) false line

/-- `ReplaceLineUnchecked` for a two-byte search string (`ExpandLine`) -/
def expandTok (t1 t2 : Ch) (arg : Line) : Line → Line
  | a :: b :: rest =>
    if a = t1 ∧ b = t2 then arg ++ expandTok t1 t2 arg rest else a :: expandTok t1 t2 arg (b :: rest)
  | l => l

/-- `ExpandLine(TokNam, TokenNum, p_str)` -/
def expandLine (z : Nat) (arg : Line) (line : Line) : Line := expandTok (tok1 z) (tok2 z) arg line

/-- the `for (z = 1; z <= ParamCount; z++) CompressLine(name_z, z, ...)` loop, starting at token number `z` -/
def compressAll (cs : Bool) : Nat → List Line → Line → Line
  | _, [], l => l
  | z, p :: ps, l => compressAll cs (z + 1) ps (compressLine cs p z l)

/-- the `for (z = 1; z <= ParCnt; z++) ExpandLine(arg_z, z, ...)` loop -/
def expandAll : Nat → List Line → Line → Line
  | _, [], l => l
  | z, a :: as, l => expandAll (z + 1) as (expandLine z a l)

/-- `KillCtrl`: TAB becomes blanks up to the next multiple of 8, other control characters one blank -/
def killCtrl : Nat → Line → Line
  | _, [] => []
  | col, c :: rest =>
    if c == 9 then List.replicate (8 - col % 8) 32 ++ killCtrl (col + (8 - col % 8)) rest
    else if c.toNat < 32 then 32 :: killCtrl (col + 1) rest
    else c :: killCtrl (col + 1) rest

/-- what `MACRO_OutProcessor` stores for a body line and `MACRO_Processor` delivers for a call -/
def macroLine (cs : Bool) (params args : List Line) (raw : Line) : Line :=
  expandAll 1 args (compressAll cs 1 params (killCtrl 0 raw))

end AslModel.Macro
