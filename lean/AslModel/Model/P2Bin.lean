import AslModel.Spec.P2Bin
import AslModel.Generated.ToolTables
/-!
# P2BIN — MODEL

Transcription of `p2bin.c` (`MeasureFile`, `OpenTarget`, `ProcessFile`, `CloseTarget`, `CMD_ByteMode`),
`toolutils.c` (`FilterOK`, record header normalisation – through the `Spec/PFile` reader) and `chunks.c`
(`Overlap`, `SetChunk`, `AddChunk`), function by function, with the 32-bit `LongWord` arithmetic of the
address variables.  Files are `List Byte`; `fseek` + `fwrite` is `writeAt` (a seek past the end leaves a
zero-filled hole, as POSIX does).

`Quirks` switches four places between *what the code does today* and *what the manual says*.  The
harness sets them from probes of the real binary, so the model follows the code whether or not a
defect has been repaired; the SPEC (`Spec/P2Bin.lean`) never looks at them.
-/
namespace AslModel.P2Bin
open AslModel.PFile

structure Quirks where
  /-- `false`: `FilterOK` is handed the (normalised) record header `$81` instead of the CPU family -/
  filterOnCpu : Bool
  /-- `false`: target position = floor((ErgStart−StartAdr)·Gran / SizeDiv), length = floor(range·MaxGran / SizeDiv) -/
  laneExact : Bool
  /-- `false`: `AddChunk` as in chunks.c (first touching chunk only; merge loop starts at index 1) -/
  overlapExact : Bool
  /-- `false`: `MaxGran` is only measured when at least one bound of `-r` is automatic -/
  maxGranAlways : Bool
  /-- `false`: a file whose last data record is followed only by `$00` and an empty creator string is
  rejected (`NextPos >= FileSize − 1`) -/
  emptyCreatorOK : Bool := false
deriving Repr, Inhabited

/-- the state the command line leaves in `p2bin.c`'s globals -/
structure Opts where
  startAuto : Bool := true
  stopAuto : Bool := true
  startAdr : Nat := 0
  stopAdr : Nat := 0x7fff
  fill : Byte := 0xff
  sizeDiv : Nat := 1
  mask : Nat := 0
  eq : Nat := 0
  /-- `StartHeader`: 0 none, >0 little endian, <0 big endian -/
  header : Int := 0
  /-- `-e` -/
  entry : Option Nat := none
  checksum : Bool := false
  filter : List Byte := []
  segment : Byte := segCode
deriving Repr, Inhabited

def M32 : Nat := 2 ^ Generated.p2binAdrBits

/-- `CMD_ByteMode`: lane name ↦ (SizeDiv, ANDMask, ANDEq) from the generated table -/
def laneParams (name : String) : Option (Nat × Nat × Nat) := Generated.p2binLanes.lookup name

/-- `toolutils.c FilterOK` as called from `p2bin.c` -/
def filterOK (q : Quirks) (filter : List Byte) (cpu : Byte) : Bool :=
  filter.isEmpty || filter.contains (if q.filterOnCpu then cpu else b Generated.fileHeaderDataRec)

def selectFile (q : Quirks) (o : Opts) (f : Input) : List Sel :=
  (dataRecs f.1).filterMap fun r =>
    if filterOK q o.filter r.cpu && r.seg == o.segment
    then some ⟨r.gran.toNat, (r.start + f.2) % M32, r.data⟩ else none

def select (q : Quirks) (o : Opts) (files : List Input) : List Sel :=
  (files.map (selectFile q o)).flatten

/-! ### MeasureFile -/

structure Win where
  start : Nat
  stop : Nat
  maxGran : Nat
deriving Repr, DecidableEq, Inhabited

/-- `EndAdr = Adr + (Length / Gran) - 1` in `LongWord` -/
def endAdr (r : Sel) : Nat := (r.start + r.data.length / r.gran + (M32 - 1)) % M32

def measureStep (o : Opts) (w : Win) (r : Sel) : Win :=
  { maxGran := if r.gran > w.maxGran then r.gran else w.maxGran
    start := if o.startAuto && decide (w.start > r.start) then r.start else w.start
    stop := if o.stopAuto && decide (endAdr r > w.stop) then endAdr r else w.stop }

def measureInit (o : Opts) : Win :=
  ⟨if o.startAuto then M32 - 1 else o.startAdr, if o.stopAuto then 0 else o.stopAdr, 1⟩

def measure (o : Opts) (sel : List Sel) : Win := sel.foldl (measureStep o) (measureInit o)

inductive Err where
  /-- "automatic range setting failed", exit 1 -/
  | autoFailed
  /-- FormatError, exit 3 -/
  | format
  /-- the C code divides by zero / seeks to −1: not modelled -/
  | undefined
deriving Repr, DecidableEq, Inhabited

def window (q : Quirks) (o : Opts) (sel : List Sel) : Except Err Win :=
  if o.startAuto || o.stopAuto then
    let w := measure o sel
    if w.start > w.stop then .error .autoFailed else .ok w
  else .ok ⟨o.startAdr, o.stopAdr, if q.maxGranAlways then (measure o sel).maxGran else 1⟩

/-! ### OpenTarget -/

def absHeader (o : Opts) : Nat := o.header.natAbs

def laneHit (o : Opts) (a : Nat) : Bool := (a &&& o.mask) == o.eq

def realFileLen (q : Quirks) (o : Opts) (w : Win) : Nat :=
  if q.laneExact then laneCount (laneHit o) (w.start * w.maxGran) ((w.stop - w.start + 1) * w.maxGran)
  else ((w.stop - w.start + 1) * w.maxGran) % 2 ^ Generated.p2binLenBits / o.sizeDiv

def prefill (q : Quirks) (o : Opts) (w : Win) : List Byte :=
  List.replicate (absHeader o) 0 ++ List.replicate (realFileLen q o w) o.fill

/-! ### chunks.c -/

structure Chunks where
  arr : List (Nat × Nat) := []
  realLen : Nat := 0
deriving Repr, Inhabited

def overlapC (s1 l1 s2 l2 : Nat) : Bool :=
  s1 == s2 || (decide (s2 > s1) && decide (s1 + l1 ≥ s2)) || (decide (s1 > s2) && decide (s2 + l2 ≥ s1))

def setChunk (s1 l1 s2 l2 : Nat) : Nat × Nat :=
  let st := min s1 s2
  (st, max (s1 + l1 - 1) (s2 + l2 - 1) - st + 1)

/-- first index `z` in `[lo, hi)` with `z ≠ skip` and `p arr[z]` -/
def findIdxFrom (p : Nat × Nat → Bool) (arr : List (Nat × Nat)) (skip : Option Nat) : Nat → Nat → Option Nat
  | _, 0 => none
  | z, n + 1 =>
    if some z ≠ skip && p (arr.getD z (0, 0)) then some z else findIdxFrom p arr skip (z + 1) n

/-- the `do … while (Found)` loop of `AddChunk` (every round removes a chunk, so `realLen` rounds suffice) -/
def mergeLoop : Nat → Chunks → Nat → Chunks
  | 0, c, _ => c
  | fuel + 1, c, f1 =>
    let c1 := c.arr.getD f1 (0, 0)
    match findIdxFrom (fun cz => overlapC cz.1 cz.2 c1.1 c1.2) c.arr (some f1) 1 (c.realLen - 1) with
    | none => c
    | some f2 =>
      let c2 := c.arr.getD f2 (0, 0)
      let arr1 := c.arr.set f1 (setChunk c1.1 c1.2 c2.1 c2.2)
      let rl := c.realLen - 1
      let arr2 := arr1.set f2 (arr1.getD rl (0, 0))
      mergeLoop fuel ⟨arr2, rl⟩ f1

/-- `AddChunk(&UsedList, NewStart, NewLen, True)`; result = overlap warning -/
def addChunk (c : Chunks) (ns nl : Nat) : Chunks × Bool :=
  if nl = 0 then (c, false) else
  match findIdxFrom (fun cz => overlapC ns nl cz.1 cz.2) c.arr none 0 c.realLen with
  | some f1 =>
    let c1 := c.arr.getD f1 (0, 0)
    let partSum := (c1.2 + nl) % 4294967296
    let m := setChunk ns nl c1.1 c1.2
    let c' : Chunks := ⟨c.arr.set f1 m, c.realLen⟩
    (mergeLoop c.realLen c' f1, partSum != m.2)
  | none =>
    ((⟨(c.arr.take c.realLen) ++ [(ns, nl)], c.realLen + 1⟩ : Chunks), false)

/-- intended behaviour: warn iff the new range shares an address with an earlier one -/
def addChunkExact (c : Chunks) (ns nl : Nat) : Chunks × Bool :=
  (⟨c.arr ++ [(ns, nl)], c.realLen + 1⟩, c.arr.any (fun x => decide (x.1 < ns + nl ∧ ns < x.1 + x.2)))

/-! ### ProcessFile -/

/- `fseek(f, pos, SEEK_SET); fwrite(bs)` is `Spec.writeAt`: nothing happens for an empty write; a hole reads as zero -/

structure St where
  file : List Byte
  chunks : Chunks := {}
  warnings : Nat := 0
deriving Repr, Inhabited

/-- the copy loop: `SizeDiv == 1` copies, otherwise keep `((ErgStart*Gran + Addr) & ANDMask) == ANDEq`.
(The C loop works in blocks of `BufferSize` and advances `ErgStart` by the block's *byte* count; since
`BufferSize·Gran ≡ 0 (mod 4)` and the masks are ≤ 3 that is the same predicate – `Props/C05.lean`
checks the divisibility on the generated constant.) -/
def laneKeep (o : Opts) (base : Nat) (bs : List Byte) : List Byte :=
  if o.sizeDiv = 1 then bs else laneFilter (laneHit o) base bs

def targetPos (q : Quirks) (o : Opts) (w : Win) (ergStart gran : Nat) : Nat :=
  (if q.laneExact then laneCount (laneHit o) (w.start * gran) ((ergStart - w.start) * gran)
   else ((ergStart - w.start) * gran) % M32 / o.sizeDiv) + absHeader o

def procRec (q : Quirks) (o : Opts) (w : Win) (s : St) (r : Sel) : St :=
  let ergStart := max w.start r.start
  let ergStop := min w.stop (endAdr r)
  if ergStop < ergStart then s else
  let cw := if q.overlapExact then addChunkExact s.chunks ergStart (ergStop - ergStart + 1)
            else addChunk s.chunks ergStart (ergStop - ergStart + 1)
  let ergLen := ((ergStop + 1 - ergStart) * r.gran) % 65536
  let clipped := (r.data.drop ((ergStart - r.start) * r.gran)).take ergLen
  let kept := laneKeep o ((ergStart * r.gran) % M32) clipped
  { file := writeAt s.file (targetPos q o w ergStart r.gran) kept
    chunks := cw.1
    warnings := s.warnings + (if cw.2 then 1 else 0) }

def procAll (q : Quirks) (o : Opts) (w : Win) (sel : List Sel) : St :=
  sel.foldl (procRec q o w) { file := prefill q o w }

/-! ### CloseTarget -/

/-- the entry-address header exactly as the loop over `bpos` writes it -/
def headerLoop (entry : Nat) (up : Bool) : Nat → Nat → List Byte
  | 0, _ => []
  | n + 1, bpos => b ((entry >>> bpos) % 256) :: headerLoop entry up n (if up then bpos + 8 else bpos - 8)

def entryHeader (o : Opts) (entry : Nat) : List Byte :=
  headerLoop (entry % M32) (o.header > 0) (absHeader o) (if o.header > 0 then 0 else (absHeader o - 1) * 8)

def writeHeader (o : Opts) (entry : Option Nat) (f : List Byte) : List Byte :=
  match entry with
  | some e => if o.header ≠ 0 then entryHeader o e ++ f.drop (absHeader o) else f
  | none => f

/-- checksum pass: sum of all image bytes but the last (32 bit), last byte := `0x100 − (Sum & 0xff)` -/
def checksumPass (o : Opts) (f : List Byte) : Except Err (List Byte × Nat) :=
  if f.length ≤ absHeader o then .error .undefined else
  let body := (f.drop (absHeader o)).take (f.length - absHeader o - 1)
  let sum := byteSum body % 4294967296
  .ok (f.take (f.length - 1) ++ [b (256 - sum % 256)], sum)

structure Out where
  file : List Byte
  warnings : Nat
  checksum : Option Nat
  win : Win
deriving Repr, Inhabited

/-- the file would make `ProcessFile` stop with "invalid record length": its last record is a data
record and the creator string is empty (`NextPos >= FileSize − 1`) -/
def formatTrap (items : List Item) (creatorLen : Nat) : Bool :=
  creatorLen == 0 && (match items.getLast? with | some (.data _) => true | _ => false)

/-- whole run.  `creatorLens`: length of the creator string of each input. -/
def p2bin (q : Quirks) (o : Opts) (files : List Input) (creatorLens : List Nat) : Except Err Out :=
  let sel := select q o files
  if sel.any (fun r => r.gran == 0) then .error .undefined else
  match window q o sel with
  | .error e => .error e
  | .ok w =>
    if !q.emptyCreatorOK && (files.zip creatorLens).any (fun fc => formatTrap fc.1.1 fc.2) then .error .format else
    let st := procAll q o w sel
    let entry := match o.entry with | some e => some e | none => firstEntry files
    let f1 := writeHeader o entry st.file
    if o.checksum then
      match checksumPass o f1 with
      | .error e => .error e
      | .ok (f2, s) => .ok ⟨f2, st.warnings, some s, w⟩
    else .ok ⟨f1, st.warnings, none, w⟩

end AslModel.P2Bin
