/-!
# BINCLUDE — MODEL (C03): transcription of `asmallg.c CodeBINCLUDE` and of what `as.c WriteCode` does with its result

C objects and their widths: `LongWord Ofs, Curr, Rest, FSize` (32 bit unsigned), `LongInt Len` (32 bit signed, `-1` =
"no length given"), `Word RLen`, `LargeWord` program counters (64 bit).  The file is a regular file of `file.length`
bytes: `fseek(F, Ofs, SEEK_SET)` may position behind the end, `fread` then returns 0.

The interesting part for the property is the transfer loop

    do { Curr = (Rest <= 256) ? Rest : 256;  RLen = fread(BAsmCode, 1, Curr, F);  ...  Rest -= RLen; }
    while ((Rest != 0) && (RLen == Curr));

which is transcribed as `xfer` *without fuel*: Lean accepts the definition only with a proof that `Rest` falls in
every iteration that is followed by another one.  Core-only imports (linked into the driver).
-/
namespace AslModel.BInclude

abbrev Byte := UInt8

def two31 : Int := 2147483648
def two32 : Int := 4294967296
def two64 : Int := 18446744073709551616

/-- value → `LongWord` -/
def toLongWord (v : Int) : Nat := (v % two32).toNat
/-- value → `LongInt` -/
def toLongInt (v : Int) : Int := let w := v % two32; if w ≥ two31 then w - two32 else w
/-- value → `LargeWord` -/
def toLargeWord (v : Int) : Nat := (v % two64).toNat

/-- `fread(buf, 1, n, F)` with the file position at `pos` -/
def fread (file : List Byte) (pos n : Nat) : List Byte := (file.drop pos).take n

/-- `Curr = (Rest <= 256) ? Rest : 256` -/
def blockLen (rest : Nat) : Nat := if rest ≤ 256 then rest else 256

theorem fread_length_le (file : List Byte) (pos n : Nat) : (fread file pos n).length ≤ n := by
  simp [fread, List.length_take]; omega

/-- one `fread` of the loop -/
def block (file : List Byte) (pos rest : Nat) : List Byte := fread file pos (blockLen rest)

/-- the transfer loop: (bytes handed to `WriteBytes`, `Rest` behind the loop, number of iterations) -/
def xfer (file : List Byte) (pos rest : Nat) : List Byte × Nat × Nat :=
  if rest - (block file pos rest).length ≠ 0 ∧ (block file pos rest).length = blockLen rest then
    let r := xfer file (pos + (block file pos rest).length) (rest - (block file pos rest).length)
    (block file pos rest ++ r.1, r.2.1, r.2.2 + 1)
  else (block file pos rest, rest - (block file pos rest).length, 1)
termination_by rest
decreasing_by
  rename_i h
  have h2 := h.2
  have h1 := h.1
  unfold blockLen at h2
  split at h2 <;> omega

/-! ### the statement -/

inductive Arg where
  | lit (v : Int)       -- an integer constant
  | undef               -- a symbol that is not defined (yet)
deriving Repr, DecidableEq

def errWrongArgCnt : Nat := 1110
def errOverRange : Nat := 1320
def errShortRead : Nat := 1600
def errFirstPassCalc : Nat := 1820
def errAdrOverflow : Nat := 1925
def errOpeningFile : Nat := 10001

/-- `EvalStrIntExpressionWithFlags(.., Int32, ..)` on a constant / an undefined symbol: `Except` error number -/
def evalInt32 (min max : Int) : Arg → Except Nat Int
  | .undef => .error errFirstPassCalc
  | .lit v => if min ≤ v ∧ v ≤ max then .ok v else .error errOverRange

/-- `DefChkPC` -/
def chkPC (valid : Bool) (limit addr : Nat) : Bool := valid && decide (addr ≤ limit)

structure BRes where
  errs : List Nat := []       -- error numbers, in the order they are reported
  fatal : Bool := false
  bytes : List Byte := []     -- what the loop handed to `WriteBytes` (at the old program counter)
  adv : Nat := 0              -- what `WriteCode` adds to the program counter
  iters : Nat := 0            -- loop iterations
deriving Repr

/-- `CodeBINCLUDE` behind the evaluation of its arguments (`Ofs`, `Len` as evaluated; `Len = -1`: none given),
followed by `WriteCode` (`DontPrint` set).  `file = none`: `fopen` fails.
`pc`/`limit`/`valid`: program counter, `SegLimits[ActPC]`, `ActPC ∈ ValidSegs`. -/
def bincludeCore (file : Option (List Byte)) (ofsV lenV : Int) (pc limit : Nat) (valid : Bool) : BRes :=
  match file with
  | none => { errs := [errOpeningFile], fatal := true }
  | some f =>
    -- `if (Len == -1) { if ((Len = FSize - Ofs) < 0) { WrError(ErrNum_ShortRead); return; } }`
    if toLongInt lenV = -1 ∧ toLongInt ((toLongWord f.length : Int) - (toLongWord ofsV : Int)) < 0 then { errs := [errShortRead] }
    else
      let len := if toLongInt lenV = -1 then toLongInt ((toLongWord f.length : Int) - (toLongWord ofsV : Int)) else toLongInt lenV
      -- `if (!ChkPC(EProgCounter() + Len - 1)) WrError(ErrNum_AdrOverflow);`
      if !chkPC valid limit (toLargeWord ((pc : Int) + len - 1)) then { errs := [errAdrOverflow] }
      else
        let r := xfer f (toLongWord ofsV) (toLongWord len)
        let e1 := if r.2.1 ≠ 0 then [errShortRead] else []
        -- WriteCode: `if (!ChkPC(EProgCounter() + CodeLen - 1) && (CodeLen != 0)) WrError(ErrNum_AdrOverflow); else PCs[ActPC] += CodeLen`
        if r.1.length ≠ 0 ∧ !chkPC valid limit (pc + r.1.length - 1) then
          { errs := e1 ++ [errAdrOverflow], bytes := r.1, iters := r.2.2 }
        else { errs := e1, bytes := r.1, adv := r.1.length, iters := r.2.2 }

/-- `CodeBINCLUDE`: `ChkArgCnt(1, 3)`, evaluation of offset and length (`min`/`max`: `IntTypeDefs[Int32]`), then the core -/
def binclude (min max : Int) (file : Option (List Byte)) (args : List Arg) (pc limit : Nat) (valid : Bool) : BRes :=
  match args with
  | [] => bincludeCore file 0 (-1) pc limit valid
  | [a] =>
    match evalInt32 min max a with
    | .error e => { errs := [e] }
    | .ok o => bincludeCore file o (-1) pc limit valid
  | [a, b] =>
    match evalInt32 min max a with
    | .error e => { errs := [e] }
    | .ok o =>
      match evalInt32 min max b with
      | .error e => { errs := [e] }
      | .ok l => bincludeCore file o l pc limit valid
  | _ => { errs := [errWrongArgCnt] }

/-! ### programs: SEGMENT / ORG / DB / BINCLUDE on one target -/

inductive Item where
  | seg (n : Nat)
  | org (a : Nat)
  | mark (bs : List Byte)
  | binc (file : Option Nat) (args : List Arg)     -- index into the list of files; `none` = a name that does not exist
deriving Repr

/-- per segment: (limit, valid) -/
abbrev Env := Nat → Nat × Bool

structure St where
  act : Nat := 1
  pcs : List (Nat × Nat) := []           -- (segment, PC); the generated programs set every PC with ORG before use
  errs : List Nat := []
  fatal : Bool := false
  out : List (Nat × Nat × List Byte) := []   -- (segment, address, bytes), in source order
  iters : Nat := 0
deriving Repr

def getPC (pcs : List (Nat × Nat)) (s : Nat) : Nat :=
  match pcs with
  | [] => 0
  | (k, v) :: r => if k = s then v else getPC r s

def setPC (pcs : List (Nat × Nat)) (s v : Nat) : List (Nat × Nat) :=
  match pcs with
  | [] => [(s, v)]
  | (k, w) :: r => if k = s then (k, v) :: r else (k, w) :: setPC r s v

def errUnknownSegment : Nat := 1961

def step (min max : Int) (env : Env) (files : List (List Byte)) (st : St) (it : Item) : St :=
  if st.fatal then st else
  let pc := getPC st.pcs st.act
  let (limit, valid) := env st.act
  match it with
  | .seg n => if (env n).2 then { st with act := n } else { st with errs := st.errs ++ [errUnknownSegment] }
  | .org a => if a ≤ limit then { st with pcs := setPC st.pcs st.act a } else { st with errs := st.errs ++ [errOverRange] }
  | .mark bs =>
    if bs.length ≠ 0 ∧ !chkPC valid limit (pc + bs.length - 1) then { st with errs := st.errs ++ [errAdrOverflow] }
    else { st with out := st.out ++ [(st.act, pc, bs)], pcs := setPC st.pcs st.act (pc + bs.length) }
  | .binc fi args =>
    let file := match fi with
      | none => none
      | some k => files[k]?
    let r := binclude min max file args pc limit valid
    { st with errs := st.errs ++ r.errs, fatal := r.fatal, iters := st.iters + r.iters,
              out := if r.bytes.isEmpty then st.out else st.out ++ [(st.act, pc, r.bytes)],
              pcs := setPC st.pcs st.act (pc + r.adv) }

def run (min max : Int) (env : Env) (files : List (List Byte)) (p : List Item) : St :=
  p.foldl (step min max env files) {}

/-- exit status: 3 after a fatal error, 2 when an error was reported, else 0 -/
def status (st : St) : Nat := if st.fatal then 3 else if st.errs.isEmpty then 0 else 2

end AslModel.BInclude
