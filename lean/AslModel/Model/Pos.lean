import AslModel.Spec.Pos
/-!
# Diagnostic positions — MODEL (C20)

Transcription of the position machinery of `as.c` / `asmerr.c` / `strutil.c`:

* `Tag` = `TInputTag` as far as positions are concerned (`LineZ`, `LineCnt`, `ParZ`, `ParCnt`, `ParIter`,
  `Params`, `SpecName`, `StartLine`, `SaveAttr`, `IsEmpty`), `genProc` = `GenerateProcessor`,
  `mkIncl/mkMacro/mkRept/mkIrp/mkIrpc/mkWhile` = the tag set-up of `ExpandINCLUDE_Core`, `ExpandMacro`,
  `ExpandREPT`, `ExpandIRP`, `ExpandIRPN` (incl. the padding of the last batch), `ExpandIRPC`, `ExpandWHILE`;
* `includeProc`, `macroProc`, `irpProc`, `irpcProc`, `reptProc`, `whileProc` = the counter updates of the
  `*_Processor` functions (one call = one logical line delivered; `INCLUDE_Processor` adds `ReadLnCont`'s count
  to `MomLineCounter`);
* `getPos` = `INCLUDE_GetPos`, `MACRO_GetPos`, `IRP_GetPos` (with the step-back logic and the `ParIter`
  ternary selected by `Cfg.irpFixed`), `REPT_GetPos`, `WHILE_GetPos`;
* `getErrorPos` = `GetErrorPos` (native: prepend each tag's text until an INCLUDE tag says "last";
  GNU: include tags only, `In file included from` chain);
* `wrErrorPrefix` = the part of `WrErrorString` in front of the message text;
* `runItem/runBody` drive this machine over a nesting tree exactly as `GetNextLine` and the `*_OutProcessor`
  collectors do: the supplying tag delivers every line of a construct (opener, body, ENDM) before the new
  tag is pushed, the new tag then delivers its body once per iteration, and is popped (`INCLUDE_Restorer`
  restores `MomLineCounter`);
* `readLnCont` = `ReadLnCont` on a list of physical lines;
* `Exp.*` = `pExpectErrors`/`InExpect`, `FindAndTakeExpectError`, `CodeEXPECT`, `CodeENDEXPECT`,
  `AsmErrPassExit`, the `WrXErrorPos` filter.

`CurrLine` does not enter a position: the `*_GetPos` functions read `LineZ` / `ParZ` / `LineCnt` only, so the source line offsets
the REPT/IRP/IRPC/WHILE tags store with their body lines (`TInputTag.LineNums`, `AddBodyLine`; modelled in `Model/LineInfo.lean`
for C19) leave this machine as it is: inside a block body the file frame names the last line read from the file (the ENDM line,
counted in physical lines, continuation lines of the body included) and the block frame the stored (joined) body line.

Not modelled: EXITM/SHIFT, macro parameters, errors raised on opener/ENDM lines, `feof` handling of the
last line, `-x` extension lines.  Core only.
-/
namespace AslModel.Pos

structure Cfg where
  /-- `IRP_GetPos` computes `ParIter == 0 ? 1 : ParIter` (as `IRP_Processor` does) instead of the pinned
  tree's `ParIter == 0 ? ParIter : 1` -/
  irpFixed : Bool
deriving Repr

inductive Kind where | incl | macro | irp | irpc | rept | while_
deriving DecidableEq, Repr

structure Tag where
  kind : Kind
  specName : String
  specChars : List Char
  params : List String
  parCnt : Int
  parZ : Int
  parIter : Int
  lineCnt : Int
  lineZ : Int
  startLine : Int
  saveAttr : String
  isEmpty : Bool
deriving Repr

/-- `GenerateProcessor` -/
def genProc (kind : Kind) (currLine : Int) : Tag :=
  { kind := kind, specName := "", specChars := [], params := [], parCnt := 0, parZ := 0, parIter := 0,
    lineCnt := 0, lineZ := 1, startLine := currLine, saveAttr := "", isEmpty := false }

/-- `ExpandINCLUDE_Core`: `StartLine = MomLineCounter; LineZ = MomLineCounter = 0` -/
def mkIncl (file : String) (mom : Int) : Tag :=
  { genProc .incl mom with specName := file, startLine := mom, lineZ := 0 }

/-- `ExpandMacro` -/
def mkMacro (name : String) (lineCnt : Nat) : Tag :=
  { genProc .macro 0 with specName := name, lineCnt := lineCnt }

/-- `ExpandREPT` -/
def mkRept (n : Nat) (lineCnt : Nat) : Tag :=
  { genProc .rept 0 with parCnt := n, parZ := 1, parIter := 0, lineCnt := lineCnt }

/-- `ExpandIRP` (k = 0) / `ExpandIRPN` (k ≥ 1: the last batch is filled up with empty strings) -/
def mkIrp (k : Nat) (args : List String) (lineCnt : Nat) : Tag :=
  let rem := if k = 0 then 0 else (k - args.length % k) % k
  let ps := args ++ List.replicate rem ""
  { genProc .irp 0 with params := ps, parCnt := ps.length, parZ := 1, parIter := k, lineCnt := lineCnt }

/-- `ExpandIRPC` -/
def mkIrpc (s : List Char) (lineCnt : Nat) : Tag :=
  { genProc .irpc 0 with specChars := s, parCnt := s.length, parZ := 1, parIter := 0, lineCnt := lineCnt }

/-- `ExpandWHILE` -/
def mkWhile (lineCnt : Nat) : Tag :=
  { genProc .while_ 0 with parZ := 1, parIter := 0, lineCnt := lineCnt }

/-! ### the processors (counter updates per delivered line) -/

/-- `INCLUDE_Processor`: `PInp->LineZ = CurrLine = (MomLineCounter += Count)` -/
def includeProc (mom : Int) (t : Tag) (count : Nat) : Int × Tag :=
  (mom + count, { t with lineZ := mom + count })

/-- `MACRO_Processor`: `if (++(PInp->LineZ) > PInp->LineCnt) Result = False` -/
def macroProc (t : Tag) : Tag :=
  { t with lineZ := t.lineZ + 1, isEmpty := decide (t.lineZ + 1 > t.lineCnt) }

/-- `IRP_Processor` -/
def irpProc (t : Tag) : Tag :=
  -- `int ParIter = PInp->ParIter == 0 ? 1 : PInp->ParIter;`
  if t.lineZ + 1 > t.lineCnt then
    { t with lineZ := 1, parZ := t.parZ + (if t.parIter = 0 then 1 else t.parIter),
             isEmpty := decide (t.parZ + (if t.parIter = 0 then 1 else t.parIter) > t.parCnt) }
  else { t with lineZ := t.lineZ + 1 }

/-- `IRPC_Processor`, `REPT_Processor` -/
def countProc (t : Tag) : Tag :=
  if t.lineZ + 1 > t.lineCnt then
    { t with lineZ := 1, parZ := t.parZ + 1, isEmpty := decide (t.parZ + 1 > t.parCnt) }
  else { t with lineZ := t.lineZ + 1 }

/-- `WHILE_Processor` while the condition holds -/
def whileProc (t : Tag) : Tag :=
  if t.lineZ + 1 > t.lineCnt then { t with lineZ := 1, parZ := t.parZ + 1 }
  else { t with lineZ := t.lineZ + 1 }

/-- `FirstInputTag->Processor(...)`: deliver one logical line (`count` physical lines when read from a file) -/
def proc (mom : Int) (t : Tag) (count : Nat) : Int × Tag :=
  match t.kind with
  | .incl => includeProc mom t count
  | .macro => (mom, macroProc t)
  | .irp => (mom, irpProc t)
  | .irpc => (mom, countProc t)
  | .rept => (mom, countProc t)
  | .while_ => (mom, whileProc t)

/-- deliver several lines (collecting the body of a construct) -/
def consume (mom : Int) (t : Tag) : List Nat → Int × Tag
  | [] => (mom, t)
  | p :: ps => consume (proc mom t p).1 (proc mom t p).2 ps

/-! ### `*_GetPos` -/

/-- the `ParIter` that `IRP_GetPos` works with -/
def getPosParIter (cfg : Cfg) (t : Tag) : Int :=
  if cfg.irpFixed then (if t.parIter = 0 then 1 else t.parIter)
  else (if t.parIter = 0 then t.parIter else 1)

/-- the argument text of `IRP_GetPos`: `strcpy(buffer, Lauf->Content)` and up to `ParIter - 1` more, comma separated;
empty when the list is exhausted (`Lauf == NULL`) -/
def irpVal (l : List String) (parIter : Int) : String :=
  match l with
  | [] => ""
  | a :: r => ",".intercalate (a :: r.take (parIter - 1).toNat)

/-- `"'%c'"` of `SpecName[ParZ - 1]`; the terminating NUL cuts the C string after the first quote -/
def irpcVal (s : List Char) (idx : Nat) : String :=
  match s[idx]? with
  | some c => "'" ++ String.singleton c ++ "'"
  | none => "'"

/-- `IRP_GetPos` (for IRP, IRPN and IRPC tags) -/
def irpGetPos (cfg : Cfg) (t : Tag) : String :=
  let parIter := getPosParIter cfg t
  let back := decide (t.lineZ - 1 ≤ 0)
  let lineZ := if back then t.lineCnt else t.lineZ - 1
  let parZ := if back then t.parZ - parIter else t.parZ
  if t.kind = .irp then
    let typ := if t.parIter = 0 then "IRP" else "IRPN"
    let val := if t.saveAttr ≠ "" then t.saveAttr else irpVal (t.params.drop (parZ - 1).toNat) parIter
    fmtIrp typ val lineZ.toNat
  else
    fmtIrp "IRPC" (irpcVal t.specChars (parZ - 1).toNat) lineZ.toNat

/-- the tag's `GetPos` callback: text and the "last" flag -/
def getPos (cfg : Cfg) (gnu : Bool) (t : Tag) : String × Bool :=
  match t.kind with
  | .incl => (if gnu then fmtFileGnu t.specName t.lineZ.toNat else fmtFile t.specName t.lineZ.toNat, !gnu)
  | .macro => (fmtMacro t.specName (t.lineZ - 1).toNat, false)
  | .irp => (irpGetPos cfg t, false)
  | .irpc => (irpGetPos cfg t, false)
  | .rept =>
    let back := decide (t.lineZ - 1 ≤ 0)
    (fmtRept (if back then t.parZ - 1 else t.parZ).toNat (if back then t.lineCnt else t.lineZ - 1).toNat, false)
  | .while_ =>
    let back := decide (t.lineZ - 1 ≤ 0)
    (fmtWhile (if back then t.parZ - 1 else t.parZ).toNat (if back then t.lineCnt else t.lineZ - 1).toNat, false)

/-! ### `GetErrorPos` -/

/-- native style: `for (RunTag = FirstInputTag; …) { Last = GetPos(); strmaxprep(Str, ActPos); if (Last) break; }` -/
def getErrorPosAS (cfg : Cfg) : List Tag → String
  | [] => ""
  | t :: rest => if (getPos cfg false t).2 then (getPos cfg false t).1
                 else getErrorPosAS cfg rest ++ (getPos cfg false t).1

/-- GNU style, first loop: remember the innermost INCLUDE tag, print the outer ones -/
def gnuLoop (cfg : Cfg) : List Tag → Option Tag → Option String → Option Tag × Option String
  | [], inner, str => (inner, str)
  | t :: rest, inner, str =>
    if t.kind = .incl then
      match inner with
      | none => gnuLoop cfg rest (some t) str
      | some _ =>
        match str with
        | none => gnuLoop cfg rest inner (some (gnuMsg1 ++ " " ++ (getPos cfg true t).1))
        | some s => gnuLoop cfg rest inner (some (s ++ ",\n" ++ gnuMsgN ++ " " ++ (getPos cfg true t).1))
    else gnuLoop cfg rest inner str

def getErrorPosGNU (cfg : Cfg) (tags : List Tag) : String :=
  let r := gnuLoop cfg tags none none
  (match r.2 with | some s => s ++ ":\n" | none => "") ++
  (match r.1 with | some t => (getPos cfg true t).1 | none => "")

def getErrorPos (cfg : Cfg) (gnu : Bool) (tags : List Tag) : String :=
  if tags.isEmpty then "INTERNAL" else if gnu then getErrorPosGNU cfg tags else getErrorPosAS cfg tags

/-- `WrErrorString` up to the message text; `add` = `" #<num>"` under `-n` -/
def wrErrorPrefix (gnu : Bool) (pos : String) (col : Option Nat) (warning : Bool) (add : String) : String :=
  (if gnu then "" else "> > > ")
  ++ stripTrailingSpace pos
  ++ (match col with | some c => ":" ++ toString c | none => "")
  ++ (if warning || !gnu then ": " ++ (if warning then "warning" else "error") else "")
  ++ add ++ ": "

/-! ### running the machine over a nesting tree -/

/-- one reported message: planted id, native position, GNU position -/
abbrev Out := Nat × String × String

def loopN {σ : Type} (f : σ → σ × List Out) : Nat → σ → σ × List Out
  | 0, s => (s, [])
  | n + 1, s => ((loopN f n (f s).1).1, (f s).2 ++ (loopN f n (f s).1).2)

/-- number of passes an IRP/IRPN tag makes through its body: `ParZ` runs 1, 1+step, … while `≤ ParCnt` -/
def tagIrpIters (t : Tag) : Nat :=
  (t.parCnt.toNat + (if t.parIter = 0 then 1 else t.parIter.toNat) - 1) / (if t.parIter = 0 then 1 else t.parIter.toNat)

mutual
/-- `top` is `FirstInputTag` (it supplies the lines), `rest` the tags below it -/
def runItem (cfg : Cfg) (mom : Int) (top : Tag) (rest : List Tag) : Item → (Int × Tag) × List Out
  | .plain p => (proc mom top p, [])
  | .fault p id =>
      let r := proc mom top p
      (r, [(id, getErrorPos cfg false (r.2 :: rest), getErrorPos cfg true (r.2 :: rest))])
  | .call name b =>
      let r := proc mom top 1
      if b.lines.length = 0 then (r, []) else
      let q := runBody cfg r.1 (mkMacro name b.lines.length) (r.2 :: rest) b
      ((q.1.1, r.2), q.2)
  | .rept n b =>
      let r := consume mom top (1 :: (b.lines ++ [1]))
      if b.lines.length = 0 then (r, []) else
      let q := loopN (fun s => runBody cfg s.1 s.2 (r.2 :: rest) b) n (r.1, mkRept n b.lines.length)
      ((q.1.1, r.2), q.2)
  | .irp k args b =>
      let r := consume mom top (1 :: (b.lines ++ [1]))
      if b.lines.length = 0 then (r, []) else
      let tag := mkIrp k args b.lines.length
      let q := loopN (fun s => runBody cfg s.1 s.2 (r.2 :: rest) b) (tagIrpIters tag) (r.1, tag)
      ((q.1.1, r.2), q.2)
  | .irpc s b =>
      let r := consume mom top (1 :: (b.lines ++ [1]))
      if b.lines.length = 0 then (r, []) else
      let q := loopN (fun st => runBody cfg st.1 st.2 (r.2 :: rest) b) s.length (r.1, mkIrpc s b.lines.length)
      ((q.1.1, r.2), q.2)
  | .while_ n b =>
      let r := consume mom top (1 :: (b.lines ++ [1]))
      if b.lines.length = 0 then (r, []) else
      let q := loopN (fun s => runBody cfg s.1 s.2 (r.2 :: rest) b) n (r.1, mkWhile b.lines.length)
      ((q.1.1, r.2), q.2)
  | .incl file b =>
      let r := proc mom top 1
      let tag := mkIncl file r.1
      let q := runBody cfg 0 tag (r.2 :: rest) b
      -- INCLUDE_Restorer: MomLineCounter = PInp->StartLine
      ((tag.startLine, r.2), q.2)
def runBody (cfg : Cfg) (mom : Int) (top : Tag) (rest : List Tag) : Body → (Int × Tag) × List Out
  | .nil => ((mom, top), [])
  | .cons it b =>
      let r := runItem cfg mom top rest it
      let q := runBody cfg r.1.1 r.1.2 rest b
      (q.1, r.2 ++ q.2)
end

/-- a whole pass over the main file -/
def run (cfg : Cfg) (name : String) (b : Body) : List Out := (runBody cfg 0 (mkIncl name 0) [] b).2

/-! ### `ReadLnCont` -/

/-- `ReadLnCont` on the remaining physical lines (each without its line terminator): accumulated logical
line, number of lines counted, remaining lines.  A trailing `\` of the accumulated text continues the line; at
end of file the failed `fgets` still counts one line. -/
def readLnContAux : List Char → Nat → List (List Char) → List Char × Nat × List (List Char)
  | acc, cnt, [] => (acc, cnt + 1, [])
  | acc, cnt, l :: rest =>
    let acc' := acc ++ l
    if acc'.getLast? = some '\\' then readLnContAux acc'.dropLast (cnt + 1) rest
    else (acc', cnt + 1, rest)

def readLnCont (ls : List (List Char)) : List Char × Nat × List (List Char) := readLnContAux [] 0 ls

/-- physical line count of every logical line of a file (`INCLUDE_Processor` called until the lines are used up) -/
def logicalCounts : Nat → List (List Char) → List Nat
  | 0, _ => []
  | _, [] => []
  | fuel + 1, l :: rest =>
    let r := readLnCont (l :: rest)
    r.2.1 :: logicalCounts fuel r.2.2

/-! ### EXPECT / ENDEXPECT -/
namespace Exp

structure Nums where
  expectedError : Nat
  noNestExpect : Nat
  missingEndExpect : Nat
  missingExpect : Nat
deriving Repr

structure St where
  inExpect : Bool
  /-- `pExpectErrors`, head = most recently announced -/
  pending : List Nat
deriving Repr

def init : St := { inExpect := false, pending := [] }

inductive Ev where
  | expect (nums : List Nat)
  | endexpect
  /-- a statement raises message number `n` -/
  | occur (n : Nat)
deriving Repr

/-- what reaches `WrErrorString` -/
inductive Msg where
  | msg (n : Nat)
  /-- `ErrNum_ExpectedError` with the name of message `n` as extension -/
  | missing (n : Nat)
deriving Repr, DecidableEq

/-- `FindAndTakeExpectError`: unlink the first entry with this number -/
def findAndTake (n : Nat) : List Nat → Option (List Nat)
  | [] => none
  | a :: l => if n = a then some l else (findAndTake n l).map (a :: ·)

/-- `WrXErrorPos`'s first step: a pending expectation swallows the message -/
def wrX (s : St) (n : Nat) (m : Msg) : St × List Msg :=
  match findAndTake n s.pending with
  | some p => ({ s with pending := p }, [])
  | none => (s, [m])

/-- the `while (pExpectErrors)` loop of `CodeENDEXPECT` -/
def drain (nums : Nums) : Nat → St → St × List Msg
  | 0, s => (s, [])
  | fuel + 1, s =>
    match s.pending with
    | [] => (s, [])
    | a :: l =>
      let r := wrX { s with pending := l } nums.expectedError (.missing a)
      let q := drain nums fuel r.1
      (q.1, r.2 ++ q.2)

def step (nums : Nums) (s : St) : Ev → St × List Msg
  | .occur n => wrX s n (.msg n)
  | .expect ns =>
    if s.inExpect then wrX s nums.noNestExpect (.msg nums.noNestExpect)
    else ({ inExpect := true, pending := ns.foldl (fun acc n => n :: acc) s.pending }, [])
  | .endexpect =>
    if !s.inExpect then wrX s nums.missingExpect (.msg nums.missingExpect)
    else
      let r := drain nums s.pending.length s
      ({ r.1 with inExpect := false }, r.2)

def runEvs (nums : Nums) : St → List Ev → St × List Msg
  | s, [] => (s, [])
  | s, e :: es =>
    let r := step nums s e
    let q := runEvs nums r.1 es
    (q.1, r.2 ++ q.2)

/-- `AsmErrPassExit` -/
def passExit (nums : Nums) (s : St) : List Msg :=
  if s.inExpect then (wrX s nums.missingEndExpect (.msg nums.missingEndExpect)).2 else []

/-- a whole pass -/
def runPass (nums : Nums) (evs : List Ev) : List Msg :=
  let r := runEvs nums init evs
  r.2 ++ passExit nums r.1

/-! ### the same machine under the options that hide messages

`WrXErrorPos` first looks the number up in the pending expectations (and returns when it was announced), only then the two
early-outs `!CodeOutput && Num == ErrNum_UnknownInstruction` (`+G`) and `SuppWarns && Num < 1000` (`-w`) are tested: a
hidden message still consumes its expectation.  The definitions above are the machine with neither option; the ones below
are the transcription with both tests in place. -/

structure Hide where
  suppWarns : Bool
  noCode : Bool
  unknownInstruction : Nat
deriving Repr

def Hide.hides (h : Hide) (n : Nat) : Bool :=
  (h.noCode && n == h.unknownInstruction) || (h.suppWarns && decide (n < 1000))

/-- the number a message is written under -/
def Msg.num (nums : Nums) : Msg → Nat
  | .msg n => n
  | .missing _ => nums.expectedError

def wrXH (h : Hide) (s : St) (n : Nat) (m : Msg) : St × List Msg :=
  match findAndTake n s.pending with
  | some p => ({ s with pending := p }, [])
  | none => if h.hides n then (s, []) else (s, [m])

def drainH (h : Hide) (nums : Nums) : Nat → St → St × List Msg
  | 0, s => (s, [])
  | fuel + 1, s =>
    match s.pending with
    | [] => (s, [])
    | a :: l =>
      let r := wrXH h { s with pending := l } nums.expectedError (.missing a)
      let q := drainH h nums fuel r.1
      (q.1, r.2 ++ q.2)

def stepH (h : Hide) (nums : Nums) (s : St) : Ev → St × List Msg
  | .occur n => wrXH h s n (.msg n)
  | .expect ns =>
    if s.inExpect then wrXH h s nums.noNestExpect (.msg nums.noNestExpect)
    else ({ inExpect := true, pending := ns.foldl (fun acc n => n :: acc) s.pending }, [])
  | .endexpect =>
    if !s.inExpect then wrXH h s nums.missingExpect (.msg nums.missingExpect)
    else
      let r := drainH h nums s.pending.length s
      ({ r.1 with inExpect := false }, r.2)

def runEvsH (h : Hide) (nums : Nums) : St → List Ev → St × List Msg
  | s, [] => (s, [])
  | s, e :: es =>
    let r := stepH h nums s e
    let q := runEvsH h nums r.1 es
    (q.1, r.2 ++ q.2)

def passExitH (h : Hide) (nums : Nums) (s : St) : List Msg :=
  if s.inExpect then (wrXH h s nums.missingEndExpect (.msg nums.missingEndExpect)).2 else []

def runPassH (h : Hide) (nums : Nums) (evs : List Ev) : List Msg :=
  let r := runEvsH h nums init evs
  r.2 ++ passExitH h nums r.1

end Exp

end AslModel.Pos
