import AslModel.Model.MacroLabels
/-! C11 labels: the structural part of a run, separated from the tables.  `flatItems` walks the program tree once and
writes down, for every statement that is executed, the chain of body copies it stands in (`Fr`: the handle the model's
`GetLocHandle` hands out for the copy, the labels of the copy's body text and the number the SPEC gives the copy).  The
model is then a table machine over this list (`runT`, lemma `execItems_flat`), the SPEC's hand expansion is a map over it
(`specEv`, lemma `expItems_flat`).  The hypotheses of the whole-program theorem (`Props/C11_Labels.lean`) are decidable
predicates over the list; the driver evaluates them on every generated program.  Core only (linked into the driver). -/
namespace AslModel.MacroLabels
open AslModel.MacroLabelsSpec

/-- one enclosing body copy -/
structure Fr where
  h : Nat               -- handle (`LocHandleCnt` when the copy was opened)
  names : List Nat      -- `labelsOf` of the body text
  id : Nat              -- the SPEC's copy number
deriving DecidableEq, Repr

/-- one executed statement with the copies it stands in, innermost first -/
structure Xe where
  isDef : Bool
  name : Nat
  fr : List Fr
deriving DecidableEq, Repr

/-- the two counters: `LocHandleCnt` of the model, copies made so far of the SPEC -/
structure Cs where
  cnt : Nat
  next : Nat
deriving DecidableEq, Repr

def iterF (glob : Bool) (fr : List Fr) (names : List Nat) (body : List Fr → Cs → List Xe × Cs) (c : Cs) : List Xe × Cs :=
  if glob then body fr c else body (⟨c.cnt, names, c.next⟩ :: fr) ⟨c.cnt + 1, c.next + 1⟩

def loopF (glob : Bool) (fr : List Fr) (names : List Nat) (body : List Fr → Cs → List Xe × Cs) : Nat → Cs → List Xe × Cs
  | 0, c => ([], c)
  | n + 1, c =>
    let r := iterF glob fr names body c
    let r2 := loopF glob fr names body n r.2
    (r.1 ++ r2.1, r2.2)

/-- WHILE without GLOBALSYMBOLS takes one more handle for the evaluation of the final condition -/
def finishF (wh glob : Bool) (r : List Xe × Cs) : List Xe × Cs :=
  if wh && !glob then (r.1, ⟨r.2.cnt + 1, r.2.next⟩) else r

mutual
def flatItem (fr : List Fr) : Item → Cs → List Xe × Cs
  | .lab k, c => ([⟨true, k, fr⟩], c)
  | .ref k, c => ([⟨false, k, fr⟩], c)
  | .con wh glob n body, c => finishF wh glob (loopF glob fr (labelsOf body) (fun fr c => flatItems fr body c) n c)
def flatItems (fr : List Fr) : Items → Cs → List Xe × Cs
  | .nil, c => ([], c)
  | .cons i r, c =>
    let a := flatItem fr i c
    let b := flatItems fr r a.2
    (a.1 ++ b.1, b.2)
end

/-- the executed statements of a program -/
def flat (prog : Items) : List Xe := (flatItems [] prog ⟨0, 0⟩).1

/-! ### the SPEC's view of a statement -/
def envOf (fr : List Fr) : List (List Nat × Nat) := fr.map fun f => (f.names, f.id)
def specEv (x : Xe) : Ev := ⟨x.isDef, x.name, resolve x.name (envOf x.fr)⟩

/-! ### the model's view: a table machine -/
structure Tb where
  ltab : LTab := []
  gtab : GTab := []
  pc : Nat := 0
  out : List (Option Nat) := []

def momOf : List Fr → Int
  | [] => -1
  | f :: _ => (f.h : Int)

def contsOf : List Fr → List Int
  | [] => []
  | _ :: r => momOf r :: contsOf r

/-- the state a statement with the chain `fr` is executed in -/
def stOf (fr : List Fr) (t : Tb) : St :=
  { mom := momOf fr, conts := contsOf fr, cnt := 0, ltab := t.ltab, gtab := t.gtab, pc := t.pc, out := t.out }

def tbOf (st : St) : Tb := ⟨st.ltab, st.gtab, st.pc, st.out⟩

def stepT (t : Tb) (x : Xe) : Tb :=
  if x.isDef then tbOf (emit (defineLabel (stOf x.fr t) x.name t.pc) (some (labByte x.name)))
  else tbOf (emit (stOf x.fr t) (lookup (stOf x.fr t) x.name))

def runT (t : Tb) (xs : List Xe) : Tb := xs.foldl stepT t

/-! ### the decidable hypotheses, on the list of executed statements -/

/-- the table key a label statement is entered under: `(name, handle of the innermost copy)`, `none` = global table -/
def topH (x : Xe) : Option Nat := x.fr.head?.map (·.h)

/-- is `(k, top)` entered by a label statement of `xs` -/
def defined (xs : List Xe) (k : Nat) (top : Option Nat) : Bool := xs.any fun y => y.isDef && y.name == k && topH y == top

/-- no label is defined twice under the same key (the assembler reports "symbol double defined") -/
def noDoubleDefL : List Xe → Bool
  | [] => true
  | x :: r => (!x.isDef || !defined r x.name (topH x)) && noDoubleDefL r

/-- the key the hand expansion means by `k` in the chain `fr`: innermost copy whose body text has the label -/
def target (k : Nat) : List Fr → Option Nat
  | [] => none
  | f :: r => if f.names.contains k then some f.h else target k r

/-- a reference is bound early in the first pass: its own label is not entered yet, a label of that name of a copy further
out or the global symbol of that name is (`FindLocNode` / the global table answer with it and nothing asks for a second pass) -/
def earlyBind (pre : List Xe) (x : Xe) : Bool :=
  !x.isDef && !defined pre x.name (target x.name x.fr) &&
    (x.fr.any (fun f => defined pre x.name (some f.h)) || defined pre x.name none)

def noEarlyBindL (pre : List Xe) : List Xe → Bool
  | [] => true
  | x :: r => !earlyBind pre x && noEarlyBindL (pre ++ [x]) r

/-- `NoDoubleDef prog` -/
def NoDoubleDef (prog : Items) : Prop := noDoubleDefL (flat prog) = true
/-- `NoEarlyBind prog`: no reference stands in front of the label it means while a label of that name of an enclosing copy
or the global symbol of that name is already entered -/
def NoEarlyBind (prog : Items) : Prop := noEarlyBindL [] (flat prog) = true
instance (prog : Items) : Decidable (NoDoubleDef prog) := by unfold NoDoubleDef; infer_instance
instance (prog : Items) : Decidable (NoEarlyBind prog) := by unfold NoEarlyBind; infer_instance

/-- all chain elements that occur in a list of executed statements (their consistency: `Lemmas/MacroLabelsWf.lean`, `flat_wf`) -/
def framesOf (xs : List Xe) : List Fr := xs.flatMap (·.fr)

end AslModel.MacroLabels
