import AslModel.Spec.Formula
import AslModel.Generated.Operators
/-!
# MODEL for C08 — `EvalStrExpression` (asmpars.c), operator bodies (operator.c), functions (function.c)

Structure of the transcription

* `lex`      – the character loop of `EvalStrExpression` seen as a tokeniser: at every position the
               *candidate loop* over `Operators[]` (generated table, table order, `IdLen >= OpLen`
               filter) yields the list of matching entries; brackets, commas, quoted strings and maximal
               runs of other characters (constants / names) are the remaining tokens.
* `scan`     – the same loop's bookkeeping on tokens: `LKlamm`/`RKlamm`, and for an operator position
               outside brackets the candidate loop's update `Priority >= Operators[OpMax].Priority`
               (performed for *every* candidate, as the C code does) of `OpMax`/`OpPos`.
* `evalStep` – one activation of `EvalStrExpression` after the scan: bracket error, monadic minus
               (`OpPos = 0`), operand count check, split, recursion (right operand first), or
               "no operator": parenthesised expression / function call with `QuotPos(',')` argument
               splitting, or plain symbol.
* `applyOp`  – type-combination matching (`TryConvert`, `TypeCombinations` from the generated table),
               conversions, then the `*Op` body on `BitVec 64` / `Float` / strings.
* `applyFn`  – `Functions[]` lookup (generated), argument count/type checks, `Func*` bodies.

Widths: `LargeInt` = `BitVec 64`; C undefined behaviour (`INT64_MIN / -1`, shift counts outside 0..63)
is the distinguished result `Err.ub`.

`Quirks` selects, for four operator/function bodies, between the code as found on the pinned tree and
the intended behaviour; the check calibrates the flags by probing the real binary, the theorems are
stated for both settings (Props/C08.lean).
-/
namespace AslModel.Expr
open AslModel.Formula AslModel.Generated

/-! ## table access -/

def rowOf (i : Nat) : OpRow := operators.getD i ⟨[], 0, false, 0, []⟩

def prioOf (i : Nat) : Nat := (rowOf i).prio

/-- candidate loop of `EvalStrExpression` at one text position: entries (from index 1) whose `Id`
(first `IdLen` characters) is a prefix of the text and whose `IdLen` is not smaller than the longest
match so far, in table order. Returns the indices. -/
def candsAux (text : List Char) : List OpRow → Nat → Nat → List Nat
  | [], _, _ => []
  | r :: rs, i, opLen =>
    if (r.id.take r.idLen).isPrefixOf text ∧ r.idLen ≥ opLen ∧ r.idLen ≠ 0 then i :: candsAux text rs (i + 1) r.idLen
    else candsAux text rs (i + 1) opLen

def candsOf (text : List Char) : List Nat := candsAux text (operators.drop 1) 1 0

/-! ## tokens -/

inductive Tok where
  | atom (v : Val)
  | op (cands : List Nat)
  | lp | rp | comma
  | name (n : List Char)
  | bad                    -- characters that are neither a constant nor a name

/-! ## constants: `ConstIntVal` for the Motorola-syntax target used by the correspondence,
`ConstFloatVal` for `digits.digits` (see Model/IntConst.lean for the full `ConstIntVal`); `ConstStringVal` and
`ProcessBk` below, in front of the tokeniser -/

def digitVal (c : Char) (base : Nat) : Option Nat :=
  let u := if 'a' ≤ c ∧ c ≤ 'z' then Char.ofNat (c.toNat - 32) else c
  let d := if '0' ≤ u ∧ u ≤ '9' then u.toNat - 48 else if 'A' ≤ u ∧ u ≤ 'Z' then u.toNat - 55 else 99
  if d < base then some d else none

/-- digit loop of `ConstIntVal`: `Wert = Wert * Base + Digit` in `LargeInt` -/
def digitsVal (base : Nat) : List Char → W → Option W
  | [], acc => some acc
  | c :: cs, acc =>
    match digitVal c base with
    | none => none
    | some d => digitsVal base cs (acc * BitVec.ofNat 64 base + BitVec.ofNat 64 d)

def isDigitC (c : Char) : Bool := '0' ≤ c ∧ c ≤ '9'

/-- `$hex`, `%bin`, `@oct`, default radix 10 -/
def constIntMoto (s : List Char) : Option W :=
  match s with
  | [] => none
  | '$' :: r => if r.isEmpty then none else digitsVal 16 r 0
  | '%' :: r => if r.isEmpty then none else digitsVal 2 r 0
  | '@' :: r => if r.isEmpty then none else digitsVal 8 r 0
  | _ => digitsVal 10 s 0

def natOfDigits (s : List Char) : Nat := s.foldl (fun a c => a * 10 + (c.toNat - 48)) 0

/-- `strtod` on `ddd.ddd` -/
def constFloat (s : List Char) : Option Float :=
  let ip := s.takeWhile isDigitC
  match s.dropWhile isDigitC with
  | '.' :: fp =>
    if !ip.isEmpty ∧ !fp.isEmpty ∧ fp.all isDigitC then
      some (Float.ofScientific (natOfDigits (ip ++ fp)) true fp.length)
    else none
  | _ => none

def isNameChar (c : Char) : Bool := c.isAlphanum || c == '_' || c == '.' || c == '$' || c == '%' || c == '@'

def classify (s : List Char) : Tok :=
  match constIntMoto s with
  | some v => .atom (.int v)
  | none =>
    match constFloat s with
    | some x => .atom (.flt x)
    | none => if s.all (fun c => c.isAlphanum || c == '_') ∧ !s.isEmpty then .name s else .bad

/-! ## the tokeniser -/

/-! ### string constants: the quote/escape state of `EvalStrExpression`'s scan, `ConstStringVal`, `ProcessBk` -/

/-- the scan of `EvalStrExpression` inside a constant opened by `q` (`InSgl`/`InDbl`, `ThisEscaped`/`NextEscaped`):
a backslash that is not itself escaped escapes the next character, the constant ends at the first quote `q`
that is not escaped.  Returns the text between the quotes and the text behind the closing quote. -/
def strEnd (q : Char) : List Char → Bool → List Char → Option (List Char × List Char)
  | [], _, _ => none
  | c :: rest, esc, acc =>
    if c == q && !esc then some (acc.reverse, rest)
    else strEnd q rest (c == '\\' && !esc) (c :: acc)

/-- `as_toupper` on a character code -/
def cUpN (n : Nat) : Nat := if 97 ≤ n ∧ n ≤ 122 then n - 32 else n

/-- start value of `cnt` in `ProcessBk`: `cnt = (System == 16) ? 1 : ((System == 10) ? 0 : -1);` -/
def bkCntStart (sys : Nat) : Int := if sys = 16 then 1 else if sys = 10 then 0 else -1

/-- digit recognition of the loop (on `ch = as_toupper(**Start)`): `0`..`9` always, `A`..`F` when `System == 16` -/
def bkDigit (sys : Nat) (c : Char) : Option Nat :=
  let ch := cUpN c.toNat
  if 48 ≤ ch ∧ ch ≤ 57 then some (ch - 48)
  else if sys = 16 ∧ 65 ≤ ch ∧ ch ≤ 70 then some (ch - 55)
  else none

/-- the `do … while ((!Finish) && (cnt < 3))` loop of `ProcessBk`; `k` = iterations still allowed
(`3 - cnt`, at least one since the body runs before the test).  Result: `Acc` and the text not consumed. -/
def bkLoop (sys : Nat) : Nat → List Char → Nat → Except Err (Nat × List Char)
  | 0, text, acc => .ok (acc, text)
  | _ + 1, [], acc => .ok (acc, [])
  | k + 1, c :: rest, acc =>
    match bkDigit sys c with
    | none => .ok (acc, c :: rest)                 -- Finish
    | some d =>
      if d ≥ sys then .error .overRange            -- WrError(ErrNum_OverRange)
      else bkLoop sys k rest (acc * sys + d)

/-- the numeric branch of `ProcessBk` from the first digit on (`System` already chosen) -/
def bkNumber (sys : Nat) (text : List Char) : Except Err (Char × List Char) :=
  match bkLoop sys (max 1 (3 - bkCntStart sys).toNat) text 0 with
  | .error e => .error e
  | .ok (acc, rest) => if acc ≤ 255 then .ok (Char.ofNat acc, rest) else .error .overRange   -- ChkRange(Acc, 0, 255)

/-- `ProcessBk` on the text behind a backslash: the character and the text behind the escape sequence
(`switch (as_toupper(**Start))`, character codes: `'` 39, `\\` 92, `"` 34, `H` 72, `I` 73, `B` 66, `A` 65, `E` 69, `T` 84, `N` 78,
`R` 82, `X` 88, `0`..`9` 48..57) -/
def processBk : List Char → Except Err (Char × List Char)
  | [] => .error .symbol                            -- ErrNum_InvEscSequence
  | c :: rest =>
    let n := c.toNat
    let u := cUpN n
    if n = 39 ∨ n = 92 ∨ n = 34 then .ok (c, rest)
    else if u = 72 then .ok (Char.ofNat 39, rest)
    else if u = 73 then .ok (Char.ofNat 34, rest)
    else if u = 66 then .ok (Char.ofNat 8, rest)
    else if u = 65 then .ok (Char.ofNat 7, rest)
    else if u = 69 then .ok (Char.ofNat 27, rest)
    else if u = 84 then .ok (Char.ofNat 9, rest)
    else if u = 78 then .ok (Char.ofNat 10, rest)
    else if u = 82 then .ok (Char.ofNat 13, rest)
    else if u = 88 then bkNumber 16 rest
    else if 48 ≤ n ∧ n ≤ 57 then bkNumber (if n = 48 then 8 else 10) (c :: rest)
    else .error .symbol                             -- ErrNum_InvEscSequence

/-- text up to the first `}` (`QuotPos(…, '}')` on a text without brackets and quotes) and the text behind it -/
def braceEnd : List Char → List Char → Option (List Char × List Char)
  | [], _ => none
  | c :: rest, acc => if c == '}' then some (acc.reverse, rest) else braceEnd rest (c :: acc)

/-- `SysString(…, OutRadixBase = 10, …)`: the 64-bit pattern in decimal -/
def sysString10 (v : W) : List Char := natDigits 10 64 v.toNat

/-- `ConstStringVal` on the text between the quotes: verbatim parts (which must not contain the quote), `\{…}`
(evaluated by `ev`, an integer result written with `SysString`, a string result appended), `ProcessBk` escapes -/
def constStr (ev : List Char → Except Err Val) (q : Char) : Nat → List Char → List Char → Except Err (List Char)
  | 0, _, _ => .error .fuel
  | _ + 1, [], acc => .ok acc.reverse
  | f + 1, c :: rest, acc =>
    if c == '\\' then
      if rest.head? == some '{' then
        match braceEnd rest.tail [] with
        | none => .error .symbol
        | some (inner, after) =>
          match ev inner with
          | .ok (.int v) => constStr ev q f after ((sysString10 v).reverse ++ acc)
          | .ok (.str t) => constStr ev q f after (t.reverse ++ acc)
          | .ok (.flt _) => .error .undef            -- `FloatString`: outside the model
          | .error e => .error e
      else
        match processBk rest with
        | .error e => .error e
        | .ok (ch, r) => constStr ev q f r (ch :: acc)
    else if c == q then .error .symbol               -- "not a simple string but something like "...." ... ""
    else constStr ev q f rest (c :: acc)

def constStringVal (ev : List Char → Except Err Val) (q : Char) (raw : List Char) : Except Err (List Char) :=
  constStr ev q (raw.length + 1) raw []

def lexAux (ev : List Char → Except Err Val) : Nat → List Char → List Char → List Tok → List Tok
  | 0, _, _, acc => acc.reverse
  | fuel + 1, text, cur, acc =>
    let flush := fun (acc : List Tok) => if cur.isEmpty then acc else classify cur.reverse :: acc
    match text with
    | [] => (flush acc).reverse
    | c :: rest =>
      if c == ' ' ∨ c == '\t' then lexAux ev fuel rest [] (flush acc)
      else if c == '(' then lexAux ev fuel rest [] (.lp :: flush acc)
      else if c == ')' then lexAux ev fuel rest [] (.rp :: flush acc)
      else if c == ',' then lexAux ev fuel rest [] (.comma :: flush acc)
      else if c == '"' ∨ (c == '\'' ∧ cur.isEmpty) then
        -- the constant ends at the first quote that is not escaped (the scan's quote/escape state); its value is
        -- `ConstStringVal` of the text between the quotes
        match strEnd c rest false [] with
        | some (raw, after) =>
          match constStringVal ev c raw with
          | .ok body => lexAux ev fuel after [] (.atom (.str body) :: flush acc)
          | .error _ => lexAux ev fuel after [] (.bad :: flush acc)
        | none => lexAux ev fuel [] [] (.bad :: flush acc)
      else
        let cs := candsOf text
        match cs.getLast? with
        | some k => lexAux ev fuel (text.drop (rowOf k).idLen) [] (.op cs :: flush acc)
        | none => lexAux ev fuel rest (c :: cur) acc

/-- `ev` evaluates the formula text inside `\\{…}` of a string constant -/
def lexW (ev : List Char → Except Err Val) (s : List Char) : List Tok := lexAux ev (s.length + 1) s [] []

/-! ## the scan for the split operator -/

structure S where
  lk : Nat := 0
  rk : Nat := 0
  opMax : Nat := 0
  opPos : Nat := 0
  idx : Nat := 0
deriving Repr, DecidableEq

/-- body of the candidate loop: `if (Operators[LocOpMax].Priority >= Operators[OpMax].Priority)` -/
def candStep (prio : Nat → Nat) (s : S) (c : Nat) : S :=
  if prio c ≥ prio s.opMax then { s with opMax := c, opPos := s.idx } else s

def scanStep (prio : Nat → Nat) (s : S) : Tok → S
  | .lp => { s with lk := s.lk + 1, idx := s.idx + 1 }
  | .rp => { s with rk := s.rk + 1, idx := s.idx + 1 }
  | .op cands =>
    if s.lk = s.rk then
      let s' := cands.foldl (candStep prio) s
      { s' with idx := s.idx + 1 }
    else { s with idx := s.idx + 1 }
  | _ => { s with idx := s.idx + 1 }

def scanG (prio : Nat → Nat) (s : S) (t : List Tok) : S := t.foldl (scanStep prio) s

def scan (t : List Tok) : S := scanG prioOf {} t

/-! ## operator / function semantics of the model, addressed like the C code does -/

structure MSem where
  /-- dyadic application of table entry `i` -/
  bin : Nat → Val → Val → Except Err Val
  /-- monadic application: table entry `i`, or `MinusMonadicOperator` when entry `i` is `-` -/
  un : Nat → Val → Except Err Val
  /-- function by (upper-case) name -/
  fn : List Char → List Val → Except Err Val

/-- `QuotPos(s, ',')`: first comma outside parentheses; returns the part before and, if found, after -/
def splitComma : List Tok → Int → List Tok × Option (List Tok)
  | [], _ => ([], none)
  | .comma :: ts, d =>
    if d = 0 then ([], some ts)
    else (.comma :: (splitComma ts d).1, (splitComma ts d).2)
  | .lp :: ts, d => (.lp :: (splitComma ts (d + 1)).1, (splitComma ts (d + 1)).2)
  | .rp :: ts, d => (.rp :: (splitComma ts (d - 1)).1, (splitComma ts (d - 1)).2)
  | .atom v :: ts, d => (.atom v :: (splitComma ts d).1, (splitComma ts d).2)
  | .op c :: ts, d => (.op c :: (splitComma ts d).1, (splitComma ts d).2)
  | .name n :: ts, d => (.name n :: (splitComma ts d).1, (splitComma ts d).2)
  | .bad :: ts, d => (.bad :: (splitComma ts d).1, (splitComma ts d).2)

/-- the `do … while (zp)` argument loop: arguments are evaluated left to right, the first error ends
the loop, a fourth argument is an error (`k` = arguments still allowed) -/
def evalArgs (rec : List Tok → Except Err Val) : Nat → List Tok → List Val → Except Err (List Val)
  | 0, _, _ => .error .funcArgCnt
  | k + 1, ts, acc =>
    match rec (splitComma ts 0).1 with
    | .error e => .error e
    | .ok v =>
      match (splitComma ts 0).2 with
      | none => .ok (acc ++ [v])
      | some r => evalArgs rec k r (acc ++ [v])

def isAtom : List Tok → Option Val
  | [.atom v] => some v
  | _ => none

def upName (n : List Char) : List Char := n.map upChar

/-- "Operator gefunden": monadic minus, operand count check, split, recursion (right operand first) -/
def evalOp (M : MSem) (rec : List Tok → Except Err Val) (ts : List Tok) (opMax opPos : Nat) : Except Err Val :=
  let row := rowOf opMax
  let monMinus : Bool := row.id == ['-'] && opPos == 0
  let dyadic : Bool := if monMinus then minusMonadic.dyadic else row.dyadic
  let argCnt : Nat := if ts.length ≤ 1 then 0 else if opPos = 0 ∨ opPos = ts.length - 1 then 1 else 2
  if argCnt ≠ (if dyadic then 2 else 1) then .error .argCnt
  else
    let rv := rec (ts.drop (opPos + 1))
    if dyadic then
      match rv, rec (ts.take opPos) with
      | .error e, _ => .error e
      | .ok _, .error e => .error e
      | .ok b, .ok a => M.bin opMax a b
    else
      match rv with
      | .error e => .error e
      | .ok b => M.un opMax b

/-- "kein Operator gefunden: Klammerausdruck": `( … )` or `NAME( … , … )` -/
def evalNoOp (M : MSem) (rec : List Tok → Except Err Val) (ts : List Tok) : Except Err Val :=
  match ts with
  | .lp :: rest => rec rest.dropLast
  | .name f :: .lp :: rest =>
    match evalArgs rec 3 rest.dropLast [] with
    | .error e => .error e
    | .ok vs => M.fn (upName f) vs
  | _ => .error .unknownFunc

/-- one activation of `EvalStrExpression` (after blank trimming), `rec` = the recursive calls -/
def evalStep (M : MSem) (rec : List Tok → Except Err Val) (ts : List Tok) : Except Err Val :=
  match isAtom ts with
  | some v => .ok v
  | none =>
    if (scan ts).lk ≠ (scan ts).rk then .error .bracket
    else if (scan ts).opMax ≠ 0 then evalOp M rec ts (scan ts).opMax (scan ts).opPos
    else if (scan ts).lk ≠ 0 then evalNoOp M rec ts
    else .error .symbol

def evalToks (M : MSem) : Nat → List Tok → Except Err Val
  | 0, _ => .error .fuel
  | n + 1, ts => evalStep M (evalToks M n) ts

/-! ## operator bodies (operator.c) -/

structure Quirks where
  /-- `PotOp`, float branch, negative base: `as_tempres_set_float(pErg, Base)` instead of `Result` -/
  potBase : Bool
  /-- `FuncFIRSTBIT`: `in >>= 1` also when the lowest bit is set -/
  firstbitSkip : Bool
  /-- `BitMirrorOp`: `1 << z` computed in `int` -/
  mirrorInt : Bool
  /-- `ShRightOp`: `>>` on the signed `LargeInt` (sign-propagating) -/
  shrArith : Bool
  /-- `SingleBit` (asmpars.c, used by BITPOS): `Inp >> 1` on the signed `LargeInt` -/
  singleBitArith : Bool
  /-- function branch of `EvalStrExpression`, "argument checking": `true` = a string argument of a parameter
  that does not take strings is converted to its integer value first (the documented on-the-fly
  conversion); `false` = the code as found, which only converts `TempInt` to `TempFloat` there -/
  fnStrConv : Bool := false
  /-- same place: `DeduceExpectTypeErrMsgMask(pFunction->ArgTypes[z1], …)` receives the `1 << Typ` coded
  `ArgTypes` although it switches over a mask of `TempType` values (`true` = as found) -/
  fnErrRaw : Bool := true
  /-- `FuncCHARFROMSTR`: `p_str[…]` is a (signed) `char` that is converted to `LargeInt`: characters 128..255 come out as
  -128..-1 (`true` = as found; `false` = the character code) -/
  charSigned : Bool := true
  /-- `strlencmp` (strutil.c): `((int)*p1) - ((int)*p2)` on plain `char` - the order of two strings is decided by their
  characters as *signed* values (`true` = as found on a platform whose `char` is signed; `false` = by character code) -/
  strCmpSigned : Bool := true
deriving Repr, DecidableEq

/-- the pinned tree -/
def Quirks.pinned : Quirks := ⟨true, true, true, true, true, false, true, true, true⟩
/-- the documented behaviour -/
def Quirks.none : Quirks := ⟨false, false, false, false, false, true, false, false, false⟩

def oddW (x : W) : Bool := x.getLsbD 0

/-- `PotOp`, `TempInt` branch: square and multiply -/
def potLoop : Nat → W → W → W → W
  | 0, _, _, h => h
  | f + 1, l, r, h =>
    if 0 < r.toInt then
      let h' := if oddW r then h * l else h
      let r' := r.sshiftRight 1
      let l' := if r' ≠ 0 then l * l else l
      potLoop f l' r' h'
    else h

def mPow (a b : W) : W := if b.toInt < 0 then 0 else potLoop 64 a b 1

/-- `1 << k` evaluated in `int` and converted to `LargeInt` -/
def cInt1Shl (k : Nat) : W := BitVec.signExtend 64 ((1 : BitVec 32) <<< k)

def bitK (q : Bool) (k : Nat) : W := if q then cInt1Shl k else (1 : W) <<< k

def mirrorLoop (q : Bool) (l : W) (n : Nat) : Nat → W → W
  | 0, res => res
  | k + 1, res =>
    let res' := mirrorLoop q l n k res
    if l &&& bitK q (n - 1 - k) ≠ 0 then res' ||| bitK q k else res'

def mMirror (q : Bool) (a n : W) : Except Err W :=
  if n.toInt < 1 ∨ n.toInt > 32 then .error .overRange
  else .ok (mirrorLoop q a n.toNat n.toNat ((a.sshiftRight n.toNat) <<< n.toNat))

/-- `ShiftOp` (operator.c, repairs ff7b847 and 8d61d7d; before them the C shift was applied to any count, which is
undefined outside 0..63): a negative count shifts into the opposite direction, a count of 64 or more shifts all bits
out, both directions are logical shifts -/
def shiftOp (a n : W) (left : Bool) : W :=
  let c := n.toInt
  let left' := if c < 0 then !left else left
  let m : Nat := if c < 0 then (if c ≤ -64 then 64 else (-c).toNat) else c.toNat
  if m ≥ 64 then 0 else if left' then a <<< m else a >>> m

def mShl (a n : W) : Except Err W := .ok (shiftOp a n true)

/-- `q` = `>>` on the signed value (the code before the repair 8d61d7d; counts 0..63 only) -/
def mShr (q : Bool) (a n : W) : Except Err W :=
  if q ∧ n.toNat < 64 then .ok (a.sshiftRight n.toNat) else .ok (shiftOp a n false)

def mDiv (a b : W) : Except Err W :=
  if b = 0 then .error .divZero
  else if a = intMin ∧ b = -1 then .error .ub
  else .ok (a.sdiv b)

def mMod (a b : W) : Except Err W :=
  if b = 0 then .error .divZero
  else if a = intMin ∧ b = -1 then .error .ub
  else .ok (a.srem b)

/-- the integer branch of the operator body selected by the table entry's `Id` -/
def intBody (q : Quirks) (id : List Char) (a b : W) : Except Err W :=
  if id = ['~'] then .ok (~~~ b)
  else if id = ['<', '<'] then mShl a b
  else if id = ['>', '>'] then mShr q.shrArith a b
  else if id = ['>', '<'] then mMirror q.mirrorInt a b
  else if id = ['&'] then .ok (a &&& b)
  else if id = ['|'] then .ok (a ||| b)
  else if id = ['!'] then .ok (a ^^^ b)
  else if id = ['^'] then .ok (mPow a b)
  else if id = ['*'] then .ok (a * b)
  else if id = ['/'] then mDiv a b
  else if id = ['#'] then mMod a b
  else if id = ['+'] then .ok (a + b)
  else if id = ['-'] then .ok (a - b)
  else if id = ['~', '~'] then .ok (truth (b == 0))
  else if id = ['&', '&'] then .ok (truth (a != 0 && b != 0))
  else if id = ['|', '|'] then .ok (truth (a != 0 || b != 0))
  else if id = ['!', '!'] then .ok (truth ((a != 0) != (b != 0)))
  else if id = ['='] ∨ id = ['=', '='] then .ok (truth (a == b))
  else if id = ['>'] then .ok (truth (b.slt a))
  else if id = ['<'] then .ok (truth (a.slt b))
  else if id = ['<', '='] then .ok (truth (a.sle b))
  else if id = ['>', '='] then .ok (truth (b.sle a))
  else if id = ['<', '>'] ∨ id = ['!', '='] then .ok (truth (a != b))
  else .error .type

def potFloatLoop : Nat → Nat → Float → Float → Float × Float
  | 0, _, base, res => (base, res)
  | f + 1, h, base, res =>
    if h > 0 then potFloatLoop f (h / 2) (base * base) (if h % 2 = 1 then res * base else res)
    else (base, res)

/-- `PotOp`, `TempFloat` branch -/
def mPowF (q : Bool) (x y : Float) : Except Err Float :=
  if y == 0.0 then .ok 1.0
  else if x == 0.0 then .ok 0.0
  else if x > 0.0 then .ok (Float.pow x y)
  else if y.abs ≤ 2147483647.0 && y.floor == y then
    let hv : Int := (y + 0.5).floor.toInt64.toInt
    let base := if hv < 0 then 1.0 / x else x
    let (b, r) := potFloatLoop 40 hv.natAbs base 1.0
    .ok (if q then b else r)
  else .error .argPair

def fltBody (q : Quirks) (id : List Char) (x y : Float) : Except Err Val :=
  if id = ['^'] then (mPowF q.potBase x y).map .flt
  else if id = ['*'] then .ok (.flt (x * y))
  else if id = ['/'] then if y == 0.0 then .error .divZero else .ok (.flt (x / y))
  else if id = ['+'] then .ok (.flt (x + y))
  else if id = ['-'] then .ok (.flt (x - y))
  else if id = ['='] ∨ id = ['=', '='] then .ok (.int (truth (x == y)))
  else if id = ['>'] then .ok (.int (truth (x > y)))
  else if id = ['<'] then .ok (.int (truth (x < y)))
  else if id = ['<', '='] then .ok (.int (truth (x ≤ y)))
  else if id = ['>', '='] then .ok (.int (truth (x ≥ y)))
  else if id = ['<', '>'] ∨ id = ['!', '='] then .ok (.int (truth (x != y)))
  else .error .type

/-- a character as `strlencmp` sees it: `(int)*p` on plain `char` -/
def cmpChar (signed : Bool) (c : Char) : Int :=
  if signed ∧ 128 ≤ c.toNat % 256 then ((c.toNat % 256 : Nat) : Int) - 256 else (c.toNat : Int)

/-- `strlencmp` (sign of the result): first differing character, then the lengths -/
def mStrCmp (signed : Bool) : List Char → List Char → Int
  | [], [] => 0
  | [], _ :: _ => -1
  | _ :: _, [] => 1
  | a :: as, b :: bs =>
    if cmpChar signed a < cmpChar signed b then -1 else if cmpChar signed a > cmpChar signed b then 1 else mStrCmp signed as bs

def strBody (q : Quirks) (id : List Char) (a b : List Char) : Except Err Val :=
  let cmp := mStrCmp q.strCmpSigned a b
  if id = ['+'] then .ok (.str (a ++ b))
  else if id = ['='] ∨ id = ['=', '='] then .ok (.int (truth (cmp == 0)))
  else if id = ['>'] then .ok (.int (truth (decide (cmp > 0))))
  else if id = ['<'] then .ok (.int (truth (decide (cmp < 0))))
  else if id = ['<', '='] then .ok (.int (truth (decide (cmp ≤ 0))))
  else if id = ['>', '='] then .ok (.int (truth (decide (cmp ≥ 0))))
  else if id = ['<', '>'] ∨ id = ['!', '='] then .ok (.int (truth (cmp != 0)))
  else .error .type

/-- `NonZString2Int` -/
def nonZString2Int (s : List Char) : Option W :=
  if 0 < s.length ∧ s.length ≤ 4 then
    some (s.foldl (fun acc c => (acc <<< 8) ||| BitVec.ofNat 64 (c.toNat % 256)) 0)
  else none

/-- `Int2NonZString` (identity `CharTransTable`) -/
def int2NonZString : Nat → W → List Char → List Char
  | 0, _, acc => acc
  | f + 1, src, acc =>
    if src = 0 then acc
    else int2NonZString f ((src.sshiftRight 8) &&& 0xffffff) (Char.ofNat (src.toNat % 256) :: acc)

def valTyp : Val → Nat
  | .int _ => tempInt
  | .flt _ => tempFloat
  | .str _ => tempString

/-- `TryConvert` -/
def tryConvert (mask typ opIndex : Nat) : Nat :=
  if mask &&& typ ≠ 0 then 0
  else if mask &&& tempFloat ≠ 0 ∧ typ = tempInt then 1 <<< (4 * opIndex)
  else if mask &&& tempInt ≠ 0 ∧ typ = tempString then 2 <<< (4 * opIndex)
  else if mask &&& tempFloat ≠ 0 ∧ typ = tempString then 3 <<< (4 * opIndex)
  else 255

def getOpTypeMask (tot opIndex : Nat) : Nat := (tot >>> (opIndex * 4)) &&& 15

/-- the loop over `TypeCombinations`; returns `BestOpMatch` -/
def bestMatch (dyadic : Bool) (tl tr : Nat) : List Nat → Nat → Nat
  | [], best => best
  | c :: cs, best =>
    if c = 0 then best
    else
      let m := (if dyadic then tryConvert (getOpTypeMask c 0) tl 0 else 0) ||| tryConvert (getOpTypeMask c 1) tr 1
      let m := if m ≥ 255 then 255 else m
      let best' := if m < best then m else best
      if best' = 0 then 0 else bestMatch dyadic tl tr cs best'

/-- conversions requested by `BestOpMatch` for one operand: `if (TypeMask & 2) TempResultToInt(…);
if (TypeMask & 1) TempResultToFloat(…);` – two independent steps, a string that is to become a float
takes both.  `TempResultToInt` on a string without integer value (`NonZString2Int` < 0: empty or longer
than four characters) is a type error (since the repair 9e997b4; before it `Typ = TempNone` was set and the operator body still
called - finding `string-operand-not-convertible`). -/
def convert (tm : Nat) (v : Val) : Except Err Val :=
  let v1 : Except Err Val :=
    if tm &&& 2 ≠ 0 then
      match v with
      | .str s => match nonZString2Int s with | some x => .ok (.int x) | none => .error .type   -- error 1141/1136 since the repair 9e997b4 (`TempNone` handed to the operator body before it)
      | _ => .ok v
    else .ok v
  match v1 with
  | .error e => .error e
  | .ok w =>
    if tm &&& 1 ≠ 0 then
      match w with
      | .int a => .ok (.flt (toF a))
      | _ => .ok w
    else .ok w

/-- the conversion a 4-bit `BestOpMatch` field stands for -/
def convOfMask (tm : Nat) : Conv :=
  if tm &&& 2 ≠ 0 then (if tm &&& 1 ≠ 0 then .s2i2f else .s2i) else (if tm &&& 1 ≠ 0 then .i2f else .keep)

def tyCode : Ty → Nat
  | .int => tempInt
  | .flt => tempFloat
  | .str => tempString

/-- what the type matching of `EvalStrExpression` decides for a table row and two operand types: type
error, or the conversions of the left and the right operand (`BestOpMatch`, low and high field) -/
def modelConv (row : OpRow) (tl tr : Ty) : Except Err (Conv × Conv) :=
  let best := bestMatch row.dyadic (tyCode tl) (tyCode tr) row.combos 255
  if best ≥ 255 then .error .type
  else .ok (convOfMask (best &&& 15), convOfMask ((best >>> 4) &&& 15))

/-- `AddOp` on mixed operands (a string without integer value: the result stays `TempNone`, nothing is
reported) -/
def addMixed (l r : Val) : Except Err Val :=
  match l, r with
  | .int a, .str s =>
    match nonZString2Int s with
    | some x => .ok (.str (int2NonZString 8 (x + a) []))
    | none => .error .silent
  | .str s, .int b =>
    match nonZString2Int s with
    | some x => .ok (.str (int2NonZString 8 (x + b) []))
    | none => .error .silent
  | _, _ => .error .type

/-- the operator body (selected by `Id`) on the converted operands: the `switch (pLVal->Typ)` of the `*Op`
functions -/
def bodyOf (q : Quirks) (id : List Char) (l' r' : Val) : Except Err Val :=
  match l', r' with
  | .int a, .int b => (intBody q id a b).map .int
  | .flt x, .flt y => fltBody q id x y
  | .str a, .str b => strBody q id a b
  | _, _ => if id = ['+'] then addMixed l' r' else .error .type

/-- operator application after the operands are evaluated: type matching, conversion, body -/
def applyOp (q : Quirks) (row : OpRow) (l r : Val) : Except Err Val :=
  let best := bestMatch row.dyadic (valTyp l) (valTyp r) row.combos 255
  if best ≥ 255 then .error .type
  else
    match (if row.dyadic then convert (best &&& 15) l else .ok l), convert ((best >>> 4) &&& 15) r with
    | .error e, _ => .error e
    | _, .error e => .error e
    | .ok l', .ok r' => bodyOf q row.id l' r'

def zeroLike : Val → Val
  | .flt _ => .flt 0.0
  | _ => .int 0

/-! ## function bodies (function.c) -/

def bitcntLoop : Nat → W → W → W
  | 0, _, out => out
  | z + 1, x, out => bitcntLoop z (x.sshiftRight 1) (out + (x &&& 1))

def lastbitLoop : Nat → Nat → W → Int → Int
  | 0, _, _, out => out
  | n + 1, z, x, out => lastbitLoop n (z + 1) (x.sshiftRight 1) (if oddW x then z else out)

/-- `FuncFIRSTBIT`: `do { if (!Odd(in)) out++; in >>= 1; } while ((out < 64) && !Odd(in));`
with `q = false`: the shift only inside the `if` -/
def firstbitLoop (q : Bool) : Nat → W → Nat → Nat
  | 0, _, out => out
  | f + 1, x, out =>
    let out' := if !oddW x then out + 1 else out
    let x' := if q || !oddW x then x.sshiftRight 1 else x
    if out' < 64 && !oddW x' then firstbitLoop q f x' out' else out'

def mFirstbit (q : Bool) (x : W) : W :=
  let out := firstbitLoop q 200 x 0
  if out ≥ 64 then wrap (-1) else BitVec.ofNat 64 out

/-- `SingleBit` (asmpars.c): `do { if (!Odd(Inp)) (*Erg)++; if (!Odd(Inp)) Inp >>= 1; }
while ((*Erg != LARGEBITS) && !Odd(Inp)); return (*Erg != LARGEBITS) && (Inp == 1);` -/
def singleBitLoop (q : Bool) : Nat → W → Nat → W × Nat
  | 0, x, e => (x, e)
  | f + 1, x, e =>
    let e' := if !oddW x then e + 1 else e
    let x' := if !oddW x then (if q then x.sshiftRight 1 else x >>> 1) else x
    if e' ≠ 64 && !oddW x' then singleBitLoop q f x' e' else (x', e')

def singleBit (q : Bool) (x : W) : Option Nat :=
  let (y, e) := singleBitLoop q 70 x 0
  if e ≠ 64 ∧ y = 1 then some e else none

def fnRowOf (name : List Char) : Option FnRow := functions.find? fun r => r.name == name

def cToUpper (a : W) : W := if 97 ≤ a.toNat ∧ a.toNat ≤ 122 then a - 32 else a
def cToLower (a : W) : W := if 65 ≤ a.toNat ∧ a.toNat ≤ 90 then a + 32 else a

/-- a character of a string as `LargeInt`: through `char` (signed on the platforms the correspondence runs on) or as its code -/
def charInt (signed : Bool) (c : Char) : W :=
  if signed ∧ 128 ≤ c.toNat % 256 then wrap ((c.toNat % 256 : Nat) - 256) else BitVec.ofNat 64 c.toNat

def fnBody (q : Quirks) (name : List Char) (args : List Val) : Except Err Val :=
  match args with
  | [.int a] =>
    if name = "BITCNT".toList then .ok (.int (bitcntLoop 64 a 0))
    else if name = "FIRSTBIT".toList then .ok (.int (mFirstbit q.firstbitSkip a))
    else if name = "LASTBIT".toList then .ok (.int (wrap (lastbitLoop 64 0 a (-1))))
    else if name = "BITPOS".toList then
      match singleBit q.singleBitArith a with | some k => .ok (.int (BitVec.ofNat 64 k)) | none => .error .notOneBit
    else if name = "ABS".toList then .ok (.int (if a.slt 0 then -a else a))
    else if name = "SGN".toList then .ok (.int (if a.slt 0 then wrap (-1) else if (0 : W).slt a then 1 else 0))
    else if name = "TOUPPER".toList then
      if a.slt 0 ∨ (255 : W).slt a then .error .overRange else .ok (.int (cToUpper a))
    else if name = "TOLOWER".toList then
      if a.slt 0 ∨ (255 : W).slt a then .error .overRange else .ok (.int (cToLower a))
    else if name = "EXPRTYPE".toList then .ok (.int 0)
    else .error .type
  | [.flt x] =>
    if name = "ABS".toList then .ok (.flt x.abs)
    else if name = "SGN".toList then .ok (.int (if x < 0.0 then wrap (-1) else if x > 0.0 then 1 else 0))
    else if name = "INT".toList then
      -- `fabs(x) > IntTypeDefs[LargeSIntType].Max` compares with 2^63 (the conversion of 2^63-1 to double);
      -- `(LargeInt)floor(x)` for x = 2^63 is a float-to-integer conversion out of range: UB
      if x.abs > 9223372036854775807.0 then .error .overRange
      else if x ≥ 9223372036854775808.0 then .error .ub
      else .ok (.int (wrap x.floor.toInt64.toInt))
    else if name = "SQRT".toList then if x < 0.0 then .error .funcArg else .ok (.flt x.sqrt)
    else if name = "EXPRTYPE".toList then .ok (.int 1)
    else .error .type
  | [.str s] =>
    if name = "STRLEN".toList then .ok (.int (BitVec.ofNat 64 s.length))
    else if name = "UPSTRING".toList then .ok (.str (s.map upChar))
    else if name = "LOWSTRING".toList then .ok (.str (s.map lowChar))
    else if name = "EXPRTYPE".toList then .ok (.int 2)
    else .error .type
  | [.str s, .int p, .int n] =>
    if name = "SUBSTR".toList then
      -- `cnt = len - start` in `int`; a negative start reads before the buffer: UB
      if p.toInt < 0 then .error .ub
      else
        let cnt0 : Int := (s.length : Int) - p.toInt
        let cnt1 : Int := if n ≠ 0 ∧ n.toInt < cnt0 then n.toInt else cnt0
        let cnt : Nat := if cnt1 < 0 then 0 else cnt1.toNat
        .ok (.str ((s.drop p.toNat).take cnt))
    else .error .type
  | [.str s, .int p] =>
    if name = "CHARFROMSTR".toList then
      -- `(unsigned)pArgs[1].Contents.Int < len` looks at the low 32 bits only, the index is the full value
      if 0 ≤ p.toInt ∧ p.toNat % 2 ^ 32 < s.length then
        match s[p.toNat]? with
        | some c => .ok (.int (charInt q.charSigned c))
        | none => .error .ub
      else .ok (.int (wrap (-1)))
    else .error .type
  | [.str s, .str pat] =>
    if name = "STRSTR".toList then
      match findSub pat s 0 with
      | some k => .ok (.int (BitVec.ofNat 64 k))
      | none => .ok (.int (wrap (-1)))
    else .error .type
  | _ => .error .type

/-- `DeduceExpectTypeErrMsgMask(Mask, ActType)` as error class: the "expected … but got …" messages are
type errors, every combination the `switch` does not list is `ErrNum_InternalError` -/
def deduceErr (mask act : Nat) : Err :=
  if act = tempInt then (if mask = tempString then .type else .internal)
  else if act = tempFloat then
    (if mask = tempInt ∨ mask = tempString ∨ mask = tempInt ||| tempString then .type else .internal)
  else if act = tempString then
    (if mask = tempInt ∨ mask = tempFloat ∨ mask = tempInt ||| tempFloat then .type else .internal)
  else .internal

/-- a `1 << Typ` coded type set as a mask of `TempType` values -/
def typMaskOf (m : Nat) : Nat :=
  (if m &&& (1 <<< tempInt) ≠ 0 then tempInt else 0) ||| (if m &&& (1 <<< tempFloat) ≠ 0 then tempFloat else 0) |||
  (if m &&& (1 <<< tempString) ≠ 0 then tempString else 0)

/-- argument conversion of the function branch: an integer becomes a float when the function does not
take integers; then the type test (`1 << Typ`), whose failure is reported through
`DeduceExpectTypeErrMsgMask` -/
def convArgs (q : Quirks) : List Val → List Nat → Except Err (List Val)
  | [], _ => .ok []
  | v :: vs, ms =>
    let m := ms.headD 0
    let v0 := match v with
      | .str s =>
        if q.fnStrConv ∧ m &&& (1 <<< tempString) = 0 then
          match nonZString2Int s with | some x => Val.int x | none => v
        else v
      | _ => v
    let v' := match v0 with
      | .int a => if m &&& (1 <<< tempInt) = 0 then Val.flt (toF a) else v0
      | _ => v0
    if m &&& (1 <<< valTyp v') = 0 then .error (deduceErr (if q.fnErrRaw then m else typMaskOf m) (valTyp v'))
    else match convArgs q vs ms.tail with
      | .error e => .error e
      | .ok r => .ok (v' :: r)

def applyFn (q : Quirks) (name : List Char) (args : List Val) : Except Err Val :=
  match fnRowOf name with
  | none => .error .unknownFunc
  | some row =>
    if args.length < row.minArgs ∨ args.length > row.maxArgs then .error .funcArgCnt
    else
      match convArgs q args row.argTypes with
      | .error e => .error e
      | .ok as => fnBody q name as

/-- the model's semantics, addressed by table index -/
def modelM (q : Quirks) : MSem where
  bin := fun i l r => applyOp q (rowOf i) l r
  un := fun i r =>
    let row := if (rowOf i).id == ['-'] then minusMonadic else rowOf i
    applyOp q row (zeroLike r) r
  fn := applyFn q

/-- **the model of `EvalExpression` on a text** -/
def evalStrN (q : Quirks) : Nat → List Char → Except Err Val
  | 0, _ => .error .fuel
  | n + 1, s =>
    let ts := lexW (evalStrN q n) s
    evalToks (modelM q) (ts.length + 2) ts

/-- nesting of `\\{…}` inside string constants inside `\\{…}`: three levels are modelled -/
def evalStr (q : Quirks) (s : List Char) : Except Err Val := evalStrN q 4 s

def lex (q : Quirks) (s : List Char) : List Tok := lexW (evalStrN q 3) s

/-! ## token-level rendering of a formula (what `lex (render f)` is expected to be) -/

/-- index of the table entry with the given `Id` (0 = not found / dummy) -/
def idxOf (sp : List Char) : Nat :=
  match (operators.drop 1).findIdx? (fun r => r.id == sp) with
  | some i => i + 1
  | none => 0

def idxB (o : BinOp) : Nat := idxOf o.spelling
def idxU (u : UnOp) : Nat := idxOf u.spelling

def wrapT (b : Bool) (t : List Tok) : List Tok := if b then [.lp] ++ t ++ [.rp] else t

def toks : Formula → List Tok
  | .lit v => [.atom v]
  | .sc _ items => [.atom (.str (decodeItems items))]
  | .un u e => [.op (candsOf u.spelling)] ++ wrapT (u.rank ≤ e.rootRank) (toks e)
  | .bin o l r =>
    wrapT (o.rank < l.rootRank) (toks l) ++ [.op (candsOf o.spelling)] ++ wrapT (o.rank ≤ r.rootRank) (toks r)
  | .fn1 f a => [.name f.name, .lp] ++ toks a ++ [.rp]
  | .fn2 f a b => [.name f.name, .lp] ++ toks a ++ [.comma] ++ toks b ++ [.rp]
  | .fn3 f a b c => [.name f.name, .lp] ++ toks a ++ [.comma] ++ toks b ++ [.comma] ++ toks c ++ [.rp]

/-- the spec-shaped semantics induced by a table-addressed one -/
def semOf (M : MSem) : Sem := ⟨fun u => M.un (idxU u), fun o => M.bin (idxB o), fun f => M.fn f.name⟩

def Formula.size : Formula → Nat
  | .lit _ => 1
  | .sc _ _ => 1
  | .un _ e => 1 + Formula.size e
  | .bin _ l r => 1 + Formula.size l + Formula.size r
  | .fn1 _ a => 1 + Formula.size a
  | .fn2 _ a b => 1 + Formula.size a + Formula.size b
  | .fn3 _ a b c => 1 + Formula.size a + Formula.size b + Formula.size c

end AslModel.Expr
