import AslModel.Model.Dis.M87C
import AslModel.Model.Dis.A6800
/-! MODEL of the jump and call decoders of code87c800.c (`DecodeJRS`, `DecodeJR`, `DecodeJP_CALL` with an immediate operand,
`DecodeCALLV`, `DecodeCALLP`, `DecodeCondition`) – the assembler side of the TLCS-870 round trip for the statements whose
operand is a program address.  Core only.

The statement is taken after operand evaluation: mnemonic, condition name as written, value of the address expression (`dasl`
writes a label there; what the label means to the assembler is its value).  Condition table, accepted distances and the first
condition `DecodeJRS` looks at come from the generated `Deco87C` (InitFields() call list / comparisons of `AdrInt` in the
decoders of the current code87c800.c).  `jumpStmt` is the same statement read off `M87C.form1` (what the disassembler prints). -/
namespace AslModel.Dis.A87C
open AslModel.Dis AslModel.Generated

/-- `NLS_UpString` on the ASCII letters -/
def upper (s : String) : String := String.ofList (s.toList.map Char.toUpper)

/-- `DecodeCondition(pCondStr, Start)`: first index ≥ `start` whose name equals the upper-cased text; `ConditionCnt` if none -/
def decodeCondition (name : String) (start : Nat) : Nat :=
  match (Deco87C.conditions.drop start).findIdx? (fun c => c.1 == upper name) with
  | some i => start + i
  | none => Deco87C.conditions.length

def condCode (i : Nat) : Nat := (Deco87C.conditions.getD i ("", 0)).2

/-- `Integer AdrInt = <value> - (EProgCounter() + 2)`: 16-bit two's complement -/
def adrInt (target pc : Nat) : Int :=
  let d := (target + 0x10000 - (pc + 2) % 0x10000) % 0x10000
  if d ≥ 0x8000 then (d : Int) - 0x10000 else d

/-- a jump/call statement after operand evaluation -/
inductive JStmt where
  | jrs (cond : String) (target : Nat)
  | jr (cond : Option String) (target : Nat)
  | jp (target : Nat)
  | call (target : Nat)
  | callp (target : Nat)
  | callv (n : Nat)
deriving Repr, DecidableEq

/-- `DecodeCALLP`: `fpu` = `mFirstPassUnknownOrQuestionable(Flags)` of the operand (a forward label in the first pass, whose value
is then the program counter) – the page of such a value is not judged (since the repair of code87c800.c) -/
def callp (fpu : Bool) (target : Nat) : Option (List Nat) :=
  if target ≥ 0x10000 then none
  else if target / 256 ≠ 0xff ∧ target / 256 ≠ 0 ∧ fpu = false then none
  else some [0xfd, target % 256]

/-- the bytes code87c800.c emits at program counter `pc` in the final pass (every symbol has its value, no flag is set);
`none` = an error is reported (no code).
Address values are 16-bit (`Int16` range check of the expression evaluator: 0…65535 for what a label can be). -/
def encode (pc : Nat) : JStmt → Option (List Nat)
  | .jrs cond target =>
    let c := decodeCondition cond Deco87C.jrsCondStart
    if c ≥ Deco87C.conditions.length ∨ target ≥ 0x10000 then none else
    let d := adrInt target pc
    if d < Deco87C.jrsMin ∨ d > Deco87C.jrsMax then none
    else some [((((condCode c : Int) - 2) * 32 + d % 32) % 256).toNat]
  | .jr cond target =>
    let op : Option Nat := match cond with
      | none => some 0xfb
      | some n =>
        let c := decodeCondition n 0
        if c ≥ Deco87C.conditions.length then none else some (0xd0 ||| condCode c)
    match op with
    | none => none
    | some op =>
      if target ≥ 0x10000 then none else
      let d := adrInt target pc
      if d < Deco87C.jrMin ∨ d > Deco87C.jrMax then none else some [op, (d % 256).toNat]
  | .jp target => if target ≥ 0x10000 then none else some [0xfe, target % 256, target / 256]
  | .call target =>
    if target ≥ 0x10000 then none
    else if target / 256 = 0xff then some [0xfd, target % 256]
    else some [0xfc, target % 256, target / 256]
  | .callp target => callp false target
  | .callv n => if n ≥ 16 then none else some [0xc0 ||| (n % 16)]

/-- a pass in which the address operand is still first-pass-unknown (`fpu`): only `DecodeCALLP` looks at that flag (the relative
jumps look at `mSymbolQuestionable` only; the value a forward label has in the first pass, the program counter, is in their range) -/
def encodeF (fpu : Bool) (pc : Nat) : JStmt → Option (List Nat)
  | .callp target => callp fpu target
  | js => encode pc js

/-- mnemonic and condition of a jump form, as in the format string of the case -/
inductive Shape where
  | jrs (c : String)
  | jr (c : Option String)
  | jp
  | call
  | callp
  | callv (n : Nat)
deriving Repr, DecidableEq

/-- what `M87C.form1` prints for the jump forms: depends on the opcode byte only -/
def shape (op : Nat) : Option (Shape × M87C.Jump) :=
  match M87C.form1 op with
  | .plain f =>
    match f.jump with
    | .none => none
    | .vec => some (.callv (op % 16), .vec)
    | .rel5 => some (.jrs (if op < 0xa0 then "t" else "f"), .rel5)
    | .rel8 => some (.jr (if op = 0xfb then none else some (M87C.rel (op % 8))), .rel8)
    | .abs16 p => some (if p = "sub_" then .call else .jp, .abs16 p)
    | .page => some (.callp, .page)
  | _ => none

def mk : Shape → Nat → JStmt
  | .jrs c, t => .jrs c t
  | .jr c, t => .jr c t
  | .jp, t => .jp t
  | .call, t => .call t
  | .callp, t => .callp t
  | .callv n, _ => .callv n

/-- the statement `M87C` prints for a jump form: target = the address handed to `MakeSymbolic` (for `callv` the vector number is
the operand; its target is only a comment) -/
def jumpStmt (a op : Nat) (data : List Nat) : Option JStmt :=
  match shape op with
  | none => none
  | some (sh, .vec) => some (mk sh 0)
  | some (sh, j) => (M87C.target j a op data).map (mk sh)

/-- the literal head of the format string for a shape (`"jrs\tt,"`, `"jr\t"`, …): what precedes the symbol in `SrcLine` -/
def head : Shape → String
  | .jrs c => "jrs\t" ++ c ++ ","
  | .jr none => "jr\t"
  | .jr (some c) => "jr\t" ++ c ++ ","
  | .jp => "jp\t"
  | .call => "call\t"
  | .callp => "callp\t"
  | .callv n => "callv\t" ++ toString n ++ "\t ; "

/-! ## the printed statement through asl's statement parser

Domain: one statement as dasl prints it into `SrcLine` (no label field), possibly with a `;` comment; the address operand is a
plain symbol name that is no register name (what `MakeSymbolic` returns), `callv` takes a decimal number.  Statement splitting is
the target-independent part already modelled for the 6800 (`A6800.splitStmt`); the mnemonic is looked up in the generated
`InstTable` of code87c800.c. -/

/-- the comment is cut off at the first `;` (no quotes in the domain), trailing blanks are removed -/
def stripComment (s : List Char) : List Char := s.takeWhile (fun c => c != ';')

def trimRight (s : List Char) : List Char := (s.reverse.dropWhile A6800.isBlank).reverse

/-- `DecodeAdr` takes such an operand for a 16-bit register -/
def isReg16Name (s : List Char) : Bool := Deco87C.asmReg16Names.any (fun r => r.toList == s.map Char.toUpper)

/-- an address expression of the domain: a symbol with its final-pass value -/
def evalLabel (env : A6800.Env) (s : List Char) : Option Nat :=
  if A6800.plainLabel s && !isReg16Name s then env s else none

def decVal (s : List Char) : Option Nat :=
  if s = [] ∨ ¬ s.all Char.isDigit then none else some (s.foldl (fun v c => v * 10 + (c.toNat - 48)) 0)

/-- `LookupInstTable`: decoder and code argument of a mnemonic -/
def fnOf (memo : List Char) : Option (Deco87C.Fn × Nat) :=
  (Deco87C.instTable.find? (fun i => i.name.toList == memo.map Char.toUpper)).map (fun i => (i.fn, i.code))

/-- the jump/call statement a statement without comment stands for (argument count checks of the decoders included) -/
def parseClean (env : A6800.Env) (stmt : List Char) : Option JStmt :=
  match fnOf (A6800.splitStmt stmt).1, (A6800.splitStmt stmt).2 with
  | some (.jrs, _), [c, t] => (evalLabel env t).map (.jrs (String.ofList c))
  | some (.jr, _), [t] => (evalLabel env t).map (.jr none)
  | some (.jr, _), [c, t] => (evalLabel env t).map (.jr (some (String.ofList c)))
  | some (.jpCall, code), [t] =>
    if code = 0xfe then (evalLabel env t).map .jp else if code = 0xfc then (evalLabel env t).map .call else none
  | some (.callp, _), [t] => (evalLabel env t).map .callp
  | some (.callv, _), [t] => (decVal t).map .callv
  | _, _ => none

def parseStmt (env : A6800.Env) (stmt : List Char) : Option JStmt := parseClean env (trimRight (stripComment stmt))

/-- the address value (for `callv` the vector number) of a statement -/
def targetOf : JStmt → Nat
  | .jrs _ t => t
  | .jr _ t => t
  | .jp t => t
  | .call t => t
  | .callp t => t
  | .callv n => n

/-- one source line at `pc`: the bytes asl emits, `none` = error (or outside the domain) -/
def assembleText (env : A6800.Env) (pc : Nat) (stmt : List Char) : Option (List Nat) :=
  match parseStmt env stmt with
  | none => none
  | some js =>
    match encode pc js with
    | none => none
    | some bs => if pc + bs.length ≤ 0x10000 then some bs else none

end AslModel.Dis.A87C
