import AslModel.Model.Dis.Core
/-! MODEL of dasl's Intel-hex loader: das.c `GetByte`, `ResizeBuffer`, `FlushChunk`, `CMD_HexFile` and what
codechunks.c `MoveCodeChunkToList(…, TRUE)` / `CheckOverlap` do with the chunks it hands over.  Core only.

`CMD_HexFile` reads the file line by line (`while (!feof) fgets`), ignores every line that does not start with `:` and
every record whose type is not 00, checks the checksum of data records and *collects* them into a chunk: a record that
starts exactly where the chunk being collected ends is appended, any other record closes the chunk (it is sorted into
`CodeChunks` by `FlushChunk` if it is not empty) and opens a new one at the record's own address.  The chunk list is
kept sorted by start address (`imageInsert` of `Model/Dis/Core.lean`), an overlap with the left or right neighbour is
reported on stderr.

A data record is represented as a `CodeChunk` (load address, data bytes). -/
namespace AslModel.Dis.HexLoad
open AslModel.Dis

/-! ## line level -/

/-- `as_isxdigit` + the digit value `GetByte` computes -/
def xdigit (c : Char) : Option Nat :=
  let n := c.toNat
  if 48 ≤ n ∧ n ≤ 57 then some (n - 48)
  else if 65 ≤ n ∧ n ≤ 70 then some (n - 55)
  else if 97 ≤ n ∧ n ≤ 102 then some (n - 87)
  else none

/-- `GetByte(&pLine, &Result)`: two hex digits, the pointer moves behind them -/
def getByte : List Char → Option (Nat × List Char)
  | a :: b :: rest =>
    match xdigit a, xdigit b with
    | some x, some y => some (x * 16 + y, rest)
    | _, _ => none
  | _ => none

/-- the `for (z = 0; z < LineBufferLen; z++) GetByte(…)` loop -/
def getBytes : Nat → List Char → Option (List Nat × List Char)
  | 0, cs => some ([], cs)
  | n + 1, cs =>
    match getByte cs with
    | none => none
    | some (b, rest) =>
      match getBytes n rest with
      | none => none
      | some (bs, r) => some (b :: bs, r)

inductive LineRes where
  /-- not a record / not a data record: `continue` -/
  | skip
  /-- `ArgError(Num_ErrMsgInvalidHexData, …)` -/
  | invalid
  /-- `ArgError(Num_ErrMsgHexDataChecksumError, …)` -/
  | checksum
  /-- a data record with a correct checksum -/
  | data (r : CodeChunk)
deriving Repr

/-- body of the read loop up to the point where the record is handed to the chunk collector -/
def parseLine (l : List Char) : LineRes :=
  match l with
  | ':' :: rest =>
    match getByte rest with
    | none => .invalid
    | some (len, r1) =>
      match getByte r1 with
      | none => .invalid
      | some (ah, r2) =>
        match getByte r2 with
        | none => .invalid
        | some (al, r3) =>
          match getByte r3 with
          | none => .invalid
          | some (typ, r4) =>
            if typ ≠ 0 then .skip else
            match getBytes len r4 with
            | none => .invalid
            | some (ds, r5) =>
              match getByte r5 with
              | none => .invalid
              | some (ck, _) =>
                if (len + ah + al + typ + ds.sum + ck) % 256 ≠ 0 then .checksum
                else .data ⟨ah * 256 + al, ds.map UInt8.ofNat⟩
  | _ => .skip

def splitNL : List Char → List Char → List (List Char)
  | [], acc => [acc.reverse]
  | c :: cs, acc => if c = '\n' then acc.reverse :: splitNL cs [] else splitNL cs (c :: acc)

def dropLastCR (l : List Char) : List Char := if l.getLast? = some '\r' then l.dropLast else l

/-- size of `char Line[300]`: a longer line would be delivered by `fgets` in pieces – not modelled -/
def lineBuf : Nat := 300

/-- the contents of `Line` in the successive rounds of `while (!feof(pFile)) { fgets(Line, …); … }`:
every line without its `\n` and one trailing `\r`; when the file ends with a newline, `feof` is not yet set after the
last line, the next `fgets` fails and leaves `Line` as it is – the last line is processed a second time.
`none`: an empty file (the buffer is uninitialised) or a line that does not fit into the buffer. -/
def fileLines (text : List Char) : Option (List (List Char)) :=
  if text = [] then none else
  let raw := splitNL text []
  if raw.any (fun l => l.length + 2 > lineBuf) then none else
  let ls := raw.dropLast.map dropLastCR
  match raw.getLast? with
  | some [] =>
    -- text ends with '\n': the stale buffer once more
    match ls.getLast? with
    | some l => some (ls ++ [dropLastCR l])
    | none => some ls
  | some l => some (ls ++ [dropLastCR l])      -- unterminated last line: read, then EOF is set
  | none => some ls

/-- records of the file in the order `CMD_HexFile` meets them; `none` = the option is rejected (`CMDErr`) or not modelled -/
def records : List (List Char) → Option (List CodeChunk)
  | [] => some []
  | l :: ls =>
    match parseLine l with
    | .skip => records ls
    | .invalid => none
    | .checksum => none
    | .data r => (records ls).map (r :: ·)

/-! ## chunk level -/

/-- `CheckOverlap` (the chunks of the list are never empty) -/
def overlaps (x y : CodeChunk) : Bool :=
  decide (max x.start y.start ≤ min (x.start + x.data.length - 1) (y.start + y.data.length - 1))

def overlapMsg : String := "code chunk overlap"

/-- the messages `MoveCodeChunkToList(&CodeChunks, c, TRUE)` writes to stderr: left neighbour first, then right neighbour -/
def insertWarnings (c : CodeChunk) (img : Image) : List String :=
  let idx := (img.takeWhile (fun x => !decide (x.start > c.start))).length
  (match (if idx = 0 then none else img[idx - 1]?) with
   | some p => if overlaps p c then [overlapMsg] else []
   | none => []) ++
  (match img[idx]? with
   | some n => if overlaps c n then [overlapMsg] else []
   | none => [])

structure LState where
  /-- `Chunk` of `CMD_HexFile` (`Start`, `pCode[0..Length-1]`) -/
  cur : CodeChunk := ⟨0, []⟩
  /-- `CodeChunks` -/
  img : Image := []
  err : List String := []
deriving Repr

/-- `if (Chunk.Length) FlushChunk(&Chunk);` – afterwards the chunk is `InitCodeChunk`ed -/
def flush (s : LState) : LState :=
  if s.cur.data.length = 0 then { s with cur := ⟨0, []⟩ }
  else { cur := ⟨0, []⟩, img := imageInsert s.cur s.img, err := s.err ++ insertWarnings s.cur s.img }

/-- one data record -/
def step (s : LState) (r : CodeChunk) : LState :=
  if s.cur.start + s.cur.data.length = r.start then
    { s with cur := ⟨s.cur.start, s.cur.data ++ r.data⟩ }
  else
    { flush s with cur := r }

def run (rs : List CodeChunk) : LState := flush (rs.foldl step {})

/-- the image `-hexfile` leaves in `CodeChunks` for a sequence of data records -/
def loadRecs (rs : List CodeChunk) : Image := (run rs).img

/-- `-hexfile <file>` on an empty chunk list: image and stderr lines -/
def loadHex (text : List Char) : Option (Image × List String) :=
  match fileLines text with
  | none => none
  | some ls =>
    match records ls with
    | none => none
    | some rs => let s := run rs; some (s.img, s.err)

end AslModel.Dis.HexLoad
