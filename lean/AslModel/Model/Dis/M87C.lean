import AslModel.Model.Dis.Core
import AslModel.Generated.Deco87C
/-! MODEL of deco87c800.c (`Disassemble_87C800`, `RegPrefix`, `MemPrefix`, `MakeSymbolic`, `ZeroHexString`, `RetrieveData`,
`SimpleNextAddress`, `PrintData`).  Core only.

The three nested `switch` statements are transcribed case group by case group into *forms*: `form1` (first opcode byte),
`formMem` (second opcode byte behind a memory prefix E0…E7/F0…F7) and `formReg` (second opcode byte behind a register prefix
E8…EF).  A form states what the case does: how many operand bytes it fetches (`n`), whether it calls `SimpleNextAddress`
(`simple`), which jump target it appends to `NextAddresses` (`jump`), the `as_snprintf` format with its arguments as a list
of pieces, and the remark.  `CodeLen` is what the C code assigns in the case (prefix length + 1 + n in every case).
`disassemble` is the whole callback: the `RetrieveData` calls in the order the C code makes them (message and early `return`
on a failed one), the `nData` counter with the final `; ouch` check, unknown opcodes and data lines.

The name arrays come from the generated `Deco87C` (dumped from the current deco87c800.c).

Things the C code does that the model keeps:
* `ld (hl),<mem>` (memory prefix, 27) does not call `SimpleNextAddress`;
* `SimpleNextAddress` reduces with `% 0xffff`;
* a 16-bit register operation behind a register prefix EC…EF (`goto inv16`) and E9…EB 04 end in the `default:` branch of
  `RegPrefix` (unknown opcode, listed as data).
(Repaired in deco87c800.c and followed here: no `h` behind symbolic jump targets; `alu r,n` with `h`; `ld sp,rr`/`ld rr,sp`/`call rr`/
`jp rr` print the prefix register; `inv16` no longer loops; `ret`/`reti`/`retn` have no successor; `MakeSymbolic` puts the `0` in
front of a hex number that starts with a letter.)

`printf` lines of the callback (`unknown … opcode`) go to stdout, not stderr; `Disasm` has one list of message lines, so
those lines are tagged with `stdoutMark` as their first character (the driver separates them again). -/
namespace AslModel.Dis.M87C
open AslModel.Dis
open AslModel.Generated

/-- first character of a message line the C code writes with `printf` (stdout) instead of `fprintf(stderr, …)` -/
def stdoutMark : Char := Char.ofNat 1

def r8 (i : Nat) : String := String.singleton (Deco87C.reg8Names.getD i '?')
def r16 (i : Nat) : String := Deco87C.reg16Names.getD i "?"
def rel (i : Nat) : String := Deco87C.relNames.getD i "?"
def alu (i : Nat) : String := Deco87C.aluInstr.getD i "?"

/-- `ZeroHexString(buf, size, Num, ByteLen)`: `2*ByteLen` hex digits, a `0` in front unless the first one is a decimal digit -/
def zeroHex (lower : Bool) (n byteLen : Nat) : String :=
  let h := hexChars lower n (byteLen * 2)
  match h with
  | c :: _ => if c.isDigit then String.ofList h else String.ofList ('0' :: h)
  | [] => "0"

/-- the number `MakeSymbolic` renders when there is no symbol prefix: `2*AddrLen` hex digits, a `0` in front unless the first one
is a decimal digit -/
def symbolicHex (lower : Bool) (a addrLen : Nat) : List Char :=
  let h := hexChars lower a (addrLen * 2)
  match h with
  | c :: _ => if c.isDigit then h else '0' :: h
  | [] => ['0']

/-- `MakeSymbolic` of deco87c800.c.  Without a prefix the number is rendered for a `dw` line, followed by `h`/`H`. -/
def makeSymbolic (lower : Bool) (syms : Syms) (a addrLen : Nat) (pfx : Option String) : String × Syms :=
  match syms.lookup a with
  | some n => (n, syms)
  | none =>
    match pfx with
    | none => (String.ofList (symbolicHex lower a addrLen) ++ (if lower then "h" else "H"), syms)
    | some p => (p ++ hexString lower a (addrLen * 2), syms.add (p ++ hexString lower a (addrLen * 2)) a)

/-- `RetrieveData(Address, buf, Count)` (since the repair 29b7faa of deco87c800.c): the address space ends at
$FFFF, a request that reaches beyond it (`Address + Count > 0x10000`) fails like one that `RetrieveCodeFromChunkList` cannot
answer - nothing is fetched from address 0 any more.  One message line on failure, with the first address of the request. -/
def retrieveData (img : Image) (lower : Bool) (a count : Nat) : Option (List Nat) × List String :=
  if a + count > 0x10000 then (none, ["cannot retrieve code @ 0x" ++ hexString lower a 0]) else
  match retrieve img a count with
  | none => (none, ["cannot retrieve code @ 0x" ++ hexString lower a 0])
  | some bs => (some (bs.map UInt8.toNat), [])

/-! ## forms -/

/-- one argument / literal part of an `as_snprintf` format -/
inductive Piece where
  /-- literal text (incl. register and condition names, which depend on the opcode bytes only) -/
  | s (t : String)
  /-- `ZeroHexString(Data[k], 1)` -/
  | h8 (k : Nat)
  /-- `ZeroHexString((Data[k+1] << 8) | Data[k], 2)` -/
  | h16 (k : Nat)
  /-- `pPrefixString` -/
  | pfx
  /-- result of `MakeSymbolic` for the jump target -/
  | sym
deriving Repr, DecidableEq, Inhabited

/-- what a case appends to `NextAddresses` besides the fall-through address -/
inductive Jump where
  | none
  /-- `(Address + 2 + sext5(Opcode)) & 0xffff`, `lab_` -/
  | rel5
  /-- `(Address + 2 + sext8(Data[0])) & 0xffff`, `lab_` -/
  | rel8
  /-- `(Data[1] << 8) | Data[0]` -/
  | abs16 (pfx : String)
  /-- `0xff00 + Data[0]`, `sub_` -/
  | page
  /-- `callv`: the word at `0xffc0 + 2*Vector`, if it can be fetched; `subv_` -/
  | vec
deriving Repr, DecidableEq, Inhabited

structure Form where
  /-- operand bytes fetched behind the (last) opcode byte -/
  n : Nat
  /-- `SimpleNextAddress` is called -/
  simple : Bool
  jump : Jump
  pieces : List Piece
  remark : Option String := none
deriving Repr, DecidableEq, Inhabited

/-- plain case: n operand bytes, falls through -/
def P (n : Nat) (pieces : List Piece) : Form := ⟨n, true, .none, pieces, none⟩

inductive PfxKind where
  /-- `(%sh)` of the prefix data byte -/
  | abs
  /-- `(hl%s%d)` of the sign-extended prefix data byte -/
  | hlDisp
  | lit (s : String)
deriving Repr, DecidableEq, Inhabited

inductive Top where
  | plain (f : Form)
  /-- `MemPrefix(Address, pInfo, 1 + n, …)`: n prefix data bytes -/
  | mem (n : Nat) (k : PfxKind)
  /-- `RegPrefix(Address, pInfo, 1, src)` -/
  | reg (src : Nat)
  /-- `default: ActAsData = True` -/
  | unknown
deriving Repr, DecidableEq, Inhabited

def inR (lo hi x : Nat) : Bool := decide (lo ≤ x) && decide (x ≤ hi)

/-- the `switch (Opcode)` of `Disassemble_87C800` -/
def form1 (op : Nat) : Top :=
  if op = 0x00 then .plain (P 0 [.s "nop"])
  else if op = 0x01 then .plain (P 0 [.s "swap\ta"])
  else if op = 0x02 then .plain (P 0 [.s "mul\tw,a"])
  else if op = 0x03 then .plain (P 0 [.s "div\twa,c"])
  else if op = 0x04 then .plain ⟨0, false, .none, [.s "reti"], none⟩
  else if op = 0x05 then .plain ⟨0, false, .none, [.s "ret"], none⟩
  else if op = 0x06 then .plain (P 0 [.s "pop\tpsw"])
  else if op = 0x07 then .plain (P 0 [.s "push\tpsw"])
  else if op = 0x0a then .plain (P 0 [.s "daa\ta"])
  else if op = 0x0b then .plain (P 0 [.s "das\ta"])
  else if op = 0x0c then .plain (P 0 [.s "clr\tcf"])
  else if op = 0x0d then .plain (P 0 [.s "set\tcf"])
  else if op = 0x0e then .plain (P 0 [.s "cpl\tcf"])
  else if op = 0x0f then .plain (P 1 [.s "ld\trbs,", .h8 0, .s "h"])
  else if inR 0x10 0x13 op then .plain (P 0 [.s ("inc\t" ++ r16 (op % 4))])
  else if inR 0x14 0x17 op then .plain (P 2 [.s ("ld\t" ++ r16 (op % 4) ++ ","), .h16 0, .s "h"])
  else if inR 0x18 0x1b op then .plain (P 0 [.s ("dec\t" ++ r16 (op % 4))])
  else if op = 0x1c then .plain (P 0 [.s "shlc\ta"])
  else if op = 0x1d then .plain (P 0 [.s "shrc\ta"])
  else if op = 0x1e then .plain (P 0 [.s "rolc\ta"])
  else if op = 0x1f then .plain (P 0 [.s "rorc\ta"])
  else if op = 0x20 then .plain (P 1 [.s "inc\t(", .h8 0, .s "h)"])
  else if op = 0x21 then .plain (P 0 [.s "inc\t(hl)"])
  else if op = 0x22 then .plain (P 1 [.s "ld\ta,(", .h8 0, .s "h)"])
  else if op = 0x23 then .plain (P 0 [.s "ld\ta,(hl)"])
  else if op = 0x24 then .plain (P 3 [.s "ldw\t(", .h8 0, .s "h),", .h16 1, .s "h"])
  else if op = 0x25 then .plain (P 2 [.s "ldw\t(hl),", .h16 0, .s "h"])
  else if op = 0x26 then .plain (P 2 [.s "ld\t(", .h8 1, .s "h),(", .h8 0, .s "h)"])
  else if op = 0x28 then .plain (P 1 [.s "dec\t(", .h8 0, .s "h)"])
  else if op = 0x29 then .plain (P 0 [.s "dec\t(hl)"])
  else if op = 0x2a then .plain (P 1 [.s "ld\t(", .h8 0, .s "h),a"])
  else if op = 0x2b then .plain (P 0 [.s "ld\t(hl),a"])
  else if op = 0x2c then .plain (P 2 [.s "ld\t(", .h8 0, .s "h),", .h8 1, .s "h"])
  else if op = 0x2d then .plain (P 1 [.s "ld\t(hl),", .h8 0, .s "h"])
  else if op = 0x2e then .plain (P 1 [.s "clr\t(", .h8 0, .s "h)"])
  else if op = 0x2f then .plain (P 0 [.s "clr\t(hl)"])
  else if inR 0x30 0x37 op then .plain (P 1 [.s ("ld\t" ++ r8 (op % 8) ++ ","), .h8 0, .s "h"])
  else if inR 0x40 0x47 op then .plain (P 1 [.s "set\t(", .h8 0, .s ("h)." ++ toString (op % 8))])
  else if inR 0x48 0x4f op then .plain (P 1 [.s "clr\t(", .h8 0, .s ("h)." ++ toString (op % 8))])
  else if inR 0x50 0x57 op then .plain (P 0 [.s ("ld\ta," ++ r8 (op % 8))])
  else if inR 0x58 0x5f op then .plain (P 0 [.s ("ld\t" ++ r8 (op % 8) ++ ",a")])
  else if inR 0x60 0x67 op then .plain (P 0 [.s ("inc\t" ++ r8 (op % 8))])
  else if inR 0x68 0x6f op then .plain (P 0 [.s ("dec\t" ++ r8 (op % 8))])
  else if inR 0x70 0x77 op then .plain (P 1 [.s (alu (op % 8) ++ "\ta,"), .h8 0, .s "h"])
  else if inR 0x78 0x7f op then .plain (P 1 [.s (alu (op % 8) ++ "\ta,("), .h8 0, .s "h)"])
  else if inR 0x80 0x9f op then .plain ⟨0, true, .rel5, [.s "jrs\tt,", .sym], none⟩
  else if inR 0xa0 0xbf op then .plain ⟨0, true, .rel5, [.s "jrs\tf,", .sym], none⟩
  else if inR 0xc0 0xcf op then .plain ⟨0, true, .vec, [.s ("callv\t" ++ toString (op % 16) ++ "\t ; "), .sym], none⟩
  else if inR 0xd0 0xd7 op then .plain ⟨1, true, .rel8, [.s ("jr\t" ++ rel (op % 8) ++ ","), .sym], none⟩
  else if inR 0xd8 0xdf op then .plain (P 1 [.s "test\t(", .h8 0, .s ("h)." ++ toString (op % 8))])
  else if op = 0xe0 ∨ op = 0xf0 then .mem 1 .abs
  else if op = 0xe1 ∨ op = 0xf1 then .mem 0 (.lit "(pc+a)")
  else if op = 0xe2 ∨ op = 0xf2 then .mem 0 (.lit "(de)")
  else if op = 0xe3 ∨ op = 0xf3 then .mem 0 (.lit "(hl)")
  else if op = 0xe4 ∨ op = 0xf4 then .mem 1 .hlDisp
  else if op = 0xe5 ∨ op = 0xf5 then .mem 0 (.lit "(hl+c)")
  else if op = 0xe6 ∨ op = 0xf6 then .mem 0 (.lit "(hl+)")
  else if op = 0xe7 ∨ op = 0xf7 then .mem 0 (.lit "(-hl)")
  else if inR 0xe8 0xef op then .reg (op % 8)
  else if op = 0xfa then .plain (P 2 [.s "ld\tsp,", .h16 0, .s "h"])
  else if op = 0xfb then .plain ⟨1, false, .rel8, [.s "jr\t", .sym], none⟩
  else if op = 0xfc then .plain ⟨2, true, .abs16 "sub_", [.s "call\t", .sym], none⟩
  else if op = 0xfd then .plain ⟨1, true, .page, [.s "callp\t", .sym], none⟩
  else if op = 0xfe then .plain ⟨2, false, .abs16 "lab_", [.s "jp\t", .sym], none⟩
  else if op = 0xff then .plain (P 0 [.s "swi"])
  else .unknown

/-- the `switch (Opcode)` of `MemPrefix`; `none` = `default` -/
def formMem (op : Nat) : Option Form :=
  if op = 0x08 then some (P 0 [.s "rold\ta,", .pfx])
  else if op = 0x09 then some (P 0 [.s "rord\ta,", .pfx])
  else if inR 0x10 0x13 op then some (P 0 [.s "ld\t", .pfx, .s ("," ++ r16 (op % 4))])
  else if inR 0x14 0x17 op then some (P 0 [.s ("ld\t" ++ r16 (op % 4) ++ ","), .pfx])
  else if op = 0x20 then some (P 0 [.s "inc\t", .pfx])
  else if op = 0x26 then some (P 1 [.s "ld\t(", .h8 0, .s "h),", .pfx])
  else if op = 0x27 then some ⟨0, false, .none, [.s "ld\t(hl),", .pfx], none⟩
  else if op = 0x28 then some (P 0 [.s "dec\t", .pfx])
  else if op = 0x2c then some (P 1 [.s "ld\t", .pfx, .s ",", .h8 0, .s "h"])
  else if op = 0x2f then some (P 1 [.s "mcmp\t", .pfx, .s ",", .h8 0, .s "h"])
  else if inR 0x40 0x47 op then some (P 0 [.s "set\t", .pfx, .s ("." ++ toString (op % 8))])
  else if inR 0x48 0x4f op then some (P 0 [.s "clr\t", .pfx, .s ("." ++ toString (op % 8))])
  else if inR 0x50 0x57 op then some (P 0 [.s "ld\t", .pfx, .s ("," ++ r8 (op % 8))])
  else if inR 0x58 0x5f op then some (P 0 [.s ("ld\t" ++ r8 (op % 8) ++ ","), .pfx])
  else if inR 0x60 0x67 op then some (P 0 [.s (alu (op % 8) ++ "\t"), .pfx, .s ",(hl)"])
  else if inR 0x70 0x77 op then some (P 1 [.s (alu (op % 8) ++ "\t"), .pfx, .s ",", .h8 0, .s "h"])
  else if inR 0x78 0x7f op then some (P 0 [.s (alu (op % 8) ++ "\ta,"), .pfx])
  else if inR 0xa8 0xaf op then some (P 0 [.s ("xch\t" ++ r8 (op % 8) ++ ","), .pfx])
  else if inR 0xc0 0xc7 op then some (P 0 [.s "cpl\t", .pfx, .s ("." ++ toString (op % 8))])
  else if inR 0xc8 0xcf op then some (P 0 [.s "ld\t", .pfx, .s ("." ++ toString (op % 8) ++ ",cf")])
  else if inR 0xd0 0xd7 op then some (P 0 [.s "xor\tcf,", .pfx, .s ("." ++ toString (op % 8))])
  else if inR 0xd8 0xdf op then some (P 0 [.s "ld\tcf,", .pfx, .s ("." ++ toString (op % 8))])
  else if op = 0xfc then some ⟨0, true, .none, [.s "call\t", .pfx], some "indirect subroutine call, investigate here"⟩
  else if op = 0xfe then some ⟨0, false, .none, [.s "jp\t", .pfx], some "indirect jump, investigate here"⟩
  else none

inductive RegSel where
  | ok (f : Form)
  /-- `default` (also the target of `goto inv16`) -/
  | unknown
deriving Repr, DecidableEq, Inhabited

/-- the cases of `RegPrefix` that start with `if (SrcRegIndex > 3) goto inv16;` (`inv16:` labels the `default:` branch) -/
def w16 (src : Nat) (f : Form) : RegSel := if src > 3 then .unknown else .ok f

/-- the `switch (Opcode)` of `RegPrefix` -/
def formReg (src op : Nat) : RegSel :=
  if op = 0x01 then .ok (P 0 [.s ("swap\t" ++ r8 src)])
  else if op = 0x02 then w16 src (P 0 [.s ("mul\t" ++ r8 (src * 2 + 1) ++ "," ++ r8 (src * 2))])
  else if op = 0x03 then w16 src (P 0 [.s ("div\t" ++ r16 src ++ ",c")])
  else if op = 0x04 then
    -- `if (SrcRegIndex > 0) goto inv16;`
    if src = 0 then .ok ⟨0, false, .none, [.s "retn"], none⟩ else .unknown
  else if op = 0x06 then w16 src (P 0 [.s ("pop\t" ++ r16 src)])
  else if op = 0x07 then w16 src (P 0 [.s ("push\t" ++ r16 src)])
  else if op = 0x0a then .ok (P 0 [.s ("daa\t" ++ r8 src)])
  else if op = 0x0b then .ok (P 0 [.s ("das\t" ++ r8 src)])
  else if inR 0x10 0x13 op then w16 src (P 0 [.s ("xch\t" ++ r16 (op % 4) ++ "," ++ r16 src)])
  else if inR 0x14 0x17 op then w16 src (P 0 [.s ("ld\t" ++ r16 (op % 4) ++ "," ++ r16 src)])
  else if op = 0x1c then .ok (P 0 [.s ("shlc\t" ++ r8 src)])
  else if op = 0x1d then .ok (P 0 [.s ("shrc\t" ++ r8 src)])
  else if op = 0x1e then .ok (P 0 [.s ("rolc\t" ++ r8 src)])
  else if op = 0x1f then .ok (P 0 [.s ("rorc\t" ++ r8 src)])
  else if inR 0x30 0x37 op then w16 src (P 0 [.s (alu (op % 8) ++ "\twa," ++ r16 src)])
  else if inR 0x38 0x3f op then w16 src (P 2 [.s (alu (op % 8) ++ "\t" ++ r16 src ++ ","), .h16 0, .s "h"])
  else if inR 0x40 0x47 op then .ok (P 0 [.s ("set\t" ++ r8 src ++ "." ++ toString (op % 8))])
  else if inR 0x48 0x4f op then .ok (P 0 [.s ("clr\t" ++ r8 src ++ "." ++ toString (op % 8))])
  else if inR 0x58 0x5f op then .ok (P 0 [.s ("ld\t" ++ r8 (op % 8) ++ "," ++ r8 src)])
  else if inR 0x60 0x67 op then .ok (P 0 [.s (alu (op % 8) ++ "\ta," ++ r8 src)])
  else if inR 0x68 0x6f op then .ok (P 0 [.s (alu (op % 8) ++ "\t" ++ r8 src ++ ",a")])
  else if inR 0x70 0x77 op then .ok (P 1 [.s (alu (op % 8) ++ "\t" ++ r8 src ++ ","), .h8 0, .s "h"])
  else if inR 0x82 0x83 op then .ok (P 0 [.s ("set\t(" ++ r16 (op % 4) ++ ")." ++ r8 src)])
  else if inR 0x8a 0x8b op then .ok (P 0 [.s ("clr\t(" ++ r16 (op % 4) ++ ")." ++ r8 src)])
  else if inR 0x92 0x93 op then .ok (P 0 [.s ("cpl\t(" ++ r16 (op % 4) ++ ")." ++ r8 src)])
  else if inR 0x9a 0x9b op then .ok (P 0 [.s ("ld\t(" ++ r16 (op % 4) ++ ")." ++ r8 src ++ ",cf")])
  else if inR 0x9e 0x9f op then .ok (P 0 [.s ("ld\tcf,(" ++ r16 (op % 4) ++ ")." ++ r8 src)])
  else if inR 0xa8 0xaf op then .ok (P 0 [.s ("xch\t" ++ r8 (op % 8) ++ "," ++ r8 src)])
  else if inR 0xc0 0xc7 op then .ok (P 0 [.s ("cpl\t" ++ r8 src ++ "." ++ toString (op % 8))])
  else if inR 0xc8 0xcf op then .ok (P 0 [.s ("ld\t" ++ r8 src ++ "." ++ toString (op % 8) ++ ",cf")])
  else if inR 0xd0 0xd7 op then .ok (P 0 [.s ("xor\tcf," ++ r8 src ++ "." ++ toString (op % 8))])
  else if inR 0xd8 0xdf op then .ok (P 0 [.s ("ld\tcf," ++ r8 src ++ "." ++ toString (op % 8))])
  else if op = 0xfa then w16 src (P 0 [.s ("ld\tsp," ++ r16 src)])
  else if op = 0xfb then w16 src (P 0 [.s ("ld\t" ++ r16 src ++ ",sp")])
  else if op = 0xfc then w16 src ⟨0, true, .none, [.s ("call\t" ++ r16 src)], some "indirect jump, investigate here"⟩
  else if op = 0xfe then w16 src ⟨0, false, .none, [.s ("jp\t" ++ r16 src)], some "indirect jump, investigate here"⟩
  else .unknown

/-! ## rendering and successors -/

def sext8 (d : Nat) : Int := if d ≥ 128 then (d : Int) - 256 else d

/-- `pPrefixString` as `Disassemble_87C800` builds it from the prefix data byte -/
def prefixString (lower : Bool) (k : PfxKind) (pd : List Nat) : String :=
  match k with
  | .abs => "(" ++ zeroHex lower (pd.getD 0 0) 1 ++ "h)"
  | .hlDisp =>
    let d := sext8 (pd.getD 0 0)
    "(hl" ++ (if d < 0 then "" else "+") ++ toString d ++ ")"
  | .lit s => s

def renderPiece (lower : Bool) (data : List Nat) (pfx sym : String) : Piece → String
  | .s t => t
  | .h8 k => zeroHex lower (data.getD k 0) 1
  | .h16 k => zeroHex lower (data.getD (k + 1) 0 * 256 + data.getD k 0) 2
  | .pfx => pfx
  | .sym => sym

def render (lower : Bool) (data : List Nat) (pfx sym : String) (ps : List Piece) : String :=
  String.join (ps.map (renderPiece lower data pfx sym))

/-- jump target of a form (not for `vec`) -/
def target (j : Jump) (a op : Nat) (data : List Nat) : Option Nat :=
  match j with
  | .none => none
  | .rel5 => some ((a + 2 + op % 32 + (if op % 32 ≥ 16 then 0x10000 - 32 else 0)) % 0x10000)
  | .rel8 => some ((a + 2 + data.getD 0 0 + (if data.getD 0 0 ≥ 128 then 0x10000 - 256 else 0)) % 0x10000)
  | .abs16 _ => some (data.getD 1 0 * 256 + data.getD 0 0)
  | .page => some (0xff00 + data.getD 0 0)
  | .vec => none

def symPrefix : Jump → String
  | .abs16 p => p
  | .page => "sub_"
  | .vec => "subv_"
  | _ => "lab_"

/-- `if (nData != pInfo->CodeLen) as_snprcatf(SrcLine, " ; ouch %u != %u", nData, CodeLen)` -/
def ouch (src : String) (nData len : Nat) : String :=
  if nData = len then src else src ++ " ; ouch " ++ toString nData ++ " != " ++ toString len

/-- result of the callback before the final `ouch` check -/
structure Raw where
  info : DisInfo := {}
  syms : Syms
  /-- the counter `nData` (an `unsigned`) -/
  nData : Nat
  msgs : List String := []
  /-- the C function has returned early (failed `RetrieveData` in `Disassemble_87C800` itself): no `ouch` check -/
  early : Bool := false

/-- the body of a case: `CodeLen`, `SimpleNextAddress`, the jump target, `as_snprintf`.
`pl` = bytes in front of the operand bytes (1, or prefix length + 1); `vecWord` = result of the vector fetch of `callv`. -/
def finish (lower : Bool) (syms : Syms) (a op pl : Nat) (f : Form) (data : List Nat) (pfx : String) (vecWord : Option Nat) :
    DisInfo × Syms :=
  let len := pl + f.n
  let fall := if f.simple then [(a + len) % 0xffff] else []
  let tgt := match f.jump with
    | .vec => vecWord
    | j => target j a op data
  -- the address handed to `MakeSymbolic`: the slot the target was stored in (for `callv` without a retrievable vector the
  -- slot holds whatever an earlier call left there; the model uses 0 and the check never compares such a line)
  let symAddr := tgt.getD 0
  let (symText, syms') := match f.jump with
    | .none => ("", syms)
    | j => makeSymbolic lower syms symAddr 2 (some (symPrefix j))
  ({ len := len, nexts := fall ++ (match tgt with | some t => [t] | none => []),
     src := render lower data pfx symText f.pieces, remark := f.remark }, syms')

/-- `PrintData` -/
def printData (lower : Bool) (bs : List Nat) : String :=
  "db\t" ++ String.intercalate "," (bs.map (fun b => zeroHex lower b 1 ++ "h"))

def wrap32 (n : Int) : Nat := (n % 4294967296).toNat

/-- `default:` of `RegPrefix` / `MemPrefix` -/
def unknownPrefixed (img : Image) (lower : Bool) (syms : Syms) (a pl op2 nData : Nat) (what : String) : Raw :=
  let msg := String.singleton stdoutMark ++ "unknown " ++ what ++ " opcode 0x" ++ hexString lower op2 2 ++ " @ " ++ hexString lower a 0
  let len := pl + 1
  match retrieveData img lower a len with
  | (some bs, _) => { info := { len := len, src := printData lower bs }, syms := syms, nData := nData, msgs := [msg] }
  | (none, e) =>
    -- cannot happen when the byte at `a` was fetched before; `Data` then holds stale bytes the model does not know
    { info := { len := len, src := printData lower [] }, syms := syms, nData := wrap32 ((nData : Int) - len), msgs := msg :: e }

/-- `MemPrefix` / `RegPrefix` from their first statement; `pl` = `PrefixLen`, `nData` = counter on entry -/
def prefixed (img : Image) (lower : Bool) (syms : Syms) (a op pl nData : Nat) (pfx : String) (what : String)
    (sel : Nat → RegSel) : Raw :=
  match retrieveData img lower (a + pl) 1 with
  | (none, e) => { syms := syms, nData := nData, msgs := e }
  | (some o2, _) =>
    let op2 := o2.getD 0 0
    match sel op2 with
    | .unknown => unknownPrefixed img lower syms a pl op2 (nData + 1) what
    | .ok f =>
      match retrieveData img lower (a + pl + 1) f.n with
      | (none, e) => { syms := syms, nData := nData + 1, msgs := e }
      | (some data, _) =>
        let r := finish lower syms a op (pl + 1) f data pfx none
        { info := r.1, syms := r.2, nData := nData + 1 + f.n }

/-- `formMem` as a selector (`MemPrefix` has no `inv16`) -/
def memSel (op2 : Nat) : RegSel :=
  match formMem op2 with
  | some f => .ok f
  | none => .unknown

/-- the `if (ActAsData)` part -/
def dataPart (img : Image) (lower : Bool) (syms : Syms) (a op : Nat) (asData : Bool) (dataSize : Int) : Raw :=
  let ds : Int := if dataSize < 0 then 1 else dataSize
  let want := (ds - 1).toNat
  match retrieveData img lower (a + 1) want with
  | (none, e) => { syms := syms, nData := 1, msgs := e, early := true }
  | (some data, _) =>
    let msgs := if asData then [] else
      [String.singleton stdoutMark ++ "unknown opcode 0x" ++ hexString lower op 2 ++ " @ " ++ hexString lower a 0]
    if ds = 2 then
      let v := data.getD 0 0 * 256 + op
      let (t, syms') := makeSymbolic lower syms v 2 none
      { info := { len := 2, nexts := if asData then [(a + 2) % 0xffff] else [], src := "dw\t" ++ t }, syms := syms',
        nData := 1 + want, msgs := msgs }
    else
      { info := { len := 1, nexts := if asData then [(a + 1) % 0xffff] else [], src := "db\t" ++ zeroHex lower op 1 ++ "h" },
        syms := syms, nData := 1 + want, msgs := msgs }

/-- `Disassemble_87C800` up to the final `ouch` check -/
def raw (img : Image) (lower : Bool) (syms : Syms) (a : Nat) (asData : Bool) (dataSize : Int) : Raw :=
  match retrieveData img lower a 1 with
  | (none, e) => { syms := syms, nData := 0, msgs := e, early := true }
  | (some ops, _) =>
    let op := ops.getD 0 0
    if asData then dataPart img lower syms a op true dataSize else
    match form1 op with
    | .unknown => dataPart img lower syms a op false dataSize
    | .plain f =>
      if f.jump = .vec then
        -- `callv`: the vector fetch may fail without ending the case; `nData -= 2` in either case
        match retrieveData img lower (0xffc0 + 2 * (op % 16)) 2 with
        | (some w, _) =>
          let r := finish lower syms a op 1 f [] "" (some (w.getD 1 0 * 256 + w.getD 0 0))
          { info := r.1, syms := r.2, nData := 1 }
        | (none, e) =>
          let r := finish lower syms a op 1 f [] "" none
          { info := r.1, syms := r.2, nData := wrap32 (1 - 2), msgs := e }
      else
        match retrieveData img lower (a + 1) f.n with
        | (none, e) => { syms := syms, nData := 1, msgs := e, early := true }
        | (some data, _) =>
          let r := finish lower syms a op 1 f data "" none
          { info := r.1, syms := r.2, nData := 1 + f.n }
    | .mem n k =>
      match retrieveData img lower (a + 1) n with
      | (none, e) => { syms := syms, nData := 1, msgs := e, early := true }
      | (some pd, _) =>
        prefixed img lower syms a op (1 + n) (1 + n) (prefixString lower k pd) "mem" memSel
    | .reg src => prefixed img lower syms a op 1 1 "" "reg prefix" (formReg src)

/-- `Disassemble_87C800` -/
def disassemble : Disasm := fun img lower syms a asData dataSize =>
  let r := raw img lower syms a asData dataSize
  if r.early then (r.info, r.syms, r.msgs)
  else ({ r.info with src := ouch r.info.src r.nData r.info.len }, r.syms, r.msgs)

/-- total length the two opcode bytes decide -/
def lenOf (op op2 : Nat) : Nat :=
  match form1 op with
  | .unknown => 1
  | .plain f => 1 + f.n
  | .mem n _ => (match formMem op2 with | some f => n + 2 + f.n | none => n + 2)
  | .reg src => (match formReg src op2 with | .ok f => 2 + f.n | .unknown => 2)

/-- where the second opcode byte lies, if the first one is a prefix -/
def prefixLen (op : Nat) : Nat :=
  match form1 op with
  | .mem n _ => 1 + n
  | .reg _ => 1
  | _ => 0

end AslModel.Dis.M87C
