import AslModel.Model.Dis.Core
import AslModel.Generated.Deco68
/-! MODEL of deco68.c (`Disassemble_68`, `MakeSymbolic`, `RetrieveData`) over the generated `OpcodeList`.  Core only.

`decode` is the `switch (pOpcode->Type)` for a known opcode on the bytes already fetched (structured result: mnemonic,
operand prefix, printed operand, `,x` suffix, length, successor mask, operand address); `disassemble` is the whole callback
(fetching through `RetrieveData`, which ends with the 64K address space, unknown opcodes and data lines). -/
namespace AslModel.Dis.M6800
open AslModel.Dis
open AslModel.Generated

def row (op : Nat) : Deco68.Row := Deco68.opcodeList.getD op Deco68.dummyOpcode

/-- number of operand bytes the callback reads for a row -/
def operandBytes (r : Deco68.Row) : Nat :=
  match r.typ with
  | .eUnknown | .eImplicit => 0
  | .eDirect | .eIndexed | .eRelative => 1
  | .eExtended => 2
  | .eImmediate => r.opSize + 1

/-- `CodeLen` for a known opcode -/
def instrLen (r : Deco68.Row) : Nat := 1 + operandBytes r

/-- operand value `OpAddr` -/
def opAddr (r : Deco68.Row) (a : Nat) (data : List Nat) : Nat :=
  let d0 := data.getD 0 0
  let d1 := data.getD 1 0
  match r.typ with
  | .eDirect | .eIndexed => d0
  | .eExtended => d0 * 256 + d1
  | .eImmediate => if r.opSize ≠ 0 then d0 * 256 + d1 else d0
  | .eRelative => (a + 2 + d0 + (if d0 ≥ 128 then 65536 - 256 else 0)) % 65536
  | _ => 0

def nexts (mask opAddr a len : Nat) : List Nat :=
  (if mask / 2 % 2 = 1 then [opAddr] else []) ++ (if mask % 2 = 1 then [(a + len) % 0xffff] else [])

/-- `MakeSymbolic` of deco68.c -/
def makeSymbolic (lower : Bool) (syms : Syms) (a addrLen : Nat) (pfx : Option String) : String × Syms :=
  match syms.lookup a with
  | some n => (n, syms)
  | none =>
    let h := hexString lower a (addrLen * 2)
    match pfx with
    | none => ("$" ++ h, syms)
    | some p => (p ++ h, syms.add (p ++ h) a)

/-- `RetrieveData(Address, buf, Count)` (since the repair bdcaec7 of deco68.c): the address space ends at $FFFF, a request that
reaches beyond it (`Address + Count > 0x10000`) fails like one that `RetrieveCodeFromChunkList` cannot answer - nothing is fetched
from address 0 any more.  One message line on failure, with the first address of the request. -/
def retrieveData (img : Image) (lower : Bool) (a count : Nat) : Option (List Nat) × List String :=
  if a + count > 0x10000 then (none, ["cannot retrieve instruction arg @ 0x" ++ hexString lower a 0]) else
  match retrieve img a count with
  | none => (none, ["cannot retrieve instruction arg @ 0x" ++ hexString lower a 0])
  | some bs => (some (bs.map UInt8.toNat), [])

/-- a decoded instruction -/
structure Dec where
  memo : List Char
  /-- `#` for the immediate forms, `>` for an extended-mode operand in page 0 (asl would choose direct addressing for the bare
  text; since the repair of deco68.c) -/
  pre : List Char
  /-- the operand as `MakeSymbolic` rendered it; `none` for the implicit forms -/
  atom : Option (List Char)
  /-- `,x` follows -/
  idx : Bool
  len : Nat
  next : Nat
  opAddr : Nat
  remark : Option String
deriving Repr

/-- `SrcLine` -/
def Dec.text (d : Dec) : List Char :=
  match d.atom with
  | none => d.memo
  | some t => d.memo ++ '\t' :: (d.pre ++ t ++ (if d.idx then [',', 'x'] else []))

/-- the cases of `switch (pOpcode->Type)` other than `default`, on the operand bytes `data` (exactly `operandBytes` many) -/
def decode (lower : Bool) (syms : Syms) (a op : Nat) (data : List Nat) : Option (Dec × Syms) :=
  let r := row op
  if data.length ≠ operandBytes r then none else
  let oa := opAddr r a data
  let len := instrLen r
  let memo := String.ofList r.memo
  match r.typ with
  | .eUnknown => none
  | .eImplicit => some (⟨r.memo, [], none, false, len, r.next, oa, none⟩, syms)
  | .eDirect =>
    let t := makeSymbolic lower syms oa 1 none
    some (⟨r.memo, [], some t.1.toList, false, len, r.next, oa, none⟩, t.2)
  | .eIndexed =>
    let t := makeSymbolic lower syms oa 1 none
    let rm := if r.next = 0 then some "indirect jump, investigate here"
      else if r.next = 1 ∧ memo = "jsr" then some "indirect subroutine call, investigate here" else none
    some (⟨r.memo, [], some t.1.toList, true, len, r.next, oa, rm⟩, t.2)
  | .eExtended =>
    let pfx := if r.next / 2 % 2 = 1 then some (if memo = "jsr" then "sub_" else "lab_") else none
    let t := makeSymbolic lower syms oa 2 pfx
    -- `"%s\t%s%s", Memo, (OpAddr < 0x100) ? ">" : "", pOp`
    some (⟨r.memo, if oa < 0x100 then ['>'] else [], some t.1.toList, false, len, r.next, oa, none⟩, t.2)
  | .eImmediate =>
    let t := makeSymbolic lower syms oa (r.opSize + 1) none
    some (⟨r.memo, ['#'], some t.1.toList, false, len, r.next, oa, none⟩, t.2)
  | .eRelative =>
    let t := makeSymbolic lower syms oa 2 (some (if memo = "bsr" then "sub_" else "lab_"))
    some (⟨r.memo, [], some t.1.toList, false, len, r.next, oa, none⟩, t.2)

/-- `Disassemble_68` -/
def disassemble : Disasm := fun img lower syms a asData dataSize =>
  match retrieveData img lower a 1 with
  | (none, e) => ({}, syms, e)
  | (some ops, _) =>
    let op := ops.getD 0 0
    let r := if asData then Deco68.dummyOpcode else row op
    if r.typ = .eUnknown then
      let ds : Int := if dataSize < 0 then 1 else dataSize
      let want := (ds - 1).toNat
      match retrieveData img lower (a + 1) want with
      | (none, e) => ({}, syms, e)
      | (some data, _) =>
        let e := if asData then [] else ["unknown opcode 0x" ++ hexString lower op 2 ++ " @ " ++ hexString lower a 0]
        let nd := 1 + want
        if ds = 2 then
          let oa := op * 256 + data.getD 0 0
          let (t, syms') := makeSymbolic lower syms oa 2 none
          let src := "adr\t" ++ t
          ({ len := 2, nexts := nexts r.next oa a 2, src := if nd = 2 then src else src ++ " ; ouch " ++ toString nd ++ " != 2" }, syms', e)
        else
          let src := "byt\t$" ++ hexString lower op 2
          ({ len := 1, nexts := nexts r.next 0 a 1, src := if nd = 1 then src else src ++ " ; ouch " ++ toString nd ++ " != 1" }, syms, e)
    else
      match retrieveData img lower (a + 1) (operandBytes r) with
      | (none, e) => ({}, syms, e)
      | (some data, _) =>
        match decode lower syms a op data with
        | none => ({}, syms, [])
        | some (dec, syms') =>
          ({ len := dec.len, nexts := nexts dec.next dec.opAddr a dec.len, src := String.ofList dec.text, remark := dec.remark }, syms', [])

end AslModel.Dis.M6800
