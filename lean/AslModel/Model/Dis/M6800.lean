import AslModel.Model.Dis.Core
import AslModel.Generated.Deco68
/-! MODEL of deco68.c (`Disassemble_68`, `MakeSymbolic`, `RetrieveData`) over the generated `OpcodeList`.  Core only. -/
namespace AslModel.Dis.M6800
open AslModel.Dis
open AslModel.Generated

def row (op : Nat) : Deco68.Row := Deco68.opcodeList.getD op Deco68.dummyOpcode

/-- number of operand bytes the callback reads for a row -/
def operandBytes (r : Deco68.Row) : Nat :=
  match r.typ with
  | .eUnknown | .eImplicit => 0
  | .eDirect | .eIndexed | .eRelative => 1
  | .eExtended => 2
  | .eImmediate => r.opSize + 1

/-- `CodeLen` for a known opcode -/
def instrLen (r : Deco68.Row) : Nat := 1 + operandBytes r

/-- operand value `OpAddr` -/
def opAddr (r : Deco68.Row) (a : Nat) (data : List Nat) : Nat :=
  let d0 := data.getD 0 0
  let d1 := data.getD 1 0
  match r.typ with
  | .eDirect | .eIndexed => d0
  | .eExtended => d0 * 256 + d1
  | .eImmediate => if r.opSize ≠ 0 then d0 * 256 + d1 else d0
  | .eRelative => (a + 2 + d0 + (if d0 ≥ 128 then 65536 - 256 else 0)) % 65536
  | _ => 0

def nexts (mask opAddr a len : Nat) : List Nat :=
  (if mask / 2 % 2 = 1 then [opAddr] else []) ++ (if mask % 2 = 1 then [(a + len) % 0xffff] else [])

/-- `MakeSymbolic` of deco68.c -/
def makeSymbolic (lower : Bool) (syms : Syms) (a addrLen : Nat) (pfx : Option String) : String × Syms :=
  match syms.lookup a with
  | some n => (n, syms)
  | none =>
    let h := hexString lower a (addrLen * 2)
    match pfx with
    | none => ("$" ++ h, syms)
    | some p => (p ++ h, syms.add (p ++ h) a)

def retrieveData (img : Image) (lower : Bool) (a count : Nat) : Option (List Nat) × List String :=
  if count = 0 then (some [], []) else
  match retrieve img a count with
  | some bs => (some (bs.map UInt8.toNat), [])
  | none => (none, ["cannot retrieve instruction arg @ 0x" ++ hexString lower a 0])

/-- `Disassemble_68` -/
def disassemble : Disasm := fun img lower syms a asData dataSize =>
  match retrieveData img lower a 1 with
  | (none, e) => ({}, syms, e)
  | (some ops, _) =>
    let op := ops.getD 0 0
    let r := if asData then Deco68.dummyOpcode else row op
    let memo := String.ofList r.memo
    if r.typ = .eUnknown then
      let ds : Int := if dataSize < 0 then 1 else dataSize
      let want := (ds - 1).toNat
      match retrieveData img lower (a + 1) want with
      | (none, e) => ({}, syms, e)
      | (some data, _) =>
        let e := if asData then [] else ["unknown opcode 0x" ++ hexString lower op 2 ++ " @ " ++ hexString lower a 0]
        let nd := 1 + want
        if ds = 2 then
          let oa := op * 256 + data.getD 0 0
          let (t, syms') := makeSymbolic lower syms oa 2 none
          let src := "adr\t" ++ t
          ({ len := 2, nexts := nexts r.next oa a 2, src := if nd = 2 then src else src ++ " ; ouch " ++ toString nd ++ " != 2" }, syms', e)
        else
          let src := "byt\t$" ++ hexString lower op 2
          ({ len := 1, nexts := nexts r.next 0 a 1, src := if nd = 1 then src else src ++ " ; ouch " ++ toString nd ++ " != 1" }, syms, e)
    else
      match retrieveData img lower (a + 1) (operandBytes r) with
      | (none, e) => ({}, syms, e)
      | (some data, _) =>
        let oa := opAddr r a data
        let len := instrLen r
        let (src, syms', remark) : String × Syms × Option String :=
          match r.typ with
          | .eImplicit => (memo, syms, none)
          | .eDirect =>
            let (t, s') := makeSymbolic lower syms oa 1 none
            (memo ++ "\t" ++ t, s', none)
          | .eIndexed =>
            let (t, s') := makeSymbolic lower syms oa 1 none
            let rm := if r.next = 0 then some "indirect jump, investigate here"
              else if r.next = 1 ∧ memo = "jsr" then some "indirect subroutine call, investigate here" else none
            (memo ++ "\t" ++ t ++ ",x", s', rm)
          | .eExtended =>
            let pfx := if r.next / 2 % 2 = 1 then some (if memo = "jsr" then "sub_" else "lab_") else none
            let (t, s') := makeSymbolic lower syms oa 2 pfx
            (memo ++ "\t" ++ t, s', none)
          | .eImmediate =>
            let (t, s') := makeSymbolic lower syms oa (r.opSize + 1) none
            (memo ++ "\t#" ++ t, s', none)
          | .eRelative =>
            let (t, s') := makeSymbolic lower syms oa 2 (some (if memo = "bsr" then "sub_" else "lab_"))
            (memo ++ "\t" ++ t, s', none)
          | .eUnknown => ("", syms, none)
        ({ len := len, nexts := nexts r.next oa a len, src := src, remark := remark }, syms', [])

end AslModel.Dis.M6800
