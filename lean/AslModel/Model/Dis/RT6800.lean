import AslModel.Model.Dis.M6800
import AslModel.Model.Dis.A6800
/-! The two 6800 models side by side (deco68.c ↔ code68.c): the classes of inputs on which the round trip is known to fail and
the table facts behind them.  Core only (linked into the driver). -/
namespace AslModel.Dis.M6800
open AslModel.Dis AslModel.Generated

/-- the inputs on which the round trip is known to fail (known findings of C15):
`$14` printed as `nba` (no such instruction in code68.c), `$34` printed as `dess`, `$C7` printed as `stab #…` (store immediate),
and the extended forms of the instructions that also have a direct form (`$B0…$BF`, `$F0…$FF` except `jsr`) when the
address high byte is 0 – the printed `$00xx` is assembled in direct mode. -/
def knownBad (op : Nat) (data : List Nat) : Bool :=
  op == 0x14 || op == 0x34 || op == 0xc7 ||
  ((row op).typ == .eExtended && decide (0xb0 ≤ op) && op != 0xbd && data.head? == some 0)

/-- the three table defects behind `knownBad` are present in the current tables (regenerated from deco68.c / code68.c): the rows
`$14` = `nba`, `$34` = `dess`, `$C7` = `stab` immediate, and code68.c knows neither NBA nor DESS and registers STAB without the
immediate mode.  The `C15_finding_6800_…` theorems take these facts as hypotheses, so that a repair of the tables does not break
them; the driver reports the value on every run (`defects=`), and the real tools decide whether the finding is still there. -/
def defectsPresent : Bool :=
  row 0x14 == ⟨.eImplicit, 0, 1, ['n', 'b', 'a']⟩ && A6800.lookup ['n', 'b', 'a'] == none &&
  row 0x34 == ⟨.eImplicit, 0, 0, ['d', 'e', 's', 's']⟩ && A6800.lookup ['d', 'e', 's', 's'] == none &&
  row 0xc7 == ⟨.eImmediate, 0, 1, ['s', 't', 'a', 'b']⟩ && A6800.lookup ['s', 't', 'a', 'b'] == some (.alu8 0x4187)

end AslModel.Dis.M6800
