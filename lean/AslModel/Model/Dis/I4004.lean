import AslModel.Model.Dis.Core
import AslModel.Generated.Deco4004
import AslModel.Generated.DisIsa4004
/-! MODEL of deco4004.c (`Disassemble_4004`, `MakeSymbolic`, `IntelHexString`, `RetrieveData`) over the generated
`OpcodeList`, and a minimal encoder written from code4004.c (`DecodeFixed`, `DecodeOneReg`, `DecodeOneRReg`,
`DecodeAccReg`, `DecodeImm4`, `DecodeFullJmp`, `DecodeISZ`, `DecodeJCN`, `DecodeFIM`) over the generated `InitFields`
call list.  Core only. -/
namespace AslModel.Dis.I4004
open AslModel.Dis
open AslModel.Generated

/-- operand of a decoded instruction, as the disassembler prints it and as the assembler parses it -/
inductive Arg where
  /-- `r<n>` -/
  | reg (n : Nat)
  /-- `r<p>p`, register pair number -/
  | rreg (p : Nat)
  /-- number printed in Intel hex syntax -/
  | num (v : Nat)
  /-- address printed as a label (`lab_XXXX`/`sub_XXXX`) whose value is `v` -/
  | addr (v : Nat)
  /-- JCN condition letters, as the 4-bit mask -/
  | cond (m : Nat)
deriving Repr, DecidableEq

structure Dec where
  memo : List Char
  args : List Arg
  len : Nat
  next : Nat
  opAddr : Nat
deriving Repr

def row (op : Nat) : Deco4004.Row := Deco4004.opcodeList.getD op Deco4004.dummyOpcode

/-- the `switch (pOpcode->Type)` of `Disassemble_4004` for a known opcode: `a` = Address, `op` = first byte,
`d` = second byte (only looked at by the two-byte forms).  `none` = `eUnknown`. -/
def decode (a op d : Nat) : Option Dec :=
  let r := row op
  match r.typ with
  | .eUnknown => none
  | .eImplicit => some ⟨r.memo, [], 1, r.next, 0⟩
  | .eFullAddr => some ⟨r.memo, [.addr (op % 16 * 256 + d)], 2, r.next, op % 16 * 256 + d⟩
  | .eJumpCond => some ⟨r.memo, [.cond (op % 16), .addr ((a + 2) / 256 % 16 * 256 + d)], 2, r.next, (a + 2) / 256 % 16 * 256 + d⟩
  | .eISZ => some ⟨r.memo, [.reg (op % 16), .addr ((a + 2) / 256 % 16 * 256 + d)], 2, r.next, (a + 2) / 256 % 16 * 256 + d⟩
  | .eFIM => some ⟨r.memo, [.rreg (op % 16 / 2), .num d], 2, r.next, 0⟩
  | .eOneReg => some ⟨r.memo, [.reg (op % 16)], 1, r.next, 0⟩
  | .eOneRReg => some ⟨r.memo, [.rreg (op % 16 / 2)], 1, r.next, 0⟩
  | .eImm4 => some ⟨r.memo, [.num (op % 16)], 1, r.next, 0⟩

def needsData (t : Deco4004.AddrType) : Bool :=
  match t with
  | .eFullAddr | .eJumpCond | .eISZ | .eFIM => true
  | _ => false

/-- `NextAddresses` of the callback: bit 1 = operand address, bit 0 = fall through (`% 0xfff` as in the C code) -/
def nexts (mask opAddr a len : Nat) : List Nat :=
  (if mask / 2 % 2 = 1 then [opAddr] else []) ++ (if mask % 2 = 1 then [(a + len) % 0xfff] else [])

/-! ### text -/

def intelHex (lower : Bool) (n digits : Nat) : String :=
  let ds := hexChars lower n digits
  let ds := match ds with
    | c :: _ => if c.isDigit then ds else '0' :: ds
    | [] => ds
  String.ofList (ds ++ ['h'])

/-- `MakeSymbolic(Address, AddrLen, prefix, …)` -/
def makeSymbolic (lower : Bool) (syms : Syms) (a addrLen : Nat) (pfx : Option String) : String × Syms :=
  match syms.lookup a with
  | some n => (n, syms)
  | none =>
    let h := hexChars lower a (addrLen * 2)
    match pfx with
    | none =>
      let s := match h with
        | c :: _ => if c.isDigit then String.ofList h else String.ofList ('0' :: h ++ ['h'])
        | [] => ""
      (s, syms)
    | some p =>
      let n := p ++ String.ofList h
      (n, syms.add n a)

def condLetters (m : Nat) : String :=
  (if m % 2 = 1 then "t" else "") ++ (if m / 2 % 2 = 1 then "c" else "") ++ (if m / 4 % 2 = 1 then "z" else "") ++
  (if m / 8 % 2 = 1 then "n" else "")

def argText (lower : Bool) (memo : String) (imm4 : Bool) (st : List String × Syms) (x : Arg) : List String × Syms :=
  match x with
  | .reg n => (st.1 ++ ["r" ++ toString n], st.2)
  | .rreg p => (st.1 ++ ["r" ++ toString p ++ "p"], st.2)
  | .num v => (st.1 ++ [intelHex lower v (if imm4 then 1 else 2)], st.2)
  | .cond m => (st.1 ++ [condLetters m], st.2)
  | .addr v =>
    let r := makeSymbolic lower st.2 v 2 (some (if memo = "jun" then "sub_" else "lab_"))
    (st.1 ++ [r.1], r.2)

/-- `SrcLine` of a decoded instruction -/
def srcLine (lower : Bool) (syms : Syms) (dec : Dec) : String × Syms :=
  let memo := String.ofList dec.memo
  let r := dec.args.foldl (argText lower memo (dec.len = 1)) ([], syms)
  (if r.1.isEmpty then memo else memo ++ "\t" ++ ",".intercalate r.1, r.2)

/-- `RetrieveData(Address, buf, 1)` -/
def fetch (img : Image) (lower : Bool) (a : Nat) : Option Nat × List String :=
  match retrieve img a 1 with
  | some [b] => (some b.toNat, [])
  | _ => (none, ["cannot retrieve instruction arg @ 0x" ++ hexString lower a 1])

/-- `Disassemble_4004` -/
def disassemble : Disasm := fun img lower syms a asData dataSize =>
  match fetch img lower a with
  | (none, e) => ({}, syms, e)
  | (some op, _) =>
    let r := if asData then Deco4004.dummyOpcode else row op
    if r.typ = .eUnknown then
      -- default branch: data
      let ds : Int := if dataSize < 0 then 1 else dataSize
      let want := (ds - 1).toNat
      -- RetrieveData(Address + 1, Data, DataSize - 1)
      let got : Option (List Nat) × List String :=
        if want = 0 then (some [], []) else
        match retrieve img (a + 1) want with
        | some bs => (some (bs.map UInt8.toNat), [])
        | none => (none, ["cannot retrieve instruction arg @ 0x" ++ hexString lower (a + 1) 1])
      match got with
      | (none, e) => ({}, syms, e)
      | (some data, _) =>
        let e := if asData then [] else ["unknown opcode 0x" ++ hexString lower op 2 ++ " @ 0x" ++ hexString lower a 0]
        if ds = 2 then
          let opAddr := op * 256 + data.getD 0 0
          let (t, syms') := makeSymbolic lower syms opAddr 2 none
          let nd := 1 + want
          let src := "dw\t" ++ t
          ({ len := 2, nexts := nexts r.next opAddr a 2, src := if nd = 2 then src else src ++ " ; ouch " ++ toString nd ++ " != 2" }, syms', e)
        else
          let nd := 1 + want
          let src := "db\t" ++ intelHex lower op 2
          ({ len := 1, nexts := nexts r.next 0 a 1, src := if nd = 1 then src else src ++ " ; ouch " ++ toString nd ++ " != 1" }, syms, e)
    else if needsData r.typ then
      match fetch img lower (a + 1) with
      | (none, e) => ({}, syms, e)
      | (some d, _) =>
        match decode a op d with
        | none => ({}, syms, [])
        | some dec =>
          let (src, syms') := srcLine lower syms dec
          ({ len := dec.len, nexts := nexts dec.next dec.opAddr a dec.len, src := src }, syms', [])
    else
      match decode a op 0 with
      | none => ({}, syms, [])
      | some dec =>
        let (src, syms') := srcLine lower syms dec
        ({ len := dec.len, nexts := nexts dec.next dec.opAddr a dec.len, src := src }, syms', [])

/-! ### assembler side (code4004.c) -/

def upper (cs : List Char) : List Char := cs.map Char.toUpper

/-- `LookupInstTable(InstTable, OpPart)` (names are stored upper case, the op part is upper-cased by the parser) -/
def asmRow (memo : List Char) : Option DisIsa4004.Row := DisIsa4004.instTable.find? (fun x => x.name == upper memo)

/-- `Hi(w)` -/
def hi (w : Nat) : Nat := w / 256 % 256

/-- the decoder an instruction name is registered with, applied to parsed operands at program counter `pc` for
`cpu` (0 = 4004, 1 = 4040); `none` = an error is reported, nothing is emitted.  A label operand arrives as its value;
`fpu` = `mFirstPassUnknownOrQuestionable(Flags)` of the address operand (a forward label in the first pass, whose value is then
the program counter): `ChkSamePage` (ISZ) and the page test of `DecodeJCN` (since its repair) do not judge such a value. -/
def encodeF (fpu : Bool) (cpu pc : Nat) (memo : List Char) (args : List Arg) : Option (List Nat) :=
  match asmRow memo with
  | none => none
  | some r =>
    match r.kind, args with
    | .fixed, [] => if r.minCpu ≤ cpu then some [r.code % 256] else none
    | .oneReg, [.reg n] => if n < 16 then some [r.code % 256 + n] else none
    | .accReg, [.reg n] => if n < 16 then some [r.code % 256 + n] else none
    | .oneRReg, [.rreg p] => if p < 8 then some [r.code % 256 + 2 * p] else none
    | .imm4, [.num v] => if v < 16 then some [v + r.code % 256] else none
    | .fullJmp, [.addr v] => if v < 4096 then some [0x40 + r.code * 16 + hi v, v % 256] else none
    | .isz, [.reg n, .addr v] =>
      -- `ChkSamePage(EProgCounter() + 2, Adr, 8, Flags)`
      if n < 16 ∧ v < 4096 ∧ ((pc + 2) / 256 = v / 256 ∨ fpu = true) then some [0x70 + n, v % 256] else none
    | .jcn, [.cond m, .addr v] =>
      -- `!mFirstPassUnknownOrQuestionable(Flags) && (Hi(EProgCounter() + 2) != Hi(AdrInt))` is the error case
      if m < 16 ∧ v < 4096 ∧ (fpu = true ∨ hi (pc + 2) = hi v) then some [16 + m, v % 256] else none
    | .fim, [.rreg p, .num v] => if p < 8 ∧ v < 256 then some [32 + 2 * p, v % 256] else none
    | _, _ => none

/-- the final pass: every symbol has its value, no flag is set -/
def encode (cpu pc : Nat) (memo : List Char) (args : List Arg) : Option (List Nat) := encodeF false cpu pc memo args

end AslModel.Dis.I4004
