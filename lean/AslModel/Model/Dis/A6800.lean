import AslModel.Generated.DisIsa6800
/-! MODEL of the 6800 part of code68.c as the ASSEMBLER side of the disassembler round trip (C15), for `MomCPU = CPU6800`:
`InitFields` with its wrappers `AddFixed`/`AddRel`/`AddALU8`/`AddALU16`/`AddSing8` (call list regenerated from the C source),
`DecodeAcc`, `DecodeAdr`, `DecodeFixed`, `DecodeRel`, `DecodeALU8`, `DecodeALU16`, `DecodeSing8`, `DecodeSing8_Acc`, `DecodeJMP`,
`DecodeJSR`, `DecodePSH_PUL`, the table look-up of `MakeCode_68` and the address-overflow test of as.c.  Core only.

Domain: one statement `<mnemonic>[<blanks><arg>{,<arg>}]` as dasl prints it into `SrcLine` (no label field, no comment, no blanks
inside the operand field).  An operand expression is either a Motorola hex constant `$<hex digits>` or a plain symbol name; the
symbol table `env` gives the value a name has in the final pass.  Result `none` = asl reports an error for the statement (or the
statement is outside this domain: pseudo-ops, `,Y`, bit instructions, expressions with operators). -/
namespace AslModel.Dis.A6800
open AslModel.Generated

/-- `MomCPU - CPU6800` of the modelled target -/
def cpu : Nat := DisIsa6800.cpu6800

/-- an `InstTable` entry: the decoder function and the `Word` it is called with (for the order arrays the indexed record) -/
inductive Handler where
  | fixed (code minCpu maxCpu : Nat)
  | rel (code minCpu : Nat)
  | alu8 (w : Nat)
  | alu16 (mayImm : Bool) (minCpu shift code : Nat)
  | sing8 (code : Nat)
  | sing8acc (code : Nat)
  | jmp
  | jsr
  | pshpul (code : Nat)
  | other
deriving Repr, DecidableEq, Inhabited

/-- the `AddInstTable` calls one statement of `InitFields()` makes (bodies of the `Add…` wrappers) -/
def expand : DisIsa6800.Call → List (List Char × Handler)
  | .inst n _ .jmp => [(n, .jmp)]
  | .inst n _ .jsr => [(n, .jsr)]
  | .inst n i .sing8acc => [(n, .sing8acc i)]
  | .inst n i .pshpul => [(n, .pshpul i)]
  | .inst n _ .other => [(n, .other)]
  | .fixed n mn mx c => [(n, .fixed c mn mx)]
  | .rel n mn c => [(n, .rel c mn)]
  | .alu8 p a b b2 mayImm c =>
    let base := c ||| (if mayImm then 0x8000 else 0)
    [(p, .alu8 (base ||| 0x200)), (a, .alu8 (base ||| 0x100)), (b, .alu8 (base ||| 0x100 ||| 0x4000))] ++
      (match b2 with
       | some n => [(n, .alu8 (base ||| 0x100 ||| 0x4000))]
       | none => [])
  | .alu16 n mayImm mn sh c => [(n, .alu16 mayImm mn sh c)]
  | .sing8 p a b c => [(p, .sing8 c), (a, .sing8acc c), (b, .sing8acc (c ||| 0x10))]

def instTable : List (List Char × Handler) := DisIsa6800.calls.flatMap expand

def upper (cs : List Char) : List Char := cs.map Char.toUpper

/-- `LookupInstTable(InstTable, OpPart)` (names are stored upper case, the op part is upper-cased by the parser) -/
def lookup (op : List Char) : Option Handler := (instTable.find? (fun x => x.1 == upper op)).map (·.2)

/-! ### operand expressions -/

def hexDigitVal (c : Char) : Option Nat :=
  if '0' ≤ c ∧ c ≤ '9' then some (c.toNat - 48)
  else if 'A' ≤ c ∧ c ≤ 'F' then some (c.toNat - 55)
  else if 'a' ≤ c ∧ c ≤ 'f' then some (c.toNat - 87)
  else none

def hexStep (acc : Option Nat) (c : Char) : Option Nat :=
  match acc, hexDigitVal c with
  | some v, some d => some (v * 16 + d)
  | _, _ => none

def hexVal (ds : List Char) : Option Nat := ds.foldl hexStep (some 0)

def isNameStart (c : Char) : Bool := c.isAlpha || c == '_'
def isNameChar (c : Char) : Bool := c.isAlphanum || c == '_'

/-- a symbol name of at least two characters made of letters, digits and `_` (so none of the register names A, B, X, Y) -/
def plainLabel : List Char → Bool
  | c :: d :: rest => isNameStart c && isNameChar d && rest.all isNameChar
  | _ => false

abbrev Env := List Char → Option Nat

/-- `EvalStrIntExpression…` on the two expression forms of the domain -/
def evalAtom (env : Env) (s : List Char) : Option Nat :=
  match s with
  | '$' :: ds => if ds = [] then none else hexVal ds
  | _ => if plainLabel s then env s else none

/-- …with the range check of an unsigned-or-signed integer type whose maximum is `max` (values here are never negative) -/
def evalMax (env : Env) (s : List Char) (max : Nat) : Option Nat :=
  match evalAtom env s with
  | some v => if v ≤ max then some v else none
  | none => none

/-! ### `DecodeAdr` -/

inductive Mode where
  | acc | dir | ext | ind | imm
deriving Repr, DecidableEq

/-- `AdrMode`, `AdrPart`, `AdrVals[0..AdrCnt)` -/
structure Adr where
  mode : Mode
  part : Nat
  vals : List Nat
deriving Repr, DecidableEq

/-- the mask `Erl` of allowed modes -/
structure Erl where
  acc : Bool := false
  dir : Bool := false
  ext : Bool := false
  ind : Bool := false
  imm : Bool := false

/-- `DecodeAcc` -/
def decodeAcc (s : List Char) : Option Nat :=
  match s with
  | [c] => if c.toUpper = 'A' then some 0 else if c.toUpper = 'B' then some 1 else none
  | _ => none

/-- the optional `<` (force direct, 2) / `>` (force extended, 1) in front of an absolute operand: `Bit8` and the rest -/
def absPrefix (s : List Char) : Nat × List Char :=
  match s with
  | '<' :: r => (2, r)
  | '>' :: r => (1, r)
  | _ => (0, s)

/-- the text after `#` when the argument starts with one -/
def immRest (s : List Char) : Option (List Char) :=
  match s with
  | '#' :: rest => some rest
  | _ => none

/-- the "absolut" branch of `DecodeAdr`: optional `<`/`>` prefix, `UInt16` value, direct/extended selection
(final pass: no first-pass-unknown symbols) -/
def decodeAbs (env : Env) (erl : Erl) (s : List Char) : Option Adr :=
  let p := absPrefix s
  let bit8 := p.1
  match evalMax env p.2 65535 with
  | none => none
  | some v =>
    if erl.dir ∧ bit8 ≠ 1 ∧ (bit8 = 2 ∨ erl.ext = false ∨ v / 256 = 0) then
      if v / 256 ≠ 0 then none else some ⟨.dir, 1, [v % 256]⟩
    else if erl.ext then some ⟨.ext, 3, [v / 256 % 256, v % 256]⟩
    else none

/-- `DecodeAdr(StartInd, StopInd, Erl)` on the arguments `StartInd..StopInd`; `none` = an error was reported (`AdrMode == ModNone`) -/
def decodeAdr (env : Env) (size16 : Bool) (erl : Erl) (args : List (List Char)) : Option Adr :=
  match args with
  | [s] =>
    match decodeAcc s with
    | some r => if erl.acc then some ⟨.acc, r, []⟩ else none
    | none =>
      match immRest s with
      | some rest =>
        -- `strlen > 1 && *p == '#'`
        if rest = [] then decodeAbs env erl s
        else if erl.imm then
          if size16 then (evalMax env rest 65535).map (fun v => ⟨.imm, 0, [v / 256 % 256, v % 256]⟩)
          else (evalMax env rest 255).map (fun v => ⟨.imm, 0, [v % 256]⟩)
        else none
      | none => decodeAbs env erl s
  | [s, r] =>
    if upper r = ['X'] then
      if erl.ind then (evalMax env s 255).map (fun v => ⟨.ind, 2, [v % 256]⟩) else none
    else none
  | _ => none

/-! ### the decoders -/

/-- `Lo(Code) | (AdrPart << 4) | (Acc << 6)` of `DecodeALU8` -/
def alu8Op (w part acc : Nat) : Nat := (w % 256 ||| (part <<< 4) ||| (acc <<< 6)) % 256

/-- `forder->Code + (AdrPart << 4)` of `DecodeALU16` (a `Byte`) -/
def alu16Op (code part : Nat) : Nat := (code + (part <<< 4)) % 256

/-- `Code | (AdrPart << 4)` of `DecodeSing8` -/
def sing8Op (code part : Nat) : Nat := (code ||| (part <<< 4)) % 256

/-- `0x4e + (AdrPart << 4)` / `0x8d + (AdrPart << 4)` of `DecodeJMP`/`DecodeJSR` -/
def jmpOp (base part : Nat) : Nat := (base + (part <<< 4)) % 256

/-- `AdrInt - (EProgCounter() + 2)` in the 16-bit `Integer` of `DecodeRel`, as the unsigned residue -/
def relDist (v pc : Nat) : Nat := (v + 2 * 65536 - (pc + 2) % 65536) % 65536

/-- prefix byte `DecodeALU16` adds for `PageShift` when no `,Y` prefix is present -/
def alu16Prefix (shift : Nat) (m : Mode) : List Nat :=
  if shift = 1 then [0x1a] else if shift = 3 then [if m = .ind then 0x1a else 0x18] else []

/-- the decoder `h` applied to the statement's op part and arguments at program counter `pc` -/
def encode (env : Env) (pc : Nat) (h : Handler) (opPart : List Char) (args : List (List Char)) : Option (List Nat) :=
  match h with
  | .fixed code mn mx =>
    if args = [] ∧ mn ≤ cpu ∧ cpu ≤ mx then
      if code / 256 % 256 ≠ 0 then some [code / 256 % 256, code % 256] else some [code % 256]
    else none
  | .rel code mn =>
    match args with
    | [t] =>
      if mn ≤ cpu then
        match evalMax env t 65535 with
        | some v =>
          let d := relDist v pc
          if d ≤ 127 ∨ 65536 - 128 ≤ d then some [code % 256, d % 256] else none
        | none => none
      else none
    | _ => none
  | .alu8 w =>
    let minArg0 := w / 256 % 4
    let minArg := if minArg0 = 2 ∧ (opPart.getD 2 ' ').toUpper = 'A' ∧ 1 ≤ args.length ∧ (decodeAcc (args.headD [])).isNone then 1 else minArg0
    if minArg ≤ args.length ∧ args.length ≤ minArg + 1 ∧ 1 ≤ minArg then
      match decodeAdr env false { dir := true, ext := true, ind := true, imm := w / 0x8000 % 2 = 1 } (args.drop (minArg - 1)) with
      | none => none
      | some adr =>
        if minArg = 1 then some (alu8Op w adr.part (w / 0x4000 % 2) :: adr.vals)
        else
          match decodeAdr env false { acc := true } (args.take 1) with
          | some r => some (alu8Op w adr.part r.part :: adr.vals)
          | none => none
    else none
  | .alu16 mayImm mn shift code =>
    if 1 ≤ args.length ∧ args.length ≤ 2 ∧ mn ≤ cpu then
      match decodeAdr env true { dir := true, ext := true, ind := true, imm := mayImm } args with
      | none => none
      | some adr => some (alu16Prefix shift adr.mode ++ alu16Op code adr.part :: adr.vals)
    else none
  | .sing8 code =>
    if 1 ≤ args.length ∧ args.length ≤ 2 then
      match decodeAdr env false { acc := true, ext := true, ind := true } args with
      | none => none
      | some adr => some (sing8Op code adr.part :: adr.vals)
    else none
  | .sing8acc code => if args = [] then some [code % 256] else none
  | .jmp =>
    if 1 ≤ args.length ∧ args.length ≤ 2 then
      match decodeAdr env false { ext := true, ind := true } args with
      | none => none
      | some adr => some (jmpOp 0x4e adr.part :: adr.vals)
    else none
  | .jsr =>
    if 1 ≤ args.length ∧ args.length ≤ 2 then
      match decodeAdr env false { ext := true, ind := true, dir := decide (DisIsa6800.cpu6801 ≤ cpu) } args with
      | none => none
      | some adr => some (jmpOp 0x8d adr.part :: adr.vals)
    else none
  | .pshpul code =>
    match args with
    | [s] =>
      match decodeAdr env false { acc := true } [s] with
      | some adr => some [(code ||| adr.part) % 256]
      | none => none
    | _ => none
  | .other => none

/-! ### statement -/

def isBlank (c : Char) : Bool := c == ' ' || c == '\t'

/-- split at every `,` (`DivideChars`) -/
def splitComma : List Char → List (List Char)
  | [] => [[]]
  | c :: cs =>
    if c = ',' then [] :: splitComma cs
    else match splitComma cs with
      | x :: xs => (c :: x) :: xs
      | [] => [[c]]

/-- op part = up to the first blank, arguments = the rest (after the blanks) split at commas -/
def splitStmt (s : List Char) : List Char × List (List Char) :=
  let op := s.takeWhile (fun c => !isBlank c)
  let rest := (s.dropWhile (fun c => !isBlank c)).dropWhile isBlank
  (op, if rest = [] then [] else splitComma rest)

/-- `SegLimits[SegCode] + 1` for the 6800 -/
def addrSpace : Nat := 0x10000

/-- one machine statement at `pc`: the bytes asl emits, `none` = error -/
def assemble (env : Env) (pc : Nat) (stmt : List Char) : Option (List Nat) :=
  let p := splitStmt stmt
  match lookup p.1 with
  | none => none
  | some h =>
    match encode env pc h p.1 p.2 with
    | none => none
    | some bs => if pc + bs.length ≤ addrSpace then some bs else none

end AslModel.Dis.A6800
