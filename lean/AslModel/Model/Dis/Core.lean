/-! MODEL of the target-independent part of `dasl`:
das.c (`CMD_EntryAddress`, the tracing loop of `main`, `IterateChunks`, `DisasmIterator`, `DumpChunks`,
`tabbedstrlen`, `PrTabs`), chunks.c (`Overlap`, `SetChunk`, `AddChunk`, `AddressInChunk`, `SortChunks`),
entryaddress.c (`AddEntryAddress`, `GetEntryAddress`), codechunks.c (`MoveCodeChunkToList`,
`RetrieveCodeFromChunkList`, `GetCodeChunksStored`), invaddress.c, strutil.c `HexString`.  Core only.

Two chunk-list models are kept side by side: `addChunkC` transcribes chunks.c's array algorithm (swap-with-last
removal, merge scan from index 1); `ins` is the normalised interval-set insertion.  The machine runs on the arrays
(`codeC`/`dataC`: `AddressInChunk` for the entry queue, `SortChunks` before the output) and carries the interval-set lists
`code`/`data` as ghost state.  `Lemmas/DisChunksRefine.lean` proves that `SortChunks` of the array *is* the interval-set list
for every insertion history (`C15_chunks_refine`, `C15_run_refine` in `Props/C15.lean`); the driver still reports the
comparison on every run (`l1=eq`) as a test. -/
namespace AslModel.Dis

/-! ## loaded image (codechunks.c) -/

structure CodeChunk where
  start : Nat
  data : List UInt8
deriving Repr

abbrev Image := List CodeChunk

/-- `MoveCodeChunkToList`: sorted in before the first chunk with a greater `Start` -/
def imageInsert (c : CodeChunk) : Image → Image
  | [] => [c]
  | x :: xs => if x.start > c.start then c :: x :: xs else x :: imageInsert c xs

def imageStored (img : Image) : Nat := img.foldl (fun s c => s + c.data.length) 0

/-- the bytes `RetrieveCodeFromChunkList` copies in one round of its `while`: from the first chunk that is not empty and holds
the first address still missing (`OverlapStart == Start`), the part of `[start, start+count-1]` that lies in it -/
def overlapPart (start count : Nat) : Image → Option (List UInt8)
  | [] => none
  | c :: cs =>
    let os := max c.start start
    let oe := min (c.start + c.data.length - 1) (start + count - 1)
    if 0 < c.data.length ∧ os = start ∧ os ≤ oe then some ((c.data.drop (os - c.start)).take (oe - os + 1))
    else overlapPart start count cs

/-- `RetrieveCodeFromChunkList(list, Start, buf, Count)`: `Start` advances with the bytes copied (since the repair of
codechunks.c), so every round continues where the round before ended; `none` = `False` (some address is in no chunk).
`retrieveCopied` below gives the bytes that were copied into the buffer before the function gave up. -/
def retrieveF (img : Image) (start : Nat) : Nat → Nat → Option (List UInt8)
  | _, 0 => some []
  | 0, _ => none
  | fuel + 1, count =>
    match overlapPart start count img with
    | none => none
    | some part =>
      if part.length = 0 then none
      else (retrieveF img (start + part.length) fuel (count - part.length)).map (part ++ ·)

/-- the bytes `RetrieveCodeFromChunkList` has copied to `pData` when it returns (all of them on success, the leading part that
could be found on failure) -/
def retrieveCopiedF (img : Image) (start : Nat) : Nat → Nat → List UInt8
  | _, 0 => []
  | 0, _ => []
  | fuel + 1, count =>
    match overlapPart start count img with
    | none => []
    | some part =>
      if part.length = 0 then []
      else part ++ retrieveCopiedF img (start + part.length) fuel (count - part.length)

def retrieveCopied (img : Image) (start count : Nat) : List UInt8 := retrieveCopiedF img start count count

def retrieve (img : Image) (start count : Nat) : Option (List UInt8) := retrieveF img start count count

/-- address is a byte of the loaded image -/
def inImage (img : Image) (a : Nat) : Prop := ∃ c ∈ img, c.start ≤ a ∧ a < c.start + c.data.length

def inImageB (img : Image) (a : Nat) : Bool := img.any (fun c => c.start ≤ a && a < c.start + c.data.length)

def imageByte (img : Image) (a : Nat) : Option UInt8 :=
  match img.find? (fun c => c.start ≤ a && a < c.start + c.data.length) with
  | some c => c.data[a - c.start]?
  | none => none

/-! ## numbers and tabs (strutil.c `HexString`, das.c `tabbedstrlen`/`PrTabs`) -/

def hexDigitChar (lower : Bool) (d : Nat) : Char :=
  if d < 10 then Char.ofNat (48 + d) else Char.ofNat ((if lower then 87 else 55) + d)

def hexDigitsF (lower : Bool) : Nat → Nat → List Char → List Char
  | 0, _, acc => acc
  | fuel + 1, n, acc =>
    let acc := hexDigitChar lower (n % 16) :: acc
    if n / 16 = 0 then acc else hexDigitsF lower fuel (n / 16) acc

/-- `HexString(buf, size, Num, Digits)`: at least one digit, padded with zeros to `digits` -/
def hexChars (lower : Bool) (n digits : Nat) : List Char :=
  let ds := hexDigitsF lower 17 n []
  List.replicate (digits - ds.length) '0' ++ ds

def hexString (lower : Bool) (n digits : Nat) : String := String.ofList (hexChars lower n digits)

def tabSize : Nat := 8

def tabbedStrLen (s : String) : Nat :=
  s.toList.foldl (fun r c => if c = '\t' then r + (tabSize - r % tabSize) else r + 1) 0

def prTabsF : Nat → Nat → Nat → String → String
  | 0, _, _, acc => acc
  | fuel + 1, target, this, acc =>
    if this < target then prTabsF fuel target (this + (tabSize - this % tabSize)) (acc.push '\t') else acc

def prTabs (target this : Nat) : String := prTabsF (target + 1) target this ""

/-! ## inverse symbols (invaddress.c) -/

structure Syms where
  tab : List (Nat × String) := []
  maxLen : Nat := 0
deriving Repr

def Syms.lookup (s : Syms) (a : Nat) : Option String := (s.tab.find? (fun p => p.1 == a)).map (·.2)

/-- `AddInvSymbol`: the length maximum is always updated, an existing address keeps its first name -/
def Syms.add (s : Syms) (name : String) (a : Nat) : Syms :=
  { tab := if (s.tab.any (fun p => p.1 == a)) then s.tab else s.tab ++ [(a, name)],
    maxLen := max s.maxLen name.length }

/-! ## address-range lists (chunks.c) -/

structure Chunk where
  start : Nat
  len : Nat
deriving Repr, DecidableEq, Inhabited

def overlap (s1 l1 s2 l2 : Nat) : Bool :=
  s1 == s2 || (decide (s2 > s1) && decide (s1 + l1 ≥ s2)) || (decide (s1 > s2) && decide (s2 + l2 ≥ s1))

/-- `SetChunk` -/
def hull (s1 l1 s2 l2 : Nat) : Chunk :=
  let s := min s1 s2
  ⟨s, max (s1 + l1 - 1) (s2 + l2 - 1) - s + 1⟩

def findIdxFrom (p : Chunk → Bool) : Nat → List Chunk → Option Nat
  | _, [] => none
  | i, c :: cs => if p c then some i else findIdxFrom p (i + 1) cs

/-- the `do … while (Found)` loop of `AddChunk`: `cur` is the content of `Chunks[f1]` (the C code keeps reading that
slot even if the shrinking `RealLen` has moved past it) -/
def mergeLoopC : Nat → List Chunk → Nat → Chunk → List Chunk
  | 0, l, _, _ => l
  | fuel + 1, l, f1, cur =>
    let idx := (List.range l.length).find? (fun z => decide (1 ≤ z) && z != f1 &&
      overlap (l.getD z default).start (l.getD z default).len cur.start cur.len)
    match idx with
    | none => l
    | some f2 =>
      let c2 := l.getD f2 default
      let cur' := hull cur.start cur.len c2.start c2.len
      let l1 := l.set f1 cur'
      let l2 := (l1.set f2 (l1.getD (l1.length - 1) default)).dropLast
      mergeLoopC fuel l2 f1 cur'

/-- `AddChunk(list, NewStart, NewLen, …)` as chunks.c does it (unsorted array) -/
def addChunkC (l : List Chunk) (s n : Nat) : List Chunk :=
  if n = 0 then l else
  match findIdxFrom (fun c => overlap s n c.start c.len) 0 l with
  | some f1 =>
    let c := l.getD f1 default
    let cur := hull s n c.start c.len
    mergeLoopC l.length (l.set f1 cur) f1 cur
  | none => l ++ [⟨s, n⟩]

/-- insertion into a sorted list of separated, non-empty ranges: every range that overlaps or touches the new piece
is fused with it (the abstract content of `AddChunk`) -/
def ins (s n : Nat) : List Chunk → List Chunk
  | [] => [⟨s, n⟩]
  | c :: cs =>
    if s + n < c.start then ⟨s, n⟩ :: c :: cs
    else if c.start + c.len < s then c :: ins s n cs
    else ins (min s c.start) (max (s + n) (c.start + c.len) - min s c.start) cs

def addChunk (l : List Chunk) (s n : Nat) : List Chunk := if n = 0 then l else ins s n l

/-- `AddressInChunk` -/
def inChunks (l : List Chunk) (a : Nat) : Bool := l.any (fun c => decide (c.start ≤ a) && decide (a + 1 ≤ c.start + c.len))

def insertSorted (c : Chunk) : List Chunk → List Chunk
  | [] => [c]
  | x :: xs => if c.start < x.start then c :: x :: xs else x :: insertSorted c xs

/-- `SortChunks` (starts are pairwise different, so the order `qsort` produces is determined) -/
def sortChunks (l : List Chunk) : List Chunk := l.foldl (fun acc c => insertSorted c acc) []

/-! ## entry address queue (entryaddress.c) -/

def addEntry (a : Nat) : List Nat → List Nat
  | [] => [a]
  | x :: xs => if x = a then x :: xs else if x > a then a :: x :: xs else x :: addEntry a xs

def getEntry (pref : Option Nat) (q : List Nat) : Option (Nat × List Nat) :=
  match q with
  | [] => none
  | x :: xs =>
    match pref with
    | some p => if q.contains p then some (p, q.erase p) else some (x, xs)
    | none => some (x, xs)

/-! ## the per-CPU callback -/

structure DisInfo where
  len : Nat := 0
  nexts : List Nat := []
  src : String := ""
  remark : Option String := none
deriving Repr

/-- `Disassemble(Address, &Info, IsData, DataSize)`: image, lower-case flag, symbols in; info, symbols, stderr lines out -/
abbrev Disasm := Image → Bool → Syms → Nat → Bool → Int → DisInfo × Syms × List String

/-! ## das.c main(): tracing loop -/

structure TState where
  queue : List Nat := []
  code : List Chunk := []
  /-- `UsedCodeChunks`: the array as chunks.c keeps it -/
  codeC : List Chunk := []
  data : List Chunk := []
  /-- `UsedDataChunks`: the array as chunks.c keeps it -/
  dataC : List Chunk := []
  syms : Syms := {}
  maxSrc : Nat := 0
  pref : Option Nat := none
  err : List String := []
  out : List String := []
  /-- ghost: the extents `(Address, CodeLen)` handed to `AddChunk(&UsedCodeChunks, …)` -/
  traced : List (Nat × Nat) := []
  /-- ghost: the extents handed to `AddChunk(&UsedDataChunks, …)` -/
  vectors : List (Nat × Nat) := []
deriving Repr

def queueNexts (code : List Chunk) (nexts : List Nat) (q : List Nat) : List Nat :=
  nexts.foldl (fun q n => if inChunks code n then q else addEntry n q) q

/-- one round of `while (EntryAddressAvail())` -/
def traceStep (dis : Disasm) (img : Image) (lower : Bool) (s : TState) (a : Nat) (q : List Nat) : TState :=
  let r := dis img lower s.syms a false (-1)
  let info := r.1
  let codeC := addChunkC s.codeC a info.len
  { s with
    queue := queueNexts codeC info.nexts q
    code := addChunk s.code a info.len
    codeC := codeC
    syms := r.2.1
    maxSrc := max s.maxSrc (tabbedStrLen info.src)
    pref := some (a + info.len)
    err := s.err ++ r.2.2
    traced := if info.len = 0 then s.traced else (a, info.len) :: s.traced }

def traceLoop (dis : Disasm) (img : Image) (lower : Bool) : Nat → TState → TState × Bool
  | 0, s => (s, s.queue.isEmpty)
  | fuel + 1, s =>
    match getEntry s.pref s.queue with
    | none => (s, true)
    | some (a, q) => traceLoop dis img lower fuel (traceStep dis img lower s a q)

/-! ## command line: `-entryaddress` -/

inductive Entry where
  /-- `-entryaddress <address>` -/
  | direct (a : Nat)
  /-- `-entryaddress (<vector address>,<length>,MSB|LSB)[,<name>]` -/
  | vector (va len : Nat) (msb : Bool) (name : Option String)
deriving Repr

def vecValue (bs : List UInt8) (msb : Bool) : Nat :=
  (if msb then bs else bs.reverse).foldl (fun acc b => acc * 256 + b.toNat) 0

/-- `CMD_EntryAddress`; `none` = the option is rejected (vector data not retrievable) -/
def cmdEntry (img : Image) (lower : Bool) (s : TState) : Entry → Option TState
  | .direct a => some { s with queue := addEntry a s.queue }
  | .vector va len msb name =>
    match retrieve img va len with
    | none => none
    | some bs =>
      let addr := vecValue bs msb
      let line := "indirect address @ " ++ hexString lower va 0 ++ " -> 0x" ++ hexString lower addr 0
      let syms := match name with
        | some n => (s.syms.add ("Vector_" ++ toString len ++ "_" ++ n) va).add n addr
        | none => s.syms
      some { s with
        err := s.err ++ [line]     -- on stderr since the repair of das.c (it used to be printed into the generated source)
        data := addChunk s.data va len
        dataC := addChunkC s.dataC va len
        vectors := if len = 0 then s.vectors else (va, len) :: s.vectors
        syms := syms
        queue := addEntry addr s.queue }

def cmdEntries (img : Image) (lower : Bool) : TState → List Entry → Option TState
  | s, [] => some s
  | s, e :: es =>
    match cmdEntry img lower s e with
    | none => none
    | some s' => cmdEntries img lower s' es

/-! ## output: `IterateChunks`, `DisasmIterator`, `DumpChunks` -/

/-- merge of the two sorted lists as `IterateChunks` walks them: `(chunk, IsData)` -/
def iterateChunks : Nat → List Chunk → List Chunk → List (Chunk × Bool)
  | 0, _, _ => []
  | _, [], ds => ds.map (·, true)
  | _, cs, [] => cs.map (·, false)
  | fuel + 1, c :: cs, d :: ds =>
    if d.start < c.start then (d, true) :: iterateChunks fuel (c :: cs) ds
    else (c, false) :: iterateChunks fuel cs (d :: ds)

/-- DataSize from a label `Vector_<n>_<name>` -/
def vectorSize (label : String) : Option Int :=
  if label.startsWith "Vector_" then
    let rest := (label.drop 7).toString
    match rest.splitOn "_" with
    | num :: _ :: _ => match num.toNat? with
      | some n => some (Int.ofNat n)
      | none => some (-1)
    | _ => none
  else none

structure OState where
  syms : Syms
  err : List String
  out : List String
  dataSize : Int
  hang : Bool := false
  /-- `Byte Code[100]` of `DisasmIterator`: what the dump loop prints.  A local array without initialiser – `none` = never written
  in this call -/
  codeBuf : List (Option UInt8) := []

/-- a hex digit of a byte the C program reads from memory it never wrote: the driver accepts any character there -/
def undefMark : Char := Char.ofNat 2

/-- `memcpy` of the bytes `RetrieveCodeFromChunkList` copied into `Code`, the rest of the array stays as it was -/
def bufStore (buf : List (Option UInt8)) (bs : List UInt8) : List (Option UInt8) := bs.map some ++ buf.drop bs.length

/-- model text against the real text: equal up to the characters marked as undefined in the model's text -/
def matchesUndef (model real : String) : Bool :=
  let m := model.toList
  let r := real.toList
  m.length == r.length && (m.zip r).all (fun p => p.1 == p.2 || p.1 == undefMark)

/-- the `while (Address < Start + Length)` loop of `DisasmIterator` -/
def disasmLines (dis : Disasm) (img : Image) (lower : Bool) (maxSrc maxLab : Nat) (isData : Bool) (stop : Nat) :
    Nat → Nat → OState → OState
  | 0, _, o => { o with hang := true }
  | fuel + 1, a, o =>
    if a < stop then
      let label := o.syms.lookup a
      let ds := match label with
        | some l => if isData then (match vectorSize l with | some n => n | none => o.dataSize) else o.dataSize
        | none => o.dataSize
      let r := dis img lower o.syms a isData ds
      let info := r.1
      -- `if (!Info.CodeLen) break;` (since the repair of das.c: nothing could be retrieved here, the area extends beyond the loaded
      -- image; before it the same line was printed forever)
      if info.len = 0 then { o with syms := r.2.1, err := o.err ++ r.2.2, dataSize := ds } else
      let l0 := match info.remark with
        | some rm => prTabs maxLab 0 ++ "; " ++ rm ++ "\n"
        | none => ""
      let l1 := match label with
        | some l => l ++ ":" ++ prTabs maxLab (tabbedStrLen l + 1)
        | none => prTabs maxLab 0
      -- `RetrieveCodeFromChunkList(&CodeChunks, Address, Code, Info.CodeLen)` (result ignored), then `Code[0..CodeLen)` is printed
      let buf := bufStore o.codeBuf (retrieveCopied img a info.len)
      let bytes := (List.range info.len).map (fun z => (buf[z]?).getD none)
      let l2 := info.src ++ prTabs maxSrc (tabbedStrLen info.src) ++ ";" ++
        String.join (bytes.map (fun b => match b with
          | some b => " " ++ hexString lower b.toNat 2
          | none => " " ++ String.ofList [undefMark, undefMark])) ++ "\n"
      let o' := { o with syms := r.2.1, err := o.err ++ r.2.2, out := o.out ++ [l0 ++ l1 ++ l2], dataSize := ds, codeBuf := buf }
      disasmLines dis img lower maxSrc maxLab isData stop fuel (a + info.len) o'
    else o

def disasmIterator (dis : Disasm) (img : Image) (lower : Bool) (maxSrc maxLab : Nat) (o : OState) (c : Chunk) (isData : Bool) : OState :=
  let head := "\n" ++ prTabs maxLab 0 ++ "org\t" ++ toString c.start ++ "\n"
  disasmLines dis img lower maxSrc maxLab isData (c.start + c.len) (c.len + 1) c.start
    { o with out := o.out ++ [head], dataSize := -1, codeBuf := [] }

def dumpChunks (lower : Bool) (img : Image) (areas : List (Chunk × Bool)) : List String :=
  let sum := areas.foldl (fun s p => s + p.1.len) 0
  ["\t\t; disassembled area:\n"] ++
  areas.map (fun p => "\t\t; " ++ hexString lower p.1.start 0 ++ "..." ++ hexString lower (p.1.start + p.1.len - 1) 0 ++
    " (" ++ (if p.2 then "data" else "code") ++ ")\n") ++
  ["\t\t; " ++ hexString lower sum 0 ++ "/" ++ hexString lower (imageStored img) 0 ++ " bytes disassembled\n"]

structure Result where
  /-- `none`: an `-entryaddress` option was rejected -/
  ok : Bool
  stdout : String
  stderr : List String
  areas : List (Chunk × Bool)
  /-- the arrays `UsedCodeChunks` / `UsedDataChunks` before `SortChunks` -/
  codeC : List Chunk
  dataC : List Chunk
  /-- ghost: the interval-set lists (`ins`) built from the same insertions -/
  codeS : List Chunk
  dataS : List Chunk
  traced : List (Nat × Nat)
  vectors : List (Nat × Nat)
  /-- fuel ran out: the C program would not terminate (a zero-length line inside an area used to be such a case; das.c now
  leaves the area at that line) -/
  hang : Bool

/-- whole run: options in command-line order, trace, output -/
def runDasl (dis : Disasm) (img : Image) (lower : Bool) (entries : List Entry) (fuel : Nat) : Result :=
  match cmdEntries img lower {} entries with
  | none => ⟨false, "", [], [], [], [], [], [], [], [], false⟩
  | some s0 =>
    let (s, done) := traceLoop dis img lower fuel s0
    let maxSrc := s.maxSrc + (tabSize - s.maxSrc % tabSize)
    let ml := s.syms.maxLen + 1
    let maxLab := ml + (tabSize - ml % tabSize)
    let code := sortChunks s.codeC
    let data := sortChunks s.dataC
    let areas := iterateChunks (code.length + data.length + 1) code data
    let o := areas.foldl (fun o p => if o.hang then o else disasmIterator dis img lower maxSrc maxLab o p.1 p.2)
      { syms := s.syms, err := s.err, out := s.out, dataSize := -1 }
    ⟨true, String.join (o.out ++ dumpChunks lower img areas), o.err, areas, s.codeC, s.dataC, s.code, s.data, s.traced, s.vectors, o.hang || !done⟩

end AslModel.Dis
