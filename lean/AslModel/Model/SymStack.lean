import AslModel.Spec.SymStack
/-!
# PUSHV / POPV — MODEL (C03): transcription of `asmpars.c PushSymbol / PopSymbol / ClearStacks` and
`asmallg.c CodePUSHV / CodePOPV` at the level of the linked lists

`FirstStack` is a singly linked list of `TSymbolStack` records (`Name`, `Contents`, `Next`) kept in `strcmp` order;
`Contents` is a singly linked list of `TSymbolStackEntry` (`Contents : TempResult`, `Next`).  Both are Lean lists here,
but - unlike the abstract stacks of `Model/Sym.lean` (C13) - a record with `Contents == NULL` *is representable*:
`PopSymbol` reads `LStack->Contents->Contents` without a test, so the model's `popSymbol` answers `Fault.nullDeref`
for such a record.  That no reachable state contains one is a theorem (`Props/C03_Stacks.lean`), not a convention.

Simplifications, stated: symbol names are looked up in a flat table (no sections, no temporaries: the generated
programs have none; `Model/Sym.lean` has the scoped lookup); `ChkSymbName` is the ASCII part of `ValidSymChar`
(letters, digits, `_`, `.`; no digit in front); `ExpandStrSymbol` is the identity (no `{...}` in the names).
Only types `SymStackSpec.Val`/`Sym`/`Name` are shared with the SPEC.  Core-only imports.
-/
namespace AslModel.SymStack
open AslModel.SymStackSpec (Name Val Sym)

/-- one `TSymbolStack` record -/
structure Node where
  name : Name
  contents : List Val
deriving Repr, DecidableEq

inductive Fault where
  | nullDeref          -- `Elem = LStack->Contents` is NULL and `Elem->Contents` is read
deriving Repr, DecidableEq

/-- what the run prints: error / warning numbers and message texts, in order -/
inductive Out where
  | err (n : Nat)
  | msg (v : Option Val)
deriving Repr, DecidableEq

structure St where
  cs : Bool := false                 -- CaseSensitive
  syms : List (Name × Sym) := []     -- symbol table (names as stored: folded unless case sensitive)
  stacks : List Node := []           -- FirstStack
  out : List Out := []
deriving Repr

def errSymbolUndef : Nat := 1010
def errInvSymName : Nat := 1020
def errStackEmpty : Nat := 1530
def errConstantRedefinedAsVariable : Nat := 2030
def warnStackNotEmpty : Nat := 230

def St.emit (st : St) (o : Out) : St := { st with out := st.out ++ [o] }

def upc (c : Nat) : Nat := if 97 ≤ c ∧ c ≤ 122 then c - 32 else c
/-- `NLS_UpString` unless `CaseSensitive` -/
def fold (cs : Bool) (n : Name) : Name := if cs then n else n.map upc

/-- `strcmp(a, b) < 0` on the character codes -/
def strcmpLt : Name → Name → Bool
  | [], [] => false
  | [], _ :: _ => true
  | _ :: _, [] => false
  | a :: r, b :: s => decide (a < b) || (a == b && strcmpLt r s)

def defStackName : Name := [68, 69, 70, 83, 84, 65, 67, 75]   -- asmdef.h DefStackName "DEFSTACK"

/-- `if (*pStackName->str.p_str) ExpandStrSymbol(...) else strmaxcpy(ExpStackName, DefStackName, ...)`; the caller
(`CodePUSHV`/`CodePOPV`) has upper-cased the argument unless `CaseSensitive` -/
def stackNameOf (cs : Bool) (written : Name) : Name := if written.isEmpty then defStackName else fold cs written

def isLetter (c : Nat) : Bool := (decide (65 ≤ c) && decide (c ≤ 90)) || (decide (97 ≤ c) && decide (c ≤ 122))
def isDigit (c : Nat) : Bool := decide (48 ≤ c) && decide (c ≤ 57)

/-- `ChkSymbName` (ASCII part of the table) -/
def chkSymbName : Name → Bool
  | [] => false
  | c :: r => (isLetter c || c == 95 || c == 46) && r.all (fun d => isLetter d || isDigit d || d == 95 || d == 46)

def findSym (syms : List (Name × Sym)) (x : Name) : Option Sym :=
  match syms with
  | [] => none
  | (n, s) :: r => if n = x then some s else findSym r x

def setSym (syms : List (Name × Sym)) (x : Name) (s : Sym) : List (Name × Sym) :=
  match syms with
  | [] => [(x, s)]
  | (n, t) :: r => if n = x then (n, s) :: r else (n, t) :: setSym r x s

/-- the list walk and the insertion of `PushSymbol`: `while (LStack && strcmp(LStack->Name, k) < 0) ...`, a new record
in front of the first one that is not smaller, the entry linked in front of `Contents` -/
def pushInto : List Node → Name → Val → List Node
  | [], k, v => [⟨k, [v]⟩]
  | n :: r, k, v =>
    if strcmpLt n.name k then n :: pushInto r k v
    else if strcmpLt k n.name then ⟨k, [v]⟩ :: n :: r
    else ⟨n.name, v :: n.contents⟩ :: r

inductive PopRes where
  | notFound                                   -- `!LStack || strcmp(LStack->Name, k) > 0`
  | null                                       -- the record is there, `Contents` is NULL
  | refused                                    -- target not changeable and the value differs
  | popped (v : Val) (stacks : List Node)
deriving Repr

/-- the list walk of `PopSymbol` and what it does to the record it finds; `accept v`: the target may take `v` -/
def popFrom (accept : Val → Bool) : List Node → Name → PopRes
  | [], _ => .notFound
  | n :: r, k =>
    if strcmpLt n.name k then
      match popFrom accept r k with
      | .popped v s => .popped v (n :: s)
      | x => x
    else if strcmpLt k n.name then .notFound
    else
      match n.contents with
      | [] => .null
      | v :: rest =>
        if !accept v then .refused
        -- `LStack->Contents = Elem->Next; if (!LStack->Contents) { unlink and free the record }`
        else .popped v (if rest.isEmpty then r else ⟨n.name, rest⟩ :: r)

/-- `SameSymbolValue` -/
def sameValue (a b : Val) : Bool := a == b

/-- `PushSymbol(sym, stack)` -/
def pushSymbol (st : St) (x written : Name) : St :=
  match findSym st.syms (fold st.cs x) with
  | none => st.emit (.err errSymbolUndef)
  | some s =>
    if !chkSymbName (stackNameOf st.cs written) then st.emit (.err errInvSymName)
    else { st with stacks := pushInto st.stacks (stackNameOf st.cs written) s.val }

/-- `PopSymbol(sym, stack)` -/
def popSymbol (st : St) (x written : Name) : Except Fault St :=
  match findSym st.syms (fold st.cs x) with
  | none => .ok (st.emit (.err errSymbolUndef))
  | some s =>
    if !chkSymbName (stackNameOf st.cs written) then .ok (st.emit (.err errInvSymName))
    else
      match popFrom (fun v => s.changeable || sameValue s.val v) st.stacks (stackNameOf st.cs written) with
      | .notFound => .ok (st.emit (.err errStackEmpty))
      | .null => .error .nullDeref
      | .refused => .ok (st.emit (.err errConstantRedefinedAsVariable))
      | .popped v stacks => .ok { st with syms := setSym st.syms (fold st.cs x) { s with val := v }, stacks := stacks }

def popList (st : St) (written : Name) : List Name → Except Fault St
  | [] => .ok st
  | x :: xs =>
    match popSymbol st x written with
    | .error f => .error f
    | .ok st1 => popList st1 written xs

def step (st : St) : SymStackSpec.Stmt → Except Fault St
  | .set x v =>
    match findSym st.syms (fold st.cs x) with
    | none => .ok { st with syms := setSym st.syms (fold st.cs x) ⟨v, true⟩ }
    | some s =>
      if s.changeable then .ok { st with syms := setSym st.syms (fold st.cs x) ⟨v, true⟩ }
      else .ok (st.emit (.err errConstantRedefinedAsVariable))
  | .pushv k xs => .ok (xs.foldl (fun s x => pushSymbol s x k) st)
  | .popv k xs => popList st k xs
  | .show x => .ok (st.emit (.msg ((findSym st.syms (fold st.cs x)).map (·.val))))

def run (st : St) : List SymStackSpec.Stmt → Except Fault St
  | [] => .ok st
  | s :: p =>
    match step st s with
    | .error f => .error f
    | .ok st1 => run st1 p

/-- `ClearStacks` at the end of the pass: one warning per record -/
def clearStacks (st : St) : St :=
  { st with out := st.out ++ st.stacks.map (fun _ => Out.err warnStackNotEmpty), stacks := [] }

def init (cs : Bool) (syms : List (Name × Sym)) : St := { cs := cs, syms := syms }

/-- one pass over a program: the printed events, or the fault -/
def pass (cs : Bool) (syms : List (Name × Sym)) (p : List SymStackSpec.Stmt) : Except Fault (List Out) :=
  match run (init cs syms) p with
  | .error f => .error f
  | .ok st => .ok (clearStacks st).out

/-- exit status of a pass that ended: 2 when an error (number ≥ 1000; warnings are below) was reported -/
def status (out : List Out) : Nat :=
  if out.any (fun o => match o with | .err n => decide (1000 ≤ n) | _ => false) then 2 else 0

end AslModel.SymStack
