import AslModel.Model.Sym
/-! MODEL for C13, macro-local label spaces: a transcription of `asmpars.c` (`GetLocHandle`, `PushLocHandle`,
`PopLocHandle`, `ClearLocStack`, `EnterLocSymbol`, `FindLocNode`, `FindLocNode_FNode`, the `MomLocHandle == -1 ||
DestHandle != -2` switch of `EnterIntSymbolWithFlags`) and of the handle discipline of `as.c` (`MACRO_Processor`,
`IRP_Processor`, `IRPC_Processor`, `REPT_Processor`, `WHILE_Processor`: at the first body line of every iteration the
space of the previous iteration is popped - `if (!First) PopLocHandle()` - and a fresh one pushed; `MACRO_Restorer`
pops once when a space was opened), on top of `Model/Sym.lean` (global table, sections).

A program is a tree: statements (`Sym.Op`) and constructs `con wh glob n body` = one expansion of a macro (`n = 1`) or a
loop of `n` iterations over `body`; `glob` = `{GLOBALSYMBOLS}` (no space is opened); `wh` = WHILE (whose processor opens
one more space in which the final, false condition is evaluated).  Bodies are not empty (as.c never passes an empty body to
a processor).  Parameter substitution is C11's subject: bodies are the *delivered* lines.

`SET`/`EQU`/`=`/`:=`/`EVAL` (`CodeSETEQU`: `PushLocHandle(-1)` around the entry) and the `LABEL` statement (`ForceGlobal`)
always enter the global table; only labels are local. -/
namespace AslModel.SymLoc
open AslModel.Generated.Sym
open AslModel.Sym

structure LSt where
  g : Sym.St := {}
  mom : Int := -1              -- MomLocHandle
  conts : List Int := []       -- FirstLocHandle: the `Cont` fields, newest first
  cnt : Nat := 0               -- LocHandleCnt
  ltab : Tab := []             -- FirstLocSymbol, keyed by (name, local handle)
deriving Inhabited

/-- `PushLocHandle` -/
def pushLoc (st : LSt) (h : Int) : LSt := { st with conts := st.mom :: st.conts, mom := h }

/-- `PopLocHandle` -/
def popLoc (st : LSt) : LSt :=
  match st.conts with
  | [] => st
  | c :: r => { st with mom := c, conts := r }

/-- `PushLocHandle(GetLocHandle())` -/
def pushFresh (st : LSt) : LSt := pushLoc { st with cnt := st.cnt + 1 } (st.cnt : Int)

/-- the loop of `FindLocNode` over `FirstLocHandle`: `while (Run && Run->Cont != -1)` -/
def walkConts (ltab : Tab) (name : Name) : List Int → Option Entry
  | [] => none
  | c :: r =>
    if c = -1 then none
    else match tfind ltab (name, c) with
      | some e => some e
      | none => walkConts ltab name r

/-- `FindLocNode` -/
def findLocNode (st : LSt) (name0 : Name) : Option Entry :=
  let name := fold st.g.cs (chkTmp3Ref st.g name0)
  if st.mom = -1 then none
  else match tfind st.ltab (name, st.mom) with
    | some e => some e
    | none => walkConts st.ltab name st.conts

/-- `LookupSymbol`: `FindLocNode`, and only when that finds nothing `FindNode` (sections, then global) -/
def lookupL (st : LSt) (ref : Name) : LSt × Int :=
  let n1 := (chkTmp2Ref st.g ref).getD ref
  let n2 := (chkTmp1 st.g n1).getD n1
  match findLocNode st n2 with
  | some e => (st, e.val)
  | none => let r := Sym.lookupSymbol st.g ref; ({ st with g := r.1 }, r.2)

/-- key of the local tree: `(name, MomLocHandle)` -/
def locKey (st : LSt) (name0 : Name) : Key := (fold st.g.cs name0, st.mom)

/-- what `EnterTree(.., SymbolAdder, ..)` does with the adder's answer -/
def enterLocRes (st : LSt) (name0 : Name) : Except Nat (Entry × Bool) → LSt
  | .error n => { st with g := st.g.err n }
  | .ok (e, rp) => { st with ltab := tset st.ltab (locKey st name0) e, g := { st.g with repass := st.g.repass || rp } }

/-- `EnterLocSymbol`: key `(name, MomLocHandle)`, `MayChange = FALSE` -/
def enterLoc (st : LSt) (name0 : Name) (v : Int) : LSt :=
  enterLocRes st name0 (symbolAdder (tfind st.ltab (locKey st name0)) v false)

/-- a label (`LabelHandle` → `EnterIntSymbolWithFlags`): local when a space is open and the name has no `[section]` -/
def defineLabelL (st : LSt) (name0 : Name) (v : Int) : LSt :=
  match getSymSection st.g name0 with
  | .plain n =>
    if st.mom = -1 then { st with g := Sym.defineSymbol st.g name0 v false .label }
    else
      let r := chkTmpDef st.g n .label
      enterLoc { st with g := r.1 } r.2 v
  | _ => { st with g := Sym.defineSymbol st.g name0 v false .label }

def bumpLine (st : LSt) : LSt := { st with g := { st.g with line := st.g.line + 1 } }

def emitNop (st : LSt) : LSt := { st with g := { st.g with out := st.g.nopByte :: st.g.out, pc := st.g.pc + 1 } }

/-- one statement (`Sym.step` where no local space can matter) -/
def stepL (st0 : LSt) (op : Op) : LSt :=
  match op with
  | .label n => let st := bumpLine st0; emitNop (defineLabelL st n st.g.pc)
  | .labelOnly n => let st := bumpLine st0; defineLabelL st n st.g.pc
  | .labelWord n r =>
    let st := bumpLine st0
    let s := defineLabelL st n st.g.pc
    let q := lookupL s r
    { q.1 with g := emitWord q.1.g q.2 }
  | .use r =>
    let st := bumpLine st0
    let q := lookupL st r
    { q.1 with g := emitWord q.1.g q.2 }
  | o => { st0 with g := Sym.step st0.g o }

mutual
inductive Item where
  | op (o : Op)
  | con (wh : Bool) (glob : Bool) (n : Nat) (body : Items)
inductive Items where
  | nil
  | cons (i : Item) (r : Items)
end

/-- first body line of an iteration (`LineZ == 1`) in `IRP_/IRPC_/REPT_/WHILE_Processor`; `MACRO_Processor` is the case
`first = true` -/
def iterOpen (glob first : Bool) (st : LSt) : LSt :=
  if glob then st else pushFresh (if first then st else popLoc st)

/-- `MACRO_Restorer` (shared by all constructs): pop when a space was opened -/
def restorer (glob first : Bool) (st : LSt) : LSt := if !glob && !first then popLoc st else st

/-- `n` iterations of a body; the flag is `PInp->First` -/
def loop (glob : Bool) (body : LSt → LSt) : Nat → Bool → LSt → LSt × Bool
  | 0, first, st => (st, first)
  | n + 1, first, st => loop glob body n false (body (iterOpen glob first st))

/-- what follows the iterations: WHILE opens a space for the evaluation of the final condition; then the restorer -/
def finish (wh glob : Bool) (r : LSt × Bool) : LSt :=
  if wh then restorer glob false (iterOpen glob r.2 r.1) else restorer glob r.2 r.1

mutual
def execItem : Item → LSt → LSt
  | .op o, st => stepL st o
  | .con wh glob n body, st => finish wh glob (loop glob (execItems body) n true st)
def execItems : Items → LSt → LSt
  | .nil, st => st
  | .cons i r, st => execItems r (execItem i st)
end

/-- `AssembleFile_InitPass`: `MomLocHandle = -1; LocHandleCnt = 0;` `ResetSymbolDefines` also walks `FirstLocSymbol` -/
def initPassL (st : LSt) (line0 : Nat) : LSt :=
  { st with g := Sym.initPass st.g line0, mom := -1, cnt := 0,
            ltab := st.ltab.map (fun (k, e) => (k, { e with defined := false })) }

/-- `ClearLocStack`: `while (MomLocHandle != -1) PopLocHandle();` -/
def clearLocStack : Nat → LSt → LSt
  | 0, st => st
  | f + 1, st => if st.mom = -1 then st else clearLocStack f (popLoc st)

def exitPassL (st : LSt) : LSt :=
  let st1 := clearLocStack st.conts.length st
  { st1 with g := Sym.exitPass st1.g }

def assembleL (fuel : Nat) (st : LSt) (line0 : Nat) (prog : Items) : LSt :=
  let st1 := exitPassL (execItems prog (initPassL st line0))
  match fuel with
  | 0 => st1
  | f + 1 => if !hasError st1.g && st1.g.repass then assembleL f st1 line0 prog else st1

end AslModel.SymLoc
