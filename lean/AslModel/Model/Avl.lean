/-! MODEL of trees.c `EnterTree` (C03, keyed containers): insertion into the binary search tree that holds symbols, macros and
structures, with the AVL re-balancing that runs only under option -A (`BalanceTrees`).  Transcribed branch by branch; every pointer the C
code dereferences without a test (`p1 = (*PDest)->Right; p1->Balance`, `p2 = p1->Left; p2->Right`) is a `match` whose `nil` branch
answers `none` = NULL dereference (SIGSEGV), so "never crashes" is a statement about this function (Props/C03_Tree.lean). Core only. -/
namespace AslModel.Avl

inductive Tree where
  | nil : Tree
  | node (l : Tree) (k : Nat) (bal : Int) (r : Tree) : Tree
  deriving Repr, BEq

open Tree

/-- in-order walk (IterTree: the order of the symbol table in the listing) -/
def toList : Tree → List Nat
  | nil => []
  | node l k _ r => toList l ++ k :: toList r

def height : Tree → Nat
  | nil => 0
  | node l _ _ r => max (height l) (height r) + 1

def rootBal : Tree → Int
  | nil => 0
  | node _ _ b _ => b

/-- the switch on `(*PDest)->Balance` after the RIGHT subtree grew (`CompErg > 0`); `r'` is the subtree after the recursive call -/
def afterRight (l : Tree) (x : Nat) (b : Int) (r' : Tree) : Option (Tree × Bool) :=
  if b = -1 then some (node l x 0 r', false)
  else if b = 0 then some (node l x 1 r', true)
  else if b = 1 then
    match r' with                                   -- p1 = (*PDest)->Right; p1->Balance
    | nil => none
    | node p1l p1k p1b p1r =>
      if p1b = 1 then
        some (node (node l x 0 p1l) p1k 0 p1r, false)
      else
        match p1l with                              -- p2 = p1->Left; p2->Right
        | nil => none
        | node p2l p2k p2b p2r =>
          some (node (node l x (if p2b = 1 then -1 else 0) p2l) p2k 0 (node p2r p1k (if p2b = -1 then 1 else 0) p1r), false)
  else some (node l x b r', false)                  -- no `default:` in the C switch

/-- the switch after the LEFT subtree grew (`CompErg < 0`) -/
def afterLeft (l' : Tree) (x : Nat) (b : Int) (r : Tree) : Option (Tree × Bool) :=
  if b = 1 then some (node l' x 0 r, false)
  else if b = 0 then some (node l' x (-1) r, true)
  else if b = -1 then
    match l' with                                   -- p1 = (*PDest)->Left
    | nil => none
    | node p1l p1k p1b p1r =>
      if p1b = -1 then
        some (node p1l p1k 0 (node p1r x 0 r), false)
      else
        match p1r with                              -- p2 = p1->Right
        | nil => none
        | node p2l p2k p2b p2r =>
          some (node (node p1l p1k (if p2b = 1 then -1 else 0) p2l) p2k 0 (node p2r x (if p2b = -1 then 1 else 0) r), false)
  else some (node l' x b r, false)

/-- `EnterTree(PDest, Neu, ...)`: `bt` = BalanceTrees; result = (tree, `Result` = "this subtree grew"); `none` = NULL dereference.
An equal key (`CompErg = 0`) leaves the shape alone (the Adder replaces or refuses the node: same Left / Right / Balance). -/
def enter (bt : Bool) : Tree → Nat → Option (Tree × Bool)
  | nil, k => some (node nil k 0 nil, true)
  | node l x b r, k =>
    if x < k then
      match enter bt r k with
      | none => none
      | some (r', grown) => if bt && grown then afterRight l x b r' else some (node l x b r', false)
    else if k < x then
      match enter bt l k with
      | none => none
      | some (l', grown) => if bt && grown then afterLeft l' x b r else some (node l' x b r, false)
    else some (node l x b r, false)

/-- a whole history of definitions, from the empty tree -/
def enterAll (bt : Bool) : Tree → List Nat → Option Tree
  | t, [] => some t
  | t, k :: ks => match enter bt t k with
    | none => none
    | some (t', _) => enterAll bt t' ks

/-- executable invariant for the run-time cross-check: every stored balance = height difference, within -1..1 -/
def balancedB : Tree → Bool
  | nil => true
  | node l _ b r => balancedB l && balancedB r && decide (b = (height r : Int) - (height l : Int)) && decide (-1 ≤ b) && decide (b ≤ 1)

end AslModel.Avl
