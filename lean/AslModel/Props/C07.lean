import AslModel.Lemmas.PBind
import AslModel.Lemmas.PList
/-!
# C07 — PBIND conserves records and PLIST reports them truthfully

Property theorems only.  Models: `Model/PBind.lean` (toolutils.c ReadRecordHeader / WriteRecordHeader /
SkipRecord / FilterOK, pbind.c OpenTarget / ProcessFile / CloseTarget), `Model/PList.lean`
(plist.c ProcessSingle, table header, summary).  Specs: `Spec/PFile.lean` (documented reader,
`keepItem`), `Spec/PList.lean` (line fields, totals).

All statements quantify over every list of source files, every item list (any mix of short and long
headers, entry records anywhere, payloads 0..65535 bytes), every filter state.
-/
namespace AslModel.C07
open AslModel.PFile AslModel.Tools AslModel.PList

/-- Table obligations: the constants the documented reader hard-wires are the ones the current
sources define; pbind's copy buffer is not empty. -/
theorem C07_tables :
    le16 Generated.toolFileID = magic ∧ hEnd = 0 ∧ hStart = 0x80 ∧ hData = 0x81 ∧ segCodeN = 1 ∧
    0 < Generated.pbindBufferSize := by decide

/-- **Header round trip**: whatever header form `WriteRecordHeader` chooses for a data record
(short `$01..$7f` only when segment = CODE, granularity = `Granularity(cpu, CODE)` and cpu < `$80`),
`ReadRecordHeader` reads back exactly the same header, CPU, segment and granularity — for every
CPU ≠ 0, segment and granularity byte. -/
theorem C07_header_roundtrip (cfg : Cfg) (errno : Nat) (hc : ChkHarmless cfg errno) (out tl : List Byte)
    (prev h : Hdr) (hk : h.hdr.toNat = hData) (h0 : h.cpu.toNat ≠ 0) :
    ∃ bs, writeRecordHeader cfg errno out h = .ok (out ++ bs) ∧ readRecordHeader prev (bs ++ tl) = some (h, tl) :=
  ⟨hdrBytes h, write_data cfg errno hc out h hk, read_hdrBytes prev h hk h0 tl⟩

/-- The same for the entry-point header `$80`. -/
theorem C07_header_roundtrip_entry (cfg : Cfg) (errno : Nat) (hc : ChkHarmless cfg errno) (out tl : List Byte)
    (prev : Hdr) :
    writeRecordHeader cfg errno out { prev with hdr := 0x80 } = .ok (out ++ [0x80]) ∧
    readRecordHeader prev ([0x80] ++ tl) = some ({ prev with hdr := 0x80 }, tl) :=
  ⟨write_entry cfg errno hc out _ (show (0x80 : Byte).toNat = hStart by decide), read_entry prev tl⟩

/-- The documented reader reads every file written with *any* mix of short and long headers back
to its items (short form used only where `Rec.shortOK`). -/
theorem C07_reader_mixed_forms (items : List (Item × Bool)) (creator : List Byte) (hwf : ∀ i ∈ items, i.1.WF) :
    parseFile (serFileForm items creator) = some (items.map (·.1), creator) :=
  parseFile_serFileForm items creator hwf

/-- **Conservation.**  For every list of source files (each any well-formed item list in any mix of
header forms, no family 0, creator string of at least `env.lenSlack` bytes — 1 on the pinned tree, see
`C07_finding_empty_creator`), every filter state, quiet or not: if the
stale-errno defect cannot strike (`ChkHarmless`: errno clean at that point, or `WriteRecordHeader`
checks only failed writes) the model of pbind ends with status 0, its target file is the
short-preferring serialisation of exactly the filtered concatenation of the sources' items, the
documented reader reads that target back to exactly those items (same family, segment,
granularity, address, payload, order), and the byte count reported per source is the sum of the
copied record lengths. -/
theorem C07_conserve (env : Env) (creatorB : List Byte) (quiet : Bool) (errno0 : Nat)
    (inputs : List (List (Item × Bool) × List Byte)) (hb : 0 < env.bufSize)
    (hc : ChkHarmless env.cfg (effErrno quiet errno0)) (hin : ∀ f ∈ inputs, SrcOK env.lenSlack f) :
    pbindMain env 0x1489 creatorB quiet errno0 (inputs.map (fun f => serFileForm f.1 f.2)) =
      some ⟨0, serFileAuto (expected env.flt inputs) creatorB, inputs.map (fun f => sumLen (keptItems env.flt f.1))⟩
    ∧ parseFile (serFileAuto (expected env.flt inputs) creatorB) = some (expected env.flt inputs, creatorB) := by
  constructor
  · obtain ⟨e, he⟩ := processFiles_ok env quiet hb inputs hin ⟨le16 0x1489, errno0, []⟩ hc
    have hm : le16 0x1489 = magic := by decide
    have h0 : b hEnd = 0x00 := by decide
    unfold pbindMain
    rw [he]
    simp only [expected_eq, serFileAuto, hm, h0, List.nil_append, List.append_assoc]
  · apply parseFile_serFileAuto
    intro i hi
    simp only [expected, List.mem_filter, List.mem_flatten, List.mem_map] at hi
    obtain ⟨⟨l, ⟨f, hf, rfl⟩, hil⟩, _⟩ := hi
    simp only [List.mem_map] at hil
    obtain ⟨j, hj, rfl⟩ := hil
    exact (hin f hf).1 j hj

/-- Conservation for the program as extracted from the current tree (generated `ChkIO` flags, buffer
size, FileID, creator): a **non-quiet** run conserves for every value `errno` may have had, because
`ProcessFile` resets it before the first record. -/
theorem C07_conserve_generated_nonquiet (flt : FilterSt) (errno0 : Nat)
    (inputs : List (List (Item × Bool) × List Byte)) (hin : ∀ f ∈ inputs, SrcOK Generated.pbindLenSlack f) :
    pbindMain (genEnv flt) Generated.toolFileID genCreator false errno0 (inputs.map (fun f => serFileForm f.1 f.2)) =
      some ⟨0, serFileAuto (expected flt inputs) genCreator, inputs.map (fun f => sumLen (keptItems flt f.1))⟩ :=
  (C07_conserve (genEnv flt) genCreator false errno0 inputs (show 0 < Generated.pbindBufferSize by decide) (Or.inl rfl) hin).1

/-- Finding (stale errno): with a `WriteRecordHeader` that calls `ChkIO` after successful writes, a
quiet run with `errno = ENOENT` left over ends with status 2 and a 3-byte target — the witness of
known_findings.json.  Independent of generated constants. -/
theorem C07_finding_stale_errno :
    pbindMain ⟨⟨false, true, true⟩, 8192, [], 1⟩ 0x1489 [0x42] true 2
      [[0x89, 0x14, 0x81, 0x51, 0x01, 0x01, 0x00, 0x01, 0x00, 0x00, 0x03, 0x00, 0x61, 0x62, 0x63, 0x00, 0x41, 0x53]] =
      some ⟨2, [0x89, 0x14, 0x51], []⟩ ∧
    parseFile [0x89, 0x14, 0x51] = none := by decide

/-- Finding (off-by-one length check): even the intended `WriteRecordHeader` lets pbind reject a
well-formed file whose last data record is followed by `$00` and an empty creator string. -/
theorem C07_finding_empty_creator :
    pbindMain ⟨Cfg.intended, 8192, [], 1⟩ 0x1489 [0x42] false 0
      [[0x89, 0x14, 0x81, 0x51, 0x01, 0x01, 0x00, 0x01, 0x00, 0x00, 0x03, 0x00, 0x61, 0x62, 0x63, 0x00]] =
      some ⟨3, [0x89, 0x14], []⟩ ∧
    (parseFile [0x89, 0x14, 0x81, 0x51, 0x01, 0x01, 0x00, 0x01, 0x00, 0x00, 0x03, 0x00, 0x61, 0x62, 0x63, 0x00]).isSome = true := by
  decide

/-! Non-vacuity: concrete sources meet the hypotheses, in both header forms, with a filter. -/
def exRec1 : Rec := ⟨0x51, 1, 1, 0x100, [1, 2, 3]⟩
def exRec2 : Rec := ⟨0x70, 1, 2, 0x10, [1, 2, 3, 4]⟩
def exRec3 : Rec := ⟨0x31, 2, 1, 0x30, []⟩
def exSrc : List (Item × Bool) × List Byte :=
  ([(.data exRec1, true), (.data exRec2, false), (.entry 0x1234, false), (.data exRec3, true)], [0x41, 0x53])
example : SrcOK 1 exSrc := by
  refine ⟨?_, ?_, by decide⟩
  · intro i hi; simp [exSrc] at hi; rcases hi with rfl | rfl | rfl | rfl <;> simp [Item.WF, Rec.WF, exRec1, exRec2, exRec3]
  · intro i hi r hr; simp [exSrc] at hi
    rcases hi with rfl | rfl | rfl | rfl <;> simp at hr <;> subst hr <;> decide
example : (expected [0x51, 0x31] [exSrc, exSrc]).length = 6 := by decide
example : exRec1.shortOK = true ∧ exRec3.shortOK = false := by decide

/-! ## PLIST -/

/-- Table obligations for reading a line back by words: every family name `FindFamilyById` can return
and every segment name is a single blank-free word (up to trailing blanks), and the entry-point
message ends with a blank. -/
theorem C07_plist_names_are_words :
    (∀ e ∈ Generated.families, wordsOf e.2 = [nameWord e.2]) ∧
    (∀ n ∈ Generated.segNames, wordsOf n = [nameWord n]) ∧
    Generated.segNames.length = Generated.segCount ∧
    (∃ pre, Generated.plistEntryPoint = pre ++ [' ']) := by
  refine ⟨by decide +kernel, by decide +kernel, by decide, ⟨Generated.plistEntryPoint.dropLast, by decide +kernel⟩⟩

/-- **One line per record, nothing else**: for every well-formed code file (any mix of header forms,
any creator string) inside plist's domain, `plist -q file` ends with status 0 and prints exactly: the
two header lines, one line per item in file order (`itemLine`), the creator line, an empty line and
the totals computed from `Sums[]` after all records. -/
theorem C07_plist_lines (t : Tbl) (name : List Char) (items : List (Item × Bool)) (creator : List Byte)
    (hwf : ∀ i ∈ items, i.1.WF) (hok : ∀ i ∈ items, ListOK t i.1) :
    plistMain t [(name, serFileForm items creator)] =
      some ⟨0, t.hdr1 ++ ['\n'] ++ t.hdr2 ++ ['\n'] ++ itemLines t [] items ++ creatorLine t creator ++ ['\n'] ++ ['\n']
        ++ totalLines t 0 true (sumsAfter (List.replicate t.segCount 0) (items.map (·.1)))⟩ := by
  have hm : rd16 (0x89 : Byte) (0x14 : Byte) = Generated.fileMagic := by decide
  have := plist_items t [] ((0x89 : Byte) :: 0x14 :: ((items.map serItemForm).flatten ++ (0x00 :: creator))).length
    items creator hwf hok
    (((0x89 : Byte) :: 0x14 :: ((items.map serItemForm).flatten ++ (0x00 :: creator))).length + 1)
    (by have := len_le_form items; simp only [List.length_cons, List.length_append]; omega)
    default ⟨t.hdr1 ++ ['\n'] ++ t.hdr2 ++ ['\n'], List.replicate t.segCount 0⟩
    (by simp only [List.length_cons, List.length_append]; omega)
  simp only [plistMain, List.length_singleton, gt_iff_lt, Nat.lt_irrefl, decide_false, Bool.false_eq_true, if_false,
    List.nil_append, plistFiles, processSingle, serFileForm, magic, List.cons_append, List.append_assoc, hm,
    ne_eq, not_true_eq_false]
  simp only [List.append_assoc, List.nil_append, List.cons_append] at this
  rw [this]
  simp [List.append_assoc]

/-- **Every record line is truthful**: read back by words, the line of a record of a known family
shows the family name, the segment name, the start address, the byte length and the last address
`start + length/granularity − 1` (32 bit) of that record — for every record. -/
theorem C07_plist_line_fields (t : Tbl) (r : Rec) (fam : List Char) (hwf : r.WF)
    (hf : lookupName t.families r.cpu.toNat = some fam) (hfw : wordsOf fam = [nameWord fam])
    (hsw : wordsOf (t.segNames.getD r.seg.toNat []) = [nameWord (t.segNames.getD r.seg.toNat [])]) :
    parseRecLine (itemLine t (.data r)) = some (specFields fam (t.segNames.getD r.seg.toNat []) r) :=
  recLine_fields t r fam _ hf hfw hsw hwf

/-- the entry line shows the entry address -/
theorem C07_plist_entry_line (t : Tbl) (a : Nat) (ha : a < 4294967296) (he : ∃ pre, t.entry = pre ++ [' ']) :
    parseEntryLine (itemLine t (.entry a)) = some a :=
  parseEntryLine_entryLine t a ha he

/-- **Totals are the fold**: after all records `Sums[z]` is the sum of the lengths of the data
records of segment `z` (as a 32-bit counter), for every item list. -/
theorem C07_plist_totals (t : Tbl) (items : List (Item × Bool)) (z : Nat) (hz : z < t.segCount)
    (hok : ∀ i ∈ items, ListOK t i.1) :
    (sumsAfter (List.replicate t.segCount 0) (items.map (·.1))).getD z 0 = specSum (items.map (·.1)) z % 4294967296 := by
  apply sumsAfter_getD _ _ _ hz
  intro r hr
  have : ∀ l : List (Item × Bool), (∀ i ∈ l, ListOK t i.1) → ∀ r ∈ dataRecs (l.map (·.1)), r.seg.toNat < t.segCount := by
    intro l
    induction l with
    | nil => intro _ r hr; simp [dataRecs] at hr
    | cons i is ih =>
      intro h r hr
      obtain ⟨it, sh⟩ := i
      cases it with
      | entry a => exact ih (fun j hj => h j (by simp [hj])) r (by simpa [dataRecs] using hr)
      | data q =>
        simp only [List.map_cons, dataRecs, List.mem_cons] at hr
        rcases hr with rfl | hr
        · exact (h (.data r, sh) (by simp)).1
        · exact ih (fun j hj => h j (by simp [hj])) r hr
  exact this items hok r hr

/-- Finding (`printf(PRIu32, Sums[z])`): with the format literal `u` the summary line carries no
number at all; with the intended `%u` it reads back as the total.  Independent of the generated
format constant. -/
theorem C07_finding_plist_total_u :
    totalLines { Tbl.generated with sumFmt := ['u'] } 0 true [0, 3] =
      "altogether u bytes CODE\n".toList ∧
    parseTotalLine "altogether u bytes CODE".toList = none ∧
    totalLines { Tbl.generated with sumFmt := ['%', 'u'] } 0 true [0, 3] = "altogether 3 bytes CODE\n".toList ∧
    parseTotalLine "altogether 3 bytes CODE".toList = some (3, "CODE".toList) := by
  decide +kernel

example : ListOK Tbl.generated (.data exRec2) := by
  refine ⟨by decide, fun _ => by decide⟩
example : lookupName Tbl.generated.families exRec2.cpu.toNat = some "16C8x".toList := by decide +kernel

end AslModel.C07
