import AslModel.Lemmas.TagsCtx
import AslModel.Lemmas.TagsCtxCost
/-! C11 - macro, repetition and inclusion constructs are transparent: property theorems, context of an expansion
(Model/TagsCtx.lean: the current file name kept in the INCLUDE tags and the most recent label kept by `Produce_Code`,
against Spec/MacroCtx.lean: the hand expansion in which every INCLUDE/BINCLUDE statement names the file the manual's rule
finds from the directory of the source file it is WRITTEN in, and a label of a line that opens a construct stands on a
line of its own in front of the first expanded statement).

* `C11_ctx_refines`: for every file system, every `-i` list and every program (constructs MACRO call / REPT / IRP / IRPN /
  IRPC / WHILE nested to any depth, INCLUDE and BINCLUDE anywhere, also in bodies, included files that again contain
  all of this) for which the hand expansion exists, the tag machine run with enough fuel ends without error, with an
  empty tag chain and the file name it started with, and what it handed to `Produce_Code`, line by line replaced by what the
  hand expansion has in its place (`hand`), IS the hand expansion.
* `C11_ctx_refines_cost`: the same for EVERY fuel of at least `ctxCost fs d main prog` rounds - the number of rounds is computed
  from the program (`expandCost`, Lemmas/TagsCtxCost.lean: one round per statement, one per delivery of a body that ends, one
  per file that ends); `C11_ctx_refines` is its corollary.
* `C11_ctx_include_restores`: an INCLUDE statement issued under ANY input tag (the body of a macro or of a loop, or a
  file): after the included file has been read the file name and the tag chain are those before the statement.
* `C11_ctx_curr_inv` / `C11_ctx_search_dir`: in every state the machine reaches the current file name is the name of the
  innermost INCLUDE tag of the chain, whatever body tags lie above it - so every relative INCLUDE/BINCLUDE is looked up
  first in the directory of the file that is being read.
* `C11_ctx_label_construct_independent`: what `Produce_Code` does with the label of a line that opens a construct is, for
  every one of the six constructs, what it does with a line that only holds this label (nothing if there is no label).
* `C11_ctx_transparent`: the code, the symbol values and the label memory after the construct program are those after its
  hand expansion, for every padding setting - PARTIAL for the code as it is: the hypothesis excludes INCLUDE lines
  while the quirk `inclResetsLabel` is on (known finding label-before-include-stays-on-pad-byte; full statement: no
  hypothesis `hh`).  `C11_ctx_transparent_nopad`: without padding the code and the symbol values agree with the quirk too.
* `C11_finding_label_before_include`: with the quirk a label in front of an INCLUDE keeps the address of the pad byte. -/
namespace AslModel.Ctx
open AslModel.CtxSpec

/-- The tag machine carries out the hand expansion: same lines, file names looked up from the file a statement is written in -
    for every fuel of at least `ctxCost fs d main prog` rounds (computed from the program and the file system). -/
theorem C11_ctx_refines_cost (fs : FS) (d : Nat) (main : Path) (prog : Body) (o : List Flat)
    (h : expand fs d main prog = some o) (fuel : Nat) (hf : ctxCost fs d main prog ≤ fuel) :
    (runFile fs fuel main prog).err = false ∧ (runFile fs fuel main prog).stack = [] ∧
    (runFile fs fuel main prog).curr = [] ∧ (runFile fs fuel main prog).evs.flatMap hand = o := by
  obtain ⟨evs', hs, ho⟩ := incOKN_expand fs d main prog o h (.file main [] prog) .nil [] []
  simp only [Tag.setCur, bapp_nil, List.nil_append] at hs
  have hpop : step fs ⟨main, [.file main [] .nil], evs', false⟩ = some ⟨[], [], evs', false⟩ := rfl
  have hend : step fs ⟨[], [], evs', false⟩ = none := rfl
  have : runFile fs fuel main prog = ⟨[], [], evs', false⟩ := run_of_stepsN (hs.trans (StepsN.one hpop)) hend fuel hf
  rw [this]
  exact ⟨rfl, rfl, rfl, ho⟩

/-- The tag machine carries out the hand expansion: same lines, file names looked up from the file a statement is written in. -/
theorem C11_ctx_refines (fs : FS) (d : Nat) (main : Path) (prog : Body) (o : List Flat)
    (h : expand fs d main prog = some o) :
    ∃ k, ∀ fuel, k ≤ fuel →
      (runFile fs fuel main prog).err = false ∧ (runFile fs fuel main prog).stack = [] ∧
      (runFile fs fuel main prog).curr = [] ∧ (runFile fs fuel main prog).evs.flatMap hand = o :=
  ⟨ctxCost fs d main prog, fun fuel hf => C11_ctx_refines_cost fs d main prog o h fuel hf⟩

/-- the program below needs 10 rounds: the IRPC line, twice (INCLUDE, the line of a.inc, end of a.inc, end of the body), end of
    m.asm - with 9 the machine has not ended -/
example : ctxCost ⟨[(["r", "s", "a.inc"], .text (.cons (.stmt 2 none (.code false [7])) .nil))], [], ["r"]⟩ 2 ["r", "m.asm"]
    (.cons (.loop .irpc none 2 (.cons (.incl none ⟨false, ["s", "a.inc"]⟩) .nil)) .nil) = 10 ∧
    (runFile ⟨[(["r", "s", "a.inc"], .text (.cons (.stmt 2 none (.code false [7])) .nil))], [], ["r"]⟩ 9 ["r", "m.asm"]
      (.cons (.loop .irpc none 2 (.cons (.incl none ⟨false, ["s", "a.inc"]⟩) .nil)) .nil)).stack ≠ [] := by decide

example : expand ⟨[(["r", "s", "a.inc"], .text (.cons (.stmt 2 none (.code false [7])) .nil))], [], ["r"]⟩ 2 ["r", "m.asm"]
    (.cons (.loop .irpc none 2 (.cons (.incl none ⟨false, ["s", "a.inc"]⟩) .nil)) .nil) =
    some [.line 2 none (.code false [7]), .line 2 none (.code false [7])] := by decide

/-- An INCLUDE statement under any input tag `t` (MACRO / REPT / IRP / IRPN / IRPC / WHILE body, or a file), followed by
    whatever `r`: when the included file (and all it includes) has been read, the current file name and the tag chain are
    what they were before the statement. -/
theorem C11_ctx_include_restores (fs : FS) (d : Nat) (file : Path) (lab : Option Nat) (f : FName) (o : List Flat)
    (h : expItem (fun p b => expand fs d p b) fs file (.incl lab f) = some o)
    (t : Tag) (r : Body) (rest : List Tag) (evs : List Ev) :
    ∃ evs', Steps fs ⟨file, t.setCur (.cons (.incl lab f) r) :: rest, evs, false⟩ ⟨file, t.setCur r :: rest, evs ++ evs', false⟩ ∧
      evs'.flatMap hand = o := by
  obtain ⟨e, he, ho⟩ := exec_item fs _ (incOK_expand fs d) (.incl lab f) file o h (t.setCur r :: rest) evs
  exact ⟨e, (Steps.one (step_cons fs file t _ r rest evs)).trans he, ho⟩

/-- In every state the machine reaches, the current file name is the name of the innermost INCLUDE tag, and every INCLUDE
    tag has saved the name of the file below it - whatever body tags lie in between. -/
theorem C11_ctx_curr_inv (fs : FS) (fuel : Nat) (main : Path) (prog : Body) : Inv (runFile fs fuel main prog) :=
  run_inv fs fuel _ ⟨rfl, rfl, trivial⟩

/-- ... so a relative name is looked up first in the directory of the file that is being read. -/
theorem C11_ctx_search_dir (fs : FS) (fuel : Nat) (main : Path) (prog : Body) (f : FName) (hf : f.abs = false) :
    (candidates fs (runFile fs fuel main prog).curr f).head? =
      some (resolve (innerFile (runFile fs fuel main prog).stack).dropLast f.comps) := by
  rw [(C11_ctx_curr_inv fs fuel main prog).1]
  simp [candidates, hf]

/-- The label of a line that opens a construct is treated like a label on a line of its own - for each of the constructs. -/
theorem C11_ctx_label_construct_independent (q : Quirks) (pad : Bool) (c : Core) (k : LKind) (lab : Option Nat) :
    produce q pad c (.opened k lab) = ((labelLine lab).map Flat.toEv).foldl (produce q pad) c :=
  produce_opened q pad c k lab

/-- Transparency of the code generation: construct program and hand expansion leave the same code, symbol values and label
    memory.  PARTIAL (hypothesis `hh`, see the file comment). -/
theorem C11_ctx_transparent (q : Quirks) (pad : Bool) (fs : FS) (d : Nat) (main : Path) (prog : Body) (o : List Flat)
    (h : expand fs d main prog = some o)
    (hh : ∀ fuel, ∀ e ∈ (runFile fs fuel main prog).evs, Harmless q e) :
    ∃ k, ∀ fuel, k ≤ fuel → runCore q pad (runFile fs fuel main prog).evs = runCore q pad (o.map Flat.toEv) := by
  obtain ⟨k, hk⟩ := C11_ctx_refines fs d main prog o h
  refine ⟨k, fun fuel hf => ?_⟩
  unfold runCore
  rw [foldl_hand q pad _ core0 (hh fuel), (hk fuel hf).2.2.2]

/-- Without padding: the same code and the same symbol values, for the code as it is. -/
theorem C11_ctx_transparent_nopad (q : Quirks) (fs : FS) (d : Nat) (main : Path) (prog : Body) (o : List Flat)
    (h : expand fs d main prog = some o) :
    ∃ k, ∀ fuel, k ≤ fuel →
      (runCore q false (runFile fs fuel main prog).evs).mem = (runCore q false (o.map Flat.toEv)).mem ∧
      (runCore q false (runFile fs fuel main prog).evs).syms = (runCore q false (o.map Flat.toEv)).syms := by
  obtain ⟨k, hk⟩ := C11_ctx_refines fs d main prog o h
  refine ⟨k, fun fuel hf => ?_⟩
  have hs := same_foldl_hand q (runFile fs fuel main prog).evs core0 core0 ⟨rfl, rfl⟩
  rw [(hk fuel hf).2.2.2] at hs
  exact hs

/-- Known finding label-before-include-stays-on-pad-byte: with the quirk the label keeps the address of the pad byte (1),
    in the hand expansion it is the address of the word (2). -/
theorem C11_finding_label_before_include :
    (runCore ⟨true⟩ true findingEvs).mem = [1, 0, 0, 7, 0, 0, 0, 1] ∧
    (runCore ⟨true⟩ true ((findingEvs.flatMap hand).map Flat.toEv)).mem = [1, 0, 0, 7, 0, 0, 0, 2] ∧
    (runCore ⟨false⟩ true findingEvs).mem = [1, 0, 0, 7, 0, 0, 0, 2] := by decide

example : (runFile ⟨[(["w.inc"], .text (.cons (.stmt 3 none (.code true [0, 7])) .nil))], [], []⟩ 10 ["m.asm"]
    (.cons (.stmt 1 none (.code false [1])) (.cons (.incl (some 1) ⟨false, ["w.inc"]⟩)
      (.cons (.stmt 2 none (.ref true true 4 1)) .nil)))).evs = findingEvs := by decide

end AslModel.Ctx
