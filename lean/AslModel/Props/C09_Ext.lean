import AslModel.Lemmas.DataExt
/-!
# C09, extension — reservation forms on segments that are not byte addressable; strings under a
# character map

Property theorems only (helper lemmas: `Lemmas/DataExt.lean`).  Model: `Model/DataExt.lean`
(transcription of the `tCurrCodeFill` arithmetic and the DUP/`?` paths of intpseudo.c for every
granularity, of `TranslateString` and its call sites in motpseudo.c).  Spec: `Spec/DataExt.lean`
(from the manual: packing of DB/DN elements into address units, CHARSET).

`k` = elements per address unit (`ElemsPerFullWord` = 8·Grans/BaseElemLenBits): 2 for DB on AVR/KCPSM
CODE, 4 for DN there, 2 for DN on any byte-addressed segment, 4 resp. 8 on KCPSM3.  All theorems hold
for every `k > 1`, every count and every start position inside a unit.  What is *not* a theorem
(only tested by the correspondence): constant (non-`?`) forms on packed segments, the `LoHiMap`
tables, DUP bodies that mix `?` and nested DUPs beyond the stated shapes (the step theorems compose
to any such tree, but the composition is not stated as one theorem).  (`CodeCHARSET` = the manual's table is
proved since: `C09_pages_charset_is_manual` in `Props/C09_Pages.lean`.)
-/
namespace AslModel.C09
open AslModel.PFile (Byte b)
open AslModel.Data AslModel.DataModel AslModel.DataX AslModel.DataXModel AslModel.DataXLemmas

/-- **`SubCodeFill` inverts `IncCodeFillBy`** on normalised fill pointers (fraction below `k`), in
particular when the addition carried into the next unit (the subtraction then has to borrow). -/
theorem C09_ext_codefill_sub_add (k : Nat) (hk : 1 < k) (a d : Fill)
    (ha : 0 ≤ a.lw ∧ a.lw < k) (hd : 0 ≤ d.lw ∧ d.lw < k) :
    subCodeFill k (incCodeFillBy k a d) a = d := by
  obtain ⟨afw, alw⟩ := a
  obtain ⟨dfw, dlw⟩ := d
  simp only at ha hd
  unfold incCodeFillBy subCodeFill
  by_cases h : alw + dlw ≥ k
  · have h2 : alw + dlw - ↑k - alw < 0 := by omega
    simp only [hk, h, and_self, if_true, h2, Fill.mk.injEq]
    constructor <;> omega
  · have h2 : ¬ (alw + dlw - alw < 0) := by omega
    simp only [h, and_false, if_false, h2, Fill.mk.injEq]
    constructor <;> omega

example : subCodeFill 2 (incCodeFillBy 2 ⟨0, 1⟩ ⟨1, 1⟩) ⟨0, 1⟩ = ⟨1, 1⟩ := by decide

/-- The three operations compute with element counts: with `μ f = fw·k + lw`,
`μ (a − b) = μ a − μ b`, `μ (b·m) = μ b · m`, `μ (a + inc) = μ a + μ inc`, and every result is
normalised again. -/
theorem C09_ext_codefill_counts (k : Nat) (hk : 1 < k) (a bb : Fill) (m : Nat)
    (ha : 0 ≤ a.lw ∧ a.lw < k) (hb : 0 ≤ bb.lw ∧ bb.lw < k) :
    (mu k (subCodeFill k a bb) = mu k a - mu k bb ∧ 0 ≤ (subCodeFill k a bb).lw ∧ (subCodeFill k a bb).lw < k) ∧
    (mu k (multCodeFill k bb m) = mu k bb * m ∧ 0 ≤ (multCodeFill k bb m).lw ∧ (multCodeFill k bb m).lw < k) ∧
    (mu k (incCodeFillBy k a bb) = mu k a + mu k bb ∧ 0 ≤ (incCodeFillBy k a bb).lw ∧ (incCodeFillBy k a bb).lw < k) := by
  have h1 := sub_spec k a bb ha hb
  have h2 := mult_spec k hk bb m
  have h3 := inc_spec k hk a bb ha hb
  exact ⟨⟨h1.2.2, h1.1, h1.2.1⟩, ⟨h2.2.2, h2.1, h2.2.1⟩, ⟨h3.2.2, h3.1, h3.2.1⟩⟩

example : multCodeFill 4 ⟨0, 3⟩ 3 = ⟨2, 1⟩ ∧ mu 4 ⟨2, 1⟩ = mu 4 ⟨0, 3⟩ * 3 := by decide

/-- **`?`** on a packed segment: one element, memory untouched, wherever inside a unit it starts. -/
theorem C09_ext_reserve_q (c : MCfg) (p : XP) (cx : XCtx) (t : List Byte) (st : XSt)
    (hk : 1 < cx.k) (hlw : st.lw < cx.k) (hds : st.ds ≠ .const) :
    ∃ st', layoutMultX c p cx t .q st = .ok st' ∧ Adv cx.k st st' 1 :=
  q_step c p cx t st hk hlw hds

/-- **`n DUP (body)` in reservation mode** on a packed segment: if the body advanced by `d` elements
(from any start position inside a unit to any end position), the DUP advances by exactly `n·d`
elements — for every `n ≥ 1`, every body (the theorem composes over nested DUPs). -/
theorem C09_ext_reserve_dup (c : MCfg) (p : XP) (cx : XCtx) (t : List Byte) (n : Int) (as : XArgs) (st st' : XSt) (d : Nat)
    (hk : 1 < cx.k) (hn : 1 ≤ n) (hlw : st.lw < cx.k)
    (hrun : layoutMultLX c p cx t as st = .ok st') (hadv : Adv cx.k st st' d) :
    ∃ st'', layoutMultX c p cx t (.dup n as) st = .ok st'' ∧ Adv cx.k st st'' (n.toNat * d) :=
  dup_step c p cx t n as st st' d hk hn hlw hrun hadv

/-- a DUP group that starts in the middle of a word and ends at a lower position of a later word -/
example : ∃ st'', layoutMultX ⟨2, false, false, false, false, true, true⟩ ⟨true, false, false⟩ ⟨2, 8, 0⟩ [] (.dup 3 (.cons .q .nil)) ⟨[], 0, 1, .space⟩ = .ok st'' ∧
    Adv 2 ⟨[], 0, 1, .space⟩ st'' (3 * 1) :=
  C09_ext_reserve_dup _ ⟨true, false, false⟩ ⟨2, 8, 0⟩ [] 3 (.cons .q .nil) ⟨[], 0, 1, .space⟩ ⟨[], 1, 0, .space⟩ 1 (by decide) (by decide) (by decide)
    (by decide) ⟨by decide, by decide, rfl, rfl⟩

/-- arguments one after the other: advances add up -/
theorem C09_ext_reserve_seq (c : MCfg) (p : XP) (cx : XCtx) (t : List Byte) (a : XArg) (as : XArgs) (st st1 st2 : XSt) (e1 e2 : Nat)
    (h1 : layoutMultX c p cx t a st = .ok st1) (hadv1 : Adv cx.k st st1 e1)
    (h2 : layoutMultLX c p cx t as st1 = .ok st2) (hadv2 : Adv cx.k st1 st2 e2) :
    layoutMultLX c p cx t (.cons a as) st = .ok st2 ∧ Adv cx.k st st2 (e1 + e2) :=
  ⟨by rw [cons_run c p cx t a as st st1 h1, h2], adv_trans cx.k st st1 st2 e1 e2 hadv1 hadv2⟩

/-- **the statement**: a pure reservation of `e > 0` elements advances the address by `⌈e / k⌉`
units ("one half of the last word remains unused"). -/
theorem C09_ext_reserve_stmt (c : MCfg) (p : XP) (g bits : Nat) (t : List Byte) (as : XArgs) (st' : XSt) (e : Nat)
    (hk : 1 < 8 * g / bits) (he : 0 < e)
    (hrun : layoutMultLX c p ⟨g, bits, loHiMapOf bits g c.ibig⟩ t as {} = .ok st')
    (hadv : Adv (8 * g / bits) {} st' e) :
    decodeIntelDxX c p g bits t as = .ok ⟨none, .space (ceilDiv e (8 * g / bits)), []⟩ :=
  reserve_stmt c p g bits t as st' e hk he hrun hadv

/-- **MODEL = SPEC on a whole family, DB**: `db ?,…,? (a times), n dup (?,…,? (b+1 times))` on a
segment of `g ≥ 2` bytes per address: both reserve `⌈(a + n·(b+1)) / g⌉` units — every `a`, `b`,
`n ≥ 1`, `g`.  With `a` odd on AVR/KCPSM the DUP group starts in the middle of a word. -/
theorem C09_ext_reserve_family_db (c : MCfg) (p : XP) (g : Nat) (hg : 2 ≤ g) (t : List Byte) (big pad : Bool) (m : CharMap)
    (a : Nat) (n : Int) (hn : 1 ≤ n) (bb : Nat) :
    decodeIntelDxX c p g 8 t (family a n bb) = .ok ⟨none, .space (ceilDiv (a + n.toNat * (bb + 1)) g), []⟩ ∧
    specIntel ⟨g, big, pad, m⟩ 8 true none (family a n bb) = some (.space (ceilDiv (a + n.toNat * (bb + 1)) g)) := by
  have hk8 : 8 * g / 8 = g := Nat.mul_div_cancel_left g (by decide)
  constructor
  · have := reserve_family c p g 8 t (by rw [hk8]; omega) a n hn bb
    rwa [hk8] at this
  · have hs := spec_family m (opSizeOf ⟨8 / 8, true, none⟩) ⟨8 / 8, true, none⟩ big n hn bb a
    unfold specIntel
    simp only [show ¬ ((8 : Nat) = 4) by decide, if_false]
    rw [hs]
    simp

/-- **MODEL = SPEC on a whole family, DN**: the same with nibbles, `2g` per unit, any `g ≥ 1`
(two per byte on byte-addressed segments, four per word on AVR/KCPSM CODE). -/
theorem C09_ext_reserve_family_dn (c : MCfg) (p : XP) (g : Nat) (hg : 1 ≤ g) (t : List Byte) (big pad : Bool) (m : CharMap)
    (a : Nat) (n : Int) (hn : 1 ≤ n) (bb : Nat) :
    decodeIntelDxX c p g 4 t (family a n bb) = .ok ⟨none, .space (ceilDiv (a + n.toNat * (bb + 1)) (2 * g)), []⟩ ∧
    specIntel ⟨g, big, pad, m⟩ 4 true none (family a n bb) = some (.space (ceilDiv (a + n.toNat * (bb + 1)) (2 * g))) := by
  have hk4 : 8 * g / 4 = 2 * g := by omega
  constructor
  · have := reserve_family c p g 4 t (by rw [hk4]; omega) a n hn bb
    rwa [hk4] at this
  · unfold specIntel
    simp only [if_true]
    rw [nib_family m n hn bb a]

/-- `db ?, 3 dup (?)` on the AVR CODE segment: 4 bytes = 2 words; `dn ?,?,?, 2 dup (?,?)`: 7 nibbles → 2 words -/
example : decodeIntelDxX ⟨2, false, false, false, false, true, true⟩ ⟨true, false, false⟩ 2 8 [] (family 1 3 0) = .ok ⟨none, .space 2, []⟩ := by
  decide
example : decodeIntelDxX ⟨2, false, false, false, false, true, true⟩ ⟨true, false, false⟩ 2 4 [] (family 3 2 1) = .ok ⟨none, .space 2, []⟩ := by
  decide

/-- **FCC `[n]"string"`** (byte-listing targets): the string is translated once; the statement lays
`n` identical copies of the translated string — model and specification, for every table of 256
entries, every `n ≥ 1`, every non-empty string. -/
theorem C09_ext_fcc_rep (c : MCfg) (p : XP) (t : List Byte) (hlg : c.lg = 1) (hl : t.length = 256)
    (big pad : Bool) (pc : Nat) (n : Nat) (cs : List Byte) (hn : 0 < n) (hcs : cs ≠ []) :
    decodeMoto8X c p t false true (.cons (.rep n (.str cs)) .nil) =
      some ⟨none, .data (List.replicate n (cs.map (CharMap.ap t))).flatten, []⟩ ∧
    specStmtX ⟨1, big, pad, t⟩ pc (.fcc (.cons (.rep n (.str cs)) .nil)) =
      some (0, .data (List.replicate n (cs.map (CharMap.ap t))).flatten) :=
  ⟨fcc_stmt c p t hlg hl n cs hn hcs, fcc_rep_spec 1 big pad t pc n cs⟩

/-- `charset 'a','y','b'` / `fcc [3]"abc"` → 62 63 64 three times -/
example : decodeMoto8X ⟨1, false, true, false, false, true, true⟩ ⟨true, false, false⟩ (modelCharsets [.range 97 121 98]) false true
    (.cons (.rep 3 (.str [0x61, 0x62, 0x63])) .nil) = some ⟨none, .data [0x62, 0x63, 0x64, 0x62, 0x63, 0x64, 0x62, 0x63, 0x64], []⟩ := by
  decide
example : (modelCharsets [.range 97 121 98]).length = 256 := by decide +kernel

/-! ## proved negations (known findings) -/

/-- `dq 'abcde'` lays the string's length; the manual's value is $6162636465. -/
theorem C09_finding_multichar_5_to_8 :
    multiCharToInt false tableInit 8 [0x61, 0x62, 0x63, 0x64, 0x65] = some 5 ∧
    multiCharToInt true tableInit 8 [0x61, 0x62, 0x63, 0x64, 0x65] = some 0x6162636465 ∧ charConst identityMap [0x61, 0x62, 0x63, 0x64, 0x65] = 0x6162636465 := by
  decide

/-- `ds 3` on a segment of 16-bit units: the code reserves 3 units, `db 3 dup (?)` (of which the
manual calls `ds 3` an abbreviation) reserves 2. -/
theorem C09_finding_ds_units :
    modelStmtX ⟨2, false, false, false, false, true, true⟩ ⟨true, false, false⟩ 2 [] 0 (.ds 3) = .ok ⟨none, .space 3, []⟩ ∧
    modelStmtX ⟨2, false, false, false, false, true, true⟩ ⟨true, false, true⟩ 2 [] 0 (.ds 3) = .ok ⟨none, .space 2, []⟩ ∧
    specStmtX ⟨2, false, false, []⟩ 0 (.ds 3) = some (0, .space 2) ∧
    specStmtX ⟨2, false, false, []⟩ 0 (.ix 8 true none (.cons (.dup 3 (.cons .q .nil)) .nil)) = some (0, .space 2) := by
  decide

/-- a constant `db` on a segment of 32-bit units is refused ("not allowed in current segment"; before the repair `3178fe5`
the call went through a NULL pointer), while the statement asks for the value laid down in one unit. -/
theorem C09_finding_gran4_refused :
    modelStmtX ⟨4, true, false, true, false, true, true⟩ ⟨true, false, false⟩ 4 [] 0 (.ix 8 true none (.cons (.int 1) .nil)) = .err ∧
    (specStmtX ⟨4, false, true, []⟩ 0 (.ix 8 true none (.cons (.int 1) .nil))).isSome = true := by
  decide

/-- `dw "a"` under `charset 'a',128`: 80 FF in the code, 80 00 in the specification. -/
theorem C09_finding_char_sign_extended :
    modelStmtX ⟨1, false, false, false, false, true, true⟩ ⟨true, false, false⟩ 1 (modelCharsets [.one 97 128]) 0 (.ix 16 true (some .half) (.cons (.str [0x61]) .nil))
      = .ok ⟨none, .data [0x80, 0xff], []⟩ ∧
    modelStmtX ⟨1, false, false, false, false, true, true⟩ ⟨false, false, false⟩ 1 (modelCharsets [.one 97 128]) 0 (.ix 16 true (some .half) (.cons (.str [0x61]) .nil))
      = .ok ⟨none, .data [0x80, 0x00], []⟩ ∧
    specStmtX ⟨1, false, false, specCharsets [.one 97 128]⟩ 0 (.ix 16 true (some .half) (.cons (.str [0x61]) .nil)) = some (0, .data [0x80, 0x00]) := by
  decide

end AslModel.C09
