import AslModel.Lemmas.Macro
import AslModel.Generated.MacroConsts
/-! C11 - macro, repetition and inclusion constructs are transparent: property theorems (token layer).

Full-strength statement of DESIGN.md 4.11:

    NoCtrl line → Distinct params → AlnumEdges params →
      expandAll args (compressAll params line) = substWhole params args line

What is proved (`C11_tokens`) differs from it in the hypotheses the proof forced; each excluded shape is probed on
the real assembler by the check (vlib/props/c11.py, stream "edge"):

* `NameOK`: every parameter name is a non-empty string of ASCII letters/digits (what the manual demands:
  "only letters and numbers are allowed").  `AlnumEdges` alone is not enough: with parameters `a` and `x.a`
  the sequential compression replaces the `a` of `x.a` first.  asl rejects such names (ChkMacSymbName) - except
  names with non-ASCII letters, which it accepts although `CompressLine_NErl` does not know them.
* `Distinct` is *not* needed: with duplicate names the first one wins in the model and in the spec alike.
* `NoBackslash line`: the `\name\` form is in the model but outside this theorem; with it tokens can become
  adjacent and then the sequential two-byte expansion can match across a token boundary
  (`C11_finding_misaligned_token`, reproduced on the real assembler: known finding `adjacent-tokens-misaligned-match`).
* `params.length ≤ args.length`: `ExpandMacro` always fills the formal parameters up with defaults/empty strings.
  `SHIFT` breaks exactly this (ParCnt is decremented, the last token stays in the line):
  `C11_finding_shift_leaves_token`, known finding `shift-leaves-last-parameter-token`.
* `NoCtrl` for the arguments: an argument is text of a source line; control characters cannot get there unless
  an enclosing expansion left a token behind (previous item).
* `z + args.length ≤ 496`: token bytes stay below 32 (ArgCntMax + 4 = 480). -/
namespace AslModel.Macro
open AslModel.MacroSpec

def NoCtrl (line : Line) : Prop := ∀ x ∈ line, 32 ≤ x.toNat
def NoBackslash (line : Line) : Prop := ∀ x ∈ line, x ≠ 92

/-- Token layer, any number of parameters: expanding the tokens 1..n in order after compressing the names 1..n in
    order is the simultaneous whole-name substitution in the ORIGINAL line. -/
theorem C11_tokens (cs : Bool) (params args : List Line) (line : Line) (z : Nat)
    (hline : NoCtrl line) (hbs : NoBackslash line)
    (hnames : ∀ p ∈ params, NameOK p) (hargs : ∀ a ∈ args, NoCtrl a)
    (hlen : params.length ≤ args.length) (hz : z + args.length ≤ 496) :
    expandAll z args (compressAll cs z params line) = substWhole cs params args line := by
  obtain ⟨hw, hf⟩ := segsGo_ok line [] (by simp) (fun x hx => ⟨hline x hx, hbs x hx⟩)
  have hl : line = flat ((segs line).map ofSeg) := by
    rw [flat_ofSeg]; simpa [segs] using hf.symm
  have hc := compressAll_pieces cs params z ((segs line).map ofSeg) hnames (by omega) (WF_ofSeg _ hw)
  have he := expandAll_pieces args z _ hargs hz (WF_mono _ hc.2)
  conv => lhs; rw [hl]
  rw [hc.1, he, List.map_map]
  have hp : ∀ x ∈ (segs line).map ofSeg,
      (eAllP z args ∘ cAllP cs z params) x = finalP cs params args x := by
    intro x hx
    obtain ⟨sg, _, rfl⟩ := List.mem_map.mp hx
    cases sg with
    | oth c => simp [ofSeg, cAllP_oth, eAllP_oth, finalP]
    | run r => simpa [ofSeg] using run_through cs r params args z hlen
  rw [List.map_congr_left hp, flat_final]
  rfl

/-- the line `MACRO_OutProcessor` stores has passed `KillCtrl`: it has no control characters -/
theorem C11_killctrl (raw : Line) : NoCtrl (killCtrl 0 raw) := killCtrl_noCtrl raw 0

/-- what a macro call delivers for a stored body line (KillCtrl, compress 1..n, expand 1..n) is the whole-name
    substitution in the KillCtrl'ed source line -/
theorem C11_macro_line (cs : Bool) (params args : List Line) (raw : Line)
    (hbs : NoBackslash (killCtrl 0 raw))
    (hnames : ∀ p ∈ params, NameOK p) (hargs : ∀ a ∈ args, NoCtrl a)
    (hlen : params.length ≤ args.length) (hz : args.length ≤ 495) :
    macroLine cs params args raw = substWhole cs params args (killCtrl 0 raw) :=
  C11_tokens cs params args _ 1 (C11_killctrl raw) hbs hnames hargs hlen (by omega)

/-- a line in which no parameter occurs is delivered unchanged (no tokens are invented) -/
theorem C11_no_params (cs : Bool) (line : Line) (hline : NoCtrl line) (hbs : NoBackslash line) :
    substWhole cs [] [] line = line := by
  obtain ⟨_, hf⟩ := segsGo_ok line [] (by simp) (fun x hx => ⟨hline x hx, hbs x hx⟩)
  have : ∀ s : List Seg, s.flatMap (substSeg cs [] []) = flatSegs s := by
    intro s
    induction s with
    | nil => rfl
    | cons a s ih =>
      cases a <;> simp [List.flatMap_cons, substSeg, lookup, flatSegs] at ih ⊢ <;> exact ih
  simp only [substWhole, this]
  simpa [segs] using hf

/-- KNOWN FINDING (model level): `ExpandLine` for parameter 1 destroys the adjacent tokens 16 and 17 - the bytes
    `02 01 02 02` contain the token `01 02` of parameter 1 across the boundary.  `\p16\\p17\` produces exactly this. -/
theorem C11_finding_misaligned_token :
    expandLine 1 [49] (token 16 ++ token 17) ≠ token 16 ++ token 17 := by decide

/-- KNOWN FINDING (model level): with `ParCnt` one less than the number of formal parameters (after SHIFT) the token
    of the last parameter is left in the delivered line. -/
theorem C11_finding_shift_leaves_token :
    expandAll 1 [[50]] (token 1 ++ [44] ++ token 2) = [50, 44] ++ token 2 := by decide

/-- KNOWN FINDING (model level, tab-inside-string-expanded-in-stored-body): the stored form of the body line
    ` db "a<TAB>b"` of a macro without parameters - and so the line a call delivers - has two blanks where the string
    constant has its TAB; `KillCtrl` does not know about string constants. -/
theorem C11_finding_tab_in_string :
    macroLine false [] [] [32, 100, 98, 32, 34, 97, 9, 98, 34] = [32, 100, 98, 32, 34, 97, 32, 32, 98, 34] := by decide

/-- the token numbers the assembler can use (parameters 1..ArgCntMax and the four implicit ones; `ArgCntMax` is
    regenerated from asmdef.h on every run) stay inside the range `C11_tokens` needs: both token bytes are control characters -/
theorem C11_token_range : AslModel.Generated.argCntMax + 4 < 496 := by decide

/-! non-vacuity -/
example : NameOK [112, 49] := ⟨by simp, by decide⟩
example : NoCtrl [100, 98, 32, 112, 49, 43, 120, 112, 49] := by unfold NoCtrl; decide
example : NoBackslash [100, 98, 32, 112, 49, 43, 120, 112, 49] := by unfold NoBackslash; decide
/-- `db p1+xp1` with p1 := `7`: only the whole name is replaced -/
example : substWhole false [[112, 49]] [[55]] [100, 98, 32, 112, 49, 43, 120, 112, 49]
    = [100, 98, 32, 55, 43, 120, 112, 49] := by decide

end AslModel.Macro
