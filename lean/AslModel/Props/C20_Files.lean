import AslModel.Lemmas.PosFiles
import AslModel.Props.C20
import AslModel.Props.C18_Outputs
import AslModel.Generated.ErrClose
/-!
# C20, part "files" – every diagnostic of every source file of a run reaches the error channel, with its own position

Model: `Model/PosFiles.lean` (`run`: `main`'s loop over the file arguments, error channel only – `headEvs`, `deliver`, `errName`,
`content` of C18's `Model/FileOut.lean`, with the guard `if (!*ErrorPath)` of the close at the end of `AssembleFile` as data).
Spec: `Spec/PosFiles.lean` (`want`: a shared target holds the diagnostics of all sources, one source after the other; the log of
a source holds the diagnostics of that source).

* `C20_files_shared`        – guarded close, `-E <file>` / `-E !1` / `-E !2` (default): for every list of sources the target holds
                               exactly the concatenation of the per-source messages (nothing lost, nothing twice), from any
                               consistent state of the handle;
* `C20_files_fileout`       – the same statement on C18's file loop `FileOut.assembleFiles` (link `run_eq_assembleFiles`);
* `C20_files_shared_spec`   – the same as payloads, for the numbered sources of an invocation: what is read back is `Spec.want`;
* `C20_files_per_source`    – `-E` without a name: the log of source `i` holds exactly the messages of source `i` and does not
                               exist if there are none – with or without the guard;
* `C20_files_generated`     – the per-source statement for the close the current `as.c` has (`Generated.fileClosesErrorLog`, C18);
* `C20_files_guard_generated`, `C20_files_generated_shared` – the shared statement for the guard the current `as.c` has
                               (`Generated.errCloseGuard`, clang AST of `AssembleFile`);
* `C20_files_position`      – composed with `C20_position`: for every list of nesting trees the shared target shows, in order,
                               the structural position (`Spec/Pos.lean`) of every reported line of every source;
* `C20_files_unguarded_loses` – proved negation: without the guard a named log holds the last reporting source only.

Helper lemmas: `Lemmas/PosFiles.lean`.
-/
namespace AslModel.C20Files
open AslModel.FileOut AslModel.PosFiles

/-- **One destination for all sources, guarded close.**  For every list of sources (numbers and messages arbitrary) the destination
holds exactly the messages of the sources, one source after the other. -/
theorem C20_files_shared (t : Target) (ht : t ≠ .perSource) (closes : Bool) (srcs : List (Nat × List Msg)) :
    (content t.place.chan none (run true (optsOf t closes) none srcs)).getD [] = srcs.flatMap (·.2) := by
  have hd : (optsOf t closes).dest ≠ .perFile := by cases t <;> simp_all [optsOf, Target.dest]
  have hn : errName (optsOf t closes) 0 = t.place.chan := by cases t <;> simp_all [optsOf, Target.dest, errName, Target.place, Place.chan]
  have h := run_shared_content (optsOf t closes) hd srcs none none (Or.inl ⟨rfl, rfl⟩)
  rw [hn] at h
  simpa using h

/-- **The same on the file loop of C18** (`Model/FileOut.lean`: `assembleFiles` with the pass loop, the counters and the statement
set of that model): for every list of sources none of which ends the process with a fatal error, the destination holds what the
sources report when each is assembled alone, one source after the other – in particular the file is opened (truncated) once. -/
theorem C20_files_fileout (t : Target) (ht : t ≠ .perSource) (closes : Bool) (srcs : List Source)
    (hnf : ∀ s ∈ srcs, (assembleFile (optsOf t closes) boot s).1.status ≠ 3) :
    (content t.place.chan none (allEvs (assembleFiles (optsOf t closes) boot srcs).1)).getD [] =
      srcs.flatMap (msgsAlone (optsOf t closes)) := by
  rw [run_eq_assembleFiles (optsOf t closes) rfl srcs boot rfl hnf]
  have h := C20_files_shared t ht closes (srcs.map fun s => (s.1, msgsAlone (optsOf t closes) s))
  simpa [boot, List.flatMap_map] using h

/-- **Spec on the model, shared targets.**  `per` = the diagnostics of each source alone (payloads), `w` tells warnings from errors:
what is read back from the target after the joint run is what `Spec/PosFiles.want` demands. -/
theorem C20_files_shared_spec {α : Type} (t : Target) (ht : t ≠ .perSource) (closes : Bool) (w : α → Bool) (per : List (List α)) :
    ((holdsAfter true t closes (per.map (·.map w)) t.place).getD []).filterMap (payload per) = want t per t.place := by
  unfold holdsAfter
  rw [C20_files_shared t ht closes]
  have h := sources_payload w per []
  simp only [List.length_nil, List.nil_append] at h
  rw [h]
  cases t <;> simp_all [want, Target.place]

/-- **One log per source.**  With the per-file close in place (guarded or not) the log of source `i` holds exactly the messages of
source `i`, and does not exist when the source has nothing to say – whatever the other sources report. -/
theorem C20_files_per_source (g : Bool) (kinds : List (List Bool)) (i : Nat) (hi : i < kinds.length) :
    holdsAfter g .perSource true kinds (.log i) = if kinds[i] = [] then none else some (msgsOf i kinds[i]) := by
  unfold holdsAfter
  have hd : (optsOf .perSource true).dest = .perFile := rfl
  rw [run_perFile g _ hd rfl]
  have hmem := sources_mem kinds 0 i hi
  simp only [Nat.zero_add] at hmem
  have hnd : ((sources 0 kinds).map (·.1)).Nodup := by rw [sources_keys]; exact List.nodup_range'
  have h := content_flatMap (fun s : Nat × List Msg => s.1) (block (optsOf .perSource true)) (sources 0 kinds)
    (fun x _ => block_chan _ hd x) hnd _ hmem
  simp only [Place.chan] at h ⊢
  rw [h]
  have hb := block_content (optsOf .perSource true) hd (i, msgsOf i kinds[i])
  simp only [] at hb
  rw [hb]
  cases hk : kinds[i] <;> simp [msgsOf, List.range_succ]

/-- the per-source statement for the close `AssembleFile` has in the current sources (generated fact of C18) -/
theorem C20_files_generated (g : Bool) (kinds : List (List Bool)) (i : Nat) (hi : i < kinds.length) :
    holdsAfter g .perSource Generated.fileClosesErrorLog kinds (.log i) = if kinds[i] = [] then none else some (msgsOf i kinds[i]) := by
  rw [C18.C18_out_reset_points.1]
  exact C20_files_per_source g kinds i hi

/-- no `CloseIfOpen(&ErrorFile)` of `AssembleFile` in the current `as.c` stands under no condition at all (clang AST, regenerated
every run: `Generated/ErrClose.lean`; today: the one call stands under `if (!*ErrorPath)`, fact 1).  Stated through `guardOf` so
that a rewrite which moves the close into a helper or words the condition differently does not raise an alarm – whether the
named log really survives the end of a source is probed on the real binary every run and compared with this fact. -/
theorem C20_files_guard_generated : guardOf Generated.errCloseGuard = true := by decide

/-- **Shared targets, for the close the current `as.c` has**: what is read back is what `Spec/PosFiles.want` demands. -/
theorem C20_files_generated_shared {α : Type} (t : Target) (ht : t ≠ .perSource) (w : α → Bool) (per : List (List α)) :
    ((holdsAfter (guardOf Generated.errCloseGuard) t Generated.fileClosesErrorLog (per.map (·.map w)) t.place).getD []).filterMap
      (payload per) = want t per t.place := by
  rw [C20_files_guard_generated]
  exact C20_files_shared_spec t ht _ w per

/-- **Positions of a run over several files.**  For every list of sources (name and nesting tree: include files, macro calls,
REPT/IRP/IRPN/IRPC/WHILE bodies, continuation lines), each target that is one destination, warnings and errors in any mix: the
target shows, source after source and in execution order, the structural position of every reported line – of the first source
as well as of the last. -/
theorem C20_files_position (t : Target) (ht : t ≠ .perSource) (closes : Bool) (w : Pos.Out → Bool) (progs : List (String × Pos.Body)) :
    ((holdsAfter true t closes ((progs.map fun p => Pos.run Pos.cfgFixed p.1 p.2).map (·.map w)) t.place).getD []).filterMap
        (payload (progs.map fun p => Pos.run Pos.cfgFixed p.1 p.2)) =
      progs.flatMap fun p => (Pos.positions p.1 p.2).map Pos.ren := by
  rw [C20_files_shared_spec t ht closes w]
  have hw : want t (progs.map fun p => Pos.run Pos.cfgFixed p.1 p.2) t.place = (progs.map fun p => Pos.run Pos.cfgFixed p.1 p.2).flatten := by
    cases t <;> simp_all [want, Target.place]
  rw [hw, List.flatten_eq_flatMap, List.flatMap_map]
  simp [C20.C20_position]

/-- **Without the guard** (`CloseIfOpen(&ErrorFile)` at the end of every source, whatever the target) a named log is reopened –
truncated – by the first message of every further source: the diagnostics of the first source are lost. -/
theorem C20_files_unguarded_loses :
    holdsAfter false .named true [[false, true], [], [false]] .named = some [.m 2 0 true] ∧
    holdsAfter true .named true [[false, true], [], [false]] .named = some [.m 0 0 true, .m 0 1 false, .m 2 0 true] := by
  decide +kernel

/-! ## Non-vacuity -/

example : (Target.named) ≠ .perSource := by decide
example : ∀ s ∈ [((0 : Nat), [Op.err, .warn]), (1, []), (2, [.warn])], (assembleFile (optsOf .named true) boot s).1.status ≠ 3 := by decide +kernel
example : holdsAfter true .perSource true [[false, true], [], [false]] (.log 1) = none ∧
    holdsAfter false .perSource true [[false, true], [], [false]] (.log 0) = some [.m 0 0 true, .m 0 1 false] := by decide +kernel
/-- the standard handles are not closed by `CloseIfOpen`'s successor `fopen`: the model writes on, nothing is truncated -/
example : holdsAfter true .stderr true [[false], [true]] .stderr = some [.m 0 0 true, .m 1 0 false] := by decide +kernel

end AslModel.C20Files
