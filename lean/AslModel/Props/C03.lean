import AslModel.Lemmas.PFileRead
import AslModel.Spec.Robust
/-!
# C03 — the utilities' code-file reader is total, exact and classifies as the format demands

What is a theorem here: statements about `PFileRead.readFile`, the transcription of the record loop of
plist/pbind/p2bin/p2hex (all configurations `Cfg`).  What is *not* a theorem: memory safety and liveness
of the C programs themselves — that half of C03 is exploration (sanitizer build, generated inputs) and is
labelled so in the evidence.
-/
namespace AslModel.PFileRead
open AslModel.PFile AslModel.Robust

/-- For every byte sequence and every tool configuration the reader ends with a record list or a
classified error; the fuel `length + 1` is always sufficient.  (All input accesses are pattern matches on
the remaining list: there is no index that could be out of range.) -/
theorem C03_reader_total (cfg : Cfg) (bs : List Byte) :
    (∃ rs, readFile cfg bs = .ok rs) ∨
    (∃ e, readFile cfg bs = .error e ∧ e ≠ .fuel) := by
  cases h : readFile cfg bs with
  | ok rs => exact Or.inl ⟨rs, rfl⟩
  | error e =>
    refine Or.inr ⟨e, rfl, ?_⟩
    intro he
    subst he
    unfold readFile at h
    split at h
    · split at h
      · exact readRecs_fuel cfg _ _ (Nat.lt_succ_self _) h
      · cases h
    · cases h

/-- An accepted file is *exactly* the concatenation of the records the reader returns: every byte is
consumed once, none is skipped, none is invented (so nothing beyond the end was read). -/
theorem C03_reader_exact (cfg : Cfg) (bs : List Byte) (rs : List Record)
    (h : readFile cfg bs = .ok rs) : fileBytes rs = bs := by
  unfold readFile at h
  split at h
  · rename_i m0 m1 rest
    split at h
    · rename_i hm
      obtain ⟨rfl, rfl⟩ := (magic_iff m0 m1).mp hm
      have := readRecs_exact cfg _ _ _ h
      simp [fileBytes, magic, this]
    · cases h
  · cases h

/-- Every well-formed file (SPEC reader accepts) is accepted by the tool's loop with the same content,
provided the creator string leaves the bytes the tool's length test wants (`slack ≤ |creator| + 1`:
always true for plist and the measuring passes, `creator ≠ ""` for pbind/p2bin/p2hex) and the tool's
family/granularity pre-checks pass. -/
theorem C03_reader_accepts_wellformed (cfg : Cfg) (hd : 0x81 ≤ cfg.dataUpTo) (bs : List Byte)
    (is : List Item) (cr : List Byte) (h : parseFile bs = some (is, cr))
    (hs : cfg.slack ≤ cr.length + 1)
    (hpre : ∀ r ∈ dataRecs is, preCheck cfg r.cpu r.gran = .ok ()) :
    ∃ rs, readFile cfg bs = .ok rs ∧ toItems rs = some (is, cr) := by
  unfold parseFile at h
  split at h
  · rename_i rest
    have := readRecs_complete cfg hd _ _ _ _ h hs hpre
    simpa [readFile, (magic_iff 0x89 0x14).mpr ⟨rfl, rfl⟩] using this
  · cases h

/-- Whatever the reader accepts and consists of documented record kinds only is well formed with that
content; so a malformed file is either rejected or contains a reserved header kind (`$82..$ff`) that the
tools skip. -/
theorem C03_reader_rejects_malformed (cfg : Cfg) (bs : List Byte) (rs : List Record)
    (x : List Item × List Byte) (h : readFile cfg bs = .ok rs) (ht : toItems rs = some x) :
    parseFile bs = some x := by
  unfold readFile at h
  split at h
  · rename_i m0 m1 rest
    split at h
    · rename_i hm
      obtain ⟨rfl, rfl⟩ := (magic_iff m0 m1).mp hm
      exact readRecs_sound cfg _ _ _ _ h ht
    · cases h
  · cases h

/-- Classification, for a reader without family/granularity pre-checks whose length test wants at most
one following byte (plist, MeasureFile): it returns a documented record list `x` **iff** the file is well
formed with content `x`. -/
theorem C03_reader_classifies (cfg : Cfg) (hd : 0x81 ≤ cfg.dataUpTo) (hs : cfg.slack ≤ 1)
    (hf : cfg.famCheck = false) (hg : cfg.granCheck = false) (bs : List Byte) (x : List Item × List Byte) :
    (∃ rs, readFile cfg bs = .ok rs ∧ toItems rs = some x) ↔ parseFile bs = some x := by
  constructor
  · rintro ⟨rs, h, ht⟩
    exact C03_reader_rejects_malformed cfg bs rs x h ht
  · intro h
    obtain ⟨is, cr⟩ := x
    refine C03_reader_accepts_wellformed cfg hd bs is cr h (by omega) ?_
    intro r _
    simp [preCheck, hf, hg]

/-- an ill-formed file is never answered with a documented record list -/
theorem C03_reader_malformed_not_ok (cfg : Cfg) (bs : List Byte) (h : ¬ WellFormed bs) (rs : List Record)
    (hr : readFile cfg bs = .ok rs) : toItems rs = none := by
  cases ht : toItems rs with
  | none => rfl
  | some x =>
    exfalso
    apply h
    simp [WellFormed, C03_reader_rejects_malformed cfg bs rs x hr ht]

/-- With the guard "granularity 0 is a format error" in the reader, every division `Len / Gran` a tool
performs on an accepted file has a non-zero divisor. -/
theorem C03_gran_guard (cfg : Cfg) (hg : cfg.granCheck = true) (hd : 0x81 ≤ cfg.dataUpTo) (ps : Bool)
    (bs : List Byte) (rs : List Record) (h : readFile cfg bs = .ok rs) :
    ∃ vs, useAll cfg ps rs = .ok vs := by
  unfold readFile at h
  split at h
  · split at h
    · exact useAll_ok cfg ps rs (readRecs_granOK cfg hg hd _ _ _ h)
    · cases h
  · cases h

/-- the 14-byte witness of DESIGN.md section 6 (plus a creator) -/
def granZeroWitness : List Byte :=
  [0x89, 0x14, 0x81, 0x01, 0x01, 0x00, 0, 0, 0, 0, 1, 0, 0xaa, 0x00, 0x41, 0x53]

/-- **Finding `gran-zero`**: without that guard (the unchanged tree) the witness is accepted by plist,
p2bin and p2hex and the division traps. -/
theorem C03_finding_gran_zero :
    (∃ rs, readFile (cfgPlist false) granZeroWitness = .ok rs ∧ useAll (cfgPlist false) true rs = .error .divZero) ∧
    (∃ rs, readFile (cfgP2bin false) granZeroWitness = .ok rs ∧ useAll (cfgP2bin false) false rs = .error .divZero) ∧
    (∃ rs, readFile (cfgMeasureHex false) granZeroWitness = .ok rs ∧ useAll (cfgMeasureHex false) false rs = .error .divZero) := by
  have h1 : okAnd (readFile (cfgPlist false) granZeroWitness) (fun rs => isDivZero (useAll (cfgPlist false) true rs)) = true := by decide
  have h2 : okAnd (readFile (cfgP2bin false) granZeroWitness) (fun rs => isDivZero (useAll (cfgP2bin false) false rs)) = true := by decide
  have h3 : okAnd (readFile (cfgMeasureHex false) granZeroWitness) (fun rs => isDivZero (useAll (cfgMeasureHex false) false rs)) = true := by decide
  obtain ⟨r1, e1, p1⟩ := okAnd_elim _ _ h1
  obtain ⟨r2, e2, p2⟩ := okAnd_elim _ _ h2
  obtain ⟨r3, e3, p3⟩ := okAnd_elim _ _ h3
  exact ⟨⟨r1, e1, isDivZero_elim _ p1⟩, ⟨r2, e2, isDivZero_elim _ p2⟩, ⟨r3, e3, isDivZero_elim _ p3⟩⟩

/-! ## non-vacuity -/

/-- a well-formed two-record file with entry point -/
def sampleFile : List Byte :=
  [0x89, 0x14, 0x51, 0x00, 0x01, 0, 0, 3, 0, 1, 2, 3, 0x81, 0x31, 0x02, 0x01, 0x20, 0, 0, 0, 2, 0, 0xaa, 0xbb,
   0x80, 0x00, 0x01, 0, 0, 0x00, 0x41, 0x53]

example : WellFormed sampleFile := by decide
example : okAnd (readFile (cfgPlist false) sampleFile) (fun rs => rs.length == 4) = true := by decide
example : okAnd (readFile cfgPbind sampleFile) (fun rs => (toItems rs).isSome) = true := by decide
example : okAnd (readFile (cfgP2hex false) sampleFile) (fun rs => (toItems rs).isSome) = true := by decide
-- the hypotheses of C03_reader_classifies hold for plist and the measuring passes
example : 0x81 ≤ (cfgPlist false).dataUpTo ∧ (cfgPlist false).slack ≤ 1 := by decide
example : 0x81 ≤ (cfgMeasureBin false).dataUpTo ∧ (cfgMeasureBin false).slack ≤ 1 := by decide
-- the guard is non-vacuous: with it the witness is refused as a format error, a good file still passes
example : errOf (readFile (cfgPlist true) granZeroWitness) = some .badGran := by decide
example : okAnd (readFile (cfgPlist true) sampleFile) (fun _ => true) = true := by decide
-- truncations of the sample are a short read or a length error; a wrong magic is a format error
example : errOf (readFile (cfgPlist false) (sampleFile.take 29)) = some .shortRead := by decide
example : errOf (readFile (cfgPlist false) (sampleFile.take 11)) = some .badLength := by decide
example : errOf (readFile (cfgPlist false) [0x89, 0x15]) = some .badMagic := by decide
-- a reserved header kind is skipped, so the SPEC reader and the tools differ exactly there
example : okAnd (readFile cfgPbind [0x89, 0x14, 0x90, 0, 0, 0, 0, 1, 0, 7, 0x00, 0x41]) (fun rs => (toItems rs).isNone) = true := by
  decide
-- with slack 2 (pbind/p2bin/p2hex before fix 721957a; the harness measures the value on the real binaries each
-- run) an empty creator after a data record is refused (finding of C05/C07); with slack 1 (plist) it is not
example : errOf (readFile cfgPbind [0x89, 0x14, 0x51, 0, 0, 0, 0, 1, 0, 7, 0x00]) = some .badLength := by decide
example : okAnd (readFile (cfgPlist false) [0x89, 0x14, 0x51, 0, 0, 0, 0, 1, 0, 7, 0x00]) (fun _ => true) = true := by decide

end AslModel.PFileRead
