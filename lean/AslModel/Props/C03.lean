import AslModel.Lemmas.PFileRead
import AslModel.Spec.Robust
/-!
# C03 — the utilities' code-file reader is total, exact and classifies as the format demands

What is a theorem here: statements about `PFileRead.readFile`, the transcription of the record loop of
plist/pbind/p2bin/p2hex (all configurations `Cfg`) as it stands after the repairs of `ReadRecordHeader`
("unexpected end of file"), `SkipRecord` (forward-only seek) and `ReadRelocInfo` (validated).  Every byte string
is classified with a definite exit status: accepted (the tool goes on, 0 as far as the reader is concerned) or
format error 3; the only other outcome is `ChkIO`'s status 2 where `errno` is stale from the program's start-up
(environment flags `errnoMagic` / `errnoLoop` of the configuration, measured on the real binaries) - there is no
"2 or 3" and no undefined class any more.  What is *not* a theorem: memory safety and liveness of the C programs
themselves — that half of C03 is exploration (sanitizer build, generated inputs) and is labelled so in the
evidence.
-/
namespace AslModel.PFileRead
open AslModel.PFile AslModel.Robust

/-- For every byte sequence and every tool configuration the reader ends with a record list or a
classified error; the fuel `length + 1` is always sufficient.  (All input accesses are pattern matches on
the remaining list: there is no index that could be out of range.) -/
theorem C03_reader_total (cfg : Cfg) (bs : List Byte) :
    (∃ rs, readFile cfg bs = .ok rs) ∨
    (∃ e, readFile cfg bs = .error e ∧ e ≠ .fuel) := by
  cases h : readFile cfg bs with
  | ok rs => exact Or.inl ⟨rs, rfl⟩
  | error e =>
    refine Or.inr ⟨e, rfl, ?_⟩
    intro he
    subst he
    unfold readFile at h
    split at h
    · split at h
      · exact readRecs_fuel cfg _ _ (Nat.lt_succ_self _) h
      · cases h
    · split at h <;> cases h

/-- Every byte string has a definite predicted exit status: 0 exactly when the reader accepts, otherwise 3
(`FormatError`) - or 2, and that only in a configuration whose `errno` is stale (`ChkIO`).  The classes "I/O error
or format error, whichever" and "undefined" of the reader before the repairs are gone. -/
theorem C03_reader_status_definite (cfg : Cfg) (bs : List Byte) :
    (exitStatus (readFile cfg bs) = 0 ∧ ∃ rs, readFile cfg bs = .ok rs) ∨
    (Rejected cfg (readFile cfg bs) ∧ ∃ e, readFile cfg bs = .error e ∧ e ≠ .fuel) := by
  rcases C03_reader_total cfg bs with ⟨rs, h⟩ | ⟨e, h, he⟩
  · exact Or.inl ⟨by rw [h]; rfl, rs, h⟩
  · refine Or.inr ⟨?_, e, h, he⟩
    by_cases hio : e = .io
    · subst hio
      exact Or.inr ⟨by rw [h]; rfl, readFile_io cfg bs h⟩
    · refine Or.inl ?_
      rw [h]
      cases e <;> first | rfl | exact absurd rfl hio

/-- With a clean `errno` (plist; the processing passes of pbind/p2bin/p2hex after their `errno = 0`) the
classification has two classes: accepted, or exit status 3. -/
theorem C03_reader_status_clean_errno (cfg : Cfg) (hm : cfg.errnoMagic = false) (hl : cfg.errnoLoop = false)
    (bs : List Byte) :
    (exitStatus (readFile cfg bs) = 0 ∧ ∃ rs, readFile cfg bs = .ok rs) ∨ exitStatus (readFile cfg bs) = 3 := by
  rcases C03_reader_status_definite cfg bs with h | ⟨h, _⟩
  · exact Or.inl h
  · exact Or.inr (h.clean hm hl)

/-- The one place where the C code goes on with stale variables (the file ends inside the CPU/Segment/Gran
bytes of a record the tool interprets): whatever these variables hold, the data branch ends in a format error
whose message is one of the documented ones - never an acceptance, never the fuel class. -/
theorem C03_reader_stale_header_any_values (cfg : Cfg) (cpu seg gran : Byte) (len : Nat) :
    (dataAtEof cfg cpu seg gran len).status = 3 ∧ dataAtEof cfg cpu seg gran len ≠ .fuel ∧
    ((dataAtEof cfg cpu seg gran len).msg = some .invRecordHeader ∨
     (dataAtEof cfg cpu seg gran len).msg = some .invRecordLen ∨
     (dataAtEof cfg cpu seg gran len).msg = some .unexpectedEof) := by
  refine ⟨?_, ?_, ?_⟩
  · unfold dataAtEof
    split
    · rename_i e he
      rcases preCheck_err _ _ _ _ _ he with h | h | h <;> subst h <;> rfl
    · split <;> rfl
  · unfold dataAtEof
    split
    · rename_i e he; intro hh; subst hh; exact preCheck_nofuel _ _ _ _ he
    · split <;> simp
  · unfold dataAtEof
    split
    · rename_i e he
      rcases preCheck_err _ _ _ _ _ he with h | h | h <;> subst h <;> simp [ToolErr.msg]
    · split <;> simp [ToolErr.msg]

/-- An accepted file is *exactly* the concatenation of the records the reader returns: every byte is
consumed once, none is skipped, none is invented (so nothing beyond the end was read). -/
theorem C03_reader_exact (cfg : Cfg) (bs : List Byte) (rs : List Record)
    (h : readFile cfg bs = .ok rs) : fileBytes rs = bs := by
  unfold readFile at h
  split at h
  · rename_i m0 m1 rest
    split at h
    · rename_i hm
      obtain ⟨rfl, rfl⟩ := (magic_iff m0 m1).mp hm
      have := readRecs_exact cfg _ _ _ h
      simp [fileBytes, magic, this]
    · cases h
  · cases h

/-- Every well-formed file (SPEC reader accepts) is accepted by the tool's loop with the same content,
provided the creator string leaves the bytes the tool's length test wants (`slack ≤ |creator| + 1`:
true for every tool since `fix: accept code files whose creator string is empty`) and the tool's header tests
(granularity, segment number, family) pass. -/
theorem C03_reader_accepts_wellformed (cfg : Cfg) (hd : 0x81 ≤ cfg.dataUpTo) (bs : List Byte)
    (is : List Item) (cr : List Byte) (h : parseFile bs = some (is, cr))
    (hs : cfg.slack ≤ cr.length + 1)
    (hpre : ∀ r ∈ dataRecs is, preCheck cfg r.cpu r.seg r.gran = .ok ()) :
    ∃ rs, readFile cfg bs = .ok rs ∧ toItems rs = some (is, cr) := by
  unfold parseFile at h
  split at h
  · rename_i rest
    have := readRecs_complete cfg hd _ _ _ _ h hs hpre
    simpa [readFile, (magic_iff 0x89 0x14).mpr ⟨rfl, rfl⟩] using this
  · cases h

/-- Whatever the reader accepts and consists of documented record kinds only is well formed with that
content. -/
theorem C03_reader_sound (cfg : Cfg) (bs : List Byte) (rs : List Record)
    (x : List Item × List Byte) (h : readFile cfg bs = .ok rs) (ht : toItems rs = some x) :
    parseFile bs = some x := by
  unfold readFile at h
  split at h
  · rename_i m0 m1 rest
    split at h
    · rename_i hm
      obtain ⟨rfl, rfl⟩ := (magic_iff m0 m1).mp hm
      exact readRecs_sound cfg _ _ _ _ h ht
    · cases h
  · cases h

/-- **A file that is not well formed is rejected by every tool** (exit status 3; 2 only under a stale `errno`) -
unless it is accepted because all that is wrong with it are record kinds outside the documented grammar
(`$82..$ff`), which the tools skip (plist lists `$82..$85`). -/
theorem C03_reader_rejects_malformed (cfg : Cfg) (bs : List Byte) (h : ¬ WellFormed bs) :
    Rejected cfg (readFile cfg bs) ∨
    (∃ rs, readFile cfg bs = .ok rs ∧ ∃ r ∈ rs, r.reserved = true) := by
  rcases C03_reader_status_definite cfg bs with ⟨_, rs, hr⟩ | ⟨h3, _⟩
  · refine Or.inr ⟨rs, hr, ?_⟩
    cases ht : toItems rs with
    | some x =>
      exfalso; apply h
      simp [WellFormed, C03_reader_sound cfg bs rs x hr ht]
    | none =>
      unfold readFile at hr
      split at hr
      · split at hr
        · exact readRecs_reserved cfg _ _ _ hr ht
        · cases hr
      · cases hr
  · exact Or.inl h3

/-- an ill-formed file is never answered with a documented record list -/
theorem C03_reader_malformed_not_ok (cfg : Cfg) (bs : List Byte) (h : ¬ WellFormed bs) (rs : List Record)
    (hr : readFile cfg bs = .ok rs) : toItems rs = none := by
  cases ht : toItems rs with
  | none => rfl
  | some x =>
    exfalso
    apply h
    simp [WellFormed, C03_reader_sound cfg bs rs x hr ht]

/-- Classification, for every tool whose length test wants at most the `$00` byte behind a data record (all of
them on the current tree): it returns a documented record list `x` **iff** the file is well formed with
content `x` and every data record passes the tool's header tests. -/
theorem C03_reader_classifies (cfg : Cfg) (hd : 0x81 ≤ cfg.dataUpTo) (hs : cfg.slack ≤ 1)
    (bs : List Byte) (x : List Item × List Byte) :
    (∃ rs, readFile cfg bs = .ok rs ∧ toItems rs = some x) ↔
    (parseFile bs = some x ∧ ∀ r ∈ dataRecs x.1, preCheck cfg r.cpu r.seg r.gran = .ok ()) := by
  constructor
  · rintro ⟨rs, h, ht⟩
    refine ⟨C03_reader_sound cfg bs rs x h ht, ?_⟩
    obtain ⟨is, cr⟩ := x
    unfold readFile at h
    split at h
    · split at h
      · exact readRecs_prechecked cfg hd _ _ _ _ _ h ht
      · cases h
    · cases h
  · rintro ⟨h, hpre⟩
    obtain ⟨is, cr⟩ := x
    exact C03_reader_accepts_wellformed cfg hd bs is cr h (by omega) hpre

/-- **A truncated file is rejected.**  If a tool accepts `bs` with creator string `cr`, every prefix of `bs` that
ends before the `$00` header byte of the end record - i.e. that cuts a record, ends between two records or consists
of (part of) the magic - is rejected (exit status 3; 2 only under a stale `errno`); and when the tool rejects
`bs`, it rejects every prefix.  (A prefix that contains the `$00` byte only shortens the creator string, whose end is the end of the
file by definition.) -/
theorem C03_reader_rejects_truncated (cfg : Cfg) (bs : List Byte) (n : Nat)
    (hn : ∀ recs cr, readFile cfg bs = .ok (recs ++ [.fin cr]) → n + cr.length < bs.length) :
    Rejected cfg (readFile cfg (bs.take n)) := by
  rcases C03_reader_status_definite cfg (bs.take n) with ⟨_, rs, hr⟩ | ⟨h3, _⟩
  · exfalso
    obtain ⟨recs, cr, _, h2⟩ := readFile_extend cfg (bs.take n) (bs.drop n) rs hr
    rw [List.take_append_drop] at h2
    have := hn _ _ h2
    simp only [List.length_append, List.length_drop] at this
    omega
  · exact h3

/-- The same for a well-formed file (SPEC reader, creator `cr`), for every tool and without side conditions:
a proper prefix that does not reach the end record's header byte is rejected - with exit status 3 when `errno`
is clean. -/
theorem C03_reader_rejects_truncated_wellformed (cfg : Cfg) (bs : List Byte) (is : List Item) (cr : List Byte)
    (h : parseFile bs = some (is, cr)) (n : Nat) (hn : n + cr.length < bs.length) :
    Rejected cfg (readFile cfg (bs.take n)) ∧
    (cfg.errnoMagic = false → cfg.errnoLoop = false → exitStatus (readFile cfg (bs.take n)) = 3) := by
  suffices key : Rejected cfg (readFile cfg (bs.take n)) from ⟨key, fun hm hl => key.clean hm hl⟩
  apply C03_reader_rejects_truncated
  intro recs cr' hr
  have : cr' = cr := by
    unfold parseFile at h
    split at h
    · rename_i rest
      simp only [readFile, (magic_iff 0x89 0x14).mpr ⟨rfl, rfl⟩, if_true] at hr
      obtain ⟨recs', h'⟩ := readRecs_creator cfg _ _ _ _ _ hr h
      have := List.append_inj_right' h' rfl
      simpa using this
    · cases h
  subst this
  exact hn

/-- With the guard "granularity 0 is a format error" in the reader, every division `Len / Gran` a tool
performs on an accepted file has a non-zero divisor. -/
theorem C03_gran_guard (cfg : Cfg) (hg : cfg.granCheck = true) (ps : Bool)
    (bs : List Byte) (rs : List Record) (h : readFile cfg bs = .ok rs) :
    ∃ vs, useAll cfg ps rs = .ok vs := by
  unfold readFile at h
  split at h
  · split at h
    · exact useAll_ok cfg ps rs (readRecs_granOK cfg hg _ _ _ h)
    · cases h
  · cases h

/-- the 14-byte witness of DESIGN.md section 6 (plus a creator) -/
def granZeroWitness : List Byte :=
  [0x89, 0x14, 0x81, 0x01, 0x01, 0x00, 0, 0, 0, 0, 1, 0, 0xaa, 0x00, 0x41, 0x53]

/-- **Finding `gran-zero`** (repaired in /repo; the guard flag is probed on the real binaries each run): without
that guard the witness is accepted by plist, p2bin and p2hex and the division traps. -/
theorem C03_finding_gran_zero :
    (∃ rs, readFile (cfgPlist false) granZeroWitness = .ok rs ∧ useAll (cfgPlist false) true rs = .error .divZero) ∧
    (∃ rs, readFile (cfgP2bin false) granZeroWitness = .ok rs ∧ useAll (cfgP2bin false) false rs = .error .divZero) ∧
    (∃ rs, readFile (cfgMeasureHex false) granZeroWitness = .ok rs ∧ useAll (cfgMeasureHex false) false rs = .error .divZero) := by
  have h1 : okAnd (readFile (cfgPlist false) granZeroWitness) (fun rs => isDivZero (useAll (cfgPlist false) true rs)) = true := by decide
  have h2 : okAnd (readFile (cfgP2bin false) granZeroWitness) (fun rs => isDivZero (useAll (cfgP2bin false) false rs)) = true := by decide
  have h3 : okAnd (readFile (cfgMeasureHex false) granZeroWitness) (fun rs => isDivZero (useAll (cfgMeasureHex false) false rs)) = true := by decide
  obtain ⟨r1, e1, p1⟩ := okAnd_elim _ _ h1
  obtain ⟨r2, e2, p2⟩ := okAnd_elim _ _ h2
  obtain ⟨r3, e3, p3⟩ := okAnd_elim _ _ h3
  exact ⟨⟨r1, e1, isDivZero_elim _ p1⟩, ⟨r2, e2, isDivZero_elim _ p2⟩, ⟨r3, e3, isDivZero_elim _ p3⟩⟩

/-! ## the repaired relocation-record paths (were findings `plist-relocinfo-unchecked`,
`relocinfo-negative-length-seeks-back`, `short-read-undetected`) -/

/-- `$85` with `RelocCount = 1` and no entries (the former SIGSEGV witness of plist) -/
def relocShortWitness : List Byte :=
  [0x89, 0x14, 0x85, 1, 0, 0, 0, 0, 0, 0, 0, 0, 0, 0, 0, 0x00, 0x41, 0x53]

/-- `$85` with `StringLen = $FFFFFFF3` (the former backwards seek of `SkipRecord`) -/
def relocNegativeWitness : List Byte :=
  [0x89, 0x14, 0x85, 0, 0, 0, 0, 0, 0, 0, 0, 0xf3, 0xff, 0xff, 0xff, 0x00, 0x41, 0x53]

/-- plist answers a relocation record whose entries are not all present, whose string offsets leave the string
area or whose string area does not end in NUL with the format error "invalid record length". -/
theorem C03_reloc_plist_rejects_incomplete :
    readFile (cfgPlist true) relocShortWitness = .error .badReloc ∧
    readFile (cfgPlist true) relocNegativeWitness = .error .badReloc ∧
    -- one relocation entry, string offset 1 in a string area of length 1
    readFile (cfgPlist true) ([0x89, 0x14, 0x85, 1, 0, 0, 0, 0, 0, 0, 0, 1, 0, 0, 0] ++
      [0, 0, 0, 0, 0, 0, 0, 0, 1, 0, 0, 0, 8, 0x80, 0, 0] ++ [0] ++ [0x00, 0x41]) = .error .badReloc ∧
    -- string area "a" without the terminating NUL
    readFile (cfgPlist true) ([0x89, 0x14, 0x85, 0, 0, 0, 0, 0, 0, 0, 0, 1, 0, 0, 0] ++ [0x61] ++ [0x00, 0x41]) = .error .badReloc := by
  refine ⟨?_, ?_, ?_, ?_⟩ <;> exact errOf_elim _ _ (by decide)

/-- The length `SkipRecord` seeks over is the exact sum `16*RelocCount + 16*ExportCount + StringLen` (no 32-bit
wrap, never negative): a tool that skips the record accepts it exactly when that many bytes and an end record
follow; the former witnesses of the backwards seek and of the undetected short read end with "unexpected end of
file" in pbind, p2bin and p2hex (both passes). -/
theorem C03_reloc_skip_forward_only (cfg : Cfg) (hp : cfg.parseReloc = false) (he : cfg.errnoLoop = false)
    (r0 r1 r2 r3 e0 e1 e2 e3 s0 s1 s2 s3 : Byte) (rest : List Byte) :
    step cfg (0x85 :: r0 :: r1 :: r2 :: r3 :: e0 :: e1 :: e2 :: e3 :: s0 :: s1 :: s2 :: s3 :: rest) =
      (if rest.length < 16 * rd32 r0 r1 r2 r3 + 16 * rd32 e0 e1 e2 e3 + rd32 s0 s1 s2 s3 then .err .eof
       else .more (.reloc [r0, r1, r2, r3, e0, e1, e2, e3, s0, s1, s2, s3]
                    (rest.take (16 * rd32 r0 r1 r2 r3 + 16 * rd32 e0 e1 e2 e3 + rd32 s0 s1 s2 s3)))
                  (rest.drop (16 * rd32 r0 r1 r2 r3 + 16 * rd32 e0 e1 e2 e3 + rd32 s0 s1 s2 s3))) := by
  simp [step, relocFields, relocFull, hp, onShort, he]

theorem C03_reloc_skip_witnesses :
    readFile cfgPbind relocNegativeWitness = .error .eof ∧
    readFile (cfgP2bin true) relocNegativeWitness = .error .eof ∧
    readFile (cfgP2hex true) relocNegativeWitness = .error .eof ∧
    readFile (cfgMeasureBin true) relocNegativeWitness = .error .eof ∧
    readFile cfgPbind relocShortWitness = .error .eof := by
  refine ⟨?_, ?_, ?_, ?_, ?_⟩ <;> exact errOf_elim _ _ (by decide)

/-- A file that ends without its end record - after the magic, after a complete record, inside an entry
record - is a format error ("unexpected end of file") in every tool whose `errno` is clean in the loop. -/
theorem C03_missing_end_record (cfg : Cfg) (he : cfg.errnoLoop = false) :
    readFile cfg [0x89, 0x14] = .error .eof ∧
    (∀ a0 a1 a2 a3, readFile cfg [0x89, 0x14, 0x80, a0, a1, a2, a3] = .error .eof) ∧
    (∀ a0 a1, readFile cfg [0x89, 0x14, 0x80, a0, a1] = .error .eof) := by
  refine ⟨?_, ?_, ?_⟩
  · simp [readFile, Generated.fileMagic, rd16, readRecs, step, onShort, he]
  · intro a0 a1 a2 a3; simp [readFile, Generated.fileMagic, rd16, readRecs, step, onShort, he]
  · intro a0 a1; simp [readFile, Generated.fileMagic, rd16, readRecs, step, onShort, he]

/-! ## non-vacuity -/

/-- a well-formed two-record file with entry point -/
def sampleFile : List Byte :=
  [0x89, 0x14, 0x51, 0x00, 0x01, 0, 0, 3, 0, 1, 2, 3, 0x81, 0x31, 0x02, 0x01, 0x20, 0, 0, 0, 2, 0, 0xaa, 0xbb,
   0x80, 0x00, 0x01, 0, 0, 0x00, 0x41, 0x53]

example : WellFormed sampleFile := by decide
example : okAnd (readFile (cfgPlist false) sampleFile) (fun rs => rs.length == 4) = true := by decide
example : okAnd (readFile cfgPbind sampleFile) (fun rs => (toItems rs).isSome) = true := by decide
example : okAnd (readFile (cfgP2hex false) sampleFile) (fun rs => (toItems rs).isSome) = true := by decide
-- the hypotheses of C03_reader_classifies hold for every tool configuration
example : 0x81 ≤ (cfgPlist true).dataUpTo ∧ (cfgPlist true).slack ≤ 1 := by decide
example : 0x81 ≤ cfgPbind.dataUpTo ∧ cfgPbind.slack ≤ 1 := by decide
example : 0x81 ≤ (cfgP2hex true).dataUpTo ∧ (cfgP2hex true).slack ≤ 1 := by decide
example : 0x81 ≤ (cfgMeasureBin false).dataUpTo ∧ (cfgMeasureBin false).slack ≤ 1 := by decide
-- the guard is non-vacuous: with it the witness is refused as a format error, a good file still passes
example : errOf (readFile (cfgPlist true) granZeroWitness) = some .badGran := by decide
example : okAnd (readFile (cfgPlist true) sampleFile) (fun _ => true) = true := by decide
-- truncations of the sample: end of file, length error, stale header - all status 3; a wrong magic is a format error
example : errOf (readFile (cfgPlist false) (sampleFile.take 29)) = some .eof := by decide
example : errOf (readFile (cfgPlist false) (sampleFile.take 11)) = some .badLength := by decide
example : errOf (readFile (cfgPlist false) (sampleFile.take 14)) = some .staleHeader := by decide
example : errOf (readFile (cfgPlist false) (sampleFile.take 19)) = some .badLength := by decide
example : errOf (readFile (cfgMeasureBin false) (sampleFile.take 19)) = some .eof := by decide
example : errOf (readFile (cfgPlist false) [0x89, 0x15]) = some .badMagic := by decide
example : errOf (readFile (cfgPlist false) [0x89]) = some .badMagic := by decide
-- C03_reader_rejects_truncated_wellformed is not vacuous: the sample is well formed with a 2-byte creator
example : parseFile sampleFile = some ([.data ⟨0x51, 1, 1, 0x100, [1, 2, 3]⟩, .data ⟨0x31, 2, 1, 0x20, [0xaa, 0xbb]⟩, .entry 0x100], [0x41, 0x53]) := by
  decide
example : ∀ n ∈ List.range 30, exitStatus (readFile (cfgP2bin true) (sampleFile.take n)) = 3 := by decide
-- under a stale errno (p2bin's measuring pass as the harness runs it) the end-of-file cases are status 2, the others 3
example : (List.range 30).map (fun n => exitStatus (readFile { cfgMeasureBin true with errnoMagic := true, errnoLoop := true } (sampleFile.take n))) =
    [2, 2, 2, 2, 2, 2, 2, 2, 2, 3, 3, 3, 2, 2, 2, 2, 2, 2, 2, 2, 2, 2, 3, 3, 2, 2, 2, 2, 2, 2] := by decide
-- ... and a prefix that contains the end record's header byte is still accepted (shorter creator)
example : okAnd (readFile (cfgP2bin true) (sampleFile.take 30)) (fun _ => true) = true := by decide
-- a reserved header kind is skipped, so the SPEC reader and the tools differ exactly there
example : okAnd (readFile cfgPbind [0x89, 0x14, 0x90, 0, 0, 0, 0, 1, 0, 7, 0x00, 0x41]) (fun rs => (toItems rs).isNone && rs.any Record.reserved) = true := by
  decide
-- a segment number outside the table is a format error for plist and p2hex, not for pbind and p2bin
example : errOf (readFile (cfgPlist true) [0x89, 0x14, 0x81, 0x51, 0xff, 1, 0, 0, 0, 0, 1, 0, 7, 0x00]) = some .badSeg := by decide
example : okAnd (readFile cfgPbind [0x89, 0x14, 0x81, 0x51, 0xff, 1, 0, 0, 0, 0, 1, 0, 7, 0x00]) (fun _ => true) = true := by decide
-- an empty creator after a data record is accepted by every tool (slack 1); a valid relocation record by plist
example : okAnd (readFile cfgPbind [0x89, 0x14, 0x51, 0, 0, 0, 0, 1, 0, 7, 0x00]) (fun _ => true) = true := by decide
example : okAnd (readFile (cfgPlist true) ([0x89, 0x14, 0x85, 1, 0, 0, 0, 0, 0, 0, 0, 2, 0, 0, 0] ++
      [0, 0, 0, 0, 0, 0, 0, 0, 0, 0, 0, 0, 8, 0x80, 0, 0] ++ [0x61, 0] ++ [0x00, 0x41])) (fun rs => rs.length == 2) = true := by decide

end AslModel.PFileRead
