import AslModel.Lemmas.PListMulti
import AslModel.Props.C07
/-!
# C07 — PLIST on several files

Property theorems only.  Model: `Model/PList.lean` (`plistMain`, `plistFiles`, `processSingle` with the file
name line and the indentation `NumFiles > 1` switches on).  `C07_plist_lines` (Props/C07.lean) is the case of
one file; here any number of files:

* `C07_plist_lines_files` — the listing is the table header (with the file-name column when several files are
  listed), per file in command-line order its block (name line, one line per item in file order, creator
  line), an empty line and the totals computed from `Sums[]` after ALL files;
* `C07_plist_totals_files` — those totals are the sums over the records of all files.
The truthfulness of each record line is `C07_plist_line_fields` (it does not depend on the indentation:
the line is read back by words).
-/
namespace AslModel.C07
open AslModel.PFile AslModel.Tools AslModel.PList

/-- the two header lines of the table; with several files each is preceded by the file-name column -/
def tableHead (t : Tbl) (multi : Bool) : List Char :=
  (if multi then t.hdr1F else []) ++ t.hdr1 ++ ['\n'] ++ (if multi then t.hdr2F else []) ++ t.hdr2 ++ ['\n']

/-- **Several files, one line per record, nothing else.**  For every list of well-formed code files inside
plist's domain (any names, any mix of header forms, any creator strings), `plist -q f1 f2 …` ends with
status 0 and prints exactly: the table header, every file's block in command-line order, an empty line and
the totals of `Sums[]` accumulated over all files. -/
theorem C07_plist_lines_files (t : Tbl) (files : List (List Char × List (Item × Bool) × List Byte))
    (hf : ∀ f ∈ files, FileOK t f) :
    plistMain t (files.map (fun f => (f.1, serFileForm f.2.1 f.2.2))) =
      some ⟨0, tableHead t (decide (files.length > 1)) ++ (files.map (fileBlock t (decide (files.length > 1)))).flatten
        ++ ['\n'] ++ totalLines t 0 true
          (sumsAfter (List.replicate t.segCount 0) ((files.map (fun f => f.2.1.map (·.1))).flatten))⟩ := by
  unfold plistMain
  simp only [List.length_map]
  rw [plistFiles_ok t _ files hf]
  simp [tableHead, List.append_assoc]

/-- **Totals over all files**: after the last file `Sums[z]` is the sum of the lengths of the data records of
segment `z` of ALL listed files (as a 32-bit counter). -/
theorem C07_plist_totals_files (t : Tbl) (files : List (List Char × List (Item × Bool) × List Byte))
    (hf : ∀ f ∈ files, FileOK t f) (z : Nat) (hz : z < t.segCount) :
    (sumsAfter (List.replicate t.segCount 0) ((files.map (fun f => f.2.1.map (·.1))).flatten)).getD z 0 =
      specSum ((files.map (fun f => f.2.1.map (·.1))).flatten) z % 4294967296 := by
  have e : (files.map (fun f => f.2.1.map (·.1))).flatten = ((files.map (fun f => f.2.1)).flatten).map (·.1) := by
    simp [List.map_flatten, List.map_map, Function.comp_def]
  rw [e]
  apply C07_plist_totals t _ z hz
  intro i hi
  simp only [List.mem_flatten, List.mem_map] at hi
  obtain ⟨l, ⟨f, hfm, rfl⟩, hil⟩ := hi
  exact (hf f hfm).2 i hil

/-! Non-vacuity: two files (the example source of Props/C07.lean twice under different names). -/
def exFiles : List (List Char × List (Item × Bool) × List Byte) :=
  [("a.p".toList, exSrc.1, exSrc.2), ("dir/b.p".toList, exSrc.1, [0x42])]
example : ∀ f ∈ exFiles, FileOK Tbl.generated f := by
  intro f hf
  simp only [exFiles, List.mem_cons, List.mem_nil_iff, or_false] at hf
  rcases hf with rfl | rfl <;>
  · refine ⟨?_, ?_⟩ <;>
    · intro i hi
      simp only [exSrc, List.mem_cons, List.mem_nil_iff, or_false] at hi
      rcases hi with rfl | rfl | rfl | rfl <;> simp [Item.WF, Rec.WF, ListOK, exRec1, exRec2, exRec3] <;> decide
example : decide (exFiles.length > 1) = true := by decide

end AslModel.C07
