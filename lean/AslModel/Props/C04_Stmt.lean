import AslModel.Lemmas.PFile
import AslModel.Lemmas.CodeStmt
import AslModel.Props.C04
/-!
# C04 — statements that reach `WriteBytes` block by block (`BINCLUDE`), and several sources in one `asl` run

Property theorems only.  Model: `Model/CodeStmt.lean` (`chunks`, `bincludeEvs`, `expand`; `session`), on top of the
record machine / byte machine of `Model/CodeFile.lean`.  Spec: `specCellsS` (a `BINCLUDE` is one statement that lays the
bytes the manual names - `included` - at consecutive addresses), `specEntries` (an entry record iff the source's own
`END` has an operand), the reader of `Spec/PFile.lean`.
-/
namespace AslModel.C04
open AslModel.PFile AslModel.CodeFile

/-- **The block loop transfers the bytes the manual names**, none skipped, none repeated, for every file, offset and
length (also beyond the end of the file: then it is what the file has). -/
theorem C04_chunks_bytes (file : List Byte) (ofs : Nat) (len : Option Nat) :
    (chunks file ofs (bincLen file ofs len)).flatten = included file ofs len :=
  chunks_included file ofs len

/-- every block fits the 256-byte request of the loop, and there are no more than `Len / 256 + 1` of them -/
theorem C04_chunks_bounded (file : List Byte) (ofs : Nat) (len : Option Nat) :
    (∀ b ∈ chunks file ofs (bincLen file ofs len), b.length ≤ 256) ∧
    (chunks file ofs (bincLen file ofs len)).length ≤ bincLen file ofs len / 256 + 1 :=
  ⟨chunks_small _ _ _, chunks_count _ _ _⟩

/-- **Address units wider than a byte**: when the address unit divides the block size and a whole number of units is
requested from a file that has them, every block is a whole number of units - `WriteBytes` gets the blocks as they are
(no fill bytes), and the counter advances by `length / unit` in total. -/
theorem C04_chunks_whole_units (g : Nat) (f : List Byte) (o : Nat) (l : Option Nat)
    (hg : g ≠ 0) (h256 : 256 % g = 0) (hl : bincLen f o l % g = 0) (hfit : o + bincLen f o l ≤ f.length) :
    bincChunks g f o l = chunks f o (bincLen f o l) ∧
    (∀ b ∈ bincChunks g f o l, b.length % g = 0) ∧
    bincUnits g f o l = (included f o l).length / g :=
  ⟨bincChunks_eq g f o l ⟨hg, h256, hl, hfit⟩, bincChunks_whole g f o l ⟨hg, h256, hl, hfit⟩,
   bincUnits_eq g f o l ⟨hg, h256, hl, hfit⟩⟩

/-- **A statement written block by block specifies the same cells as one big statement**: for every well-formed
statement list the `WriteBytes`/`NewRecord` events of the block loops (counter advanced after every block) describe
exactly the cells of the statement list read statement by statement (`specCellsS`: the included bytes at consecutive
addresses from the address of the `BINCLUDE` on). -/
theorem C04_chunked_is_one_statement (c : Ctx) (pc : Nat) (stmts : List Stmt) (hwf : StmtsWF c stmts) :
    specCells c pc (expand c pc stmts) = specCellsS c pc stmts :=
  expand_cells stmts c pc hwf

/-- the same for a single `BINCLUDE` in front of any continuation, spelled out: the events of the loop and one
`emit` of the whole slice followed by the `NewRecord` are indistinguishable in the cells they specify -/
theorem C04_binclude_as_emit (c : Ctx) (pc : Nat) (f : List Byte) (o : Nat) (l : Option Nat) (tl : List Ev)
    (hg : c.gran.toNat ≠ 0) (h256 : 256 % c.gran.toNat = 0) (hl : bincLen f o l % c.gran.toNat = 0)
    (hfit : o + bincLen f o l ≤ f.length) :
    specCells c pc (bincludeEvs c pc f o l ++ tl) =
      specCells c pc (Ev.emit (included f o l) :: Ev.jump c (pc + (included f o l).length / c.gran.toNat) :: tl) := by
  have hw : BincWF c.gran.toNat f o l := ⟨hg, h256, hl, hfit⟩
  simp only [bincludeEvs, List.append_assoc]
  rw [specCells_emits c hg _ (bincChunks_whole _ f o l hw), bincChunks_flatten _ f o l hw, bincUnits_eq _ f o l hw]
  simp [specCells]

/-- **Nothing lost, duplicated, reordered or shifted, whatever the record limit does inside a `BINCLUDE`**: the data
records of the finished file hold exactly the cells the statements specify, for every statement list - any number of
`BINCLUDE`s of any length (also far beyond 65535 bytes), anywhere relative to the fill of the open record. -/
theorem C04_stmts_cells (c : Ctx) (pc0 : Nat) (stmts : List Stmt) (entry : Option Nat) (hwf : StmtsWF c stmts) :
    cellsOf (finishItems (run (init c pc0) (expand c pc0 stmts)) entry) = specCellsS c pc0 stmts := by
  rw [C04_cells c pc0 _ entry (expand_wf stmts c pc0 hwf)]
  exact expand_cells stmts c pc0 hwf

/-- every data record stays non-empty, within the 16-bit length field and in whole granules although a `BINCLUDE`
may be longer than a record -/
theorem C04_stmts_records_consistent (c : Ctx) (pc0 : Nat) (stmts : List Stmt)
    (hwf : StmtsWF c stmts) (hfit : StmtsFit stmts) :
    ∀ r ∈ finish (run (init c pc0) (expand c pc0 stmts)), RecOK r :=
  C04_records_consistent c pc0 _ (expand_fit stmts c pc0 hwf hfit)

/-- **End to end with `BINCLUDE`**: what the documented reader sees in the file the byte machine of `asmcode.c` leaves
on disk is the cell list the statements specify and the entry the caller asked for. -/
theorem C04_stmts_end_to_end (c : Ctx) (pc0 : Nat) (stmts : List Stmt) (entry : Option Nat) (creator : List Byte)
    (hwf : StmtsWF c stmts) (hfit : StmtsFit stmts)
    (hlen : 10 ≤ (match entry with | some _ => 5 | none => 0) + 1 + creator.length)
    (hstart : ∀ r ∈ finish (run (init c pc0) (expand c pc0 stmts)), r.start < 4294967296)
    (hentry : ∀ a, entry = some a → a < 4294967296) :
    ∃ items, parseFile (writeCodeFile c pc0 (expand c pc0 stmts) entry creator) = some (items, creator) ∧
      cellsOf items = specCellsS c pc0 stmts ∧ entries items = entry.toList := by
  refine ⟨finishItems (run (init c pc0) (expand c pc0 stmts)) entry, ?_, C04_stmts_cells c pc0 stmts entry hwf, ?_⟩
  · rw [C04_refine c pc0 _ entry creator (expand_small stmts c pc0 hwf hfit) hlen]
    exact C04_file_wellformed c pc0 _ entry creator (expand_fit stmts c pc0 hwf hfit) hstart hentry
  · rw [entries_finishItems]; cases entry <;> rfl

/-! ## several sources in one run -/

/-- **Sources of one `asl` call do not see each other in their code files**: whatever the globals hold when the run
starts, whatever the sources are (with `END <address>`, with `END`, without `END`, in any order, any number of passes
each), every code file is the file the source yields as the only argument of its own `asl` call. -/
theorem C04_session_independent (g : Glob) (srcs : List Src) : session g srcs = srcs.map alone := by
  induction srcs generalizing g with
  | nil => rfl
  | cons s r ih =>
    simp only [session, List.map_cons, alone]
    rw [ih, assembleFile_file g {} s]

/-- the number of passes does not show in the code file -/
theorem C04_session_passes (g : Glob) (s : Src) : (assembleFile g s).2 = (onePass {} s).2 := by
  unfold assembleFile
  exact morePasses_is_onePass s _ g {}

/-- **An entry record iff the source's own `END` names an address**, and the cells of the source: the documented
reader finds in the `i`-th code file of a run exactly `specEntries` of the `i`-th source and the cells its statements
specify. -/
theorem C04_session_entry (g : Glob) (srcs : List Src) (s : Src) (hs : s ∈ srcs)
    (hwf : StmtsWF s.ctx s.stmts) (hfit : StmtsFit s.stmts) (hcr : 10 ≤ 1 + s.creator.length)
    (hstart : ∀ r ∈ finish (run (init s.ctx s.pc0) (expand s.ctx s.pc0 s.stmts)), r.start < 4294967296)
    (hentry : ∀ a, s.endS = .addr a → a < 4294967296) :
    alone s ∈ session g srcs ∧
    ∃ items, parseFile (alone s) = some (items, s.creator) ∧
      entries items = specEntries s.endS ∧ cellsOf items = specCellsS s.ctx s.pc0 s.stmts := by
  constructor
  · rw [C04_session_independent]; exact List.mem_map_of_mem hs
  · have hfile : alone s = (onePass {} s).2 := C04_session_passes {} s
    rw [hfile]
    have key : ∀ entry : Option Nat,
        10 ≤ (match entry with | some _ => 5 | none => 0) + 1 + s.creator.length →
        entry.toList = specEntries s.endS → (∀ a, entry = some a → a < 4294967296) →
        ∃ items, parseFile (writeCodeFile s.ctx s.pc0 (expand s.ctx s.pc0 s.stmts) entry s.creator) = some (items, s.creator) ∧
          entries items = specEntries s.endS ∧ cellsOf items = specCellsS s.ctx s.pc0 s.stmts := by
      intro entry hlen he hb
      obtain ⟨items, hp, hc, hent⟩ :=
        C04_stmts_end_to_end s.ctx s.pc0 s.stmts entry s.creator hwf hfit hlen hstart hb
      exact ⟨items, hp, by rw [hent, he], hc⟩
    cases hq : s.endS with
    | absent =>
      have := key none (by simpa using hcr) (by rw [hq]; rfl) (by intro a ha; cases ha)
      simpa [onePass, codeEND, initPass, entryOf, hq] using this
    | plain =>
      have := key none (by simpa using hcr) (by rw [hq]; rfl) (by intro a ha; cases ha)
      simpa [onePass, codeEND, initPass, entryOf, hq] using this
    | addr a =>
      have := key (some a) (by simp; omega) (by rw [hq]; rfl) (by intro a' ha; cases ha; exact hentry a hq)
      simpa [onePass, codeEND, initPass, entryOf, hq] using this

/-! Non-vacuity: a statement list with a `BINCLUDE` of three blocks and a slice meets the hypotheses; a session with all
three kinds of `END`. -/
def exFile : List Byte := List.replicate 597 7 ++ [1, 2, 3]
def exStmts : List Stmt :=
  [.ev (.emit [1, 2, 3]), .binclude exFile 0 none, .ev (.emit [170]), .binclude exFile 10 (some 20),
   .ev (.jump ⟨0x70, 1, 2⟩ 0), .ev (.emit [5, 6])]
example : StmtsWF exCtx exStmts ∧ StmtsFit exStmts := by
  have exFile_length : exFile.length = 600 := by
    simp only [exFile, List.length_append, List.length_replicate, List.length_cons, List.length_nil]
  refine ⟨?_, ?_⟩
  · simp [StmtsWF, exCtx, exStmts, bincLen, exFile_length]
  · simp [StmtsFit, exStmts]
example : (chunks exFile 0 (bincLen exFile 0 none)).flatten = exFile ∧ (chunks exFile 0 (bincLen exFile 0 none)).length ≤ 3 := by
  have exFile_length : exFile.length = 600 := by
    simp only [exFile, List.length_append, List.length_replicate, List.length_cons, List.length_nil]
  refine ⟨by rw [C04_chunks_bytes]; simp [included], ?_⟩
  have := (C04_chunks_bounded exFile 0 none).2
  have e : bincLen exFile 0 none = 600 := by simp [bincLen, exFile_length]
  rw [e] at this ⊢
  omega
def exCreator : List Byte := [65, 83, 32, 49, 46, 52, 50, 32, 66, 101]
def exSrcs : List Src :=
  [⟨exCtx, 0x100, [.ev (.emit [1, 2, 3])], .addr 0x100, 0, exCreator⟩,
   ⟨exCtx, 0x200, [.ev (.emit [4])], .plain, 1, exCreator⟩,
   ⟨exCtx, 0x300, [.ev (.emit [5, 6])], .absent, 0, exCreator⟩]
example : (session {} exSrcs).map (fun f => (parseFile f).map (fun p => entries p.1)) =
    [some [0x100], some [], some []] := by decide

end AslModel.C04
