import AslModel.Lemmas.Sym
/-! C13 – symbol scoping, mutability and naming rules: property theorems (MODEL = `Model/Sym.lean`,
SPEC = `Spec/Scope.lean`).  All statements are unbounded (any table, any section stack / path, any statement list). -/
namespace AslModel.Sym
open AslModel.Generated.Sym AslModel

/-- Representation relation between the C data structures and the manual's section tree:
the handle chain `mom :: hs` (current section, then the `SectionStack` handles outward) spells the section path
`path` (innermost first) in the section table `secs` (`secs[h] = (name, parent)`), it ends at the global handle -1,
and the symbol tree restricted to each handle holds the definitions `defs` of the corresponding tree node. -/
def Rep (secs : List (Name × Int)) (tab : Tab) (defs : Scope.Path → Name → Option Entry) : Int → List Int → Scope.Path → Prop
  | mom, [], [] => mom = -1 ∧ ∀ n, tfind tab (n, -1) = defs [] n
  | mom, h :: r, s :: p =>
    secs[mom.toNat]? = some (s, h) ∧ 0 ≤ mom ∧ (∀ n, tfind tab (n, mom) = defs (s :: p) n) ∧ Rep secs tab defs h r p
  | _, _ :: _, [] => False
  | _, [], _ :: _ => False

/-- **Lookup = the manual's scope rule.**  For every symbol table, every section stack (any depth) and every section
tree path it represents: the walk of `FindNode` (current section, then the saved handles outward to global) returns
exactly what "first the current section, then the parents up to global" (`Scope.resolve`) returns.
Induction over the section stack. -/
theorem C13_lookup (secs : List (Name × Int)) (tab : Tab) (defs : Scope.Path → Name → Option Entry) (n : Name) :
    ∀ (hs : List Int) (mom : Int) (path : Scope.Path), Rep secs tab defs mom hs path →
      (walk tab n (mom :: hs)).map (·.2) = Scope.resolve defs path n := by
  intro hs
  induction hs with
  | nil =>
    intro mom path h
    cases path with
    | nil =>
      obtain ⟨hm, hd⟩ := h
      subst hm
      simp only [walk, Scope.resolve]
      rw [← hd n]
      cases tfind tab (n, -1) <;> rfl
    | cons s p => exact absurd h (by simp [Rep])
  | cons h r ih =>
    intro mom path hrep
    cases path with
    | nil => exact absurd hrep (by simp [Rep])
    | cons s p =>
      obtain ⟨_, _, hd, hrest⟩ := hrep
      have := ih h p hrest
      simp only [walk, Scope.resolve] at this ⊢
      rw [← hd n]
      cases hfind : tfind tab (n, mom) with
      | some e => rfl
      | none => simpa using this

/-- the global node of a represented chain -/
theorem C13_rep_global (secs : List (Name × Int)) (tab : Tab) (defs : Scope.Path → Name → Option Entry) :
    ∀ (hs : List Int) (mom : Int) (path : Scope.Path), Rep secs tab defs mom hs path → ∀ n, tfind tab (n, -1) = defs [] n := by
  intro hs
  induction hs with
  | nil =>
    intro mom path h
    cases path with
    | nil => exact h.2
    | cons s p => exact absurd h (by simp [Rep])
  | cons h r ih =>
    intro mom path hrep
    cases path with
    | nil => exact absurd hrep (by simp [Rep])
    | cons s p => exact ih h p hrep.2.2.2

/-- **`name[]`** reaches the global symbols: `IdentifySection("")` is the global handle, whose node holds the
definitions of the tree's root – no walk. -/
theorem C13_qualifier_global (st : St) (defs : Scope.Path → Name → Option Entry) (path : Scope.Path)
    (h : Rep st.secs st.tab defs st.mom (handles st.stack) path) :
    identifySection st [] = some (-1) ∧ ∀ n, tfind st.tab (n, -1) = Scope.resolveQ defs path n .global := by
  constructor
  · simp [identifySection, fold, upper]
  · intro n
    simp only [Scope.resolveQ, Scope.target]
    exact C13_rep_global _ _ _ _ _ _ h n

/-- **`name[PARENTk]`**: the k-th step of the `SectionStack` walk of `IdentifySection` is the handle of the k-th
ancestor (`PARENT0` = the current section), and it fails exactly when the path is shorter than k – as
`Scope.target` says. -/
theorem C13_qualifier_parent (secs : List (Name × Int)) (tab : Tab) (defs : Scope.Path → Name → Option Entry) :
    ∀ (k : Nat) (hs : List Int) (mom : Int) (path : Scope.Path), Rep secs tab defs mom hs path →
      match Scope.target path (.parent k) with
      | some t => ∃ h, parentWalk k mom hs = some h ∧ ∀ n, tfind tab (n, h) = defs t n
      | none => parentWalk k mom hs = none := by
  intro k
  induction k with
  | zero =>
    intro hs mom path hrep
    simp only [Scope.target, Nat.zero_le, if_true, List.drop_zero]
    refine ⟨mom, rfl, ?_⟩
    cases hs with
    | nil => cases path with
      | nil => obtain ⟨hm, hd⟩ := hrep; subst hm; exact hd
      | cons s p => exact absurd hrep (by simp [Rep])
    | cons h r => cases path with
      | nil => exact absurd hrep (by simp [Rep])
      | cons s p => exact hrep.2.2.1
  | succ k ih =>
    intro hs mom path hrep
    cases hs with
    | nil => cases path with
      | nil => simp [Scope.target, parentWalk]
      | cons s p => exact absurd hrep (by simp [Rep])
    | cons h r => cases path with
      | nil => exact absurd hrep (by simp [Rep])
      | cons s p =>
        have := ih r h p hrep.2.2.2
        simp only [Scope.target, List.length_cons, Nat.add_le_add_iff_right, List.drop_succ_cons, parentWalk] at this ⊢
        exact this

/-- **`name[section]`**: the search of `IdentifySection` (current section first, then the stack outward, comparing
`GetSectionName`) finds the handle of the innermost section of that name on the parent path ("the lowest level will
be taken"), and fails exactly when no section of the path has that name ("only sections in the parent path"). -/
theorem C13_qualifier_named (secs : List (Name × Int)) (tab : Tab) (defs : Scope.Path → Name → Option Entry)
    (s : Name) (hs0 : s ≠ []) :
    ∀ (hs : List Int) (mom : Int) (path : Scope.Path), Rep secs tab defs mom hs path →
      match Scope.findNamed s path with
      | some t => ∃ h, findNamed secs s (mom :: hs) = some h ∧ ∀ n, tfind tab (n, h) = defs t n
      | none => findNamed secs s (mom :: hs) = none := by
  intro hs
  induction hs with
  | nil =>
    intro mom path hrep
    cases path with
    | nil =>
      obtain ⟨hm, _⟩ := hrep
      subst hm
      have : ¬ ([] : Name) = s := fun x => hs0 x.symm
      simp [Scope.findNamed, findNamed, sectionName, this]
    | cons a p => exact absurd hrep (by simp [Rep])
  | cons h r ih =>
    intro mom path hrep
    cases path with
    | nil => exact absurd hrep (by simp [Rep])
    | cons a p =>
      obtain ⟨hsec, hpos, hd, hrest⟩ := hrep
      have hname : sectionName secs mom = a := by
        have : ¬ mom < 0 := by omega
        simp [sectionName, this, hsec]
      by_cases ha : a = s
      · subst ha
        simp only [Scope.findNamed, if_true]
        exact ⟨mom, by simp [findNamed, hname], hd⟩
      · have := ih h p hrest
        simp only [Scope.findNamed, ha, if_false]
        simp only [findNamed, hname, ha, if_false]
        exact this

/-- `IdentifySection` is composed of exactly the three searches above (nothing else happens in it). -/
theorem C13_qualifier (st : St) (part : Name) :
    identifySection st part =
      (if fold st.cs part = [] then some (-1)
       else match isParentName (fold st.cs part) with
         | some d => parentWalk d st.mom (handles st.stack)
         | none => findNamed st.secs (fold st.cs part) (st.mom :: handles st.stack)) := by
  unfold identifySection
  simp only
  by_cases h0 : fold st.cs part = []
  · simp [h0]
  · simp only [h0, if_false]
    cases hp : isParentName (fold st.cs part) with
    | some d => rfl
    | none =>
      simp only [findNamed]
      by_cases h : fold st.cs part = sectionName st.secs st.mom
      · simp [h]
      · have : ¬ sectionName st.secs st.mom = fold st.cs part := fun x => h x.symm
        simp [h, this]

/-- **An EQU constant never changes within a pass**, for all statement sequences (SECTION, ENDSECTION, EQU, SET,
labels, references, PUBLIC/GLOBAL/FORWARD, PUSHV in any order and nesting) that contain no POPV: once node `k` is a
defined, non-changeable symbol of value `v` it is so after any run.  (POPV is excluded because the pinned
`PopSymbol` used to overwrite constants - finding `popv-overwrites-equ-constant`, repaired: POPV is now covered as well, see `C13_popv_const_refused`.) -/
theorem C13_const_immutable (st : St) (ops : List Op) (k : Key) (v : Int)
    (hc : tfind st.tab k = some { val := v, defined := true, changeable := false }) :
    tfind (run st ops).tab k = some { val := v, defined := true, changeable := false } :=
  run_constPres_all st ops k v hc

/-- **Redefinition of a constant is an error** (EQU again: "symbol double defined"; SET on it: "constant redefined as
variable"), and the table is left untouched. -/
theorem C13_const_redefinition_error (st : St) (k : Key) (v v' : Int) (mc : Bool)
    (hc : tfind st.tab k = some { val := v, defined := true, changeable := false }) :
    ∃ e, (enterTree st k v' mc).errs = (st.line, e) :: st.errs ∧ (enterTree st k v' mc).tab = st.tab ∧
      e = (if mc then errConstantRedefinedAsVariable else errDoubleDef) := by
  unfold enterTree
  rw [hc]
  cases mc <;> simp [symbolAdder, St.err]

/-- the converse mixing: EQU on a defined SET variable is an error too -/
theorem C13_var_redefinition_error (st : St) (k : Key) (v v' : Int)
    (hc : tfind st.tab k = some { val := v, defined := true, changeable := true }) :
    (enterTree st k v' false).errs = (st.line, errVariableRedefinedAsConstant) :: st.errs ∧ (enterTree st k v' false).tab = st.tab := by
  unfold enterTree
  rw [hc]
  simp [symbolAdder, St.err]

/-- **A SET variable can change**: SET on a node that is absent, not yet defined in this pass, or a variable stores the
new value without any diagnostic; a following lookup of the node sees it. -/
theorem C13_set_mutable (st : St) (k : Key) (v : Int)
    (h : ∀ e, tfind st.tab k = some e → e.changeable = true ∨ e.defined = false) :
    tfind (enterTree st k v true).tab k = some { val := v, defined := true, changeable := true } ∧
      (enterTree st k v true).errs = st.errs := by
  unfold enterTree
  cases hf : tfind st.tab k with
  | none => simp [symbolAdder, tfind_tset_same]
  | some o =>
    obtain ⟨ov, od, oc⟩ := o
    have := h _ hf
    cases od <;> cases oc <;> simp_all [symbolAdder, tfind_tset_same]

/-- values pushed left to right -/
def pushVals (s : List (Name × List Int)) (k : Name) (vs : List Int) : List (Name × List Int) :=
  vs.foldl (fun s v => setStack s k (v :: getStack s k)) s

/-- **PUSHV/POPV are LIFO**, for all value sequences and all stack states: after pushing `vs` onto stack `k` its
contents are `vs` reversed on top of the old contents (so POPV delivers them in reverse order and then finds the old
stack again), and no other stack is touched. -/
theorem C13_pushpop_lifo (k : Name) (vs : List Int) :
    ∀ s : List (Name × List Int), getStack (pushVals s k vs) k = vs.reverse ++ getStack s k ∧
      ∀ k2, k2 ≠ k → getStack (pushVals s k vs) k2 = getStack s k2 := by
  induction vs with
  | nil => intro s; simp [pushVals]
  | cons v r ih =>
    intro s
    have h1 := ih (setStack s k (v :: getStack s k))
    simp only [pushVals, List.foldl_cons] at h1 ⊢
    constructor
    · rw [h1.1, getStack_setStack_same]
      simp
    · intro k2 hk
      rw [h1.2 k2 hk, getStack_setStack_other _ _ _ _ hk]

/-- **POPV after PUSHV restores the value** (whatever SET did to the symbol in between): if `sym` resolves to node
`key` at the PUSHV (value `e.val`) and to the same node at the POPV, and the stack `stk` is as the PUSHV left it, the
node holds `e.val` again and the stack is what it was before the PUSHV.  (`hch`: the symbol is a variable, or - a constant -
it still has the value it was pushed with, which `C13_const_immutable` guarantees for every constant.) -/
theorem C13_pushv_popv_restores (st st2 : St) (sym stk : Name) (key : Key) (e e2 : Entry)
    (hf : findNode st sym = (st, some (key, e))) (hf2 : findNode st2 sym = (st2, some (key, e2)))
    (hs : st2.stacks = (pushSymbol st sym stk).stacks) (hcs : st2.cs = st.cs) (hch : e2.changeable = true ∨ e2.val = e.val) :
    tfind (popSymbol st2 sym stk).tab key = some { e2 with val := e.val } ∧
      getStack (popSymbol st2 sym stk).stacks (stackNameOf st stk) = getStack st.stacks (stackNameOf st stk) := by
  have hk : stackNameOf st2 stk = stackNameOf st stk := by simp [stackNameOf, hcs]
  have hpush : st2.stacks = setStack st.stacks (stackNameOf st stk) (e.val :: getStack st.stacks (stackNameOf st stk)) := by
    rw [hs]; unfold pushSymbol; rw [hf]
  have hget : getStack st2.stacks (stackNameOf st2 stk) = e.val :: getStack st.stacks (stackNameOf st stk) := by
    rw [hk, hpush, getStack_setStack_same]
  unfold popSymbol
  rw [hf2]
  simp only [hget]
  have hno : ¬ (e2.changeable = false ∧ e2.val ≠ e.val) := by
    rintro ⟨h1, h2⟩
    rcases hch with h | h
    · rw [h] at h1; exact Bool.noConfusion h1
    · exact h2 h
  rw [if_neg hno]
  constructor
  · exact tfind_tset_same _ _ _
  · rw [hk]; exact getStack_setStack_same _ _ _

/-- **Names are case-insensitive unless -U**: without `-U` two spellings with the same upper-case form are the same
symbol for `EnterSymbol` (same resulting state) and name the same node for the lookup walk. -/
theorem C13_case (st : St) (hcs : st.cs = false) (n m : Name) (hnm : upper n = upper m) (v : Int) (mc : Bool) (res : Int)
    (chain : List Int) :
    enterSymbol st n v mc res = enterSymbol st m v mc res ∧
      walk st.tab (fold st.cs n) chain = walk st.tab (fold st.cs m) chain := by
  have : fold st.cs n = fold st.cs m := by simp [fold, hcs, hnm]
  constructor
  · unfold enterSymbol
    simp only [this]
  · rw [this]

/-- folding is idempotent: a name and its upper-case form are the same symbol -/
theorem C13_case_upper (n : Name) : fold false (upper n) = fold false n := fold_upper n

/-- with `-U` names that differ (in case or otherwise) are different symbols: defining one does not touch the other -/
theorem C13_case_sensitive (st : St) (hcs : st.cs = true) (n m : Name) (hnm : n ≠ m) (h : Int) (v : Int) (mc : Bool) :
    tfind (enterTree st (fold st.cs m, h) v mc).tab (fold st.cs n, h) = tfind st.tab (fold st.cs n, h) := by
  have hne : (fold st.cs n, h) ≠ (fold st.cs m, h) := by
    simp [fold, hcs, hnm]
  unfold enterTree
  split
  · rfl
  · exact tfind_tset_other _ _ _ _ hne

/-- **PUBLIC re-homes, GLOBAL copies**: with `name` announced by PUBLIC to section handle `d`, `EnterSymbol` in the
open section stores the definition at `(name, d)` – the ancestor – and nothing at the current section. -/
theorem C13_public_global (st : St) (top : SaveSection) (rest : List SaveSection) (n : Name) (v : Int) (mc : Bool) (d : Int)
    (hst : st.stack = top :: rest) (hcs : st.cs = true) (hl : fsearch top.locSyms n = none) (hg : fsearch top.globSyms n = some d)
    (hfree : tfind st.tab (n, d) = none) (hd : d ≠ st.mom) :
    tfind (enterSymbol st n v mc (-2)).tab (n, d) = some { val := v, defined := true, changeable := mc } ∧
      tfind (enterSymbol st n v mc (-2)).tab (n, st.mom) = tfind st.tab (n, st.mom) := by
  have hne : ((n, st.mom) : Key) ≠ (n, d) := by
    intro h; exact hd (by simpa using h.symm)
  unfold enterSymbol
  simp only [fold, hcs, if_true, hst, hl, hg, ne_eq, not_true_eq_false, if_false]
  unfold enterTree
  simp only [hfree, symbolAdder]
  exact ⟨tfind_tset_same _ _ _, tfind_tset_other _ _ _ _ hne⟩

/-- **SECTION pushes the path**: when `CodeSECTION` reports nothing, the new current handle is a section-table entry
named (folded) `n` whose parent is the old current section, the old current handle is pushed on the stack (so the
chain `mom :: handles` grows by exactly one link, as `Rep` demands for the child path `n :: path`), and the section
table only grows at its end (all older links stay valid). -/
theorem C13_section_enter (st : St) (n : Name) (h : (codeSection st n).errs = st.errs) :
    (codeSection st n).secs[(codeSection st n).mom.toNat]? = some (fold st.cs n, st.mom) ∧ 0 ≤ (codeSection st n).mom ∧
      handles (codeSection st n).stack = st.mom :: handles st.stack ∧ ∃ ext, (codeSection st n).secs = st.secs ++ ext := by
  unfold codeSection at h ⊢
  simp only at h ⊢
  cases hidx : secIdx st.secs (fold st.cs n, st.mom) 0 with
  | none =>
    simp only [hidx] at h ⊢
    refine ⟨by simp, by omega, by simp [handles], ⟨_, rfl⟩⟩
  | some j =>
    simp only [hidx] at h ⊢
    by_cases hp : st.passNo = 1
    · simp [hp, St.err] at h
    · have := secIdx_spec st.secs _ 0 j hidx
      simp only [hp, if_false]
      refine ⟨by simpa using this.2, by omega, by simp [handles], ⟨[], by simp⟩⟩

/-- **ENDSECTION pops it**: with an open section and no (or the right) name, the current handle becomes the saved
parent handle and the stack loses its top – the chain is the parent's chain again. -/
theorem C13_section_leave (st : St) (top : SaveSection) (rest : List SaveSection) (hst : st.stack = top :: rest) :
    (codeEndSection st none).mom = top.handle ∧ (codeEndSection st none).stack = rest ∧ (codeEndSection st none).secs = st.secs := by
  unfold codeEndSection
  simp only [hst]
  have hsecs : ∀ (s : St) (l : List Fwd), (undefdForward s l).secs = s.secs := by
    intro s l
    unfold undefdForward
    induction l generalizing s with
    | nil => rfl
    | cons a r ih => simp only [List.foldl]; rw [ih]; rfl
  simp [hsecs]

/-! ### known finding: POPV overwrites an EQU constant -/

def findingSt : St :=
  { tab := [(([75], -1), { val := 1, defined := true, changeable := false }),
            (([86], -1), { val := 2, defined := true, changeable := true })],
    stacks := [([83], [2])], passNo := 1 }

/-- **POPV of another value onto a constant is refused** (repaired finding `popv-overwrites-equ-constant`): the constant keeps its value, the
statement reports "constants cannot be redefined as variables", and the stack keeps the value that was not taken. -/
theorem C13_popv_const_refused :
    tfind findingSt.tab ([75], -1) = some { val := 1, defined := true, changeable := false } ∧
      tfind (run findingSt [.popv [83] [[107]]]).tab ([75], -1) = some { val := 1, defined := true, changeable := false } ∧
      (run findingSt [.popv [83] [[107]]]).errs.map (·.2) = [errConstantRedefinedAsVariable] ∧
      (run findingSt [.popv [83] [[107]]]).stacks = findingSt.stacks := by
  decide

/-- ... while the PUSHV/POPV pair around a constant (the saved value is the one it has) goes through without a message and
pops the stack. -/
theorem C13_popv_const_same_value :
    (run { findingSt with stacks := [([83], [1])] } [.popv [83] [[107]]]).errs = [] ∧
      tfind (run { findingSt with stacks := [([83], [1])] } [.popv [83] [[107]]]).tab ([75], -1) =
        some { val := 1, defined := true, changeable := false } ∧
      getStack (run { findingSt with stacks := [([83], [1])] } [.popv [83] [[107]]]).stacks [83] = [] := by
  decide

/-! ### temporary symbols: which definitions open a new range -/

/-- a name that is not a temporary one: it starts with none of `$ . - + /` -/
def Ordinary (n : Name) : Prop := ∃ c r, n = c :: r ∧ c ≠ 36 ∧ c ≠ 46 ∧ c ≠ 45 ∧ c ≠ 43 ∧ c ≠ 47

/-- **Every defining statement opens a new range for temporary symbols.**  Whoever asks `ChkTmp` on behalf of a
definition - `LabelHandle` for a label in front of an instruction, a pseudo instruction, a macro call or alone on a line
(`label`), or any other defining statement: EQU, `=`, SET, `:=`, EVAL, LABEL, ENUM, NEXTENUM (`define`) - a non-temporary name
becomes `LastGlobSymbol` (and is entered unchanged), which is the manual's bookkeeping for every kind of definition
(`Scope.defNames`: "the most recently-defined symbol not beginning with a dot", the counter that "gets incremented upon
every definition of a non-temporary symbol").  For all states, names and statement kinds. -/
theorem C13_tmp_range_opened (st : St) (t : Scope.TmpSt) (n : Name) (src : SymSource) (d : Scope.DefBy)
    (hsrc : src ≠ .none) (hn : Ordinary n) :
    (chkTmpDef st n src).1.lastGlob = n ∧ (chkTmpDef st n src).2 = n ∧
      (Scope.defNames t n d).1.last = n ∧ (Scope.defNames t n d).1.area = t.area + 1 ∧ (Scope.defNames t n d).2 = [n] := by
  obtain ⟨c, r, rfl, h36, h46, h45, h43, h47⟩ := hn
  have hm1 : chkTmp1 st (c :: r) = none := by
    unfold chkTmp1
    split
    · rename_i x heq; simp only [List.cons.injEq] at heq; exact absurd heq.1 h36
    · rfl
  have hm2 : chkTmp2Ref st (c :: r) = none := by
    simp [chkTmp2Ref, chMinus, chPlus, h45, h43]
  have ha : (c :: r : Name) ≠ [chMinus] := by simp [chMinus, h45]
  have hb : (c :: r : Name) ≠ [chPlus] := by simp [chPlus, h43]
  have hc : (c :: r : Name) ≠ [chSlash] := by simp [chSlash, h47]
  have hd : ¬ ((c :: r : Name).head? = some chDot) := by simp [chDot, h46]
  have hmodel : chkTmpDef st (c :: r) src = ({ st with lastGlob := c :: r }, c :: r) := by
    unfold chkTmpDef
    rw [hm1]
    simp only [ha, hb, hc, if_false, hm2]
    unfold chkTmp3
    rw [if_neg hd, if_pos hsrc]
  have hopen : Scope.opensRange d = true := by cases d <;> rfl
  have hspec : Scope.defNames t (c :: r) d = ({ t with area := t.area + 1, last := c :: r }, [c :: r]) := by
    unfold Scope.defNames
    split
    · rename_i x heq; simp only [List.cons.injEq] at heq; exact absurd heq.1 h36
    · rename_i x heq; simp only [List.cons.injEq] at heq; exact absurd heq.1 h46
    · rename_i heq; simp only [List.cons.injEq] at heq; exact absurd heq.1 h45
    · rename_i heq; simp only [List.cons.injEq] at heq; exact absurd heq.1 h43
    · rename_i heq; simp only [List.cons.injEq] at heq; exact absurd heq.1 h47
    · rw [hopen]; rfl
  rw [hmodel, hspec]
  exact ⟨rfl, rfl, rfl, rfl, rfl⟩

/-- **Composed temporary symbols**: a definition (by a label or by any other defining statement) or a reference of `.x`
is the symbol `LastGlobSymbol ++ .x` and leaves `LastGlobSymbol` alone - the manual's "the name of the most
recently-defined symbol not beginning with a dot is prepended".  Together with `C13_tmp_range_opened` the invariant
`st.lastGlob = t.last` between MODEL and SPEC holds along every sequence of such definitions. -/
theorem C13_tmp_composed (st : St) (t : Scope.TmpSt) (x : Name) (src : SymSource) (d : Scope.DefBy) (h : st.lastGlob = t.last) :
    chkTmpDef st (46 :: x) src = (st, t.last ++ 46 :: x) ∧ chkTmp3Ref st (46 :: x) = t.last ++ 46 :: x ∧
      Scope.defNames t (46 :: x) d = (t, [t.last ++ 46 :: x]) := by
  have hm1 : chkTmp1 st (46 :: x) = none := by
    unfold chkTmp1
    split
    · rename_i y heq; simp at heq
    · rfl
  have hm2 : chkTmp2Ref st (46 :: x) = none := by
    simp [chkTmp2Ref, chMinus, chPlus]
  refine ⟨?_, ?_, ?_⟩
  · unfold chkTmpDef
    rw [hm1]
    simp only [chMinus, chPlus, chSlash, List.cons.injEq, Nat.reduceEqDiff, false_and, if_false, hm2]
    simp [chkTmp3, chDot, h]
  · simp [chkTmp3Ref, chDot, h]
  · rfl

/-- **Named temporary symbols**: the name `$$x` stands for depends on `x` and on `LastGlobSymbol` only, and two states
give the same internal name exactly when their `LastGlobSymbol` are the same byte strings.  So after
`C13_tmp_range_opened` a `$$x` can be used again as soon as a non-temporary symbol *of another name* has been defined
by any statement - and not after a definition that repeats the name (finding
`named-temp-reused-after-same-named-symbol`; the manual's counter would separate these too). -/
theorem C13_tmp_named (st1 st2 : St) (x : Name)
    (h1 : ∀ c ∈ st1.lastGlob, c < 256) (h2 : ∀ c ∈ st2.lastGlob, c < 256) :
    chkTmp1 st1 (36 :: 36 :: x) = chkTmp1 st2 (36 :: 36 :: x) ↔ st1.lastGlob = st2.lastGlob := by
  simp only [chkTmp1, Option.some.injEq]
  constructor
  · intro h
    have := List.append_cancel_left h
    exact hashName_inj _ _ h1 h2 this
  · intro h; rw [h]

/-- the ENUM counter of the MODEL (`codeEnum`) gives every member the value the manual states (`Scope.enumVals`) -/
theorem C13_enum_values (items : List (Name × Option Int)) (cur : Int) (st : St) (h : st.enumCur = cur) :
    (codeEnum st items).enumCur = (Scope.enumVals cur items).2 := by
  induction items generalizing st cur with
  | nil => simpa [codeEnum, Scope.enumVals] using h
  | cons it r ih =>
    simp only [codeEnum, List.foldl_cons, Scope.enumVals]
    have := ih (it.2.getD cur + 1)
      { defineSymbol { st with enumCur := it.2.getD st.enumCur } it.1 (it.2.getD st.enumCur) false .define with
        enumCur := it.2.getD st.enumCur + 1 } (by simp [h])
    simpa [codeEnum] using this

/-! ### non-vacuity -/

/-- a one-section chain: handle 0 is section `A` under global; `sym` is defined in `A` only -/
example : Rep [([65], -1)] [(([115], 0), ⟨5, true, false⟩)]
    (fun p n => if p = [[65]] ∧ n = [115] then some ⟨5, true, false⟩ else none) 0 [-1] [[65]] := by
  refine ⟨by decide, by decide, ?_, rfl, ?_⟩
  · intro n
    by_cases h : n = [115]
    · subst h; decide
    · have : ¬ (([115], (0 : Int)) : Key) = (n, 0) := by intro x; exact h (by simpa using x.symm)
      simp [tfind, this, h]
  · intro n
    have : ¬ (([115], (0 : Int)) : Key) = (n, -1) := by intro x; simp at x
    simp [tfind, this]

example : (walk [(([115], 0), ⟨5, true, false⟩)] [115] [0, -1]).map (·.2) = some ⟨5, true, false⟩ := by decide
example : ∃ t : Tab, tfind t ([75], -1) = some { val := 1, defined := true, changeable := false } := ⟨findingSt.tab, by decide⟩
example : ∀ e, tfind ([] : Tab) ([1], -1) = some e → e.changeable = true ∨ e.defined = false := by intro e h; simp [tfind] at h
example : upper [115, 121, 109] = upper [83, 89, 77] ∧ ([115, 121, 109] : Name) ≠ [83, 89, 77] := by decide
example : Scope.findNamed [65] [[66], [65]] = some [[65]] ∧ Scope.target [[66], [65]] (.parent 1) = some [[65]] := by decide
example : (Op.pushv [] []).isPopv = false := rfl
example : Ordinary [115, 105, 122, 101] := ⟨115, [105, 122, 101], rfl, by decide, by decide, by decide, by decide, by decide⟩
/-- `size equ 4` then `.loop`: the composed name is `size.loop` in MODEL and SPEC -/
example : (chkTmpDef (chkTmpDef {} [115, 105, 122, 101] .define).1 [46, 108] .label).2 = [115, 105, 122, 101, 46, 108] ∧
    (Scope.defNames (Scope.defNames {} [115, 105, 122, 101] .equ).1 [46, 108] .label).2 = [[115, 105, 122, 101, 46, 108]] := by decide
example : chkTmp1 { lastGlob := [97] } [36, 36, 116] ≠ chkTmp1 { lastGlob := [98] } [36, 36, 116] := by decide
example : Scope.enumVals 0 [([97], none), ([98], some 5), ([99], none)] = ([([97], 0), ([98], 5), ([99], 6)], 7) := by decide

end AslModel.Sym
