import AslModel.Lemmas.Dis6800
import AslModel.Props.C15
/-! C15 for the 6800/6802 (deco68.c ↔ code68.c).

Models: `Model/Dis/M6800.lean` = `Disassemble_68`/`MakeSymbolic`/`RetrieveData` of deco68.c over the regenerated `OpcodeList[256]`;
`Model/Dis/A6800.lean` = the 6800 part of code68.c (statement splitting, `InstTable` from the regenerated `InitFields` call list,
`DecodeAdr` with the direct/extended selection and the `<`/`>` prefixes, the decoders) on the text dasl prints.

`C15_6800_roundtrip` has no excluded input class any more: the four classes it used to exclude (`$14` = `nba`, `$34` = `dess`,
`$C7` = `stab #`, extended-mode operands in page 0 printed without `>`) were defects of deco68.c that have been repaired; the
theorems `C15_6800_every_mnemonic_known`, `C15_6800_des`, `C15_6800_unknown_opcodes_listed_as_data`, `C15_6800_ext_zero_page` state
the repaired behaviour.  `C15_6800_honest` no longer needs the instructions of the image to be "whole": since the repair of
`RetrieveCodeFromChunkList` a request is answered only with bytes of the image (`retrieve_isSome_iff`), so an instruction cut
off by the end of a chunk is not reported at all (`C15_6800_cut_instruction_not_reported`) and one that lies across two chunks
is fetched correctly (`C15_6800_instruction_across_chunks`).  Since the repair bdcaec7 of deco68.c's own `RetrieveData` (no
continuation at address 0 behind $FFFF) it needs no hypothesis at all: `C15_6800_honest_at`, `C15_6800_honest`,
`C15_6800_areas_inside`, `C15_6800_areas_inside_C` hold for every image and also give `x < 0x10000`
(`C15_6800_inside_address_space`); the former finding is the positive statement `C15_6800_no_wrap_instruction`.  What remains is
the `% 0xffff` reduction of the fall-through successor (`C15_finding_6800_fallthrough_wrap`). -/
namespace AslModel.Dis
open AslModel.Generated

open M6800 A6800 in
/-- Round trip of one instruction, on the printed text: for every address `a`, opcode `op` and operand bytes `data` that
`Disassemble_68` decodes (inverse symbol table `syms` before, `syms'` after), the statement it prints into `SrcLine` is assembled
by code68.c at program counter `a` to exactly `op :: data` – provided the instruction ends inside the 64K address space and every
name of the inverse symbol table is a plain label that the assembler's symbol table maps back to its address (dasl defines the
labels it invents by the `lab_XXXX:` framing lines).  No opcode and no operand value is excluded. -/
theorem C15_6800_roundtrip (lower : Bool) (syms syms' : Syms) (env : A6800.Env) (a op : Nat) (data : List Nat) (dec : M6800.Dec)
    (hop : op < 256) (hdata : ∀ d ∈ data, d < 256)
    (h : M6800.decode lower syms a op data = some (dec, syms'))
    (ha : a + dec.len ≤ 0x10000)
    (hsym : ∀ x n, syms'.lookup x = some n → A6800.plainLabel n.toList = true ∧ env n.toList = some x) :
    A6800.assemble env a dec.text = some (op :: data) := by
  have ht := table_ok op hop
  unfold tableOK at ht
  unfold M6800.decode at h
  generalize hr : M6800.row op = r at *
  simp only [Bool.and_eq_true, List.all_eq_true, Bool.not_eq_true'] at ht
  obtain ⟨hmemo, ht⟩ := ht
  by_cases hlen : data.length = operandBytes r
  case neg => simp [hlen] at h
  simp only [hlen, ne_eq, not_true_eq_false, ↓reduceIte] at h
  cases hty : r.typ <;> simp only [hty] at h ht
  case eUnknown => cases h
  case eImplicit =>
    simp only [Option.some.injEq, Prod.mk.injEq] at h
    obtain ⟨rfl, rfl⟩ := h
    simp only [Dec.text]
    simp only [operandBytes, hty] at hlen
    have hd : data = [] := List.eq_nil_of_length_eq_zero hlen
    subst hd
    simp only [instrLen, operandBytes, hty] at ha
    cases hl : lookup r.memo with
    | none => simp [hl] at ht
    | some hd =>
      cases hd <;> simp [hl] at ht
      case fixed c mn mx =>
        obtain ⟨⟨rfl, h1⟩, h2⟩ := ht
        exact assemble_plain env a r.memo _ _ hmemo hl (encode_fixed a c mn mx r.memo h1 h2 hop) (by simp; omega)
      case sing8acc c =>
        exact assemble_plain env a r.memo _ _ hmemo hl (by rw [encode_sing8acc, ht]) (by simp; omega)
  case eDirect =>
    simp only [Option.some.injEq, Prod.mk.injEq] at h
    obtain ⟨rfl, rfl⟩ := h
    simp only [Dec.text]
    simp only [operandBytes, hty] at hlen
    obtain ⟨d0, rfl⟩ := List.length_eq_one_iff.mp hlen
    have hd0 : d0 < 256 := hdata d0 (by simp)
    have hoa : opAddr r a [d0] = d0 := by simp [opAddr, hty]
    simp only [instrLen, operandBytes, hty] at ha
    rw [hoa] at hsym ⊢
    have g := makeSymbolic_good env lower syms d0 1 none (by omega) hsym
    generalize (makeSymbolic lower syms d0 1 none).fst.toList = atom at g ⊢
    simp only [List.nil_append, Bool.false_eq_true, if_false, List.append_nil]
    cases hl : lookup r.memo with
    | none => simp [hl] at ht
    | some hd =>
      cases hd <;> simp [hl] at ht
      case alu8 w =>
        exact asm_one g a r.memo _ _ hmemo hl (by rw [encode_alu8_dir g a w r.memo hd0 ht.1, ht.2]) (by simp; omega)
      case alu16 mi mn sh c =>
        obtain ⟨⟨⟨h1, h2⟩, h3⟩, h4⟩ := ht
        exact asm_one g a r.memo _ _ hmemo hl (by rw [encode_alu16_dir g a mn sh c mi r.memo hd0 h1 h2 h3, h4]) (by simp; omega)
  case eIndexed =>
    simp only [Option.some.injEq, Prod.mk.injEq] at h
    obtain ⟨rfl, rfl⟩ := h
    simp only [Dec.text]
    simp only [operandBytes, hty] at hlen
    obtain ⟨d0, rfl⟩ := List.length_eq_one_iff.mp hlen
    have hd0 : d0 < 256 := hdata d0 (by simp)
    have hoa : opAddr r a [d0] = d0 := by simp [opAddr, hty]
    simp only [instrLen, operandBytes, hty] at ha
    rw [hoa] at hsym ⊢
    have g := makeSymbolic_good env lower syms d0 1 none (by omega) hsym
    generalize (makeSymbolic lower syms d0 1 none).fst.toList = atom at g ⊢
    simp only [List.nil_append, if_true]
    cases hl : lookup r.memo with
    | none => simp [hl] at ht
    | some hd =>
      cases hd <;> simp [hl] at ht
      case alu8 w =>
        exact asm_idx g a r.memo _ _ hmemo hl (by rw [encode_alu8_ind g a w r.memo hd0 ht.1, ht.2]) (by simp; omega)
      case alu16 mi mn sh c =>
        obtain ⟨⟨⟨h1, h2⟩, h3⟩, h4⟩ := ht
        exact asm_idx g a r.memo _ _ hmemo hl (by rw [encode_alu16_ind g a mn sh c mi r.memo hd0 h1 h2 h3, h4]) (by simp; omega)
      case sing8 c =>
        exact asm_idx g a r.memo _ _ hmemo hl (by rw [encode_sing8_ind g a c r.memo hd0, ht]) (by simp; omega)
      case jmp =>
        exact asm_idx g a r.memo _ _ hmemo hl (by rw [encode_jmp_ind g a r.memo hd0, ht]) (by simp; omega)
      case jsr =>
        exact asm_idx g a r.memo _ _ hmemo hl (by rw [encode_jsr_ind g a r.memo hd0, ht]) (by simp; omega)
  case eExtended =>
    simp only [Option.some.injEq, Prod.mk.injEq] at h
    obtain ⟨rfl, rfl⟩ := h
    simp only [Dec.text]
    simp only [operandBytes, hty] at hlen
    obtain ⟨d0, d1, rfl⟩ := length_two _ hlen
    have hd0 : d0 < 256 := hdata d0 (by simp)
    have hd1 : d1 < 256 := hdata d1 (by simp)
    have hoa : opAddr r a [d0, d1] = d0 * 256 + d1 := by simp [opAddr, hty]
    have hq : (d0 * 256 + d1) / 256 = d0 := by omega
    have hm : (d0 * 256 + d1) % 256 = d1 := by omega
    simp only [instrLen, operandBytes, hty] at ha
    rw [hoa] at hsym ⊢
    have g := makeSymbolic_good env lower syms (d0 * 256 + d1) 2 _ (by omega) hsym
    generalize (makeSymbolic lower syms (d0 * 256 + d1) 2 _).fst.toList = atom at g ⊢
    simp only [Bool.false_eq_true, if_false, List.append_nil]
    by_cases hpg : d0 * 256 + d1 < 0x100
    · -- page 0: printed with `>`, which forces the extended mode
      simp only [hpg, if_true, List.cons_append, List.nil_append]
      cases hl : lookup r.memo with
      | none => simp [hl] at ht
      | some hd =>
        cases hd <;> simp [hl] at ht
        case alu8 w =>
          obtain ⟨⟨⟨h1, h2⟩, h3⟩, h4⟩ := ht
          exact asm_gt g a r.memo _ _ hmemo hl
            (by rw [encode_alu8_extF g a w r.memo (by omega) h1, h2, hq, hm]) (by simp; omega)
        case alu16 mi mn sh c =>
          obtain ⟨⟨⟨⟨⟨h1, h2⟩, h3⟩, h4⟩, h5⟩, h6⟩ := ht
          exact asm_gt g a r.memo _ _ hmemo hl
            (by rw [encode_alu16_extF g a mn sh c mi r.memo (by omega) h1 h2 h3, h4, hq, hm]) (by simp; omega)
        case sing8 c =>
          exact asm_gt g a r.memo _ _ hmemo hl (by rw [encode_sing8_extF g a c r.memo (by omega), ht.1, hq, hm]) (by simp; omega)
        case jmp =>
          exact asm_gt g a r.memo _ _ hmemo hl (by rw [encode_jmp_extF g a r.memo (by omega), ht.1, hq, hm]) (by simp; omega)
        case jsr =>
          exact asm_gt g a r.memo _ _ hmemo hl (by rw [encode_jsr_extF g a r.memo (by omega), ht.1, hq, hm]) (by simp; omega)
    · have h256 : 256 ≤ d0 * 256 + d1 := by omega
      simp only [hpg, if_false, List.nil_append]
      cases hl : lookup r.memo with
      | none => simp [hl] at ht
      | some hd =>
        cases hd <;> simp [hl] at ht
        case alu8 w =>
          obtain ⟨⟨⟨h1, h2⟩, h3⟩, h4⟩ := ht
          exact asm_one g a r.memo _ _ hmemo hl
            (by rw [encode_alu8_ext g a w r.memo (by omega) h256 h1, h2, hq, hm]) (by simp; omega)
        case alu16 mi mn sh c =>
          obtain ⟨⟨⟨⟨⟨h1, h2⟩, h3⟩, h4⟩, h5⟩, h6⟩ := ht
          exact asm_one g a r.memo _ _ hmemo hl
            (by rw [encode_alu16_ext g a mn sh c mi r.memo (by omega) h256 h1 h2 h3, h4, hq, hm]) (by simp; omega)
        case sing8 c =>
          exact asm_one g a r.memo _ _ hmemo hl (by rw [encode_sing8_ext g a c r.memo (by omega), ht.1, hq, hm]) (by simp; omega)
        case jmp =>
          exact asm_one g a r.memo _ _ hmemo hl (by rw [encode_jmp_ext g a r.memo (by omega), ht.1, hq, hm]) (by simp; omega)
        case jsr =>
          exact asm_one g a r.memo _ _ hmemo hl (by rw [encode_jsr_ext g a r.memo (by omega), ht.1, hq, hm]) (by simp; omega)
  case eImmediate =>
    simp only [Option.some.injEq, Prod.mk.injEq] at h
    obtain ⟨rfl, rfl⟩ := h
    simp only [Dec.text]
    simp only [operandBytes, hty] at hlen
    simp only [instrLen, operandBytes, hty] at ha
    cases hl : lookup r.memo with
    | none => simp [hl] at ht
    | some hd =>
      cases hd <;> simp [hl] at ht
      case alu8 w =>
        obtain ⟨⟨⟨h1, h2⟩, h3⟩, h4⟩ := ht
        rw [h4] at hlen ha hsym ⊢
        obtain ⟨d0, rfl⟩ := List.length_eq_one_iff.mp hlen
        have hd0 : d0 < 256 := hdata d0 (by simp)
        have hoa : opAddr r a [d0] = d0 := by simp [opAddr, hty, h4]
        rw [hoa] at hsym ⊢
        have g := makeSymbolic_good env lower syms d0 (0 + 1) none (by omega) hsym
        generalize (makeSymbolic lower syms d0 (0 + 1) none).fst.toList = atom at g ⊢
        simp only [List.cons_append, List.nil_append, Bool.false_eq_true, if_false, List.append_nil]
        exact asm_imm g a r.memo _ _ hmemo hl (by rw [encode_alu8_imm g a w r.memo hd0 h1 h2, h3]) (by simp; omega)
      case alu16 mi mn sh c =>
        obtain ⟨⟨⟨⟨⟨rfl, h1⟩, h2⟩, h3⟩, h4⟩, h5⟩ := ht
        rw [h5] at hlen ha hsym ⊢
        obtain ⟨d0, d1, rfl⟩ := length_two _ hlen
        have hd0 : d0 < 256 := hdata d0 (by simp)
        have hd1 : d1 < 256 := hdata d1 (by simp)
        have hoa : opAddr r a [d0, d1] = d0 * 256 + d1 := by simp [opAddr, hty, h5]
        have hq : (d0 * 256 + d1) / 256 = d0 := by omega
        have hm : (d0 * 256 + d1) % 256 = d1 := by omega
        rw [hoa] at hsym ⊢
        have g := makeSymbolic_good env lower syms (d0 * 256 + d1) (1 + 1) none (by omega) hsym
        generalize (makeSymbolic lower syms (d0 * 256 + d1) (1 + 1) none).fst.toList = atom at g ⊢
        simp only [List.cons_append, List.nil_append, Bool.false_eq_true, if_false, List.append_nil]
        exact asm_imm g a r.memo _ _ hmemo hl
          (by rw [encode_alu16_imm g a mn sh c r.memo (by omega) h1 h2 h3, h4, hq, hm]) (by simp; omega)
  case eRelative =>
    simp only [Option.some.injEq, Prod.mk.injEq] at h
    obtain ⟨rfl, rfl⟩ := h
    simp only [Dec.text]
    simp only [operandBytes, hty] at hlen
    obtain ⟨d0, rfl⟩ := List.length_eq_one_iff.mp hlen
    have hd0 : d0 < 256 := hdata d0 (by simp)
    have hoa : opAddr r a [d0] = (a + 2 + d0 + (if d0 ≥ 128 then 65536 - 256 else 0)) % 65536 := by simp [opAddr, hty]
    simp only [instrLen, operandBytes, hty] at ha
    have g := makeSymbolic_good env lower syms (opAddr r a [d0]) 2 _ (by rw [hoa]; omega) hsym
    generalize (makeSymbolic lower syms (opAddr r a [d0]) 2 _).fst.toList = atom at g ⊢
    simp only [List.nil_append, Bool.false_eq_true, if_false, List.append_nil]
    cases hl : lookup r.memo with
    | none => simp [hl] at ht
    | some hd =>
      cases hd <;> simp [hl] at ht
      case rel c mn =>
        exact asm_one g a r.memo _ _ hmemo hl (by rw [encode_rel g a c mn d0 r.memo ht.2 hd0 hoa, ht.1]) (by simp; omega)

/-- non-vacuity: `ldaa $1234` (B6 12 34) at $1000 – no symbols involved -/
example : (M6800.decode false {} 0x1000 0xb6 [0x12, 0x34]).map (fun p => (p.1.text, p.1.len)) = some ("ldaa\t$1234".toList, 3) ∧
    A6800.assemble (fun _ => none) 0x1000 "ldaa\t$1234".toList = some [0xb6, 0x12, 0x34] := by decide +kernel

/-- non-vacuity with a label: `bra lab_1004` (20 02) at $1000; the hypotheses of `C15_6800_roundtrip` hold for the symbol table
that maps the invented name back to $1004 -/
example : ∃ dec syms', M6800.decode false {} 0x1000 0x20 [0x02] = some (dec, syms') ∧ 0x1000 + dec.len ≤ 0x10000 ∧
    (∀ x n, syms'.lookup x = some n → A6800.plainLabel n.toList = true ∧
      (fun s => if s = "lab_1004".toList then some 0x1004 else none) n.toList = some x) ∧
    dec.text = "bra\tlab_1004".toList := by
  cases h : M6800.decode false {} 0x1000 0x20 [0x02] with
  | none => exact absurd h (by decide +kernel)
  | some p =>
    obtain ⟨dec, syms'⟩ := p
    have hlen : (M6800.decode false {} 0x1000 0x20 [0x02]).map (fun p => p.1.len) = some 2 := by decide +kernel
    have htab : (M6800.decode false {} 0x1000 0x20 [0x02]).map (fun p => p.2.tab) = some [(0x1004, "lab_1004")] := by decide +kernel
    have htext : (M6800.decode false {} 0x1000 0x20 [0x02]).map (fun p => p.1.text) = some "bra\tlab_1004".toList := by decide +kernel
    rw [h] at hlen htab htext
    simp only [Option.map_some, Option.some.injEq] at hlen htab htext
    refine ⟨dec, syms', rfl, by omega, ?_, htext⟩
    intro x n hl
    unfold Syms.lookup at hl
    rw [htab] at hl
    by_cases hx : x = 0x1004
    · subst hx
      simp at hl
      subst hl
      exact ⟨by decide +kernel, by simp⟩
    · have : ((0x1004 : Nat) == x) = false := by simp; omega
      simp [List.find?, this] at hl

/-- the hypothesis `a + dec.len ≤ 0x10000` is needed: the same statement two bytes below the end of the address space is an
address overflow for asl -/
example : A6800.assemble (fun _ => none) 0xfffe "ldaa\t$1234".toList = none ∧
    A6800.assemble (fun _ => none) 0xfffd "ldaa\t$1234".toList = some [0xb6, 0x12, 0x34] := by decide +kernel

/-! ### length, successors -/

/-- every row of `OpcodeList` stands for at most three bytes -/
theorem C15_6800_table_len : ∀ op, op < 256 → M6800.instrLen (M6800.row op) ≤ 3 := by decide +kernel

/-- the two generated tables fit together on every opcode (see `A6800.tableOK` for what that says per addressing type) -/
theorem C15_6800_table : ∀ op, op < 256 → A6800.tableOK op = true := A6800.table_ok

open M6800 in
/-- decoded length = number of bytes consumed (opcode + operand bytes) ≤ 3, fixed by the table row; the successor mask and the
operand address are those of the row -/
theorem C15_6800_length (lower : Bool) (syms syms' : Syms) (a op : Nat) (data : List Nat) (dec : M6800.Dec) (hop : op < 256)
    (h : M6800.decode lower syms a op data = some (dec, syms')) :
    dec.len = (op :: data).length ∧ dec.len ≤ 3 ∧ dec.len = instrLen (row op) ∧ dec.next = (row op).next ∧
    dec.opAddr = opAddr (row op) a data := by
  have h3 := C15_6800_table_len op hop
  unfold M6800.decode at h
  generalize row op = r at *
  by_cases hlen : data.length = operandBytes r
  case neg => simp [hlen] at h
  simp only [hlen, ne_eq, not_true_eq_false, ↓reduceIte] at h
  cases hty : r.typ <;> simp only [hty] at h
  case eUnknown => cases h
  all_goals
    simp only [Option.some.injEq, Prod.mk.injEq] at h
    obtain ⟨rfl, _⟩ := h
    exact ⟨by simp only [instrLen, List.length_cons, hlen]; omega, h3, rfl, rfl, rfl⟩

/-- successors: the operand address (bit 1 of the mask) and the fall-through address `(Address + CodeLen) % 0xffff` (bit 0) -/
theorem C15_6800_nexts (mask oa a len : Nat) :
    ∀ n ∈ M6800.nexts mask oa a len, n = oa ∨ n = (a + len) % 0xffff := by
  intro n hn
  unfold M6800.nexts at hn
  rcases List.mem_append.mp hn with h1 | h1
  · split at h1
    · exact Or.inl (List.mem_singleton.mp h1)
    · cases h1
  · split at h1
    · exact Or.inr (List.mem_singleton.mp h1)
    · cases h1

/-- the C code reduces the fall-through address with `% 0xffff` (not `& 0xffff`): the byte at 0xFFFF is never reached by
falling through, an instruction ending at 0xFFFE continues at 0 -/
theorem C15_finding_6800_fallthrough_wrap : (0xfffe + 1) % 0xffff = 0 ∧ (0xfffe + 1 : Nat) ≠ 0 := by decide

/-! ### the reported areas lie inside the image -/

open M6800 in
/-- `Disassemble_68` at `a` reports only bytes of the image, and only addresses of the 64K address space - for every image, every
address and every inverse symbol table.  No assumption about the image: an instruction that is cut off by the end of a chunk is not
reported (`C15_6800_cut_instruction_not_reported`), one that lies in two adjacent chunks is (`C15_6800_instruction_across_chunks`),
one that would need bytes behind $FFFF is not reported either (`C15_6800_no_wrap_instruction`; before the repair bdcaec7 of
deco68.c this theorem needed "the instruction ends at or below 0x10000, or address 0 is not loaded"). -/
theorem C15_6800_honest_at (img : Image) (lower : Bool) (syms : Syms) (a : Nat) :
    ∀ x, a ≤ x → x < a + (M6800.disassemble img lower syms a false (-1)).1.len → inImage img x ∧ x < 0x10000 := by
  intro x hx1 hx2
  by_cases ha : a < 0x10000
  case neg =>
    -- the opcode byte lies behind the end of the address space: nothing is fetched
    exfalso
    have h1 := M6800.retrieveData_beyond img lower a 1 (by omega)
    unfold M6800.disassemble at hx2
    simp [h1] at hx2
    omega
  unfold M6800.disassemble at hx2
  rw [retrieveData_one img lower a ha] at hx2
  cases hr : retrieve img a 1 with
  | none => simp [hr] at hx2; omega
  | some bs =>
    have hin := retrieve_one_inImage img a bs hr
    simp only [hr, Bool.false_eq_true, if_false] at hx2
    generalize (bs.map UInt8.toNat).getD 0 0 = op at hx2
    split at hx2
    · -- unknown opcode: one data byte
      have h0 : retrieveData img lower (a + 1) 0 = (some [], []) := retrieveData_zero img lower (a + 1) (by omega)
      simp [h0] at hx2
      have : x = a := by omega
      rw [this]; exact ⟨hin, ha⟩
    · rename_i hunk
      cases hd : retrieveData img lower (a + 1) (operandBytes (row op)) with
      | mk od e =>
        cases od with
        | none => simp [hd] at hx2; omega
        | some data =>
          simp only [hd] at hx2
          cases hdec : decode lower syms a op data with
          | none => simp [hdec] at hx2; omega
          | some p =>
            obtain ⟨dec, s'⟩ := p
            simp only [hdec] at hx2
            have hl : dec.len = instrLen (row op) := by
              unfold decode at hdec
              by_cases hlen : data.length = operandBytes (row op)
              case neg => simp [hlen] at hdec
              simp only [hlen, ne_eq, not_true_eq_false, ↓reduceIte] at hdec
              cases hty : (row op).typ <;> simp only [hty] at hdec
              case eUnknown => cases hdec
              all_goals
                simp only [Option.some.injEq, Prod.mk.injEq] at hdec
                obtain ⟨rfl, _⟩ := hdec
                rfl
            rw [hl] at hx2
            unfold instrLen at hx2
            by_cases hxa : x = a
            · rw [hxa]; exact ⟨hin, ha⟩
            · have := retrieveData_inImage img lower (a + 1) (operandBytes (row op)) data e hd (x - a - 1) (by omega)
              have he : a + 1 + (x - a - 1) = x := by omega
              rw [he] at this; exact this

/-- non-vacuity of `C15_6800_honest_at`: `ldaa $1234` at $1000 is reported with length 3, so the statement speaks about $1000…$1002 -/
example : (M6800.disassemble [⟨0x1000, [0xb6, 0x12, 0x34]⟩] false {} 0x1000 false (-1)).1.len = 3 := by decide +kernel

/-- a reported instruction ends inside the 64K address space: `Address + CodeLen ≤ 0x10000` -/
theorem C15_6800_inside_address_space (img : Image) (lower : Bool) (syms : Syms) (a : Nat)
    (h : (M6800.disassemble img lower syms a false (-1)).1.len ≠ 0) :
    a + (M6800.disassemble img lower syms a false (-1)).1.len ≤ 0x10000 := by
  have := (C15_6800_honest_at img lower syms a (a + (M6800.disassemble img lower syms a false (-1)).1.len - 1) (by omega) (by omega)).2
  omega

/-- the `Honest` predicate of the generic trace-loop theorems holds for the 6800 callback on EVERY image (before the repair bdcaec7:
only for images in which address 0 is not loaded) -/
theorem C15_6800_honest (img : Image) (lower : Bool) : Honest M6800.disassemble img lower := by
  intro syms a x hx1 hx2
  exact (C15_6800_honest_at img lower syms a x hx1 hx2).1

/-- for the 6800 the reported code areas lie inside the loaded image (and inside the 64K address space) - for every image, every set
of entry addresses already queued in `s0`, every number of rounds -/
theorem C15_6800_areas_inside (img : Image) (lower : Bool) (fuel : Nat) (s0 : TState) (h0 : s0.code = []) (h1 : s0.traced = []) :
    ∀ x, area (traceLoop M6800.disassemble img lower fuel s0).1.code x → inImage img x ∧ x < 0x10000 := by
  intro x hx
  have hA := (C15_areas M6800.disassemble img lower fuel s0 h0 h1).2.2 x
  have hF := traceLoop_from M6800.disassemble img lower fuel s0 (by rw [h1]; intro e he; cases he)
  obtain ⟨e, he, hx1, hx2⟩ := hA.mp hx
  obtain ⟨syms, hlen, _⟩ := hF e he
  exact C15_6800_honest_at img lower syms e.1 x hx1 (by rw [hlen]; exact hx2)

/-- …the same for the array `UsedCodeChunks` as chunks.c keeps it (the list the machine carries; `C15_areas_C`) -/
theorem C15_6800_areas_inside_C (img : Image) (lower : Bool) (fuel : Nat) (s0 : TState) (h0 : s0.codeC = []) (h1 : s0.traced = []) :
    ∀ x, area (traceLoop M6800.disassemble img lower fuel s0).1.codeC x → inImage img x ∧ x < 0x10000 := by
  intro x hx
  have hA := (C15_areas_C M6800.disassemble img lower fuel s0 h0 h1).2.2.1 x
  have hF := traceLoop_from M6800.disassemble img lower fuel s0 (by rw [h1]; intro e he; cases he)
  obtain ⟨e, he, hx1, hx2⟩ := hA.mp hx
  obtain ⟨syms, hlen, _⟩ := hF e he
  exact C15_6800_honest_at img lower syms e.1 x hx1 (by rw [hlen]; exact hx2)

/-- non-vacuity of the two area theorems: tracing the image `B6 12 | 10` at $FFFE / $0000 plus `01 39` at $1000 from the entries
$1000 and $FFFE gives a non-empty code area (the `nop`/`rts` at $1000), and nothing at $FFFE -/
example : ((traceLoop M6800.disassemble [⟨0, [0x10]⟩, ⟨0x1000, [0x01, 0x39]⟩, ⟨0xfffe, [0xb6, 0x12]⟩] false 10
      { queue := [0x1000, 0xfffe] }).1.codeC) = [⟨0x1000, 2⟩] := by decide +kernel

/-! ### the repaired defects, as positive facts about the models of the repaired code -/

/-- every mnemonic `OpcodeList` prints is an instruction code68.c knows for the 6800 (formerly `$14` = `nba` and `$34` = `dess`
were not: findings `sweep-6800-14-not-reassemblable`, `deco68-des-printed-dess`) -/
theorem C15_6800_every_mnemonic_known :
    ∀ op, op < 256 → (M6800.row op).typ ≠ .eUnknown → (A6800.lookup (M6800.row op).memo).isSome = true := by
  decide +kernel

open M6800 A6800 in
/-- `$34` is printed as `des`, which code68.c assembles to `34` -/
theorem C15_6800_des (lower : Bool) (syms : Syms) (env : A6800.Env) (a : Nat) (ha : a + 1 ≤ 0x10000) :
    (M6800.decode lower syms a 0x34 []).map (fun p => p.1.text) = some ['d', 'e', 's'] ∧
    A6800.assemble env a ['d', 'e', 's'] = some [0x34] := by
  have hr : row 0x34 = ⟨.eImplicit, 0, 0, ['d', 'e', 's']⟩ := by decide +kernel
  have hs2 : splitStmt ['d', 'e', 's'] = (['d', 'e', 's'], []) := by decide
  have hl2 : lookup ['d', 'e', 's'] = some (.fixed 0x34 0 4) := by decide +kernel
  constructor
  · simp [decode, hr, operandBytes, Dec.text]
  · simp [assemble, hs2, hl2, encode, cpu, DisIsa6800.cpu6800, addrSpace, ha]

/-- `$14`, `$87` and `$C7` are no instructions for deco68.c (code68.c has no NBA and no store-immediate): the callback lists the
byte as data, `byt $14` / `byt $C7`, with the message `unknown opcode` (formerly `nba` and `stab #$xx`: findings
`sweep-6800-14-not-reassemblable`, `sweep-6800-C7-not-reassemblable`) -/
theorem C15_6800_unknown_opcodes_listed_as_data :
    (M6800.row 0x14).typ = .eUnknown ∧ (M6800.row 0x87).typ = .eUnknown ∧ (M6800.row 0xc7).typ = .eUnknown ∧
    (M6800.disassemble [⟨0x1000, [0x14, 0x39]⟩] false {} 0x1000 false (-1)).1.src = "byt\t$14" ∧
    (M6800.disassemble [⟨0x1000, [0xc7, 0x10, 0x39]⟩] false {} 0x1000 false (-1)).1.src = "byt\t$C7" ∧
    (M6800.disassemble [⟨0x1000, [0xc7, 0x10, 0x39]⟩] false {} 0x1000 false (-1)).1.len = 1 := by
  decide +kernel

open M6800 A6800 in
/-- an extended-mode instruction whose address high byte is 0 (here `ldaa`, `B6 00 d`) is printed with the `>` prefix, and the
assembler gives the three bytes back (formerly printed `ldaa $00dd` and assembled in direct mode to `96 d`: finding
`deco68-extended-zero-page`).  Instance of `C15_6800_roundtrip`, which covers all extended-mode rows. -/
theorem C15_6800_ext_zero_page (lower : Bool) (syms syms' : Syms) (env : A6800.Env) (a d : Nat) (dec : M6800.Dec)
    (hd : d < 256) (ha : a + 3 ≤ 0x10000)
    (h : M6800.decode lower syms a 0xb6 [0, d] = some (dec, syms'))
    (hsym : ∀ x n, syms'.lookup x = some n → A6800.plainLabel n.toList = true ∧ env n.toList = some x) :
    A6800.assemble env a dec.text = some [0xb6, 0, d] ∧ dec.pre = ['>'] ∧ dec.len = 3 := by
  have hlen := (C15_6800_length lower syms syms' a 0xb6 [0, d] dec (by decide) h).1
  have hrt := C15_6800_roundtrip lower syms syms' env a 0xb6 [0, d] dec (by decide)
    (by intro x hx; simp at hx; rcases hx with rfl | rfl <;> omega) h (by rw [hlen]; simpa using ha) hsym
  refine ⟨hrt, ?_, by simpa using hlen⟩
  have hr : row 0xb6 = ⟨.eExtended, 0, 1, ['l', 'd', 'a', 'a']⟩ := by decide +kernel
  simp only [decode, hr, operandBytes, List.length_cons, List.length_nil, opAddr, instrLen] at h
  simp only [ne_eq, not_true_eq_false, ↓reduceIte, List.getD_cons_zero, List.getD_cons_succ, Nat.zero_mul, Nat.zero_add,
    Option.some.injEq, Prod.mk.injEq] at h
  obtain ⟨rfl, _⟩ := h
  have : d < 0x100 := hd
  simp [this]

/-- …for instance `ldaa >$0034`; from $0100 on nothing is put in front -/
example : (M6800.decode false {} 0x1000 0xb6 [0x00, 0x34]).map (fun p => p.1.text) = some "ldaa\t>$0034".toList ∧
    A6800.assemble (fun _ => none) 0x1000 "ldaa\t>$0034".toList = some [0xb6, 0x00, 0x34] ∧
    (M6800.decode false {} 0x1000 0xb6 [0x01, 0x00]).map (fun p => p.1.text) = some "ldaa\t$0100".toList ∧
    (M6800.decode false {} 0x1000 0x7e [0x00, 0x60]).map (fun p => p.1.text) = some "jmp\t>lab_0060".toList := by decide +kernel

/-- an instruction cut off by the end of the image is not reported: image `01 B6 12` at $1000, the `ldaa` (extended) at $1001 asks for
two operand bytes of which only one exists; `RetrieveCodeFromChunkList` no longer completes the request with the byte it already
delivered, the callback reports `cannot retrieve instruction arg` and length 0 (formerly length 3 and a code area `1000...1003`:
finding `dasl-instruction-cut-at-image-end`) -/
theorem C15_6800_cut_instruction_not_reported :
    (M6800.disassemble [⟨0x1000, [0x01, 0xb6, 0x12]⟩] false {} 0x1001 false (-1)).1.len = 0 ∧
    (M6800.disassemble [⟨0x1000, [0x01, 0xb6, 0x12]⟩] false {} 0x1001 false (-1)).2.2 = ["cannot retrieve instruction arg @ 0x1002"] ∧
    ¬ inImage [⟨0x1000, [0x01, 0xb6, 0x12]⟩] 0x1003 := by
  refine ⟨by decide +kernel, by decide +kernel, by simp [inImage]⟩

/-- an instruction whose bytes lie in two adjacent chunks of the image (hex records that were not joined while loading) is fetched
from both: `B6 12 | 34 39` at $1000/$1002 gives `ldaa $1234` (formerly `ldaa $1212 ; B6 12 B6`: finding
`dasl-instruction-across-hex-chunks`) -/
theorem C15_6800_instruction_across_chunks :
    retrieve [⟨0x1000, [0xb6, 0x12]⟩, ⟨0x1002, [0x34, 0x39]⟩] 0x1001 2 = some [0x12, 0x34] ∧
    (M6800.disassemble [⟨0x1000, [0xb6, 0x12]⟩, ⟨0x1002, [0x34, 0x39]⟩] false {} 0x1000 false (-1)).1.src = "ldaa\t$1234" ∧
    (M6800.disassemble [⟨0x1000, [0xb6, 0x12]⟩, ⟨0x1002, [0x34, 0x39]⟩] false {} 0x1000 false (-1)).1.len = 3 := by
  decide +kernel

/-- an instruction that would need bytes behind $FFFF is not reported (the repair bdcaec7 of deco68.c; formerly `RetrieveData`
continued the operand fetch at address 0: `B6 12` at $FFFE with a byte at $0000 gave `ldaa $1210 ; B6 12 ??`, length 3 and the code area
`FFFE...10000` outside the image - finding `dasl-instruction-wraps-64k`).  Now: no instruction at $FFFE (length 0), the message
`cannot retrieve instruction arg @ 0xFFFF`, nothing traced, no code area at all; and an opcode asked for at 0x10000 (the
successor of an instruction ending at $FFFF is reduced `% 0xffff`, see `C15_finding_6800_fallthrough_wrap`, but an
`-entryaddress 65536` reaches the callback) is not fetched from address 0 either. -/
theorem C15_6800_no_wrap_instruction :
    (M6800.disassemble [⟨0, [0x10]⟩, ⟨0xfffe, [0xb6, 0x12]⟩] false {} 0xfffe false (-1)).1.len = 0 ∧
    (M6800.disassemble [⟨0, [0x10]⟩, ⟨0xfffe, [0xb6, 0x12]⟩] false {} 0xfffe false (-1)).2.2 = ["cannot retrieve instruction arg @ 0xFFFF"] ∧
    (traceLoop M6800.disassemble [⟨0, [0x10]⟩, ⟨0xfffe, [0xb6, 0x12]⟩] false 10 { queue := [0xfffe] }).1.codeC = [] ∧
    (traceLoop M6800.disassemble [⟨0, [0x10]⟩, ⟨0xfffe, [0xb6, 0x12]⟩] false 10 { queue := [0xfffe] }).1.traced = [] ∧
    (M6800.disassemble [⟨0, [0x10]⟩, ⟨0xfffe, [0xb6, 0x12]⟩] false {} 0x10000 false (-1)).1.len = 0 ∧
    (M6800.disassemble [⟨0, [0x01]⟩, ⟨0xffff, [0x01]⟩] false {} 0xffff false (-1)).1.len = 1 := by
  decide +kernel

/-! ### what remains

The fall-through successor is still reduced with `% 0xffff` (`C15_finding_6800_fallthrough_wrap` above): not repaired. -/

end AslModel.Dis
